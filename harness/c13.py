"""C13 — predicate folding, conjunction flattening and required-column sets are sound."""
from __future__ import annotations

import itertools
import json
import random

import lsst.daf.relation as dr
from lsst.daf.relation import iteration

import core
import enc
import gen
from enc import K, N, cbool, clist, cpred, crow, cset, jsonable

THEOREMS = ["C13_as_trivial_sound", "C13_as_trivial_consistent", "C13_flatten_sound", "C13_flatten_false_sound",
            "C13_selection_predicate_equivalent", "C13_expr_columns_sufficient", "C13_pred_columns_sufficient",
            "C13_expr_columns_necessary"]
HDR = "From DR Require Import Model.CheckPred.\nOpen Scope Z_scope.\n"
ENGINE = iteration.Engine(name="it", functions={"vid": lambda x: x, "vid_it": lambda x: x})


def coptb(b):
    return "None" if b is None else f"(Some {cbool(bool(b))})"


def call(pred_obj, row):
    try:
        return bool(ENGINE.convert_predicate(pred_obj)(row))
    except KeyError:
        return None


def sub_predicates(obj):
    out, stack = [], [obj]
    while stack:
        q = stack.pop()
        out.append(q)
        stack.extend(getattr(q, "operands", ()) or ())
        if getattr(q, "operand", None) is not None:
            stack.append(q.operand)
    return out


def run_impl(p, rows):
    obj = enc.ipred(p)
    # declared columns of every sub-predicate object, asked before and after the enclosing predicates were asked for theirs
    subs = sub_predicates(obj)
    before = [frozenset(q.columns_required) for q in reversed(subs)][::-1]
    triv = obj.as_trivial()
    flat = dr.flatten_logical_and(obj)
    sel = dr.Selection(obj).predicate
    cols = set(obj.columns_required)
    conj = None if flat is False else dr.Predicate.logical_and(*flat)
    evals = []
    for r in rows:
        rr = {k: v for k, v in r.items() if k in cols}
        evals.append((call(obj, r), None if conj is None else call(conj, r), call(sel, r), call(obj, rr)))
    after = [frozenset(q.columns_required) for q in subs]
    unstable = [(str(q), sorted(map(str, b)), sorted(map(str, a))) for q, b, a in zip(subs, before, after) if a != b]
    return {"triv": triv, "flat": None if flat is False else [enc.dpred(q) for q in flat],
            "sel": enc.dpred(sel), "cols": sorted(cols), "evals": evals, "unstable": unstable}


def ccase(p, rows, res):
    flat = "None" if res["flat"] is None else f"(Some {clist([cpred(q) for q in res['flat']])})"
    evals = clist([f"({coptb(a)}, {coptb(b)}, {coptb(c)}, {coptb(d)})" for a, b, c, d in res["evals"]])
    return (f"PCase {cpred(p)} {clist([crow(r) for r in rows])} {coptb(res['triv'])} {flat} "
            f"{cpred(res['sel'])} {cset(res['cols'])} {evals}")


def exhaustive_preds(depth, cols):
    """All predicates of the given depth over a tiny atom set with 0..3 operands."""
    atoms = [("plit", True), ("plit", False), ("pref", cols[0]),
             ("cmp", "lt", ("ref", cols[0]), ("ref", cols[1])),
             ("in", ("ref", cols[1]), ("range", 0, 2, 1))]
    level = list(atoms)
    for _ in range(depth):
        nxt = list(atoms)
        nxt += [("not", q) for q in level]
        for k in ("and", "or"):
            for n in range(0, 3):
                for combo in itertools.product(level, repeat=n):
                    nxt.append((k, list(combo)))
        level = nxt
    return level


def all_rows(cols, dom=(0, 1)):
    return [dict(zip(cols, vals)) for vals in itertools.product(dom, repeat=len(cols))]


def make_cases(rng, tier):
    cols = [K(1), K(2)]
    rows = all_rows(cols)
    items = [(p, rows) for p in exhaustive_preds(1, cols)]
    if tier == "thorough":
        lvl2 = exhaustive_preds(2, cols)
        items += [(p, rows) for p in rng.sample(lvl2, min(len(lvl2), 6000))]
    # a term next to the negation of a compound that contains it (three levels deep, beyond the exhaustive sweep of the
    # quick tier): a AND NOT (a AND b) is satisfiable, a AND NOT (a OR b) is not
    atoms = [("pref", cols[0]), ("cmp", "lt", ("ref", cols[0]), ("ref", cols[1])), ("in", ("ref", cols[1]), ("range", 0, 2, 1))]
    xs = atoms + [("and", atoms[:2]), ("or", atoms[:2])]
    ys = atoms + [(k, [u, v]) for k in ("and", "or") for u in atoms for v in atoms if u != v]
    for x in xs:
        for y in ys:
            items += [(("and", [x, ("not", y)]), rows), (("or", [x, ("not", y)]), rows), (("and", [("not", y), x]), rows),
                      (("not", ("and", [("and", [x]), ("not", y)])), rows)]
    # disjunctions whose branches share conjuncts (a shared term next to a conjunction that contains it, two
    # conjunctions sharing a term, the same term twice), bare and as one conjunct of an AND
    for x in atoms:
        for y in atoms:
            for z in atoms:
                shapes = [("or", [x, ("and", [x, z])]), ("or", [("and", [x, z]), x]), ("or", [("and", [x, y]), ("and", [x, z])]),
                          ("or", [("and", [y, x]), ("and", [x, z]), x])]
                for q in shapes:
                    items += [(q, rows), (("and", [("not", y), q]), rows)]
    n = 600 if tier == "quick" else 6000
    for _ in range(n):
        c = gen.gen_schema(rng, allow_empty=False)
        rs = all_rows(c, (0, 1, 2)) if len(c) <= 2 else [dict(zip(c, [rng.choice((0, 1, 2)) for _ in c])) for _ in range(6)]
        items.append((gen.gen_pred(rng, c, rng.choice([1, 2, 3])), rs))
    # column-free membership tests (constant item; containers of literals, of column-free computed items, ranges of every
    # sign), bare and under NOT / AND / OR: whatever as_trivial answers must be the value on every row
    for _ in range(120 if tier == "quick" else 1500):
        v = rng.choice([-3, -1, 0, 1, 2, 3])
        def konst(x):
            r = rng.random()
            if r < 0.4:
                return ("lit", x)
            if r < 0.6:
                return ("neg", ("lit", -x))
            if r < 0.8:
                return ("add", ("lit", x - 1), ("lit", 1))
            return ("mul", ("lit", x), ("lit", 1))
        others = [rng.choice([-2, 0, 1, 4, 5]) for _ in range(rng.choice([0, 1, 2]))]
        seq = [konst(w) for w in others] + ([konst(v)] if rng.random() < 0.6 else [])
        rng.shuffle(seq)
        cont = ("seq", seq) if rng.random() < 0.7 else gen.gen_range(rng)
        q = ("in", konst(v) if rng.random() < 0.3 else ("lit", v), cont)
        r = rng.random()
        if r < 0.3:
            q = ("not", q)
        elif r < 0.5:
            q = (rng.choice(["and", "or"]), [q, ("cmp", "ge", ("ref", cols[0]), ("lit", 1))])
        items.append((q, rows))
    cases = []
    for p, rs in items:
        res = run_impl(p, rs)
        nontrivial = res["triv"] is not None or res["flat"] is None or res["flat"] != [p] or res["sel"] != p
        cases.append({"json": {"predicate": jsonable(p), "rows": jsonable(rs), "impl": jsonable(res)},
                      "coq": ccase(p, rs, res), "nontrivial": nontrivial, "key": cpred(p), "unstable": res["unstable"]})
    return cases


def run(ctx):
    rng = random.Random(ctx.seed)
    s1 = core.s1(ctx, [], "Properties.C13", THEOREMS, extra_targets=["Model/CheckPred.vo"])
    cases = make_cases(rng, ctx.tier)
    bits = {1: "as_trivial / flatten_logical_and / Selection.predicate / columns_required differ from the model",
            4: "a value computed by the real library contradicts the specification (folding answer, flattened "
               "conjunction, stored selection predicate or evaluation on the restricted row)"}
    found = False
    for c in sorted([c for c in cases if c["unstable"]], key=lambda c: len(json.dumps(c["json"]["predicate"])))[:2]:
        found |= ctx.failing_case({"kind": "declared-columns-of-a-sub-predicate-changed", "predicate": c["json"]["predicate"],
                                   "sub_predicate_before_after": c["unstable"][:3]}, None)
    summ = core.judge(ctx, cases, HDR, "check_pred", bits=bits, shard=300, found_elsewhere=found)
    core.conclude_s1(ctx, s1, found or summ["spec_failures"] > 0 or bool(ctx.violations))
    distinct = {c["key"] for c in cases if c["nontrivial"]}
    ctx.coverage.update({
        "evaluations": len(cases), "distinct_nontrivial": len(distinct),
        "rule": "predicates: every tree of depth <=1 (thorough: sampled depth 2) over 5 atoms with 0..2 operands, plus "
                "random trees of depth <=3 with ranges/sequences; each evaluated by the real iteration-engine callable "
                "on every row over a small domain; non-trivial = folding answered, flattening changed the predicate "
                "or reported False, or the selection stored a different predicate",
        "traces_validated_against_impl": summ["evaluated"], "judgement": summ,
        "samples": [cases[7]["json"]["predicate"], cases[-1]["json"]["predicate"]],
    })
    ctx.assumptions += ["all()/any() short-circuiting is unobservable on rows that have every required column"]


def replay(ctx, path):
    print(json.dumps(json.load(open(path)), indent=1)[:4000])
    return 0
