"""C09 — relations are persistent, hashable values; evaluation is side-effect free."""
from __future__ import annotations

import json
import random

import sqlalchemy
import lsst.daf.relation as dr
from lsst.daf.relation import iteration, sql
from lsst.daf.relation.tests import to_sql_str

import core
import enc
import gen
import multiprog as mp
from enc import jsonable

THEOREMS = ["C09_all_tree_classes_hashable", "C09_write_sites_confined"]
LEVEL = "proof"


def payload_cells(rel):
    """Contents of every leaf payload reachable from rel (the mutable cells a compilation could touch)."""
    out, stack, seen = [], [rel], set()
    while stack:
        r = stack.pop()
        if id(r) in seen:
            continue
        seen.add(id(r))
        # leaf payloads only: a Materialization's payload slot is filled by Processor.process by design (write-once; C10/C07)
        p = getattr(r, "payload", None) if isinstance(r, dr.LeafRelation) else None
        if isinstance(p, sql.Payload):
            out.append(("sql", str(p.from_clause), tuple(str(w) for w in p.where),
                        tuple(sorted((str(k), str(v)) for k, v in p.columns_available.items()))))
        elif isinstance(p, iteration.RowSequence):
            out.append(("seq", tuple(tuple(sorted((str(k), v) for k, v in row.items())) for row in p.rows)))
        elif isinstance(p, iteration.RowMapping):
            out.append(("map", tuple(p.unique_key), tuple(sorted(map(str, p.rows)))))
        for a in ("target", "lhs", "rhs", "skip_to"):
            if hasattr(r, a):
                stack.append(getattr(r, a))
        op = getattr(r, "operation", None)
        if isinstance(op, dr.PartialJoin):
            stack.append(op.fixed)
    return tuple(out)


def all_nodes(rel):
    out, stack = [], [rel]
    while stack:
        r = stack.pop()
        out.append(r)
        for a in ("target", "lhs", "rhs"):
            if hasattr(r, a):
                stack.append(getattr(r, a))
    return out


def fingerprint(rel):
    try:
        h = hash(rel)
    except TypeError as e:
        h = f"UNHASHABLE: {e}"
    # payload slots of everything that is neither a leaf nor a Materialization (SELECT markers, transfers, user markers):
    # nothing in the library fills them on a relation the caller already holds
    slots = tuple((type(n).__name__, getattr(n, "payload", None) is None) for n in all_nodes(rel)
                  if hasattr(n, "payload") and not isinstance(n, (dr.LeafRelation, dr.Materialization)))
    return (str(rel), repr(rel), h, tuple(sorted(map(str, rel.columns))), rel.min_rows, rel.max_rows,
            bool(rel.is_locked), payload_cells(rel), slots)


def history(rng):
    """Interleave factory calls, compilation, execution, processing and diagnostics over a shared pool."""
    w = mp.World()
    pool, progs, problems = [], [], []
    counter = [0]

    def add(p):
        try:
            rel = mp.build_impl(p, w)
        except Exception:  # noqa: BLE001
            return
        pool.append(rel)
        progs.append(p)
    it_only = rng.random() < 0.3      # iteration engines only: the engine executes such trees without a Processor
    engines = [("it", 0), ("it", 1)] if it_only else mp.ENGINES
    for _ in range(rng.choice([1, 2, 3])):
        counter[0] += 1
        add(mp.gen_leaf(rng, counter[0], None, rng.choice(engines), special=0.05, loose=0.0 if it_only else 0.2))
    if it_only and pool:
        # views of one leaf that share its payload: a transfer, a sort right above it, a window
        p0 = progs[0]
        x = ("xfer", ("it", 1) if p0[2] == ("it", 0) else ("it", 0), p0)
        add(x)
        if p0[3]:
            c = rng.choice(p0[3])
            add(("un", ("sort", [(("ref", c), rng.random() < 0.5)]), mp.DEFAULT, rng.choice([x, p0])))
        add(("un", ("slice", 0, 2), mp.DEFAULT, rng.choice([x, p0])))
        if p0[3]:
            # lazy pass-through iterables hand the leaf's own row objects downstream: a calculation on top of a
            # selection / a chain / a window must not write into them
            c0 = rng.choice(p0[3])
            through = rng.choice([("un", ("sel", ("cmp", "ge", ("ref", c0), ("lit", 0))), mp.DEFAULT, p0),
                                  ("chain", p0, p0), ("un", ("slice", 0, 3), mp.DEFAULT, p0), x])
            add(("un", ("calc", gen.fresh_tag(rng, set(p0[3])), ("add", ("ref", c0), ("lit", 1))), mp.DEFAULT, through))
    if not it_only and pool and rng.random() < 0.3:
        # a relation joined with (a filtered copy of) itself: compiling it twice must give the same statement
        sq = [pp for pp in progs if pp[0] == "leaf" and pp[2][0] == "sql" and pp[3]]
        if sq:
            p0 = sq[0]
            c0 = p0[3][0]
            add(("join", None, True, False, ("un", ("sel", ("cmp", "ge", ("ref", c0), ("lit", 0))), mp.DEFAULT, p0), p0))
    if not pool:
        return None
    snap = [fingerprint(r) for r in pool]
    events = []
    for _step in range(rng.choice([3, 5, 8, 12])):
        kind = rng.choice(["factory", "factory", "execute_direct", "execute_direct", "execute", "rebuild"] if it_only else
                          ["factory", "factory", "factory", "compile", "execute", "execute_direct", "diagnose", "rebuild"])
        i = rng.randrange(len(pool))
        rel, p = pool[i], progs[i]
        try:
            if kind == "factory":
                cur = set(rel.columns)
                r = rng.random()
                if r < 0.15 and len(pool) > 1:
                    j = rng.randrange(len(pool))
                    q = ("chain", p, progs[j]) if rng.random() < 0.5 else ("join", None, True, rng.random() < 0.4, p, progs[j])
                elif r < 0.25:
                    counter[0] += 1
                    q = ("mat", 50 + counter[0], p)
                elif r < 0.35:
                    q = ("xfer", rng.choice(engines), p)
                else:
                    o, _c = gen.gen_op(rng, cur)
                    q = ("un", o, mp.gen_opts(rng, None, 0.4), p)
                add(q)
                events.append(("factory", jsonable(q)))
            elif kind == "compile" and isinstance(rel.engine, sql.Engine):
                counters_before = {k: e.relation_name_counter for k, e in w.engines.items()}
                t1 = to_sql_str(rel.engine.to_executable(rel))
                t2 = to_sql_str(rel.engine.to_executable(rel))
                events.append(("compile", i))
                if t1 != t2:
                    problems.append(f"compiling relation {i} twice gave different SQL")
                if counters_before != {k: e.relation_name_counter for k, e in w.engines.items()}:
                    problems.append(f"compiling relation {i} changed an engine's name counter")
            elif kind == "execute":
                r1, _p1, _x = mp.execute(w, rel)
                r2, _p2, _y = mp.execute(w, rel)
                events.append(("execute", i))
                if isinstance(rel.engine, iteration.Engine) and r1 != r2:
                    problems.append(f"executing relation {i} twice gave different rows")
            elif kind == "execute_direct" and all(isinstance(n.engine, iteration.Engine) for n in all_nodes(rel)):
                # no Processor: the iteration engine walks transfers between iteration engines itself
                r1 = [dict(r) for r in rel.engine.execute(rel)]
                r2 = [dict(r) for r in rel.engine.execute(rel)]
                events.append(("execute_direct", i))
                if r1 != r2:
                    problems.append(f"executing relation {i} twice (iteration engine, no Processor) gave different rows")
            elif kind == "diagnose":
                dr.Diagnostics.run(rel)
                events.append(("diagnose", i))
            elif kind == "rebuild":
                w2 = w
                again = mp.build_impl(p, w2)
                events.append(("rebuild", i))
                if again != rel:
                    problems.append(f"building program {i} twice gave unequal relations")
                else:
                    try:
                        if hash(again) != hash(rel):
                            problems.append(f"equal relations {i} with different hashes")
                    except TypeError as e:
                        problems.append(f"relation {i} is not hashable: {e}")
        except Exception:  # noqa: BLE001 — failures to compile/execute are C08's concern
            events.append((kind + "-raised", i))
        # nothing obtained earlier may have changed (materialization payload slots are C10's write-once exception)
        for k, (r, before) in enumerate(zip(pool, snap)):
            now = fingerprint(r)
            if now != before:
                diffs = [n for n, (a, b) in enumerate(zip(before, now)) if a != b]
                problems.append(f"relation {k} changed (fingerprint fields {diffs}) after {events[-1]}")
                snap[k] = now
        snap += [fingerprint(r) for r in pool[len(snap):]]
    for k, r in enumerate(pool):
        if isinstance(snap[k][2], str):
            problems.append(f"relation {k} is not hashable: {snap[k][2]}")
    return {"events": events, "problems": problems, "pool": len(pool)}


def hash_sweep(rng, n):
    """Every relation the factories return — including the ones produced by the rarely taken routes: partial and complete
    backtracking of each operation kind past each other kind, SQL conformation, join/chain rules — and every node and
    operation inside it is hashable; building the same program again gives an equal relation with an equal hash."""
    import sqlprog as sp
    progs = list(mp.forced_backtrack_cases(rng, n))
    for _ in range(n):
        progs.append(mp.gen_mprog(rng, rng.choice([1, 2, 3, 4, 6]), p_opts=0.5)[0])
        progs.append(sp.gen_sqlprog(rng, rng.choice([1, 2, 3, 4]))[0])
    # joins and chains whose operands end in every kind of operation (the column set of a calculation's result is built
    # differently from a leaf's or a projection's), with a bare projection on either side, in each kind of engine
    k1, k2, k3, n1 = enc.K(1), enc.K(2), enc.K(3), enc.N(1)
    for eng in (("sql", 0), ("it", 0)):
        l1 = ("leaf", 1, eng, [k1, k2], [{k1: 1, k2: 2}], (0, None))
        l2 = ("leaf", 2, eng, [k1, k3], [{k1: 1, k3: 2}], (0, None))
        def U(o, t):
            return ("un", o, mp.DEFAULT, t)
        calc = ("calc", n1, ("add", ("ref", k1), ("lit", 1)))
        sel = ("sel", ("cmp", "ge", ("ref", k1), ("lit", 0)))
        ends = [lambda t: t, lambda t: U(calc, t), lambda t: U(sel, U(calc, t)), lambda t: U(("slice", 0, 3), U(("sort", [(("ref", k1), True)]), U(calc, t))),
                lambda t: U(("dedup",), U(calc, t)), lambda t: U(("proj", [k1]), t), lambda t: U(("proj", [k1, n1]), U(calc, t)), lambda t: U(sel, U(("proj", [k1]), t))]
        for fl in ends:
            for fr in ends:
                progs.append(("join", None, True, False, fl(l1), fr(l2)))
                progs.append(("un", ("proj", [k1]), mp.DEFAULT, ("join", None, True, False, fl(l1), fr(l2))))
        for fl in ends[:5]:
            for fr in ends[:5]:
                progs.append(("chain", fl(l1), fr(("leaf", 2, eng, [k1, k2], [{k1: 1, k2: 2}], (0, None)))))
    bad, built = [], 0
    for p in progs:
        w = mp.World()
        try:
            rel = mp.build_impl(p, w)
            again = mp.build_impl(p, w)
        except Exception:  # noqa: BLE001 — refusals are C14/C20's concern
            continue
        built += 1
        why = None
        try:
            for nd in all_nodes(rel):
                hash(nd)
                for attr in ("operation",):
                    if hasattr(nd, attr):
                        hash(getattr(nd, attr))
            if again == rel and hash(again) != hash(rel):
                why = "equal relations with different hashes"
            if len({rel, again}) != (1 if again == rel else 2):
                why = "set membership disagrees with equality"
        except TypeError as e:
            why = f"not hashable: {e}"
        if why:
            bad.append({"program": jsonable(p), "tree": str(rel), "problem": why})
    return built, bad


def compile_purity_cases():
    """Deterministic: every kind of SQL relation that becomes a subquery of a larger one (a window, a DISTINCT, a UNION, a
    sorted window, a materialization in its SELECT wrapper) is held by the caller while the larger relation — a selection,
    a calculation, a join, a chain, a materialization on top of it — is compiled, executed and processed; afterwards the
    inner relation must be what it was, and processing a materialization of it must still call the hook."""
    bad, n = [], 0
    a, b = enc.K(1), enc.K(2)
    leaf = ("leaf", 1, ("sql", 0), [a, b], [{a: 1, b: 2}, {a: 2, b: 3}, {a: 0, b: 5}], (0, None))
    other = ("leaf", 2, ("sql", 0), [a, enc.K(3)], [{a: 1, enc.K(3): 7}], (0, None))
    def U(o, t):
        return ("un", o, mp.DEFAULT, t)
    srt = ("sort", [(("ref", a), True), (("ref", b), True)])
    inners = [U(("slice", 0, 2), U(srt, leaf)), U(("dedup",), leaf), ("chain", leaf, leaf), U(("slice", 1, None), U(srt, leaf)),
              U(("dedup",), U(("proj", [a]), leaf)), ("mat", 60, U(("sel", ("cmp", "ge", ("ref", a), ("lit", 0))), leaf))]
    sel = ("sel", ("cmp", "ge", ("ref", a), ("lit", 1)))
    outers = [("selection", lambda r, o, w: mp.apply_un(r, sel, mp.DEFAULT, w)),
              ("calculation", lambda r, o, w: mp.apply_un(r, ("calc", enc.N(5), ("add", ("ref", a), ("lit", 1))), mp.DEFAULT, w)),
              ("join (left)", lambda r, o, w: r.join(o)), ("join (right)", lambda r, o, w: o.join(r)),
              ("chain with itself", lambda r, o, w: r.chain(r)),
              ("projection and DISTINCT", lambda r, o, w: mp.apply_un(mp.apply_un(r, ("proj", [a]), mp.DEFAULT, w), ("dedup",), mp.DEFAULT, w)),
              ("materialization", lambda r, o, w: r.materialized(name="cp_m"))]
    for ip_ in inners:
        for what, f in outers:
            w = mp.World()
            try:
                inner = mp.build_impl(ip_, w)
                outer = f(inner, mp.build_impl(other, w), w)         # built on the very object the caller holds
            except Exception:  # noqa: BLE001
                continue
            n += 1
            before = fingerprint(inner)
            try:
                if not any(isinstance(x, dr.Materialization) for x in all_nodes(outer)):
                    to_sql_str(outer.engine.to_executable(outer))
                mp.execute(w, outer)
            except Exception:  # noqa: BLE001 — C08's concern
                pass
            after = fingerprint(inner)
            if after != before:
                diffs = [k for k, (x, y) in enumerate(zip(before, after)) if x != y]
                bad.append({"inner": jsonable(ip_), "outer": what, "problem": f"the inner relation changed (fingerprint fields {diffs}) "
                            "when a relation built on top of it was compiled / executed"})
    # iteration engine: a materialization with loose static bounds (a selection / deduplication below it), held by the caller
    # together with relations built on it, is executed directly and through a Processor: its declared bounds, and those of
    # everything built on it, stay what they were
    k1, k2 = enc.K(1), enc.K(2)
    lf = ("leaf", 1, ("it", 0), [k1, k2], [{k1: i, k2: i % 3} for i in range(6)], (6, 6))
    for below in (("sel", ("cmp", "eq", ("ref", k2), ("lit", 0))), ("dedup",), ("slice", 1, 9)):
        w = mp.World()
        m = mp.build_impl(("mat", 61, ("un", below, mp.DEFAULT, lf)), w)
        held = [m, m[1:4], mp.apply_un(m, ("proj", [k1]), mp.DEFAULT, w), m.chain(m)]
        before = [fingerprint(r) for r in held]
        n += 1
        for how in ("execute", "process"):
            try:
                if how == "execute":
                    list(held[1].engine.execute(held[1]))
                else:
                    mp.execute(w, held[2])
            except Exception:  # noqa: BLE001
                pass
            after = [fingerprint(r) for r in held]
            for k, (x, y) in enumerate(zip(before, after)):
                if x != y:
                    diffs = [i for i, (u, v) in enumerate(zip(x, y)) if u != v]
                    bad.append({"inner": f"materialization over {below}", "outer": str(held[k]), "problem": f"after {how}, a relation obtained earlier changed (fingerprint fields {diffs}: "
                                f"bounds {x[4:6]} -> {y[4:6]})"})
                    before = after
                    break
    return n, bad


def run(ctx):
    rng = random.Random(ctx.seed)
    s1 = core.s1(ctx, ["Static"], "Properties.C09", THEOREMS)
    n = 150 if ctx.tier == "quick" else 2500
    hists = [h for h in (history(rng) for _ in range(n)) if h is not None]
    found = False
    swept, unhashable = hash_sweep(rng, 150 if ctx.tier == "quick" else 3000)
    for b in sorted(unhashable, key=lambda b: len(b["tree"]))[:3]:
        found |= ctx.failing_case({"kind": "hashability", "case": b}, None)
    n_pure, impure = compile_purity_cases()
    for b in impure[:2]:
        found |= ctx.failing_case({"kind": "compilation-changed-a-relation-held-by-the-caller", "case": b}, None)
    bad = [h for h in hists if h["problems"]]
    for h in sorted(bad, key=lambda h: len(h["events"]))[:3]:
        found |= ctx.failing_case({"kind": "persistence-or-hash", "case": {"events": h["events"], "problems": h["problems"][:5]}}, None)
    core.conclude_s1(ctx, s1, found or bool(ctx.violations))
    nevents = sum(len(h["events"]) for h in hists)
    ctx.coverage.update({
        "evaluations": nevents + swept, "distinct_nontrivial": len({json.dumps(h["events"]) for h in hists if len(h["events"]) >= 3}),
        "rule": "random interleavings of factory calls (all options), to_executable(), process()+execute(), Diagnostics.run "
                "and rebuilding over a shared pool of relations in three engines; after every event every relation obtained "
                "earlier is fingerprinted again (str, repr, hash, columns, bounds, locked flag, contents of every reachable "
                "leaf payload cell); non-trivial = a history with at least three events",
        "histories": len(hists), "histories_with_problems": len(bad),
        "hash_sweep": {"relations_built": swept, "not_hashable_or_inconsistent": len(unhashable),
                       "rule": "forced backtracking shapes (partial and complete, every operation kind), random multi-engine "
                               "programs with options and SQL programs: every node and operation hashed, rebuilt relation "
                               "compared by == / hash / set membership"},
        "samples": [hists[0]["events"][:4], hists[-1]["events"][:4]],
        "explanation": "static tables (dataclasses, write sites) are regenerated from the source and decided in Coq; the dynamic "
                       "histories validate that the tables' premises describe the running code",
    })
    ctx.assumptions += ["CPython's dataclass hashing rules as encoded in coq/Model/Dataclass.v",
                        "aliasing outside the enumerated write sites (e.g. through C extensions or SQLAlchemy internals) is not modelled",
                        "auto-generated names differ between two builds: 'same sequence' means calls with explicit names"]


def replay(ctx, path):
    print(json.dumps(json.load(open(path)), indent=1)[:4000])
    return 0
