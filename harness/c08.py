"""C08 — every tree the factories accept can be compiled and executed."""
from __future__ import annotations

import json
import random

import sqlalchemy
import lsst.daf.relation as dr
from lsst.daf.relation import iteration, sql

import core
import enc
import gen
import iterprog as ip
import multiprog as mp
import signatures as sg
import sqlprog as sp
from enc import K, N, jsonable
from iterprog import exc_name

THEOREMS = ["C08_accepted_iteration_program_executes", "C08_sql_factories_return_compilable_shape",
            "C08_sql_program_is_conformed"]
HDR = "From DR Require Import Model.CheckMulti.\nOpen Scope Z_scope.\n"


def signature(case):
    t = case.get("impl_tree")
    if t and t[0] == "ok" and case.get("phase") == "database" and "syntax error" in case.get("error", "") \
            and sg.nested_compound_operand(t[1]):
        return "nested_compound_operand"
    return None


def gen_wide_sqlprog(rng):
    """Joins of chains, chains of joins, chains of chains, every unary operation in between."""
    counter = [0]
    p, cols, _o = sp.gen_sqlprog(rng, rng.choice([0, 1, 2, 3]), counter)
    for _ in range(rng.choice([1, 2, 3])):
        r = rng.random()
        cur = set(cols)
        if r < 0.4:
            q, qc, _ = sp.gen_sqlprog(rng, rng.choice([0, 1, 2]), counter, cols=sorted(cur), allow_binary=rng.random() < 0.5)
            if set(qc) != cur:
                continue
            p = ("chain", p, q) if rng.random() < 0.5 else ("chain", q, p)
        elif r < 0.75:
            shared = {c for c in cur if rng.random() < 0.6}
            q, qc, _ = sp.gen_sqlprog(rng, rng.choice([0, 1, 2]), counter, cols=sorted(shared | {gen.fresh_tag(rng, cur)}),
                                      allow_binary=rng.random() < 0.5)
            p = ("join", None, True, False, p, q) if rng.random() < 0.5 else ("join", None, True, False, q, p)
            cols = cur | set(qc)
        else:
            o, cols = gen.gen_op(rng, cur, weights=[2, 2, 2, 2, 0, 2])
            if o[0] == "sort" and rng.random() < 0.5 and cur:
                o = ("sort", [(gen.gen_expr(rng, cur, 1, need_col=True), True)])
            p = ("un", o, mp.DEFAULT, p)
    return p


def gen_sorted_then_projected(rng):
    """A sort absorbed by a SELECT (over a leaf, a chain, a deduplicated relation, a join; sliced or not), then a
    projection / calculation / selection / deduplication that may drop or shadow the columns the sort needs."""
    counter = [0]
    cols = gen.gen_schema(rng, maxk=3, maxn=1, allow_empty=False)
    counter[0] += 1
    p = mp.gen_leaf(rng, counter[0], cols, sp.SQL, special=0)
    cur = set(p[3])
    shape = rng.choice(["leaf", "chain", "chain", "dedup", "join"])
    if shape == "chain":
        counter[0] += 1
        p = ("chain", p, mp.gen_leaf(rng, counter[0], sorted(cur), sp.SQL, special=0))
    elif shape == "dedup":
        p = ("un", ("dedup",), mp.DEFAULT, p)
    elif shape == "join":
        counter[0] += 1
        extra = gen.fresh_tag(rng, cur)
        ocols = {c for c in cur if c.is_key and rng.random() < 0.7} | {extra}
        p = ("join", None, True, False, p, mp.gen_leaf(rng, counter[0], sorted(ocols), sp.SQL, special=0))
        cur = cur | ocols
    keys = sorted(cur)
    terms = [(("ref", c), rng.random() < 0.5) for c in rng.sample(keys, rng.choice([1, min(2, len(keys))]))]
    p = ("un", ("sort", terms), mp.DEFAULT, p)
    if rng.random() < 0.5:
        p = ("un", ("slice", rng.choice([0, 1]), rng.choice([2, 3])), mp.DEFAULT, p)
    if rng.random() < 0.3:
        p = ("un", ("dedup",), mp.DEFAULT, p)
    for _ in range(rng.choice([1, 1, 2])):
        r = rng.random()
        if r < 0.6:
            keep = sorted(c for c in cur if rng.random() < 0.5)
            p = ("un", ("proj", keep), mp.DEFAULT, p)
            cur = set(keep)
        elif r < 0.8 and cur:
            t = gen.fresh_tag(rng, cur) if rng.random() < 0.5 else rng.choice(sorted(set(cols) - cur) or [gen.fresh_tag(rng, cur)])
            p = ("un", ("calc", t, gen.gen_expr(rng, cur, 1, need_col=True)), mp.DEFAULT, p)
            cur = cur | {t}
        else:
            o, cur2 = gen.gen_op(rng, cur, weights=[0, 2, 0, 2, 1, 1])
            p = ("un", o, mp.DEFAULT, p)
            cur = set(cur2)
    return p


def gen_restricted(rng):
    """An operation whose expression nests engine-restricted functions: an outer function that declares support for
    the engine explicitly around an inner one that does not (must be refused), and the harmless nestings (must be
    accepted and then execute).  The restricted functions exist only in the engines said to support them."""
    counter = [0]
    if rng.random() < 0.6:
        p, cols, _o = sp.gen_sqlprog(rng, rng.choice([0, 1, 2]), counter, allow_binary=False)
        me, other = (False, True), (True, False)
    else:
        p = mp.gen_leaf(rng, 1, None, ("it", 0), special=0, loose=0)
        cols = p[3]
        if rng.random() < 0.5 and cols:
            p = ("un", ("sel", ("cmp", "ge", ("ref", sorted(cols)[0]), ("lit", 0))), mp.DEFAULT, p)
        me, other = (True, False), (False, True)
    cols = sorted(cols)
    if not cols:
        return None
    c = ("ref", rng.choice(cols))
    both = (True, True)
    S = lambda fl, x: ("supp", fl[0], fl[1], x)  # noqa: E731
    e = rng.choice([
        S(me, S(other, c)), S(both, S(other, c)), S(me, ("add", S(other, c), ("lit", 1))), S(both, ("neg", S(other, c))),
        S(other, S(me, c)), S(other, S(both, c)),
        S(both, S(me, c)), S(me, S(both, c)), ("add", S(me, c), S(both, c)), S(me, ("add", S(me, c), ("lit", 2))),
    ])
    kind = rng.choice(["calc", "sel", "sort"])
    if kind == "calc":
        o = ("calc", gen.fresh_tag(rng, set(cols)), e)
    elif kind == "sel":
        o = ("sel", ("cmp", "lt", e, ("lit", 2)))
    else:
        o = ("sort", [(e, rng.random() < 0.5)])
    return ("un", o, mp.DEFAULT, p)


def gen_recreated_after_transfer(rng):
    """Downstream of a transfer into the SQL engine (so that a Processor has to rebuild the tree): a projection hides a
    column and a calculation re-creates a column of that name; with and without a sort / slice / deduplication around."""
    a, b, c = K(1), K(2), K(3)
    src = rng.choice([("it", 0), ("it", 1)])
    leaf = ("leaf", 1, src, [a, b, c], [{a: i, b: 10 * i, c: 100 * i} for i in rng.sample([1, 2, 3, 4], rng.choice([2, 3]))], (0, None))
    p = ("xfer", sp.SQL, leaf)
    if rng.random() < 0.3:
        p = ("un", ("sel", ("cmp", "ge", ("ref", a), ("lit", 1))), mp.DEFAULT, p)
    if rng.random() < 0.3:
        p = ("un", ("sort", [(("ref", rng.choice([a, b, c])), True)]), mp.DEFAULT, p)
    p = ("un", ("proj", [a, b]), mp.DEFAULT, p)
    if rng.random() < 0.2:
        p = ("un", ("dedup",), mp.DEFAULT, p)
    p = ("un", ("calc", c if rng.random() < 0.8 else K(4), ("add", ("ref", a), ("ref", b))), mp.DEFAULT, p)
    if rng.random() < 0.3:
        p = ("un", ("slice", 0, 2), mp.DEFAULT, p)
    if rng.random() < 0.3:
        p = ("xfer", src, p)
    return p


def run_mp(p):
    w, rel, res = mp.run_build(p)
    if rel is None:
        return {"phase": "construction", "error": res[1], "tree": res}
    try:
        mp.execute(w, rel)
    except Exception as e:  # noqa: BLE001
        return {"phase": "execute", "error": f"{type(e).__name__}: {str(e)[:160]}", "tree": res}
    return {"phase": "ok", "tree": res}


def run_sql(p):
    w, rel, res = mp.run_build(p)
    if rel is None:
        return {"phase": "construction", "error": res[1], "tree": res}
    try:
        ex = rel.engine.to_executable(rel)
    except Exception as e:  # noqa: BLE001
        return {"phase": "compile", "error": f"{type(e).__name__}: {str(e)[:160]}", "tree": res}
    db = sqlalchemy.create_engine("sqlite://")
    try:
        with db.connect() as conn:
            for ident, (t, cols, rows) in w.tables.items():
                t.create(conn)
                if rows:
                    conn.execute(t.insert(), [({c.qualified_name: r[c] for c in cols} or {"dummy__": 1}) for r in rows])
            list(conn.execute(ex))
    except Exception as e:  # noqa: BLE001
        return {"phase": "database", "error": f"{type(e).__name__}: {str(e)[:160]}", "tree": res}
    finally:
        db.dispose()
    return {"phase": "ok", "tree": res}


def run_iter(p):
    res = ip.run_impl(p)
    if res["tree"][0] == "err":
        return {"phase": "construction", "error": res["tree"][1]}
    if res["rows"][0] == "err":
        return {"phase": "execute", "error": res["rows"][1], "tree": res["tree"]}
    return {"phase": "ok", "tree": res["tree"]}


def run(ctx):
    rng = random.Random(ctx.seed)
    s1 = core.s1(ctx, ["Slice"], "Properties.C08", THEOREMS)
    n = 500 if ctx.tier == "quick" else 12000
    found = False
    phases = {}
    samples, keys = [], set()
    failures = []
    a = K(1)
    corpus = [("chain", ("chain", ("leaf", 1, sp.SQL, [a], [{a: 1}], (0, None)), ("leaf", 2, sp.SQL, [a], [{a: 2}], (0, None))),
               ("leaf", 3, sp.SQL, [a], [{a: 3}], (0, None)))]
    corpus += sp.sorted_then_sequences(ctx.tier != "quick")
    corpus += sp.op_sequences(ctx.tier != "quick")
    corpus += sp.self_join_nested()
    n += len(corpus)
    for i in range(n):
        if i < len(corpus):
            p = corpus[i]
            out = run_sql(p)
            prog_json, key = jsonable(p), mp.cprog(p)
        elif i % 10 == 3:
            p = sp.self_join(rng)
            out = run_sql(p)
            prog_json, key = jsonable(p), mp.cprog(p)
        elif i % 10 == 9 and i % 4 == 1:
            p = gen_recreated_after_transfer(rng)
            out = run_mp(p)
            prog_json, key = jsonable(p), mp.cprog(p)
        elif i % 10 == 7:
            p = gen_restricted(rng)
            if p is None:
                continue
            out = run_mp(p)
            prog_json, key = jsonable(p), mp.cprog(p)
        elif i % 3 == 2:
            p, _ = ip.gen_prog(rng, rng.choice([1, 2, 4, 6, 9]))
            out = run_iter(p)
            prog_json, key = jsonable(p), ip.cprog(p)
        else:
            p = gen_sorted_then_projected(rng) if i % 3 == 0 and i % 2 == 0 else gen_wide_sqlprog(rng)
            out = run_sql(p)
            prog_json, key = jsonable(p), mp.cprog(p)
        phases[out["phase"]] = phases.get(out["phase"], 0) + 1
        if out["phase"] == "ok" or out["phase"] == "construction":
            if out["phase"] == "ok":
                keys.add(key)
            if out["phase"] == "construction" and out["error"] not in ("ColumnError", "EngineError", "OrderLoss", "ValueError", "TypeError"):
                failures.append({"program": prog_json, "phase": "construction", "error": out["error"], "impl_tree": None})
            if len(samples) < 2 and out["phase"] == "ok":
                samples.append(prog_json)
            continue
        failures.append({"program": prog_json, "phase": out["phase"], "error": out["error"], "impl_tree": out.get("tree")})
    failures.sort(key=lambda f: len(json.dumps(f["program"])))
    reported = 0
    for f in failures:
        case = {"kind": "accepted-but-not-executable", "case": {"program": f["program"], "phase": f["phase"], "error": f["error"]}}
        if ctx.failing_case(case, lambda c, f=f: signature(f)):
            found = True
            reported += 1
            if reported >= 3:
                break
    core.conclude_s1(ctx, s1, found or bool(ctx.violations))
    ctx.coverage.update({
        "evaluations": n, "distinct_nontrivial": len(keys),
        "rule": "well-typed programs: SQL-engine programs with joins of chains, chains of joins, chains of chains and every unary "
                "operation (sorts by expressions included) are compiled with to_executable() and run on SQLite; iteration-engine "
                "programs are executed; any exception after construction is a failure; exceptions at construction must be of a "
                "documented class; non-trivial/distinct = distinct programs that compiled and executed",
        "phases": phases, "failures_total": len(failures),
        "samples": samples,
    })
    ctx.assumptions += ["'the database rejects' is judged against SQLite 3.40 only (PostgreSQL accepts parenthesised compound operands)"]


def replay(ctx, path):
    print(json.dumps(json.load(open(path)), indent=1)[:4000])
    return 0
