"""C02 — SQL compilation preserves relational semantics (translation validation on a real SQLite)."""
from __future__ import annotations

import json
import random

import core
import enc
import gen
import multiprog as mp
import sqlprog as sp
from enc import K, N, jsonable
from iterprog import exc_name

THEOREMS = ["C02_apply_skip_sound", "C02_append_unary_sound", "C02_marker_denotes_slots", "C02_chain_rule_sound",
            "C02_join_rule_sound", "C02_join_rule_sound_with", "C02_join_with_identity",
            "C02_sql_program_denotes_its_specification"]
HDR = "From DR Require Import Model.CheckMulti.\nOpen Scope Z_scope.\n"


def nested_compound(text):
    return "syntax error" in text and 'near "("' in text


def forced_classes(rng, n):
    """Shapes that the uniform generator reaches too rarely: UNION operands whose column sets were built
    differently, a join that hides a shared column, a calculation that re-creates a hidden tag under a sort,
    joins with the join identity and a predicate."""
    out = [(p, False, "fixed_window") for p in sp.fixed_window_cases()]
    out += [(p, False, "sorted_then") for p in sp.sorted_then_sequences(False)]
    out += [(p, False, "op_sequences") for p in sp.op_sequences(False)]
    out += [(p, False, "self_join_nested") for p in sp.self_join_nested()]
    # a calculated column whose input an earlier projection hides, then DISTINCT, then a projection dropping the calculated
    # column (the DISTINCT has to stay on the wider rows), with the input visible as control
    a_, b_, c_ = K(1), K(2), K(5)        # all key columns: the deduplications are inside the ColumnTag contract
    tb = ("leaf", 1, sp.SQL, [a_, b_], [{a_: 1, b_: 10}, {a_: 1, b_: 20}, {a_: 1, b_: 20}, {a_: 2, b_: 30}], (0, None))
    for src, keep in ((b_, [a_, c_]), (b_, [a_, b_, c_]), (a_, [a_, c_])):
        x = ("un", ("dedup",), mp.DEFAULT, ("un", ("proj", keep), mp.DEFAULT, ("un", ("calc", c_, ("add", ("ref", src), ("lit", 1))), mp.DEFAULT, tb)))
        out += [(("un", ("proj", [a_]), mp.DEFAULT, x), False, "calc_hidden_input"),
                (("un", ("proj", [a_]), mp.DEFAULT, ("un", ("sel", ("cmp", "ge", ("ref", a_), ("lit", 0))), mp.DEFAULT, x)), False, "calc_hidden_input")]
    # join predicates that fold to a constant, alone and inside compounds, over operands with and without shared columns
    a, b, c = K(1), K(2), N(1)
    atom = ("cmp", "lt", ("ref", a), ("lit", 2))
    consts = [("plit", False), ("plit", True), ("or", []), ("and", []), ("and", [atom, ("plit", False)]), ("and", [atom, ("not", ("plit", True))]),
              ("not", ("or", [atom, ("plit", True)])), ("or", [("plit", False), ("and", [("plit", False), atom])]), ("not", ("plit", False)),
              ("or", [atom, ("plit", True)]), ("and", [("plit", True), atom])]
    for pred in consts:
        for rcols in ([a, c], [c]):
            l1 = ("leaf", 1, sp.SQL, [a, b], [{a: 1, b: 1}, {a: 2, b: 5}, {a: 1, b: 7}], (0, None))
            l2 = ("leaf", 2, sp.SQL, rcols, [dict.fromkeys(rcols, 1), dict.fromkeys(rcols, 2)], (0, None))
            j = ("join", pred, True, False, l1, l2)
            out += [(j, False, "const_join"), (("un", ("proj", [a]), mp.DEFAULT, ("un", ("sel", atom), mp.DEFAULT, j)), False, "const_join"),
                    (("chain", j, j), False, "const_join")]
    pool = [K(i) for i in range(1, 9)] + [N(i) for i in range(1, 9)]
    for _ in range(n):
        kind = rng.choice(["union_order", "hidden_join", "recreate", "identity_join", "shared_leaf", "dedup_proj", "window_then", "window_then", "mutual_hidden", "self_join", "compound_order"])
        if kind == "dedup_proj":
            p = sp.dedup_then_project(rng)
        elif kind == "window_then":
            p, _c = sp.windowed_then_op(rng)
        elif kind == "mutual_hidden":
            p = sp.mutual_hidden_join(rng)
        elif kind == "self_join":
            p = sp.self_join(rng)
        elif kind == "compound_order":
            p, _c = sp.compound_order_cases(rng)
        elif kind == "shared_leaf":
            # the SAME leaf object under a calculation and, elsewhere in the tree, as a join operand next to a relation
            # that really has a column of the calculated tag (compiling one branch must not leak into the other)
            a, b, d = K(1), rng.choice([K(2), N(1)]), rng.choice([K(3), N(2)])
            l1 = ("leaf", 1, sp.SQL, sorted([a, b]), gen.gen_rows(rng, [a, b], 4), (0, None))
            l2 = ("leaf", 2, sp.SQL, sorted([a, d]), gen.gen_rows(rng, [a, d], 4), (0, None))
            x = ("un", ("calc", d, gen.gen_expr(rng, [a, b], 1, need_col=True)), mp.DEFAULT, l1)
            y = ("join", None, True, False, l2, l1) if rng.random() < 0.7 else ("join", None, True, False, l1, l2)
            p = ("chain", x, y) if rng.random() < 0.6 else ("chain", y, x)
        elif kind == "union_order":
            cols = rng.sample(pool, rng.choice([2, 3, 4, 5]))
            extra = rng.choice([c for c in pool if c not in cols])
            l1 = ("leaf", 1, sp.SQL, sorted(cols), gen.gen_rows(rng, cols, 3), (0, None))
            l2 = ("leaf", 2, sp.SQL, sorted(cols + [extra]), gen.gen_rows(rng, cols + [extra], 3), (0, None))
            src = [c for c in cols]
            p = ("chain", ("un", ("calc", extra, ("add", ("ref", rng.choice(src)), ("lit", 100))), mp.DEFAULT, l1), l2)
            if rng.random() < 0.5:
                p = ("chain", p[2], p[1])
        elif kind == "hidden_join":
            a, b, c = K(1), K(2), N(1)
            t = ("leaf", 1, sp.SQL, [a, b, c], gen.gen_rows(rng, [a, b, c], 4), (0, None))
            f = ("leaf", 2, sp.SQL, [b, N(2)], gen.gen_rows(rng, [b, N(2)], 3), (0, None))
            hidden = ("un", ("proj", [a, c]), mp.DEFAULT, t)
            p = ("join", None, True, False, f, hidden) if rng.random() < 0.5 else ("join", None, True, False, hidden, f)
        elif kind == "recreate":
            a, b = K(1), K(2)
            leaf = ("leaf", 1, sp.SQL, [a, b], gen.gen_rows(rng, [a, b], 4), (0, None))
            p = ("un", ("calc", b, ("mul", ("ref", a), ("lit", 10))), mp.DEFAULT,
                 ("un", ("proj", [a]), mp.DEFAULT, ("un", ("sort", [(("ref", b), True), (("ref", a), True)]), mp.DEFAULT, leaf)))
            if rng.random() < 0.7:
                p = ("un", ("slice", 0, rng.choice([1, 2])), mp.DEFAULT, p)
                p = ("un", ("slice", 0, 5), mp.DEFAULT, p[3]) if False else p
        else:
            a = K(1)
            t = ("leaf", 1, sp.SQL, [a, N(1)], gen.gen_rows(rng, [a, N(1)], 4), (0, None))
            ident = ("leaf", 2, sp.SQL, [], [{}], (1, 1), "identity")
            pred = ("cmp", "gt", ("ref", a), ("lit", 0))
            p = ("join", pred, True, False, t, ident) if rng.random() < 0.5 else ("join", pred, True, False, ident, t)
        out.append((p, False, kind))
    return out


def make_cases(rng, tier):
    n = 450 if tier == "quick" else 12000
    items = forced_classes(rng, 120 if tier == "quick" else 2400)
    for _ in range(n):
        p, _cols, ordered = sp.gen_sqlprog(rng, rng.choice([1, 2, 3, 4, 5, 7]))
        items.append((p, ordered, "random"))
    cases, unexecutable = [], []
    for p, ordered, kind in items:
        w, rel, res = mp.run_build(p)
        if rel is None:
            continue
        try:
            a, b = sp.execute_both(w, rel)
        except Exception as e:  # noqa: BLE001 — C08's concern; recorded, not judged here
            unexecutable.append((kind, exc_name(e), str(e)[:120]))
            continue
        t = enc.cresult(res[0], enc.ctree(res[1]))
        mode = 0 if ordered else 1
        if kind == "op_sequences":
            # the enumerated sequences include windows over rows in no determined order: judged only where the rows
            # are determined at least as a multiset (harness/ordering.py)
            import ordering
            st = ordering.state(res[1])
            if st > ordering.BAG:
                continue
            mode = st
        cases.append({"json": {"program": jsonable(p), "rows": jsonable(a), "rows_reversed_scan": jsonable(b), "ordered": ordered},
                      "coq": f"SQCase {mp.cprog(p)} {mp.cenv(p)} {t} {enc.crows(a)} {enc.crows(b)} {mode}%N",
                      "nontrivial": json.dumps(jsonable(res[1])).count('"select"') >= 2 or '"join"' in json.dumps(jsonable(res[1])),
                      "key": mp.cprog(p), "kind": kind})
    return cases, unexecutable


def run(ctx):
    rng = random.Random(ctx.seed)
    s1 = core.s1(ctx, ["Slice", "SqlRange"], "Properties.C02", THEOREMS, extra_targets=["Model/CheckMulti.vo"])
    cases, unexecutable = make_cases(rng, ctx.tier)
    bits = {1: "the conformed tree differs from the model's",
            4: "the rows the database returned (either scan order) are not the specification's multiset (list when the "
               "outermost level is totally sorted), or a row has the wrong columns"}
    summ = core.judge(ctx, cases, HDR, "check_sql", bits=bits, shard=100)
    core.conclude_s1(ctx, s1, summ["spec_failures"] > 0 or bool(ctx.violations))
    kinds = {}
    for c in cases:
        kinds[c["kind"]] = kinds.get(c["kind"], 0) + 1
    ctx.coverage.update({
        "evaluations": len(cases), "distinct_nontrivial": len({c["key"] for c in cases if c["nontrivial"]}),
        "rule": "SQL-engine programs (six unary operations, joins with/without predicate, chains, nesting) with order-determined "
                "slices over leaves with overlapping key and non-key columns, compiled by the real engine and executed on an "
                "in-memory SQLite under both reverse_unordered_selects settings; forced classes: UNION operands with differently "
                "built column sets, joins hiding a shared column, a calculation re-creating a hidden tag, identity joins with "
                "a predicate; non-trivial = nested SELECT markers or a join",
        "case_kinds": kinds, "not_executable_here": len(unexecutable),
        "traces_validated_against_impl": summ["evaluated"], "judgement": summ,
        "samples": [cases[0]["json"]["program"], cases[-1]["json"]["program"]],
    })
    ctx.assumptions += ["SQLite 3.40 is the database; values stay far below 2^63",
                        "a slice is judged only when it directly follows a sort that orders the rows totally (up to identical rows)",
                        "join inputs satisfy the documented ColumnTag contract (non-key columns are functions of the key columns)"]


def replay(ctx, path):
    print(json.dumps(json.load(open(path)), indent=1)[:4000])
    return 0
