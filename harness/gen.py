"""Random generators of expressions, predicates, operations and programs (terms of enc.py).
Every choice comes from the one random.Random passed in, so a seed replays exactly."""
from __future__ import annotations

from enc import K, N, Tag


def gen_expr(rng, cols, depth=2, lits=(-2, -1, 0, 1, 2, 3), need_col=False):
    cols = sorted(cols)
    if depth <= 0 or rng.random() < 0.35:
        if cols and (need_col or rng.random() < 0.7):
            return ("ref", rng.choice(cols))
        return ("lit", rng.choice(lits))
    k = rng.choice(["neg", "add", "sub", "mul", "add", "sub"])
    if k == "neg":
        return ("neg", gen_expr(rng, cols, depth - 1, lits, need_col))
    a = gen_expr(rng, cols, depth - 1, lits, need_col)
    b = gen_expr(rng, cols, depth - 1, lits, False)
    if rng.random() < 0.5:
        a, b = b, a
    return (k, a, b)


def expr_cols(e):
    if e[0] == "ref":
        return {e[1]}
    if e[0] == "lit":
        return set()
    if e[0] == "supp":
        return expr_cols(e[3])
    out = set()
    for a in e[1:]:
        out |= expr_cols(a)
    return out


def gen_range(rng, lo=-4, hi=6):
    step = rng.choice([1, 1, 1, 2, 3, -1, -2, 4])
    a, b = rng.randint(lo, hi), rng.randint(lo, hi)
    return ("range", a, b, step)


def gen_pred(rng, cols, depth=2, allow_lit=True):
    cols = sorted(cols)
    r = rng.random()
    if depth <= 0 or r < 0.4:
        c = rng.random()
        if allow_lit and c < 0.12:
            return ("plit", rng.random() < 0.6)
        if cols and c < 0.2:
            return ("pref", rng.choice(cols))
        if c < 0.35:
            e = gen_expr(rng, cols, 1)
            if rng.random() < 0.6:
                return ("in", e, gen_range(rng))
            return ("in", e, ("seq", [gen_expr(rng, cols, 1) for _ in range(rng.randint(0, 3))]))
        return ("cmp", rng.choice(["eq", "ne", "lt", "le", "gt", "ge"]), gen_expr(rng, cols, 1), gen_expr(rng, cols, 1))
    if r < 0.55:
        return ("not", gen_pred(rng, cols, depth - 1, allow_lit))
    k = "and" if r < 0.8 else "or"
    return (k, [gen_pred(rng, cols, depth - 1, allow_lit) for _ in range(rng.choice([0, 1, 2, 2, 3]))])


def pred_cols(p):
    k = p[0]
    if k == "plit":
        return set()
    if k == "pref":
        return {p[1]}
    if k == "cmp":
        return expr_cols(p[2]) | expr_cols(p[3])
    if k == "not":
        return pred_cols(p[1])
    if k in ("and", "or"):
        out = set()
        for q in p[1]:
            out |= pred_cols(q)
        return out
    if k == "in":
        out = expr_cols(p[1])
        if p[2][0] == "seq":
            for x in p[2][1]:
                out |= expr_cols(x)
        return out
    raise ValueError(p)


def gen_terms(rng, cols, maxn=3):
    n = rng.choice([0, 1, 1, 2, 2, 3][:maxn + 3])
    ts = []
    for _ in range(n):
        if ts and rng.random() < 0.25:      # repeated / opposite-direction term
            e, a = rng.choice(ts)
            ts.append((e, a if rng.random() < 0.5 else not a))
        else:
            ts.append((gen_expr(rng, cols, 1, need_col=True), rng.random() < 0.6))
    return ts


def gen_slice(rng, hi=7):
    a = rng.choice([0, 0, 0, 1, 1, 2, 3, 5])
    r = rng.random()
    if r < 0.25:
        return a, None
    return a, a + rng.choice([0, 0, 1, 1, 2, 3, 5])


def fresh_tag(rng, cols, key=None):
    used = {t.pos for t in cols}
    for n in range(1, 40):
        for t in ((K(n), N(n)) if (key is None and rng.random() < 0.5) else (N(n), K(n))):
            if key is not None and t.is_key != key:
                continue
            if t.pos not in used:
                return t
    raise RuntimeError("no fresh tag")


def gen_op(rng, cols, weights=None, allow_nonkey_calc=True):
    """-> (op term, columns after)"""
    cols = set(cols)
    kinds = ["calc", "dedup", "proj", "sel", "slice", "sort"]
    k = rng.choices(kinds, weights or [2, 2, 2, 3, 3, 3])[0]
    if k == "calc" and not cols:
        k = "sel"
    if k == "calc":
        t = fresh_tag(rng, cols, key=True if not allow_nonkey_calc else None)
        return ("calc", t, gen_expr(rng, cols, 2, need_col=True)), cols | {t}
    if k == "dedup":
        return ("dedup",), cols
    if k == "proj":
        r = rng.random()
        if r < 0.15:
            keep = set(cols)
        elif r < 0.25:
            keep = set()
        else:
            keep = {c for c in cols if rng.random() < 0.6}
        return ("proj", sorted(keep)), keep
    if k == "sel":
        return ("sel", gen_pred(rng, cols, 2)), cols
    if k == "slice":
        a, b = gen_slice(rng)
        return ("slice", a, b), cols
    return ("sort", gen_terms(rng, cols)), cols


def gen_rows(rng, cols, maxn=6, dom=(0, 1, 2), nonkey_fn=True):
    """Rows over cols.  Non-key columns are a function of the key columns (the documented
    ColumnTag contract) unless nonkey_fn is False."""
    cols = sorted(cols)
    keys = [c for c in cols if c.is_key]
    n = rng.choice([0, 1, 2, 3, 4, 5, 6][:maxn + 1])
    rows = []
    a, b = rng.randint(-2, 2), rng.randint(0, 2)
    for _ in range(n):
        r = {c: rng.choice(dom) for c in keys}
        for c in cols:
            if not c.is_key:
                r[c] = (sum((i + 1) * r[k] for i, k in enumerate(keys)) * (a or 1) + b + c.pos) if nonkey_fn else rng.choice(dom)
        rows.append(r)
    if rows and rng.random() < 0.4:     # force duplicates
        rows.append(dict(rng.choice(rows)))
    return rows


def gen_schema(rng, maxk=3, maxn=1, allow_empty=True):
    nk = rng.choice([0, 1, 2, 2, 3][:maxk + 2]) if allow_empty else rng.choice([1, 2, 2, 3][:maxk + 1])
    nn = rng.choice([0, 0, 1][:maxn + 2]) if nk else 0
    return [K(i + 1) for i in range(nk)] + [N(i + 1) for i in range(nn)]
