"""C20 — ill-formed requests are rejected at the factory call with the documented error."""
from __future__ import annotations

import json
import random

import core
import enc
import gen
import multiprog as mp
from enc import K, N, jsonable
from signatures import tcolumns

THEOREMS = ["C20_missing_column_rejected", "C20_existing_tag_rejected", "C20_bad_slice_rejected",
            "C20_chain_mismatch_rejected", "C20_unsupported_expression_rejected", "C20_checks_precede_backtracking"]
HDR = "From DR Require Import Model.CheckStruct.\nOpen Scope Z_scope.\n"


def fingerprint(rel):
    return (str(rel), repr(rel), tuple(sorted(map(str, rel.columns))), rel.min_rows, rel.max_rows, type(rel).__name__)


def ill_edit(rng, p, cols, eng):
    """-> (ill-formed program whose last call is the edit, expected classes, kind)"""
    missing = gen.fresh_tag(rng, cols)
    opts = mp.gen_opts(rng, eng, 0.8)
    kinds = ["slice_on_empty", "calc_missing", "sel_missing", "sort_missing", "sort_missing_multi", "proj_missing", "slice_neg", "slice_rev", "slice_step",
             "chain_cols", "chain_engine", "join_pred_missing", "join_engine"]
    if cols:
        kinds += ["calc_exists", "unsupported_calc", "unsupported_sel", "unsupported_sort", "proj_swap", "proj_swap", "proj_narrow"]
    k = rng.choice(kinds)
    other_eng = rng.choice([e for e in mp.ENGINES if e != eng])
    col = rng.choice(sorted(cols)) if cols else None
    if k == "calc_missing":
        return ("un", ("calc", gen.fresh_tag(rng, cols | {missing}), ("add", ("ref", missing), ("lit", 1))), opts, p), ["ColumnError"], k
    if k == "calc_exists":
        return ("un", ("calc", col, ("add", ("ref", col), ("lit", 1))), opts, p), ["ColumnError"], k
    if k == "sel_missing":
        return ("un", ("sel", ("cmp", "lt", ("ref", missing), ("lit", 1))), opts, p), ["ColumnError"], k
    if k == "sort_missing":
        return ("un", ("sort", [(("ref", missing), True)]), opts, p), ["ColumnError"], k
    if k == "sort_missing_multi":   # several terms, the offending one anywhere among them
        good = [(("ref", c), rng.random() < 0.5) for c in sorted(cols)[:2]]
        terms = good + [(("neg", ("ref", c)), True) for c in sorted(cols)[:1]]
        terms.insert(rng.randrange(len(terms) + 1) if rng.random() < 0.3 else 0, (("ref", missing), rng.random() < 0.5))
        return ("un", ("sort", terms), opts, p), ["ColumnError"], k
    if k == "proj_swap":       # as wide as the target, one column replaced by a missing one
        return ("un", ("proj", sorted((cols - {col}) | {missing})), opts, p), ["ColumnError"], k
    if k == "proj_narrow":     # narrower than the target, but naming a missing column
        keep = {c for c in cols if rng.random() < 0.5}
        return ("un", ("proj", sorted(keep | {missing})), opts, p), ["ColumnError"], k
    if k == "proj_missing":
        return ("un", ("proj", sorted(cols | {missing})), opts, p), ["ColumnError"], k
    if k == "slice_on_empty":
        # an ill-formed window of a relation that is statically empty (nothing could come out of it anyway)
        empty = ("un", ("sel", ("plit", False)), mp.DEFAULT, p)
        bad = rng.choice([(-1, None, None), (3, 1, None), (None, -3, None), (0, 3, 2), (-4, -2, None)])
        return ("item", bad[0], bad[1], bad[2], empty), ["TypeError"] if bad[2] else ["ValueError"], k
    if k == "slice_neg":
        return ("un", ("slice", -1, rng.choice([None, 3])), opts, p), ["ValueError"], k
    if k == "slice_rev":
        return ("un", ("slice", 3, 1), opts, p), ["ValueError"], k
    if k == "slice_step":
        return ("item", rng.choice([None, 0, 1]), rng.choice([None, 4]), rng.choice([2, -1, 3]), p), ["TypeError"], k
    if k == "chain_cols":
        other = mp.gen_leaf(rng, 90, sorted(cols | {missing}), eng, special=0)
        return (("chain", p, other) if rng.random() < 0.5 else ("chain", other, p)), ["ColumnError"], k
    if k == "chain_engine":
        other = mp.gen_leaf(rng, 90, sorted(cols), other_eng, special=0)
        return (("chain", p, other) if rng.random() < 0.5 else ("chain", other, p)), ["EngineError"], k
    if k == "join_pred_missing":
        other = mp.gen_leaf(rng, 90, sorted({c for c in cols if rng.random() < 0.5}), eng, special=0)
        return ("join", ("cmp", "lt", ("ref", missing), ("lit", 1)), rng.random() < 0.7, rng.random() < 0.3, p, other), ["ColumnError"], k
    if k == "join_engine":
        other = mp.gen_leaf(rng, 90, sorted({c for c in cols if rng.random() < 0.5} | {K(9)}), other_eng, special=0)
        # operands in different engines, neither backtracking insertion nor a transfer allowed
        return ("join", None, False, False, p, other), ["EngineError"], k
    # engine-restricted column function: supported only by the *other* kind of engine
    it_ok, sql_ok = (False, True) if eng[0] == "it" else (True, False)
    e = ("supp", it_ok, sql_ok, ("ref", col))
    if rng.random() < 0.4:
        # ... nested inside a function that does declare support for this engine: still unsupported
        e = ("supp", True, True, e) if rng.random() < 0.5 else ("supp", not it_ok, not sql_ok, ("neg", e))
    plain = (None, True, False, False)
    if k == "unsupported_calc":
        return ("un", ("calc", gen.fresh_tag(rng, cols), ("add", e, ("lit", 1))), plain, p), ["EngineError"], k
    if k == "unsupported_sel":
        return ("un", ("sel", ("cmp", "lt", e, ("lit", 1))), plain, p), ["EngineError"], k
    return ("un", ("sort", [(e, True)]), plain, p), ["EngineError"], k


def sorted_unsliced_sql(tree):
    """The prefix ends in a SQL select with a sort and no slice: binary operations raise the row-order-loss
    error first (a second, independent ill-formedness)."""
    return tree[0] == "select" and bool(tree[1]) and tree[4] == (0, None)


def restricted_cases(rng, n, keep_term=False):
    """Operations whose expression only one engine kind supports, issued with every kind of preferred-engine option on
    top of a multi-engine program: accepted only if the operation lands in a supporting engine."""
    out, outcomes = [], {}
    while len(out) < n:
        p, cols = mp.gen_mprog(rng, rng.choice([0, 1, 2, 3]), p_opts=0.2, p_xfer=0.3)
        w, rel, res = mp.run_build(p)
        if rel is None or not rel.columns:
            continue
        eng = w.reg.engine(rel.engine)
        col = rng.choice(sorted(rel.columns))
        if rng.random() < 0.35:
            # ... right on top of an operation of the same kind, with which it merges
            under = rng.choice([("sel", ("cmp", "ge", ("ref", col), ("lit", 0))), ("sort", [(("ref", col), True)])])
            p = ("un", under, mp.DEFAULT, p)
        it_ok, sql_ok = (False, True) if eng[0] == "it" else (True, False)
        e = ("supp", it_ok, sql_ok, ("ref", col))
        supporting = [x for x in mp.ENGINES if (x[0] == "it") == it_ok]
        opts = (rng.choice(supporting + [eng, None]), rng.random() < 0.7, rng.random() < 0.35, rng.random() < 0.3)
        kind = rng.choice(["calc", "sel", "sort", "join"])
        if kind == "join":
            # a join predicate holding the restricted function: alone, or inside a compound that folds to true
            atom = ("cmp", "lt", e, ("lit", 1))
            pred = rng.choice([atom, ("or", [("plit", True), atom]), ("not", ("and", [("plit", False), atom])),
                               ("and", [("plit", True), ("or", [atom, ("plit", True)])])])
            other = mp.gen_leaf(rng, 91, sorted({c for c in rel.columns if c.is_key and rng.random() < 0.6} | {enc.K(9)}), eng, special=0)
            q = ("join", pred, rng.random() < 0.7, False, p, other) if rng.random() < 0.5 else ("join", pred, rng.random() < 0.7, False, other, p)
            _w2, _rel2, res2 = mp.run_build(q)
            t = enc.cresult(res2[0], enc.ctree(res2[1]) if res2[0] == "ok" else res2[1])
            key = "accepted" if res2[0] == "ok" else res2[1]
            outcomes[key] = outcomes.get(key, 0) + 1
            out.append({"json": {"program": jsonable(q), "impl": jsonable(res2), **({"program_term": q} if keep_term else {})},
                        "coq": f"SUPCase {mp.cprog(q)} {t}", "nontrivial": True, "key": mp.cprog(q)})
            continue
        if kind == "calc":
            o = ("calc", gen.fresh_tag(rng, set(rel.columns)), ("add", e, ("lit", 1)))
        elif kind == "sel":
            o = ("sel", ("cmp", "lt", e, ("lit", 1)))
        else:
            o = ("sort", [(e, True)])
        q = ("un", o, opts, p)
        _w2, _rel2, res2 = mp.run_build(q)
        t = enc.cresult(res2[0], enc.ctree(res2[1]) if res2[0] == "ok" else res2[1])
        key = "accepted" if res2[0] == "ok" else res2[1]
        outcomes[key] = outcomes.get(key, 0) + 1
        out.append({"json": {"program": jsonable(q), "impl": jsonable(res2), **({"program_term": q} if keep_term else {})},
                    "coq": f"SUPCase {mp.cprog(q)} {t}",
                    "nontrivial": True, "key": mp.cprog(q)})
    return out, outcomes


def make_cases(rng, tier):
    n = 900 if tier == "quick" else 20000
    cases, extra_bad, kinds = [], [], {}
    while len(cases) < n:
        p, cols = mp.gen_mprog(rng, rng.choice([0, 1, 2, 3, 4, 6]), p_opts=0.3)
        if rng.random() < 0.2:
            # targets known to have at most one row: a window of width <= 1, a one-row or empty leaf, a doomed relation
            shape = rng.choice(["window", "window", "tiny_leaf", "doomed"])
            if shape == "window":
                a0 = rng.choice([0, 1, 2])
                p = ("un", ("slice", a0, a0 + rng.choice([0, 1])), mp.DEFAULT, p)
            else:
                lf = mp.gen_leaf(rng, 77, None, rng.choice(mp.ENGINES), special=0, loose=0)
                if shape == "doomed":
                    p = ("leaf", 77, lf[2], lf[3], [], (0, 0), "doomed")
                else:
                    rows = lf[4][:rng.choice([0, 1])]
                    p = ("leaf", 77, lf[2], lf[3], rows, (len(rows), len(rows)))
        w, rel, res = mp.run_build(p)
        if rel is None:
            continue                      # the prefix must be well typed
        before = fingerprint(rel)
        eng = w.reg.engine(rel.engine)
        q, expected, kind = ill_edit(rng, p, set(rel.columns), eng)
        if kind in ("join_engine", "join_pred_missing") and rel.is_join_identity:
            continue      # joining a join identity is elided by design: not an ill-formed request
        if kind in ("chain_cols", "chain_engine", "join_pred_missing", "join_engine") and sorted_unsliced_sql(res[1]):
            expected = expected + ["OrderLoss"]
        if kind in ("unsupported_calc", "unsupported_sel", "unsupported_sort") and sorted_unsliced_sql(res[1]):
            # a second, independent ill-formedness: the same request with a SUPPORTED expression would be refused too,
            # because it would bury the unsliced sort; decided by running that control request
            def plain(e):
                if isinstance(e, tuple) and e and e[0] == "supp":
                    return ("supp", True, True, plain(e[3]))     # the same function, supported by every engine
                if isinstance(e, tuple):
                    return tuple(plain(x) for x in e)
                if isinstance(e, list):
                    return [plain(x) for x in e]
                return e
            _wc, _rc, resc = mp.run_build(plain(q))
            if resc[0] == "err" and resc[1] == "OrderLoss":
                expected = expected + ["OrderLoss"]
        w2, rel2, res2 = mp.run_build(q)
        after = fingerprint(rel)
        if after != before:
            extra_bad.append({"program": jsonable(q), "problem": "a rejected call changed an existing relation"})
        t = enc.cresult(res2[0], enc.ctree(res2[1]) if res2[0] == "ok" else res2[1])
        exp = "[" + "; ".join(enc.ERR[e] for e in expected) + "]"
        kinds[kind] = kinds.get(kind, 0) + 1
        cases.append({"json": {"program": jsonable(q), "edit": kind, "expected": expected, "impl": jsonable(res2)},
                      "coq": f"ILCase {mp.cprog(q)} {t} {exp}", "nontrivial": True, "key": mp.cprog(q), "kind": kind})
    return cases, extra_bad, kinds


def reused_predicate_histories(rng, n):
    """The SAME predicate / expression objects used in several requests: an ill-formed request is rejected again after
    the object has been part of other calls — accepted ones (joins, selections in another relation) and rejected ones."""
    import lsst.daf.relation as dr
    bad, done = [], 0
    for _ in range(n):
        w = mp.World()
        eng = rng.choice(mp.ENGINES)
        a, x, y, z = enc.K(1), enc.N(1), enc.N(2), enc.N(3)
        A = mp.build_impl(("leaf", 1, eng, sorted([a, x]), [{a: 1, x: 5}], (0, None)), w)
        B = mp.build_impl(("leaf", 2, eng, sorted([a, y]), [{a: 1, y: 7}], (0, None)), w)
        C = mp.build_impl(("leaf", 3, eng, [a], [{a: 1}], (0, None)), w)
        atom = ("cmp", "lt", ("ref", x), ("ref", y))
        shape = rng.choice([atom, ("and", [atom, ("cmp", "ge", ("ref", a), ("lit", 0))]), ("or", [atom, ("pref", a)]),
                            ("not", atom), ("in", ("add", ("ref", x), ("ref", y)), ("range", 0, 50, 1))])
        P = enc.ipred(shape)
        Q = enc.ipred(("cmp", "lt", ("ref", y), ("ref", z)))            # z exists nowhere

        def rejected(call):
            try:
                call()
            except dr.ColumnError:
                return True
            except Exception:  # noqa: BLE001
                return False
            return False
        history = []
        ok = rejected(lambda: A.with_rows_satisfying(P))
        history.append(("A.with_rows_satisfying(P) rejected", ok))
        steps = rng.sample(["join", "sel_elsewhere", "rejected_join", "partial"], rng.choice([1, 2, 3]))
        for st in steps:
            try:
                if st == "join":
                    A.join(B, P)
                elif st == "sel_elsewhere":
                    A.join(B).with_rows_satisfying(P)
                elif st == "partial":
                    dr.Join(P).partial(B).apply(A)
                else:
                    rejected(lambda: A.join(B, Q))
            except Exception:  # noqa: BLE001 — e.g. an iteration-engine join that the engine refuses: irrelevant here
                pass
            history.append((st, None))
        for what, call in (("A.with_rows_satisfying(P)", lambda: A.with_rows_satisfying(P)),
                           ("C.with_rows_satisfying(P)", lambda: C.with_rows_satisfying(P)),
                           ("B.with_rows_satisfying(Q)", lambda: B.with_rows_satisfying(Q)),
                           ("C.join(A, Q)", lambda: C.join(A, Q))):
            r = rejected(call)
            history.append((what + " rejected", r))
            if not r:
                bad.append({"predicate": jsonable(shape), "engine": list(eng), "history": history[:], "problem": what + " was not rejected with ColumnError"})
                break
        # a join with EXPLICIT common columns that the target does not have (directly, below an operation, and issued
        # downstream of a transfer so that it reaches the other engine by backtracking)
        kx = enc.K(9)
        fixed = mp.build_impl(("leaf", 4, eng, sorted([kx, y]), [{kx: 1, y: 2}], (0, None)), w)
        other_eng = [e for e in mp.ENGINES if e != eng][0]
        targets = [A, A.with_rows_satisfying(enc.ipred(("cmp", "ge", ("ref", a), ("lit", 0))))]
        try:
            targets.append(A.transferred_to(w.engine(other_eng)))
        except Exception:  # noqa: BLE001
            pass
        for tgt in targets:
            jn = dr.Join(min_columns=frozenset({kx}), max_columns=frozenset({kx})).partial(fixed)
            what = f"join ON explicit column k9 applied to {tgt} (which has no k9)"
            try:
                jn.apply(tgt)
                bad.append({"engine": list(eng), "problem": what + " was accepted"})
            except (dr.ColumnError, dr.EngineError):
                pass
            except Exception as e:  # noqa: BLE001
                bad.append({"engine": list(eng), "problem": what + f" raised {type(e).__name__}"})
        # an unsupported function term that COMPARES EQUAL to a supported one the relation already selects on
        from lsst.daf.relation import iteration as _it, sql as _sql
        E = dr.ColumnExpression
        other_type = _sql.Engine if eng[0] == "it" else _it.Engine
        plain = E.function("vid", E.reference(a)).lt(E.literal(5))
        restricted = E.function("vid", E.reference(a), supporting_engine_types=(other_type,)).lt(E.literal(5))
        base = A.with_rows_satisfying(plain)
        for what, call in (("selection with a term restricted to the other engine kind, on a relation already selecting on an equal-looking term",
                            lambda: base.with_rows_satisfying(restricted)),
                           ("the same, with a second term", lambda: base.with_rows_satisfying(restricted.logical_and(E.reference(a).ge(E.literal(0)))))):
            try:
                call()
                bad.append({"engine": list(eng), "problem": what + " was accepted"})
            except dr.EngineError:
                pass
            except Exception as e:  # noqa: BLE001
                bad.append({"engine": list(eng), "problem": what + f" raised {type(e).__name__}"})
        done += 1
    return done, bad


def run(ctx):
    rng = random.Random(ctx.seed)
    s1 = core.s1(ctx, ["Slice"], "Properties.C20", THEOREMS, extra_targets=["Model/CheckStruct.vo"])
    cases, extra_bad, kinds = make_cases(rng, ctx.tier)
    found = False
    for b in extra_bad[:3]:
        found |= ctx.failing_case({"kind": "rejected-call-mutated-a-relation", "case": b}, None)
    bits = {1: "result (tree or exception class) differs from the model's",
            4: "the ill-formed request returned a relation or raised an undocumented exception class"}
    summ = core.judge(ctx, cases, HDR, "check_ill", bits=bits)
    found |= summ["spec_failures"] > 0
    rcases, routcomes = restricted_cases(rng, 300 if ctx.tier == "quick" else 6000)
    rsumm = core.judge(ctx, rcases, HDR, "check_supp", prefix="cases_C20s",
                       bits={1: "result (tree or exception class) differs from the model's",
                             4: "an operation was accepted into an engine that does not support its expression, or refused with "
                                "another class than EngineError"})
    found |= rsumm["spec_failures"] > 0
    nhist, hbad = reused_predicate_histories(rng, 60 if ctx.tier == "quick" else 1200)
    for b in hbad[:3]:
        found |= ctx.failing_case({"kind": "ill-formed-request-accepted-after-a-history", "case": b}, None)
    core.conclude_s1(ctx, s1, found or bool(ctx.violations))
    ctx.coverage.update({
        "evaluations": len(cases), "distinct_nontrivial": len({c["key"] for c in cases}),
        "rule": "a well-typed multi-engine program (any depth, any options) followed by one ill-formed call of one of 15 "
                "kinds with random preferred-engine options; the exception class is compared with the documented one and "
                "with the model's; existing relations are fingerprinted before and after; every case is non-trivial",
        "edit_kinds": kinds, "traces_validated_against_impl": summ["evaluated"] + rsumm["evaluated"], "judgement": summ,
        "engine_restricted_with_options": {"judgement": rsumm, "outcomes": routcomes},
        "histories_reusing_predicate_objects": {"run": nhist, "with_an_accepted_ill_formed_request": len(hbad)},
        "samples": [cases[0]["json"], cases[-1]["json"]],
    })
    ctx.assumptions += ["when a request is ill-formed twice over (binary operation onto a sorted, unsliced SQL relation) either "
                        "documented error is accepted"]


def replay(ctx, path):
    print(json.dumps(json.load(open(path)), indent=1)[:4000])
    return 0
