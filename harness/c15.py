"""C15 — transfer/materialize simplifications keep content; locked trees are inviolate."""
from __future__ import annotations

import json
import random

import lsst.daf.relation as dr
from lsst.daf.relation import sql

import core
import enc
import multiprog as mp
from enc import K, clist, ctree, jsonable

THEOREMS = ["C15_transfer_roundtrip_keeps_content", "C15_materialize_adds_none_over_locked",
            "C15_backtracking_never_enters_locked", "C15_finish_apply_keeps_target_subtree"]
HDR = "From DR Require Import Model.CheckStruct.\nOpen Scope Z_scope.\n"


def nodes(rel):
    out, stack = [], [rel]
    while stack:
        r = stack.pop()
        out.append(r)
        for attr in ("target", "lhs", "rhs", "skip_to"):
            if hasattr(r, attr):
                stack.append(getattr(r, attr))
        op = getattr(r, "operation", None)
        if isinstance(op, dr.PartialJoin):
            stack.append(op.fixed)
    return out


def locked_nodes(rel):
    return [n for n in nodes(rel) if n.is_locked]


def identity_violations(inputs, output):
    """A locked node of an input that occurs (by name) in the output must be the identical object."""
    bad = []
    locked = {}
    for i in inputs:
        for n in locked_nodes(i):
            locked.setdefault((type(n).__name__, n.name), n)
    for n in nodes(output):
        if n.is_locked:
            key = (type(n).__name__, n.name)
            if key in locked and locked[key] is not n:
                bad.append(f"{key[0]} {key[1]!r} reappears as a different object"
                           + (" with a different upstream tree" if locked[key] != n else ""))
    return bad


def already_materialized(rel):
    """A leaf or a materialization, possibly seen through markers that stay in the same engine (the SQL engine's SELECT
    wrapper).  Decided here, independently of Materialization.simplify."""
    r = rel
    while True:
        if isinstance(r, (dr.Materialization, dr.LeafRelation)):
            return True
        if isinstance(r, dr.MarkerRelation) and r.target.engine == r.engine:
            r = r.target
            continue
        return False


STATS = {"content_compared": 0}


def content_kept(pin, pout, rin, rout, w):
    """A transfer / materialization call returns a relation with the content of its input: same columns, and — executed
    from fresh builds of the two programs, each through a real Processor on SQLite — the same rows as far as the order of
    the input is determined.  -> problem text, None (compared, fine) or False (not comparable)."""
    import ordering
    if set(rout.columns) != set(rin.columns):
        return f"columns changed from {sorted(map(str, rin.columns))} to {sorted(map(str, rout.columns))}"
    try:
        w1, w2 = mp.World(), mp.World()
        a, _p, _t = mp.execute(w1, mp.build_impl(pin, w1))
        b, _p, _t = mp.execute(w2, mp.build_impl(pout, w2))
        st = max(ordering.state(enc.dtree(rin, w.reg)), ordering.state(enc.dtree(rout, w.reg)))
    except Exception:  # noqa: BLE001 — refusals and execution failures are C08/C14's concern
        return False
    key = lambda r: sorted((str(k), v) for k, v in r.items())  # noqa: E731
    if st == ordering.EXACT and a != b:
        return f"rows changed: {a} -> {b}"
    if st <= ordering.BAG and sorted(map(key, a)) != sorted(map(key, b)):
        return f"rows changed (as a multiset): {a} -> {b}"
    if st <= ordering.COUNT and len(a) != len(b):
        return f"row count changed: {len(a)} -> {len(b)}"
    return None


def steps(p):
    """Every factory call of the program with the programs of its inputs."""
    k = p[0]
    if k == "leaf":
        return []
    if k == "chain":
        return steps(p[1]) + steps(p[2]) + [([p[1], p[2]], p)]
    if k == "join":
        return steps(p[4]) + steps(p[5]) + [([p[4], p[5]], p)]
    return steps(p[-1]) + [([p[-1]], p)]


def build_memo(p, w, memo):
    key = id(p)
    if key not in memo:
        k = p[0]
        if k == "leaf":
            memo[key] = mp.build_impl(p, w)
        else:
            # rebuild this node from the memoised children so that object identities are shared
            if k == "un":
                memo[key] = mp.apply_un(build_memo(p[3], w, memo), p[1], p[2], w)
            elif k == "item":
                memo[key] = build_memo(p[4], w, memo)[slice(p[1], p[2], p[3])]
            elif k == "chain":
                memo[key] = build_memo(p[1], w, memo).chain(build_memo(p[2], w, memo))
            elif k == "join":
                memo[key] = build_memo(p[4], w, memo).join(build_memo(p[5], w, memo),
                                                           None if p[1] is None else enc.ipred(p[1]), backtrack=p[2], transfer=p[3])
            elif k == "mat":
                name = f"M{p[1]}"
                w.reg.names[name] = p[1]
                memo[key] = build_memo(p[2], w, memo).materialized(name=name)
            elif k == "xfer":
                memo[key] = build_memo(p[2], w, memo).transferred_to(w.engine(p[1]))
    return memo[key]


def make_cases(rng, tier):
    n = 500 if tier == "quick" else 8000
    cases, bad = [], []
    forced = []
    k1, k2 = K(1), K(2)
    for src in mp.ENGINES:
        for mid in mp.ENGINES:
            if mid == src:
                continue
            # a materialization right above a transfer (only markers in between), then calls that prefer the engine the
            # transfer left: nothing may be inserted below the locked node
            leaf = ("leaf", 1, src, [k1, k2], [{k1: 1, k2: 2}, {k1: 3, k2: 4}], (0, None))
            locked = ("mat", 7, ("xfer", mid, leaf))
            other = ("leaf", 2, src, [k1], [{k1: 1}], (0, None))
            for bt, tr in ((True, False), (True, True)):
                forced.append(("un", ("sel", ("cmp", "gt", ("ref", k1), ("lit", 0))), (src, bt, tr, False), locked))
                forced.append(("un", ("calc", K(5), ("add", ("ref", k1), ("lit", 1))), (src, bt, tr, False), locked))
                forced.append(("un", ("proj", [k1]), (src, bt, tr, False), locked))
                forced.append(("join", None, bt, tr, locked, other))
    for it in range(n + len(forced)):
        if it < len(forced):
            p = forced[it]
        else:
            p, _c = mp.gen_mprog(rng, rng.choice([2, 3, 4, 5, 7, 9]), p_mat=0.2, p_xfer=0.25, p_opts=0.7)
        w = mp.World()
        memo = {}
        try:
            build_memo(p, w, memo)
        except Exception:  # noqa: BLE001
            pass
        for ins, out in steps(p):
            if id(out) not in memo or any(id(i) not in memo for i in ins):
                continue
            rin, rout = [memo[id(i)] for i in ins], memo[id(out)]
            v = identity_violations(rin, rout)
            if v:
                bad.append({"program": jsonable(out), "problem": v})
            # materializing a leaf / an already materialized relation adds no new materialization
            if out[0] == "mat":
                src = rin[0]
                if already_materialized(src) and sum(isinstance(x, dr.Materialization) for x in nodes(rout)) != \
                        sum(isinstance(x, dr.Materialization) for x in nodes(src)):
                    bad.append({"program": jsonable(out), "problem": ["materializing a locked relation added a materialization"]})
            if out[0] in ("mat", "xfer"):
                why = content_kept(ins[0], out, rin[0], rout, w)
                STATS["content_compared"] += why is not False
                if why:
                    bad.append({"program": jsonable(out), "problem": [why]})
            if out[0] == "xfer" and rout.engine is not w.engine(out[1]):
                bad.append({"program": jsonable(out), "problem": ["transfer result is not in the requested engine"]})
            if out[0] in ("xfer", "un", "item", "mat"):
                # a transfer may only be undone across UNLOCKED markers, and no unary call rewrites what is below a lock:
                # every locked node of the input is still there, as the identical object
                kept = {id(x) for x in nodes(rout)}
                lost = [x for x in locked_nodes(rin[0]) if id(x) not in kept]
                if lost:
                    bad.append({"program": jsonable(out),
                                "problem": [f"locked {type(x).__name__} {x.name!r} of the input is gone from the result" for x in lost[:3]]})
            tin = clist([ctree(enc.dtree(r, w.reg)) for r in rin])
            nlocked = sum(len(locked_nodes(r)) for r in rin)
            cases.append({"json": {"call": jsonable(out)}, "coq": f"LKCase {tin} {ctree(enc.dtree(rout, w.reg))}",
                          "nontrivial": nlocked >= 2 and out[0] in ("un", "join", "item") and out[0] != "leaf", "key": mp.cprog(out)})
    return cases, bad


def materialize_of_locked():
    """materialized() on a leaf or on an already materialized relation returns it without a new materialization — for
    every kind of leaf: with a payload, constructed without one, doomed / join-identity leaves of engines whose trivial
    payloads are None, leaves seen through the SQL engine's SELECT wrapper, and after a transfer there and back."""
    from lsst.daf.relation import iteration, sql
    a = K(1)
    bad = []

    class Bare(iteration.Engine):
        def get_doomed_payload(self, columns):
            return None

        def get_join_identity_payload(self):
            return None
    it, it2, bare, sq = iteration.Engine(name="ml_it"), iteration.Engine(name="ml_it2"), Bare(name="ml_bare"), sql.Engine(name="ml_sql")
    full = it.make_leaf({a}, payload=iteration.RowSequence([{a: 1}]), name="full")
    subjects = [
        ("leaf with a payload", full),
        ("leaf constructed with payload=None", dr.LeafRelation(it, frozenset({a}), payload=None, name="pending")),
        ("doomed leaf whose payload is None", bare.make_doomed_relation({a}, ["x"])),
        ("join-identity leaf whose payload is None", bare.make_join_identity_relation()),
        ("SQL leaf constructed with payload=None, in its SELECT wrapper", sq.conform(dr.LeafRelation(sq, frozenset({a}), payload=None, name="sqlpending"))),
        ("payload-less leaf after a transfer there and back", dr.LeafRelation(it, frozenset({a}), payload=None, name="p2").transferred_to(it2).transferred_to(it)),
        ("an existing materialization", full.with_rows_satisfying(dr.ColumnExpression.reference(a).gt(dr.ColumnExpression.literal(0))).materialized(name="ml_m")),
    ]

    class Tag(dr.MarkerRelation):
        """An unlocked marker defined outside the library (it never changes engine or content)."""
    mat = subjects[-1][1]
    sqleaf = sq.conform(dr.LeafRelation(sq, frozenset({a}), payload=None, name="sqlpending2"))
    subjects += [
        ("a leaf seen through one user marker", Tag(target=full)),
        ("a leaf seen through two stacked user markers", Tag(target=Tag(target=full))),
        ("a leaf seen through three stacked user markers", Tag(target=Tag(target=Tag(target=full)))),
        ("a materialization seen through two stacked user markers", Tag(target=Tag(target=mat))),
        ("a SQL leaf in its SELECT wrapper seen through a user marker", Tag(target=sqleaf)),
        ("a SQL leaf in its SELECT wrapper seen through two user markers", Tag(target=Tag(target=sqleaf))),
    ]
    for what, rel in subjects:
        try:
            out = rel.materialized(name="ml_new")
        except Exception as e:  # noqa: BLE001
            bad.append({"relation": what, "problem": f"materialized() raised {type(e).__name__}"})
            continue
        n_in = sum(isinstance(x, dr.Materialization) for x in nodes(rel))
        n_out = sum(isinstance(x, dr.Materialization) for x in nodes(out))
        if n_out != n_in:
            bad.append({"relation": what, "input": str(rel), "returned": str(out), "problem": "materializing it added a materialization"})
    return len(subjects), bad


def round_trips():
    """A relation of an iteration engine transferred to another engine (an iteration engine, an SQL engine) and straight
    back: the result has the rows of the original, in the original's order (the there-and-back pair is elided, so the
    content never passes through the other engine) — whatever operation the relation ends in."""
    from lsst.daf.relation import iteration, sql
    a, b = K(1), K(2)
    it0, it1, sq = iteration.Engine(name="rt_it0"), iteration.Engine(name="rt_it1"), sql.Engine(name="rt_sql")
    leaf = it0.make_leaf({a, b}, payload=iteration.RowSequence([{a: 1, b: 5}, {a: 3, b: 1}, {a: 2, b: 5}, {a: 3, b: 1}]), name="rtL")
    E = dr.ColumnExpression
    srt = leaf.sorted([dr.SortTerm(E.reference(a), ascending=False)])
    subjects = [("a leaf", leaf), ("a sort", srt), ("a sort by two terms", leaf.sorted([dr.SortTerm(E.reference(b)), dr.SortTerm(E.reference(a))])),
                ("a selection over a sort", srt.with_rows_satisfying(E.reference(a).gt(E.literal(1)))),
                ("a window of a sort", srt[1:3]), ("a deduplication of a sort", srt.without_duplicates()),
                ("a projection of a sort", srt.with_only_columns({a})), ("a sort of a chain", leaf.chain(leaf).sorted([dr.SortTerm(E.reference(b))]))]
    bad = []
    for what, rel in subjects:
        want = [dict(r) for r in it0.execute(rel)]
        for other in (it1, sq):
            try:
                back = rel.transferred_to(other).transferred_to(it0)
                got = [dict(r) for r in it0.execute(back)]
            except Exception as e:  # noqa: BLE001
                bad.append({"relation": what, "via": str(other), "problem": f"round trip raised {type(e).__name__}: {e}"})
                continue
            if got != want:
                bad.append({"relation": what, "tree": str(rel), "via": str(other), "returned": str(back), "rows": jsonable(got),
                            "rows_of_the_original": jsonable(want), "problem": "a transfer there and back changed the content"})
    return 2 * len(subjects), bad


def run(ctx):
    rng = random.Random(ctx.seed)
    s1 = core.s1(ctx, ["Slice"], "Properties.C15", THEOREMS, extra_targets=["Model/CheckStruct.vo"])
    cases, bad = make_cases(rng, ctx.tier)
    found = False
    nml, mlbad = materialize_of_locked()
    nrt, rtbad = round_trips()
    for b in bad[:3] + mlbad[:2] + rtbad[:2]:
        found |= ctx.failing_case({"kind": "locked-node-or-simplification", "case": b}, None)
    bits = {4: "a locked node (leaf or materialization) of an input reappears in the output with a different upstream tree"}
    summ = core.judge(ctx, cases, HDR, "check_locked", bits=bits)
    found |= summ["spec_failures"] > 0
    core.conclude_s1(ctx, s1, found or bool(ctx.violations))
    ctx.coverage.update({
        "evaluations": len(cases), "distinct_nontrivial": len({c["key"] for c in cases if c["nontrivial"]}),
        "rule": "every factory call inside random multi-engine programs rich in transfers and materializations (objects are "
                "shared between a call's input and output): locked nodes are compared by Python identity, materialization "
                "counts and result engines are checked, and the structural form of the same claim is evaluated in Coq on the "
                "real trees; non-trivial = a unary/join call over an input with at least two locked nodes",
        "transfer_and_materialize_calls_whose_content_was_compared": STATS["content_compared"],
        "traces_validated_against_impl": summ["evaluated"], "judgement": summ, "python_side_problems": len(bad),
        "samples": [cases[0]["json"], cases[-1]["json"]],
    })
    ctx.assumptions += ["content preservation of the simplifications is covered by the content theorems (markers are transparent "
                        "in the denotation) and by C03/C07's processed-rows comparison"]


def replay(ctx, path):
    print(json.dumps(json.load(open(path)), indent=1)[:4000])
    return 0
