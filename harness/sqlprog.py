"""SQL-engine programs for C02 / C08 / C11: generation with order-determined slices, execution on a real
SQLite database under both physical scan orders."""
from __future__ import annotations

import gen
import multiprog as mp
from enc import K, N

SQL = ("sql", 0)


def total_sort_terms(rng, cols):
    """Sort terms that order the rows totally (up to identical rows): every column appears."""
    keys = [c for c in sorted(cols)]
    rng.shuffle(keys)
    terms = []
    if rng.random() < 0.3 and cols:
        terms.append((gen.gen_expr(rng, cols, 1, need_col=True), rng.random() < 0.5))
    for k in keys:
        terms.append((("ref", k), rng.random() < 0.6))
    return terms


def gen_sqlprog(rng, length, counter=None, cols=None, allow_binary=True, p_slice=0.12):
    """-> (program, columns, ordered): `ordered` = the outermost level ends with a total sort followed only by
    slices (the database must return the rows in that order)."""
    counter = counter if counter is not None else [0]
    counter[0] += 1
    p = mp.gen_leaf(rng, counter[0], cols, SQL, special=0.04)
    cur = set(p[3])
    ordered = False
    for _ in range(length):
        r = rng.random()
        if allow_binary and r < 0.10 and not ordered:
            q, _c, _o = gen_sqlprog(rng, rng.choice([0, 1, 2]), counter, cols=sorted(cur), allow_binary=False, p_slice=0.05)
            # bring the other operand to the same columns
            if set(_c) != cur:
                q = ("un", ("proj", sorted(cur & set(_c))), mp.DEFAULT, q)
                if cur - set(_c):
                    continue
                if (cur & set(_c)) != cur:
                    continue
            p = ("chain", p, q) if rng.random() < 0.5 else ("chain", q, p)
        elif allow_binary and r < 0.22 and not ordered:
            counter[0] += 1
            shared = {c for c in cur if rng.random() < 0.6}
            extra = set()
            for _i in range(rng.choice([0, 1, 1, 2])):
                extra.add(gen.fresh_tag(rng, cur | extra))
            ocols = shared | extra
            other = mp.gen_leaf(rng, counter[0], sorted(ocols), SQL, special=0.08)
            if rng.random() < 0.35:
                # hide a shared column behind a projection (the hidden-collision shape)
                keep = {c for c in ocols if rng.random() < 0.6}
                other = ("un", ("proj", sorted(keep)), mp.DEFAULT, other)
                ocols = keep
            pred = gen.gen_pred(rng, cur | ocols, 1) if rng.random() < 0.4 and (cur | ocols) else None
            p = ("join", pred, True, False, p, other) if rng.random() < 0.5 else ("join", pred, True, False, other, p)
            cur = cur | ocols
        elif r < 0.22 + p_slice:
            # an order-determined slice: a total sort immediately followed by the slice
            terms = total_sort_terms(rng, cur)
            a, b = gen.gen_slice(rng)
            p = ("un", ("sort", terms), mp.DEFAULT, p)
            p = ("un", ("slice", a, b), mp.DEFAULT, p) if rng.random() < 0.6 else ("item", a or None, b, None, p)
            ordered = True
        elif r < 0.22 + p_slice + 0.06 and ordered:
            a, b = gen.gen_slice(rng)
            p = ("un", ("slice", a, b), mp.DEFAULT, p)
        else:
            o, new = gen.gen_op(rng, cur, weights=[3, 2, 3, 3, 0, 1])
            if o[0] == "sort":
                o = ("sort", total_sort_terms(rng, cur) if rng.random() < 0.7 else o[1])
                ordered = bool(o[1]) and all(any(t[0] == ("ref", k) for t in o[1]) for k in cur)
            elif o[0] in ("proj", "calc", "sel", "dedup"):
                # projections that keep all key sort columns, calculations and selections keep the order; we
                # conservatively stop claiming an order after anything but a slice
                ordered = False
            p = ("un", o, mp.DEFAULT, p)
            cur = set(new)
    return p, cur, ordered


def execute_both(w, rel):
    """Rows under both physical scan orders of SQLite."""
    a, _pa, _ra = mp.execute(w, rel, reverse=False)
    b, _pb, _rb = mp.execute(w, rel, reverse=True)
    return a, b


def windowed_then_op(rng):
    """A window [start, stop) of a total order taken at every kind of query level — a plain table, a UNION / UNION ALL,
    a level whose projection hides a column — with the window strictly inside the input (so that it depends on the
    order), followed by one or two operations of every kind (a calculation that re-creates the hidden column included).
    -> (program, columns); the multiset of rows is determined."""
    a, b, c = K(1), K(2), K(3)
    cols = [a, b, c]
    def rows(n):
        vals = [(x, y, z) for x in (1, 2, 3) for y in (10, 20) for z in (5, 6)]
        rng.shuffle(vals)
        out = vals[:n]
        if dup:
            out = out + [rng.choice(out) for _ in range(rng.choice([1, 2, 3]))]   # duplicate rows: they matter to DISTINCT + OFFSET
            rng.shuffle(out)
        return [dict(zip(cols, v)) for v in out]
    dup = rng.random() < 0.4
    l1 = ("leaf", 1, SQL, sorted(cols), rows(rng.choice([3, 4, 5])), (0, None))
    l2 = ("leaf", 2, SQL, sorted(cols), rows(rng.choice([2, 3, 4])), (0, None))
    shape = rng.choice(["chain", "chain", "hidden", "hidden", "plain", "chain_dedup"])
    p, cur = l1, set(cols)
    if shape in ("chain", "chain_dedup"):
        p = ("chain", l1, l2) if rng.random() < 0.5 else ("chain", l2, l1)
        if shape == "chain_dedup":
            p = ("un", ("dedup",), mp.DEFAULT, p)
    elif shape == "hidden":
        cur = {a, b}
        p = ("un", ("proj", sorted(cur)), mp.DEFAULT, p)
    terms = [(("ref", k), rng.random() < 0.5) for k in rng.sample(sorted(cur), len(cur))]
    p = ("un", ("sort", terms), mp.DEFAULT, p)
    start = rng.choice([0, 0, 1, 2]) if dup else rng.choice([0, 0, 1])
    p = ("un", ("slice", start, start + rng.choice([1, 1, 2] if dup else [1, 2])), mp.DEFAULT, p)
    if dup and rng.random() < 0.6:
        p = ("un", ("dedup",), mp.DEFAULT, p)
        if rng.random() < 0.5:
            return p, cur
    if rng.random() < 0.25 and len(terms) >= 2:
        # the window re-sorted by the SAME terms in another order (a total order again), then a second window
        again = terms[1:] + terms[:1] if rng.random() < 0.5 else list(reversed(terms))
        p = ("un", ("sort", again), mp.DEFAULT, p)
        b0 = rng.choice([0, 0, 1])
        p = ("un", ("slice", b0, b0 + 1), mp.DEFAULT, p)
        return p, cur
    for _ in range(rng.choice([1, 1, 2])):
        k = rng.choice(["calc", "calc", "sel", "proj", "dedup", "sort", "slice"])
        if k == "calc":
            t = c if (shape == "hidden" and c not in cur and rng.random() < 0.7) else gen.fresh_tag(rng, cur | set(cols))
            o = ("calc", t, gen.gen_expr(rng, cur, 1, need_col=True))
            cur = cur | {t}
        elif k == "sel":
            o = ("sel", gen.gen_pred(rng, cur, 1))
        elif k == "proj":
            keep = {x for x in cur if rng.random() < 0.6} or {sorted(cur)[0]}
            o, cur = ("proj", sorted(keep)), keep
        elif k == "dedup":
            o = ("dedup",)
        elif k == "sort":
            o = ("sort", total_sort_terms(rng, cur))
        else:
            o = ("slice", 0, 5)
        p = ("un", o, mp.DEFAULT, p)
    return p, cur


def fixed_window_cases():
    """A deterministic sweep (no random choices): a window [start, start+width) of a total order at a plain, UNION ALL,
    UNION and hidden-column level over tables with repeated rows, followed by each kind of operation.  -> programs whose
    multiset of rows is determined."""
    a, b, c = K(1), K(2), K(3)
    A = ("leaf", 1, SQL, [a, b, c], [{a: 1, b: 10, c: 5}, {a: 1, b: 10, c: 5}, {a: 2, b: 20, c: 6}, {a: 3, b: 10, c: 5}, {a: 2, b: 20, c: 6}], (0, None))
    B = ("leaf", 2, SQL, [a, b, c], [{a: 1, b: 10, c: 5}, {a: 4, b: 20, c: 6}], (0, None))
    out = []
    for shape in ("plain", "chain", "union", "hidden"):
        base, cur = A, [a, b, c]
        if shape == "chain":
            base = ("chain", A, B)
        elif shape == "union":
            base = ("un", ("dedup",), mp.DEFAULT, ("chain", A, B))
        elif shape == "hidden":
            base, cur = ("un", ("proj", [a, b]), mp.DEFAULT, A), [a, b]
        terms = [(("ref", x), True) for x in cur]
        for start, width in ((0, 1), (1, 1), (2, 1), (1, 2), (3, 1)):
            w = ("un", ("slice", start, start + width), mp.DEFAULT, ("un", ("sort", terms), mp.DEFAULT, base))
            ops = [("dedup",), ("sel", ("cmp", "ge", ("ref", a), ("lit", 2))), ("calc", c if shape == "hidden" else K(7), ("add", ("ref", a), ("ref", b))),
                   ("proj", [b])]
            for o in ops:
                out.append(("un", o, mp.DEFAULT, w))
            again = list(reversed(terms))
            out.append(("un", ("slice", 0, 1), mp.DEFAULT, ("un", ("sort", again), mp.DEFAULT, w)))
    return out


def compound_order_cases(rng):
    """Orders at compound (UNION / UNION ALL / DISTINCT) query levels: (1) an unsliced sort by plain columns re-sorted by
    a total order that starts with a general expression — the engine may refuse (row-order loss) but must not return
    other rows; (2) a window of a total order followed by a projection that drops the leading sort key.  Each ends in a
    window, so the multiset of rows depends on the order.  -> (program, columns)"""
    a, b = K(1), K(2)
    vals = [(x, y) for x in (1, 2, 3, 4) for y in (5, 6, 7)]
    rng.shuffle(vals)
    l1 = ("leaf", 1, SQL, [a, b], [{a: x, b: y} for x, y in vals[:4]], (0, None))
    l2 = ("leaf", 2, SQL, [a, b], [{a: x, b: y} for x, y in vals[4:7]], (0, None))
    base = rng.choice([("chain", l1, l2), ("un", ("dedup",), mp.DEFAULT, ("chain", l1, l2)), ("un", ("dedup",), mp.DEFAULT, l1)])
    if rng.random() < 0.3:
        # a sort by a column that a projection then hides, DISTINCT, a re-sort by a kept column that has ties (the hidden
        # order still breaks them), and a window
        c = K(3)
        rows = [{a: i // 2, b: 9 - i, c: 10 * (i + 1)} for i in range(4)]
        if rng.random() < 0.5:
            rows = list(reversed(rows))
        t = ("leaf", 1, SQL, [a, b, c], rows, (0, None))
        p = ("un", ("sort", [(("ref", b), rng.random() < 0.5)]), mp.DEFAULT, t)
        p = ("un", ("proj", [a, c]), mp.DEFAULT, p)
        p = ("un", ("dedup",), mp.DEFAULT, p)
        p = ("un", ("sort", [(("ref", a), True)]), mp.DEFAULT, p)
        p = ("un", ("slice", 0, rng.choice([1, 3])), mp.DEFAULT, p)
        return p, {a, c}
    if rng.random() < 0.5:
        first = [(("ref", a), True), (("ref", b), rng.random() < 0.5)]
        second = [(("neg", ("ref", b)), True), (("ref", a), rng.random() < 0.5)]
        p = ("un", ("sort", second), mp.DEFAULT, ("un", ("sort", first), mp.DEFAULT, base))
        p = ("un", ("slice", 0, rng.choice([1, 2, 3])), mp.DEFAULT, p)
        return p, {a, b}
    key, other = rng.choice([(a, b), (b, a)])
    terms = [(("ref", key), rng.random() < 0.5), (("ref", other), True)]
    p = ("un", ("sort", terms), mp.DEFAULT, base)
    start = rng.choice([0, 1, 2])
    p = ("un", ("slice", start, start + rng.choice([1, 2])), mp.DEFAULT, p)
    p = ("un", ("proj", [other]), mp.DEFAULT, p)
    return p, {other}


def self_join(rng):
    """A relation joined with itself, or with another relation built over the same table: the bare table, equal trees
    built twice, one side filtered / windowed / deduplicated, a three-way join meeting the table again.  Rows repeat, so
    a row occurring k times must come out k*k times."""
    a, b, c = K(1), K(2), K(3)
    rows = [{a: 1, b: 1}, {a: 1, b: 1}, {a: 2, b: 2}] + ([{a: 2, b: 2}] if rng.random() < 0.4 else [])
    A = ("leaf", 1, SQL, [a, b], rows, (0, None))
    B = ("leaf", 2, SQL, [a, c], [{a: 1, c: 7}, {a: 2, c: 8}], (0, None))
    def dress(x):
        r = rng.random()
        if r < 0.3:
            return x
        if r < 0.5:
            return ("un", ("sel", ("cmp", "ge", ("ref", a), ("lit", rng.choice([0, 2])))), mp.DEFAULT, x)
        if r < 0.7:
            return ("un", ("slice", 0, rng.choice([3, 4])), mp.DEFAULT, ("un", ("sort", [(("ref", a), True), (("ref", b), True)]), mp.DEFAULT, x))
        if r < 0.85:
            return ("un", ("dedup",), mp.DEFAULT, x)
        return ("un", ("calc", N(5), ("add", ("ref", a), ("lit", 1))), mp.DEFAULT, x)
    shape = rng.choice(["same", "same", "dressed", "dressed", "three_l", "three_r", "doomed"])
    if shape == "doomed":
        # the engine's own doomed relation (its payload is a subquery, not a table) on both sides
        D = ("leaf", 3, SQL, [a, b], [], (0, 0), "doomed")
        return ("join", None, True, False, D, ("un", ("calc", N(5), ("neg", ("ref", b))), mp.DEFAULT, D))
    if shape == "same":
        x = dress(A)
        return ("join", None, True, False, x, x)
    if shape == "dressed":
        return ("join", None, True, False, dress(A), dress(A))
    if shape == "three_l":
        return ("join", None, True, False, ("join", None, True, False, A, B), dress(A))
    return ("join", None, True, False, dress(A), ("join", None, True, False, B, A))


def mutual_hidden_join(rng):
    """A join of two projected relations each of which hides a column the other one shows (and, sometimes, only one of
    them does): every output column must come from the operand that shows it."""
    k, x, y = K(1), N(1), N(2)
    cols = [k, x, y]
    def rows(sign):
        return [{k: i, x: sign * (10 * i + rng.choice((1, 2))), y: sign * (100 * i + rng.choice((1, 2)))} for i in rng.sample([1, 2, 3], rng.choice([2, 3]))]
    A = ("leaf", 1, SQL, sorted(cols), rows(1), (0, None))
    B = ("leaf", 2, SQL, sorted(cols), rows(-1), (0, None))
    ka, kb = rng.choice([([k, y], [k, x]), ([k, x], [k, y]), ([k], [k, x]), ([k, y], [k]), ([k, x, y], [k])])
    l = ("un", ("proj", sorted(ka)), mp.DEFAULT, A)
    r = ("un", ("proj", sorted(kb)), mp.DEFAULT, B)
    if rng.random() < 0.2:
        l = ("un", ("sel", ("cmp", "ge", ("ref", k), ("lit", 1))), mp.DEFAULT, l)
    p = ("join", None, True, False, l, r) if rng.random() < 0.5 else ("join", None, True, False, r, l)
    return p


def dedup_then_project(rng):
    """A deduplication (DISTINCT / UNION) followed by a projection that drops a column on which surviving rows still
    differ: over a leaf, a chain, a join; with sorts and slices around.  The projection must NOT be moved below the
    deduplication."""
    a, b, c = K(1), K(2), N(1)
    cols = [a, b] if rng.random() < 0.6 else [a, b, c]
    def rows():
        out = []
        for _ in range(rng.choice([2, 3, 4])):
            r = {a: rng.choice([1, 1, 2]), b: rng.choice([10, 20, 30])}
            if c in cols:
                r[c] = 100 + r[a] + r[b]
            out.append(r)
        return out
    l1 = ("leaf", 1, SQL, sorted(cols), rows(), (0, None))
    l2 = ("leaf", 2, SQL, sorted(cols), rows(), (0, None))
    shape = rng.choice(["chain", "chain", "leaf", "chain3"])
    p = l1 if shape == "leaf" else ("chain", l1, l2)
    if rng.random() < 0.3:
        p = ("un", ("sel", ("cmp", "ge", ("ref", a), ("lit", 1))), mp.DEFAULT, p)
    p = ("un", ("dedup",), mp.DEFAULT, p)
    if rng.random() < 0.3:
        p = ("un", ("slice", 0, 5), mp.DEFAULT, ("un", ("sort", total_sort_terms(rng, set(cols))), mp.DEFAULT, p))
    keep = [a] if rng.random() < 0.7 else [x for x in cols if x != b]
    p = ("un", ("proj", sorted(keep)), mp.DEFAULT, p)
    if rng.random() < 0.12:
        p = ("un", ("dedup",), mp.DEFAULT, p)
    return p


def sorted_then_sequences(full):
    """Deterministic: a sort by a column, then every sequence of up to three (with ``full``: four) operations drawn from two
    nested projections (the first drops the sort column), deduplication, slice, calculation and selection — plus the
    four-operation sequences holding projection, deduplication, smaller projection in that order."""
    import itertools
    a, b, c, n1 = K(1), K(2), K(3), N(1)
    ops = {"P2": ("proj", [a, b]), "P1": ("proj", [a]), "D": ("dedup",), "S": ("slice", 0, 2),
           "C": ("calc", n1, ("add", ("ref", a), ("lit", 1))), "F": ("sel", ("cmp", "ge", ("ref", a), ("lit", 0)))}

    def has_sub(seq, sub):
        it = iter(seq)
        return all(x in it for x in sub)
    seqs = [q for k in (1, 2, 3) for q in itertools.product(ops, repeat=k)]
    seqs += [q for q in itertools.product(ops, repeat=4) if full or has_sub(q, ("P2", "D", "P1"))]
    leaf = ("leaf", 1, SQL, [a, b, c], [{a: 1, b: 2, c: 3}, {a: 1, b: 2, c: 1}, {a: 0, b: 5, c: 2}], (0, None))
    out = []
    for i, q in enumerate(seqs):
        terms = [(("ref", c), False)] if i % 2 == 0 else [(("ref", c), False), (("ref", a), True)]
        p, cur, ok = ("un", ("sort", terms), mp.DEFAULT, leaf), {a, b, c}, True
        for o in q:
            if o in ("P2", "P1"):
                ok &= set(ops[o][1]) <= cur
                cur = set(ops[o][1])
            elif o == "C":
                ok &= a in cur and n1 not in cur
                cur = cur | {n1}
            elif o == "F":
                ok &= a in cur
            p = ("un", ops[o], mp.DEFAULT, p)
        if ok:
            out.append(p)
    # the same over a UNION ALL of two tables (the sort keys are all distinct, so windows are determined): every
    # sequence of up to two operations, and the longer ones that hold a window followed by a projection
    leafa = ("leaf", 3, SQL, [a, b, c], [{a: 1, b: 2, c: 3}, {a: 4, b: 2, c: 1}, {a: 0, b: 5, c: 2}], (0, None))
    leaf2 = ("leaf", 2, SQL, [a, b, c], [{a: 2, b: 2, c: 5}, {a: 3, b: 1, c: 4}], (0, None))
    for i, q in enumerate(seqs):
        if not (len(q) <= 2 or (len(q) == 3 and (has_sub(q, ("S", "P1")) or has_sub(q, ("S", "P2"))))):
            continue
        for terms in ([(("ref", a), True)], [(("ref", c), False)]):      # a sort the projections keep / drop
            p, cur, ok = ("un", ("sort", terms), mp.DEFAULT, ("chain", leafa, leaf2)), {a, b, c}, True
            for o in q:
                if o in ("P2", "P1"):
                    ok &= set(ops[o][1]) <= cur
                    cur = set(ops[o][1])
                elif o == "C":
                    ok &= a in cur and n1 not in cur
                    cur = cur | {n1}
                elif o == "F":
                    ok &= a in cur
                p = ("un", ops[o], mp.DEFAULT, p)
            if ok:
                out.append(p)
    return out


def op_sequences(full=False, leaf_engine=SQL, xfer_to=None):
    """Deterministic: every well-typed sequence of up to three operations (with ``full``: four) drawn from deduplication,
    two nested projections (the second drops the sort column), a descending sort, a window and a selection — plus the
    four-operation sequences that hold a deduplication, a sort and the narrow projection — over a three-column leaf
    (optionally transferred to another engine first)."""
    import itertools
    a, b, c = K(1), K(2), K(3)
    ops = {"D": ("dedup",), "Pac": ("proj", [a, c]), "Pa": ("proj", [a]), "Sc": ("sort", [(("ref", c), False)]),
           "W": ("slice", 0, 2), "F": ("sel", ("cmp", "ge", ("ref", a), ("lit", 0)))}
    need = {"D": set(), "Pac": {a, c}, "Pa": {a}, "Sc": {c}, "W": set(), "F": {a}}
    seqs = [q for k in (1, 2, 3) for q in itertools.product(ops, repeat=k)]
    seqs += [q for q in itertools.product(ops, repeat=4) if full or {"D", "Sc", "Pa"} <= set(q)]
    leaf = ("leaf", 1, leaf_engine, [a, b, c], [{a: 1, b: 2, c: 3}, {a: 1, b: 2, c: 1}, {a: 0, b: 5, c: 2}, {a: 1, b: 2, c: 3}], (0, None))
    base = leaf if xfer_to is None else ("xfer", xfer_to, leaf)
    out = []
    for q in seqs:
        p, cur, ok = base, {a, b, c}, True
        for o in q:
            ok &= need[o] <= cur
            if o in ("Pac", "Pa"):
                cur = set(ops[o][1])
            p = ("un", ops[o], mp.DEFAULT, p)
        if ok:
            out.append(p)
    return out


def self_join_nested():
    """Deterministic: a table read twice in a join of four operands, for every bracketing of the join and either position
    of the second reader (the database needs one of the two readers under a name of its own wherever it sits)."""
    a, b, c, d = K(1), K(2), K(3), K(4)
    V = ("leaf", 1, SQL, [a, b], [{a: 1, b: 2}, {a: 2, b: 3}, {a: 1, b: 2}], (0, None))
    D = ("leaf", 2, SQL, [a, c], [{a: 1, c: 8}, {a: 2, c: 9}], (0, None))
    E = ("leaf", 3, SQL, [a, d], [{a: 1, d: 7}, {a: 2, d: 6}, {a: 2, d: 6}], (0, None))

    def J(x, y):
        return ("join", None, True, False, x, y)

    def brackets(xs):
        if len(xs) == 1:
            return [xs[0]]
        return [J(l, r) for i in range(1, len(xs)) for l in brackets(xs[:i]) for r in brackets(xs[i:])]
    out = []
    for X in (V, D, E):
        again = ("un", ("calc", N(5), ("add", ("ref", a), ("lit", 1))), mp.DEFAULT, X)
        for order in ([V, D, E, again], [again, V, D, E], [V, again, D, E]):
            out += brackets(order)
    return out
