"""C18 — the iteration engine is lazy and single-pass where documented."""
from __future__ import annotations

import json
import random

import lsst.daf.relation as dr
from lsst.daf.relation import iteration

import core
import enc
import iterprog as ip
from enc import cbool, clist, ctree, jsonable

THEOREMS = ["C18_lazy_operations_defer", "C18_single_pass", "C18_eager_results_do_not_reiterate",
            "C18_reiteration_yields_identical_rows"]
HDR = "From DR Require Import Model.CheckLazy.\nOpen Scope Z_scope.\n"


class CountingSequence(iteration.RowSequence):
    def __init__(self, rows):
        super().__init__(rows)
        self.iterations = 0

    def __iter__(self):
        self.iterations += 1
        return super().__iter__()


def build_counting(p, w, counters):
    k = p[0]
    if k == "leaf":
        n, eng, cols, rows = p[1:5]
        name = f"L{n}"
        w.reg.names[name] = n
        payload = counters.setdefault(n, CountingSequence([dict(r) for r in rows]))
        return w.engine(eng).make_leaf(set(cols), payload=payload, name=name)
    if k == "un":
        return ip.apply_un(build_counting(p[2], w, counters), p[1])
    if k == "item":
        return build_counting(p[4], w, counters)[slice(p[1], p[2], p[3])]
    if k == "chain":
        return build_counting(p[1], w, counters).chain(build_counting(p[2], w, counters))
    if k == "mat":
        name = f"M{p[1]}"
        w.reg.names[name] = p[1]
        return build_counting(p[2], w, counters).materialized(name=name)
    if k == "xfer":
        return build_counting(p[2], w, counters).transferred_to(w.engine(p[1]))
    raise ValueError(p)


def snapshot(counters):
    return {n: c.iterations for n, c in counters.items()}


def diff(a, b):
    return [(n, b[n] - a[n]) for n in sorted(b)]


def forced_programs():
    """Every eager operation (sort, deduplication, materialization) directly above every kind of lazy input that has
    zero, one, or several rows — the row count must not change whether the input is consumed at execute() time."""
    import enc as _e
    k = _e.K(1)
    out = []
    for nrows in (0, 1, 2, 3):
        leaf = ("leaf", 1, ("it", 0), [k], [{k: i + 1} for i in range(nrows)])
        sel = ("un", ("sel", ("cmp", "gt", ("ref", k), ("lit", 0))), leaf)
        lazies = [leaf, sel, ("un", ("slice", 0, 1), sel), ("un", ("slice", 1, 2), sel), ("un", ("slice", 0, 1), leaf),
                  ("un", ("calc", _e.K(2), ("add", ("ref", k), ("lit", 1))), leaf), ("chain", sel, sel)]
        zero = [("un", ("proj", []), x) for x in (sel, leaf, ("un", ("slice", 0, 2), sel))]
        for z in zero:         # zero-column inputs: all rows are equal, yet the input is still consumed once, at execute()
            out.append(("un", ("dedup",), z))
            out.append(("mat", 8, z))
            out.append(("un", ("slice", 0, 1), ("un", ("dedup",), z)))
        for t in lazies:
            out.append(("un", ("sort", [(("ref", k), False)]), t))
            out.append(("un", ("dedup",), t))
            out.append(("mat", 9, t))
            out.append(("un", ("slice", 0, 2), ("un", ("sort", [(("ref", k), True)]), t)))
    return out


class CountingMapping(iteration.RowMapping):
    """A mapping-backed leaf payload (rows keyed by their unique key) that counts how often it is read."""

    def __init__(self, unique_key, rows):
        super().__init__(unique_key, rows)
        self.iterations = 0

    def __iter__(self):
        self.iterations += 1
        return super().__iter__()


def mapping_leaf_checks():
    """Lazy operations (projection keeping / dropping the key, selection, calculation, window, chain, and stacks of them)
    over a leaf whose payload is a RowMapping: execute() reads nothing, each full iteration of the result reads the leaf at
    most once, and both iterations give the same rows.  Judged in Python (the model's leaves are row sequences)."""
    import lsst.daf.relation as dr
    a, b, c = enc.K(1), enc.K(2), enc.N(1)
    eng = iteration.Engine(name="ml18")
    E = dr.ColumnExpression
    bad, n = [], 0
    shapes = [("projection keeping the key", lambda r: r.with_only_columns({a, b})),
              ("projection keeping the key and a value", lambda r: r.with_only_columns({a, b, c})),
              ("projection dropping part of the key", lambda r: r.with_only_columns({a, c})),
              ("selection", lambda r: r.with_rows_satisfying(E.reference(a).gt(E.literal(0)))),
              ("calculation", lambda r: r.with_calculated_column(enc.N(2), E.reference(a).method("__neg__"))),
              ("window", lambda r: r[0:2]),
              ("window of a selection of a projection keeping the key", lambda r: r.with_only_columns({a, b}).with_rows_satisfying(E.reference(a).gt(E.literal(0)))[0:2]),
              ("projection keeping the key of a selection", lambda r: r.with_rows_satisfying(E.reference(a).gt(E.literal(0))).with_only_columns({a, b})),
              ("chain with itself of a projection keeping the key", lambda r: r.with_only_columns({a, b}).chain(r.with_only_columns({a, b})))]
    for what, f in shapes:
        payload = CountingMapping((a, b), {(i, 2 * i): {a: i, b: 2 * i, c: 7 + i} for i in range(4)})
        leaf = eng.make_leaf({a, b, c}, payload=payload, name="ml18L")
        n += 1
        try:
            rel = f(leaf)
            result = eng.execute(rel)
            at_execute = payload.iterations
            rows1 = [dict(r) for r in result]
            after1 = payload.iterations
            rows2 = [dict(r) for r in result]
            after2 = payload.iterations
        except Exception as e:  # noqa: BLE001
            bad.append({"operation": what, "problem": f"raised {type(e).__name__}: {e}"})
            continue
        if at_execute != 0 or after1 > 2 or after2 > 4 or rows1 != rows2 or (what.startswith("chain") is False and (after1 > 1 or after2 > 2)):
            bad.append({"operation": what, "tree": str(rel), "leaf_reads_during_execute": at_execute, "after_first_iteration": after1,
                        "after_second_iteration": after2, "same_rows": rows1 == rows2,
                        "problem": "a tree of lazy operations over a mapping-backed leaf read the leaf at execute() time, or more than once per iteration"})
    return n, bad


def one_case(rng, lazy_only, p=None):
    weights = [3, 0, 3, 3, 3, 0] if lazy_only else [2, 3, 2, 2, 3, 3]
    if p is None:
        p, _ = ip.gen_prog(rng, rng.choice([1, 2, 3, 4, 6]), weights=weights, allow_markers=not lazy_only)
    w = ip.World()
    counters = {}
    try:
        rel = build_counting(p, w, counters)
    except Exception:  # noqa: BLE001
        return None
    s0 = snapshot(counters)
    try:
        result = rel.engine.execute(rel)
        s1 = snapshot(counters)
        rows1 = [dict(r) for r in result]
        s2 = snapshot(counters)
        rows2 = [dict(r) for r in result]
        s3 = snapshot(counters)
    except Exception:  # noqa: BLE001
        return None
    fmt = lambda d: clist([f"({n}%positive, {c}%nat)" for n, c in d])
    t = enc.cresult("ok", ctree(enc.dtree(rel, w.reg)))
    coq = f"LZCase {ip.cprog(p)} {t} {fmt(diff(s0, s1))} {fmt(diff(s1, s2))} {fmt(diff(s2, s3))} {cbool(rows1 == rows2)}"
    return {"json": {"program": jsonable(p), "during_execute": diff(s0, s1), "first_iteration": diff(s1, s2),
                     "second_iteration": diff(s2, s3), "same_rows": rows1 == rows2},
            "coq": coq, "nontrivial": any(c for _n, c in diff(s0, s3)), "key": ip.cprog(p), "lazy_only": lazy_only}


def run(ctx):
    rng = random.Random(ctx.seed)
    s1 = core.s1(ctx, ["Slice"], "Properties.C18", THEOREMS, extra_targets=["Model/CheckLazy.vo"])
    n = 600 if ctx.tier == "quick" else 12000
    cases = [c for c in (one_case(rng, False, p) for p in forced_programs()) if c is not None]
    n += len(cases)
    while len(cases) < n:
        c = one_case(rng, lazy_only=len(cases) % 2 == 0)
        if c is not None:
            cases.append(c)
    bits = {1: "built tree differs from the model's", 2: "iteration counts exceed the cost model (an upper bound)",
            4: "laziness violated: a lazy tree iterated a leaf at execute time, a leaf occurrence was iterated more than once, "
               "or repeated iteration differed"}
    found = False
    n_map, map_bad = mapping_leaf_checks()
    for b in map_bad[:2]:
        found |= ctx.failing_case({"kind": "mapping-backed-leaf-read-eagerly", "case": b}, None)
    summ = core.judge(ctx, cases, HDR, "check_lazy", bits=bits, found_elsewhere=found)
    core.conclude_s1(ctx, s1, found or summ["spec_failures"] > 0 or bool(ctx.violations))
    ctx.coverage.update({
        "evaluations": len(cases), "distinct_nontrivial": len({c["key"] for c in cases if c["nontrivial"]}),
        "rule": "iteration-engine programs over leaves whose payloads count started iterations; half of the programs use only "
                "the lazy operations (calculation, projection, selection, slice, chain), half mix in sort, deduplication, "
                "materialization and transfers; counts are taken during execute() and during two full iterations of the result",
        "lazy_only_programs": sum(1 for c in cases if c["lazy_only"]),
        "mapping_backed_leaf_shapes_judged_in_python": n_map,
        "traces_validated_against_impl": summ["evaluated"], "judgement": summ,
        "samples": [cases[0]["json"], cases[1]["json"]],
    })
    ctx.assumptions += ["a generator expression calls iter() on its source once per iteration of the wrapper (CPython semantics)"]


def replay(ctx, path):
    print(json.dumps(json.load(open(path)), indent=1)[:4000])
    return 0
