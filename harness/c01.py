"""C01 — the iteration engine executes the applied operation sequence exactly."""
from __future__ import annotations

import itertools
import json
import random

import lsst.daf.relation as dr

import core
import enc
import gen
import iterprog as ip
from c05 import count_un, n_ops
from enc import K, N, jsonable

THEOREMS = ["C01_iteration_execute_exact", "C01_built_tree_denotes_program", "C01_execute_denotes_tree",
            "C01_multipass_sort_is_stable_lexicographic_sort", "C01_dict_deduplication_is_first_occurrence",
            "C01_all_key_rows_are_key_determined"]
FULL_HDR = "From DR Require Import Model.CheckIter.\nOpen Scope Z_scope.\n"
SPEC_HDR = "From DR Require Import Spec.CheckSpec.\nOpen Scope Z_scope.\n"


def small_ops():
    a, b = K(1), K(2)
    return [("dedup",), ("proj", [a]), ("proj", []), ("sel", ("cmp", "lt", ("ref", a), ("lit", 1))),
            ("sel", ("plit", False)), ("slice", 1, None), ("slice", 0, 2), ("slice", 1, 1),
            ("sort", [(("ref", b), False)]), ("sort", [(("ref", a), True), (("ref", b), False)]),
            ("calc", K(3), ("add", ("ref", a), ("ref", b)))]


def exhaustive_programs(maxlen):
    """Every program of length <= maxlen over a fixed two-column leaf from a small operation menu
    (operations whose columns went away are simply rejected by the library: also compared)."""
    a, b = K(1), K(2)
    rows = [{a: 1, b: 0}, {a: 0, b: 1}, {a: 1, b: 0}]
    leaf = ("leaf", 1, ("it", 0), [a, b], rows)
    out = []
    for n in range(maxlen + 1):
        for combo in itertools.product(small_ops(), repeat=n):
            p = leaf
            for o in combo:
                p = ("un", o, p)
            out.append(p)
    return out


def adjacent_slices(rng, tier):
    """leaf[a:b][c:d] (and three in a row) over a 7-row leaf: every window pair with small bounds, including second
    windows that start inside and end beyond the first one (merged at build time by Slice.then)."""
    k = K(1)
    leaf = ("leaf", 1, ("it", 0), [k], [{k: i} for i in range(7)])
    pairs = [(a, b) for a in range(0, 5) for b in list(range(a, 8)) + [None]]
    out = []
    for (a, b) in pairs:
        for (c, d) in pairs:
            out.append(("un", ("slice", c, d), ("un", ("slice", a, b), leaf)))
    if tier == "quick":
        out = rng.sample(out, 220)
    for _ in range(40 if tier == "quick" else 400):
        p = leaf
        for (a, b) in rng.sample(pairs, 3):
            p = ("un", ("slice", a, b), p)
        out.append(p)
    return out


def dedup_twice(rng, n):
    """deduplicate -> (sort | selection | slice | calculation)* -> a projection that drops a column on which the
    surviving rows still differ -> deduplicate: the second deduplication has work to do.  All columns are key columns,
    so every deduplication is within the documented contract."""
    a, b, c = K(1), K(2), K(3)
    out = []
    for _ in range(n):
        cols = [a, b] if rng.random() < 0.6 else [a, b, c]
        rows = [{x: rng.choice((0, 1)) if x == a else rng.choice((0, 1, 5, 6)) for x in cols} for _ in range(rng.choice([4, 5, 6]))]
        p = ("un", ("dedup",), ("leaf", 1, ("it", 0), cols, rows))
        for _k in range(rng.choice([0, 1, 2])):
            kind = rng.choice(["sort", "sel", "slice", "calc"])
            if kind == "sort":
                p = ("un", ("sort", [(("ref", b), rng.random() < 0.5)]), p)
            elif kind == "sel":
                p = ("un", ("sel", ("cmp", "lt", ("ref", b), ("lit", 6))), p)
            elif kind == "slice":
                p = ("un", ("slice", 0, rng.choice([3, 4, None])), p)
            else:
                p = ("un", ("calc", K(7), ("add", ("ref", a), ("lit", 1))), p)
                cols = cols + [K(7)] if K(7) not in cols else cols
        keep = [a] if rng.random() < 0.7 else []
        p = ("un", ("proj", keep), p)
        p = ("un", ("dedup",), p)
        out.append(p)
    return out


def same_name_materializations(rng, n):
    """Two materializations that carry the SAME explicit name over different targets, in one engine and one tree (and a
    second time through a transfer): each denotes its own target."""
    a = K(1)
    out = []
    for _ in range(n):
        rows = [{a: v} for v in rng.sample(range(6), rng.choice([3, 4, 5]))]
        leaf = ("leaf", 1, ("it", 0), [a], rows)
        lo, hi = rng.choice([1, 2, 3]), rng.choice([2, 3, 4])
        m1 = ("mat", 9, ("un", ("sel", ("cmp", "gt", ("ref", a), ("lit", hi))), leaf))
        m2 = ("mat", 9, ("un", ("sel", ("cmp", "lt", ("ref", a), ("lit", lo))), leaf))
        if rng.random() < 0.3:
            m2 = ("xfer", ("it", 1), m2)
            m1 = ("xfer", ("it", 1), m1)
        p = ("chain", m1, m2) if rng.random() < 0.5 else ("chain", m2, m1)
        if rng.random() < 0.4:
            p = ("un", ("sort", [(("ref", a), rng.random() < 0.5)]), p)
        out.append(p)
    return out


def dedup_over_chain_of_dedups(rng, n):
    """deduplicate( deduplicate(x) chain deduplicate(y) ), also with the operands materialized or transferred, and a
    window on top: first-occurrence order of the concatenation."""
    a, b = K(1), K(2)
    out = []
    for _ in range(n):
        def leaf(i):
            rows = [{a: v, b: 10 * v} for v in rng.sample(range(1, 7), rng.choice([2, 3, 4]))]
            return ("leaf", i, ("it", 0), [a, b], rows)
        ops = []
        for i in (1, 2):
            x = ("un", ("dedup",), leaf(i))
            if rng.random() < 0.35:
                x = ("mat", 20 + i, x)
            ops.append(x)
        p = ("un", ("dedup",), ("chain", ops[0], ops[1]))
        if rng.random() < 0.5:
            p = ("un", ("slice", 0, 2), p)
        out.append(p)
    return out


def mixed_value_checks():
    """The integer model says nothing about other value types, so this part is judged in Python: selections, calculations
    and sorts whose operands mix int, float, Fraction and bool values (columns and literals) must give what Python's own
    operators give on the same values — a direct evaluation of the applied operation."""
    import operator
    from fractions import Fraction
    from lsst.daf.relation import iteration
    E = dr.ColumnExpression
    eng = iteration.Engine(name="mv")
    a, f, out = enc.K(1), enc.N(1), enc.N(2)
    rows = [{a: 1, f: 0.5}, {a: 2, f: 2.5}, {a: 3, f: 2.5}, {a: 4, f: 9.0}, {a: 2, f: 2.0}]
    leaf = eng.make_leaf({a, f}, payload=iteration.RowSequence([dict(r) for r in rows]), name="mv_leaf")
    operands = [("a", E.reference(a), lambda r: r[a]), ("f", E.reference(f), lambda r: r[f]), ("2", E.literal(2), lambda r: 2),
                ("2.5", E.literal(2.5), lambda r: 2.5), ("Fraction(5,2)", E.literal(Fraction(5, 2)), lambda r: Fraction(5, 2)),
                ("True", E.literal(True), lambda r: True)]
    bad, n = [], 0

    def show(rs):
        return [{str(k): (v if isinstance(v, (int, float, bool)) else repr(v)) for k, v in r.items()} for r in rs]

    def compare(what, rel_of, expected):
        nonlocal n
        n += 1
        try:
            got = list(eng.execute(rel_of()))
        except Exception as e:  # noqa: BLE001
            got = None
            bad.append({"operation": what, "problem": f"raised {type(e).__name__}: {e}"})
            return
        same = got == expected and all(type(g.get(k)) is type(x.get(k)) for g, x in zip(got, expected) for k in x)
        if not same:
            bad.append({"operation": what, "leaf_rows": show(rows), "library": show(got), "direct_evaluation": show(expected)})
    for nx, ex, px in operands:
        for ny, ey, py in operands:
            if nx[0] not in "af" and ny[0] not in "af":
                continue
            for name in ("eq", "ne", "lt", "le", "gt", "ge"):
                fn = getattr(operator, name)
                compare(f"selection {nx} {name} {ny}", lambda: leaf.with_rows_satisfying(getattr(ex, name)(ey)),
                        [r for r in rows if fn(px(r), py(r))])
            for name in ("add", "sub", "mul"):
                fn = getattr(operator, name)
                meth = f"__{name}__"
                compare(f"calculation {nx} {name} {ny}", lambda: leaf.with_calculated_column(out, ex.method(meth, ey)),
                        [{**r, out: fn(px(r), py(r))} for r in rows])
                compare(f"sort by -({nx} {name} {ny})", lambda: leaf.sorted([dr.SortTerm(ex.method(meth, ey), ascending=False)]),
                        sorted(rows, key=lambda r: fn(px(r), py(r)), reverse=True))
        if nx[0] in "af":
            compare(f"calculation neg {nx}", lambda: leaf.with_calculated_column(out, ex.method("__neg__")), [{**r, out: -px(r)} for r in rows])
    return n, bad


def preferred_engine_checks():
    """Programs over two iteration engines whose last call names a preferred engine (chains of transferred branches, and
    the shapes of multiprog.forced_backtrack_cases restricted to iteration engines): whatever the library did with the
    request while building the tree, executing the result gives the rows — as a list — of the same operation applied at
    the root.  Judged in Python (the single-engine model of this check has no preferred-engine options)."""
    import multiprog as mp
    its = [e for e in mp.ENGINES if e[0] == "it"]
    bad, n = [], 0
    for p in mp.chain_backtrack_cases(its):
        q = ("un", p[1], mp.DEFAULT, p[3])
        (w1, r1, res1), (w2, r2, res2) = mp.run_build(p), mp.run_build(q)
        if r1 is None or r2 is None:
            continue
        n += 1
        try:
            got, want = list(r1.engine.execute(r1)), list(r2.engine.execute(r2))
        except Exception as e:  # noqa: BLE001
            bad.append({"program": jsonable(p), "problem": f"execute raised {type(e).__name__}: {e}"})
            continue
        if got != want:
            bad.append({"program": jsonable(p), "built": str(r1), "rows": jsonable(got), "operation_applied_at_the_root": str(r2),
                        "its_rows": jsonable(want)})
    return n, bad


def make_cases(rng, tier):
    progs = []
    progs += exhaustive_programs(2 if tier == "quick" else 3)
    progs += adjacent_slices(rng, tier)
    progs += dedup_twice(rng, 40 if tier == "quick" else 600)
    progs += same_name_materializations(rng, 30 if tier == "quick" else 400)
    progs += dedup_over_chain_of_dedups(rng, 30 if tier == "quick" else 400)
    import c06
    progs += c06.sort_window_programs()
    n = 500 if tier == "quick" else 20000
    for _ in range(n):
        p, _ = ip.gen_prog(rng, rng.choice([1, 2, 3, 4, 6, 8, 12]))
        progs.append(p)
    cases = []
    for p in progs:
        res = ip.run_impl(p)
        fired = res["tree"][0] == "ok" and count_un(res["tree"][1]) < n_ops(p)
        cases.append({"json": {"program": jsonable(p), "impl": jsonable(res)}, "coq": ip.ccase(p, res),
                      "spec": ip.cspeccase(p, res), "nontrivial": fired or n_ops(p) >= 2, "key": ip.cprog(p),
                      "raised": res["tree"][0] == "err", "exec_raised": (res["rows"] or ("ok",))[0] == "err",
                      "repeat_differs": bool(res.get("repeat_differs"))})
    return cases


def run(ctx):
    rng = random.Random(ctx.seed)
    s1 = core.s1(ctx, ["Slice"], "Properties.C01", THEOREMS, extra_targets=["Model/CheckIter.vo", "Spec/CheckSpec.vo"])
    cases = make_cases(rng, ctx.tier)
    found = False
    # an accepted tree must execute: an exception at execute() is a failure of this property too
    for c in [c for c in cases if c["exec_raised"]][:3]:
        found |= ctx.failing_case({"kind": "execute-raised", "case": c["json"]}, None)
    for c in sorted([c for c in cases if c["repeat_differs"]], key=lambda c: len(json.dumps(c["json"])))[:2]:
        found |= ctx.failing_case({"kind": "second-execution-of-the-same-relation-gave-other-rows", "case": c["json"]}, None)
    n_pref, pref_bad = preferred_engine_checks()
    for b in pref_bad[:2]:
        found |= ctx.failing_case({"kind": "preferred-engine-request-changed-the-rows", "case": b}, None)
    n_mixed, mixed_bad = mixed_value_checks()
    for b in mixed_bad[:2]:
        found |= ctx.failing_case({"kind": "values-of-mixed-numeric-types", "case": b}, None)
    summ = core.judge(ctx, cases, FULL_HDR, "check_iter", SPEC_HDR, "check_spec", model_v="Model/CheckIter.v", found_elsewhere=found)
    found |= summ["spec_failures"] > 0
    core.conclude_s1(ctx, s1, found or bool(ctx.violations))
    distinct = {c["key"] for c in cases if c["nontrivial"]}
    ctx.coverage.update({
        "evaluations": len(cases), "distinct_nontrivial": len(distinct),
        "rule": "programs of factory calls (calculation, projection, selection, deduplication, sort, slice, __getitem__, "
                "chain, materialization, iteration-to-iteration transfer) over random leaves (empty, duplicate rows, "
                "zero-column schemas included); exhaustive over all programs of length <=2 (thorough: 3) from an 11-"
                "operation menu; non-trivial = at least two operations or a merge/elision fired; distinct = program text",
        "traces_validated_against_impl": summ["evaluated"], "judgement": summ,
        "rejected_at_construction": sum(1 for c in cases if c["raised"]),
        "mixed_numeric_type_operations_compared_with_python": n_mixed,
        "preferred_engine_requests_compared_with_root_application": n_pref,
        "samples": [cases[40]["json"]["program"], cases[-1]["json"]["program"]],
    })
    ctx.assumptions += ["deduplication is judged only where rows agreeing on key columns are equal (documented "
                        "ColumnTag.is_key contract); other cases are counted as out_of_domain",
                        "list.sort stability (also with reverse=True), dict insertion order, generator semantics of CPython"]


def replay(ctx, path):
    print(json.dumps(json.load(open(path)), indent=1)[:4000])
    return 0
