"""C19 — generated relation names are unique across all calls and threads."""
from __future__ import annotations

import json
import random
import sys
import threading
import types

import lsst.daf.relation as dr
import lsst.daf.relation._engine as engine_module
from lsst.daf.relation import iteration, sql

import core
from enc import K, jsonable

THEOREMS = ["C19_names_distinct", "C19_name_has_prefix"]
HDR = "From DR Require Import Model.CheckNames.\nFrom Coq Require Import String List NArith.\nImport ListNotations.\nOpen Scope string_scope.\n"


class FakeUuid:
    """Deterministic stand-in for the uuid module (sequential correspondence cases only)."""

    def __init__(self, hexes):
        self.hexes, self.k = hexes, 0

    def uuid4(self):
        h = self.hexes[self.k]
        self.k += 1
        return types.SimpleNamespace(hex=h)

    def __getattr__(self, name):            # everything else is the real module's
        import uuid
        return getattr(uuid, name)


def sequential_case(rng):
    n_eng = rng.choice([1, 2, 3])
    engines = [rng.choice([iteration.Engine, sql.Engine])(name=f"e{i}") for i in range(n_eng)]
    n = rng.choice([1, 2, 3, 5, 8])
    reqs = [(rng.randrange(n_eng), rng.choice(["leaf", "materialization", "x", "tmp_9", "p" * 58, "q" * 70, "tmp_", "tmp__", "__", "stage_1___", "_", "a_b"])) for _ in range(n)]
    hexes = ["".join(rng.choice("0123456789abcdef") for _ in range(32)) for _ in range(n)]
    saved = engine_module.uuid
    engine_module.uuid = FakeUuid(hexes)
    names = []
    try:
        for e, pref in reqs:
            how = rng.choice(["direct", "leaf", "mat"])
            eng = engines[e]
            if how == "direct":
                names.append(eng.get_relation_name(pref))
            elif how == "leaf":
                names.append(dr.LeafRelation(eng, frozenset({K(1)}), payload=object(), name_prefix=pref).name)
            else:
                names.append(materialized_name(eng, pref))
    finally:
        engine_module.uuid = saved
    q = lambda s: '"' + s + '"'
    coq = (f"NCase {n_eng} [{'; '.join(f'({e}, {q(p)})' for e, p in reqs)}] [{'; '.join(q(h) for h in hexes)}] "
           f"[{'; '.join(q(nm) for nm in names)}]")
    return {"json": {"requests": reqs, "uuids": hexes, "names": names}, "coq": coq, "nontrivial": n >= 2, "key": coq}


def threaded_run(rng, n_threads, per_thread):
    """Real threads hammering one or two engines; returns (all names with prefixes, final counters)."""
    engines = [iteration.Engine(name="t0"), sql.Engine(name="t1")]
    out, lock = [], threading.Lock()
    start = threading.Event()

    def work(tid):
        local = []
        r = random.Random(tid)
        start.wait()
        for i in range(per_thread):
            eng = engines[r.randrange(2)]
            pref = f"p{tid}"
            how = r.randrange(3)
            if how == 0:
                local.append((pref, eng.get_relation_name(pref)))
            elif how == 1:
                local.append((pref, dr.LeafRelation(eng, frozenset(), payload=object(), name_prefix=pref).name))
            else:
                local.append((pref, eng.get_relation_name(prefix=pref)))
        with lock:
            out.extend(local)
    old = sys.getswitchinterval()
    sys.setswitchinterval(1e-6)
    try:
        ts = [threading.Thread(target=work, args=(i,)) for i in range(n_threads)]
        for t in ts:
            t.start()
        start.set()
        for t in ts:
            t.join()
    finally:
        sys.setswitchinterval(old)
    return out, [e.relation_name_counter for e in engines]


def same_name_engines(rng):
    """Distinct engine objects that share a name (default-constructed engines, one per thread or per query, are the
    common case): the names they hand out must still be pairwise distinct.  Real uuid4."""
    engines = [iteration.Engine(), iteration.Engine(), sql.Engine(), sql.Engine(),
               iteration.Engine(name="shared"), sql.Engine(name="shared")]
    out = []
    for _ in range(rng.choice([2, 3, 5])):
        for eng in engines:
            pref = rng.choice(["leaf", "materialization", "tmp__", "__x__", "materialization_of_visit_detector_region_overlap_for_patch",
                               "leaf_for_user_supplied_data_ids_constraining_visit_detector_region_and_tract"])
            how = rng.randrange(3)
            if how == 0:
                out.append((pref, eng.get_relation_name(pref)))
            elif how == 1:
                out.append((pref, dr.LeafRelation(eng, frozenset(), payload=object(), name_prefix=pref).name))
            else:
                out.append((pref, materialized_name(eng, pref)))
    return out


def materialized_name(eng, pref):
    """The name of a new materialization requested with a prefix, in either kind of engine."""
    leaf = dr.LeafRelation(eng, frozenset({K(1)}), payload=iteration.RowSequence([]) if isinstance(eng, iteration.Engine) else object(),
                           name="fixed")
    m = leaf.with_rows_satisfying(dr.ColumnExpression.reference(K(1)).eq(dr.ColumnExpression.literal(1))).materialized(name_prefix=pref)
    while not isinstance(m, dr.Materialization):        # the SQL engine wraps it in a SELECT marker
        m = m.target
    return m.name


def request(eng, how, pref):
    if how == "direct":
        return eng.get_relation_name(pref)
    if how == "leaf":
        return dr.LeafRelation(eng, frozenset({K(1)}), payload=object(), name_prefix=pref).name
    return materialized_name(eng, pref)


def forced_interleavings():
    """The schedules the theorem quantifies over, forced deterministically on the real code instead of hoped for: the
    engine's counter attribute is replaced (in a subclass, for this harness only) by a property that can park the calling
    thread at its k-th access; while request A is parked there, m complete requests B run on the same engine; then A
    resumes.  Real uuid4.  -> list of (description, names) in which the names must be pairwise distinct."""
    out = []
    for base in (iteration.Engine, sql.Engine):
        for how_a in ("direct", "leaf", "mat"):
            for how_b in ("direct", "leaf"):
                for pause_at in (1, 2, 3):
                    for m in (1, 2):
                        state = {"n": 0, "a": None}
                        paused, resume = threading.Event(), threading.Event()

                        def hook():
                            if threading.current_thread() is state["a"]:
                                state["n"] += 1
                                if state["n"] == pause_at:
                                    paused.set()
                                    resume.wait(5)

                        class Probe(base):
                            @property
                            def relation_name_counter(self):
                                v = self.__dict__.get("_rnc", 0)
                                hook()
                                return v

                            @relation_name_counter.setter
                            def relation_name_counter(self, v):
                                hook()
                                self.__dict__["_rnc"] = v
                        eng = Probe(name="forced")
                        names = []

                        def run_a():
                            names.append(("a", request(eng, how_a, "a")))
                        t = threading.Thread(target=run_a)
                        state["a"] = t
                        t.start()
                        paused.wait(5)
                        for _ in range(m):
                            names.append(("a", request(eng, how_b, "a")))      # the SAME prefix: only counter and suffix differ
                        resume.set()
                        t.join(5)
                        out.append((f"{base.__module__.split('.')[-2]} engine: request A ({how_a}) parked at its access #{pause_at} "
                                    f"to the counter while {m} request(s) B ({how_b}) complete", names))
    return out


def trivial_materializations():
    """materialized() — no explicit name — of relations that are statically empty or a join identity (but not leaves):
    every call hands out a fresh name."""
    out = []
    for eng in (iteration.Engine(name="tm_it"), sql.Engine(name="tm_sql")):
        payload = iteration.RowSequence([{K(1): 1}]) if isinstance(eng, iteration.Engine) else object()
        leaf = dr.LeafRelation(eng, frozenset({K(1)}), payload, name="tmleaf", min_rows=1, max_rows=1)
        for pref in ("m", "materialization"):
            for rel in (leaf[0:0], leaf[1:1], leaf.with_only_columns(set()), leaf[0:0], leaf.with_only_columns(set())):
                m = rel.materialized(name_prefix=pref)
                while not isinstance(m, dr.Materialization) and hasattr(m, "target"):
                    m = m.target
                if isinstance(m, dr.Materialization):
                    out.append((pref, m.name))
    return out


def factory_leaves():
    """Unnamed leaves made through the engines' own make_leaf, with and without a prefix, over empty and non-empty
    payloads, zero-column ones included; doomed and join-identity relations made without a name are listed with them."""
    import sqlalchemy
    out = []
    it, sq = iteration.Engine(name="fl_it"), sql.Engine(name="fl_sql")
    for rnd in range(3):
        for pref in ("leaf", "tmp", "_x"):
            for cols, rows in (({K(1)}, []), ({K(1)}, [{K(1): 1}]), (set(), []), (set(), [{}]), ({K(1), K(2)}, [])):
                for payload in (iteration.RowSequence(list(rows)), iteration.RowMapping((K(1),), {}) if cols == {K(1)} and not rows else None):
                    if payload is None:
                        continue
                    out.append((pref, it.make_leaf(cols, payload=payload, name_prefix=pref).name))
            table = sqlalchemy.table(f"t{rnd}{pref}", sqlalchemy.column("k1"))
            pl = sql.Payload(from_clause=table, columns_available={K(1): table.c.k1})
            for kw in ({}, {"min_rows": 0, "max_rows": 0}):
                x = sq.make_leaf({K(1)}, payload=pl, name_prefix=pref, **kw)
                while not isinstance(x, dr.LeafRelation):       # the SQL engine may hand it out in a SELECT marker
                    x = x.target
                out.append((pref, x.name))
        out.append(("leaf", it.make_leaf({K(1)}, payload=iteration.RowSequence([])).name))
        out.append(("leaf", it.make_leaf(set(), payload=iteration.RowSequence([])).name))
    return out


def reseeded_application():
    """The application reseeds Python's global random generator (as test suites and simulations do) before each batch of
    requests made on engines of its own: the names must not depend on that generator's state."""
    import random as _random
    state = _random.getstate()
    names = []
    try:
        for k in range(4):
            _random.seed(2024)
            for cls in (iteration.Engine, sql.Engine):
                eng = cls(name=f"reseeded{k}")
                for how in ("direct", "leaf", "mat"):
                    names.append(("tmp", request(eng, how, "tmp")))
    finally:
        _random.setstate(state)
    return names


def engine_turnover():
    """Engines created and dropped one after another (one per query is the common pattern): the names handed out by all
    of them, kept by the caller, must still be pairwise distinct."""
    import gc
    names = []
    for _ in range(40):
        for cls in (iteration.Engine, sql.Engine):
            eng = cls(name="turnover")
            names.append(("leaf", eng.get_relation_name("leaf")))
            names.append(("leaf", request(eng, "leaf", "leaf")))
            del eng
            gc.collect()
    return names


def run(ctx):
    rng = random.Random(ctx.seed)
    s1 = core.s1(ctx, ["Names"], "Properties.C19", THEOREMS, extra_targets=["Model/CheckNames.vo"])
    n = 200 if ctx.tier == "quick" else 3000
    cases = []
    for _ in range(n):
        try:
            cases.append(sequential_case(rng))
        except Exception as e:  # noqa: BLE001 — the deterministic uuid stand-in no longer fits the code
            s1["ok"] = False
            s1["broken"].append({"kind": "model-implementation-correspondence-broken",
                                 "explanation": f"sequential name histories cannot be replayed: {e!r}"})
            break
    found = False
    rounds = 3 if ctx.tier == "quick" else 20
    total, lost_updates = 0, 0
    for k in range(rounds):
        names, counters = threaded_run(rng, 8, 400 if ctx.tier == "quick" else 2000)
        total += len(names)
        lost_updates += len(names) - sum(counters)
        just = [nm for _p, nm in names]
        if len(set(just)) != len(just) or any(not nm.startswith(p + "_") for p, nm in names):
            dup = [x for x in just if just.count(x) > 1][:4]
            found |= ctx.failing_case({"kind": "threaded-names", "duplicates": dup,
                                       "bad_prefix": [(p, nm) for p, nm in names if not nm.startswith(p + "_")][:4]}, None)
    forced = []
    try:
        forced = forced_interleavings() + [("engines created and dropped one after another", engine_turnover()),
                                           ("materializations of statically empty / join-identity relations", trivial_materializations()),
                                           ("unnamed leaves made by the engines' make_leaf over empty and non-empty payloads", factory_leaves()),
                                           ("the application reseeds the global random generator before each batch", reseeded_application())]
    except Exception as e:  # noqa: BLE001 — the probe no longer fits the code: reported through the correspondence
        s1["ok"] = False
        s1["broken"].append({"kind": "model-implementation-correspondence-broken",
                             "explanation": f"forced interleavings cannot be driven: {e!r}"})
    forced_bad = 0
    for what, names in forced:
        just = [nm for _p, nm in names]
        if len(set(just)) != len(just) or any(not nm.startswith(p + "_") for p, nm in names):
            forced_bad += 1
            if forced_bad <= 2:
                found |= ctx.failing_case({"kind": "forced-schedule", "schedule": what, "names": names[:8],
                                           "duplicates": sorted({x for x in just if just.count(x) > 1})[:4]}, None)
    shared_total = 0
    for k in range(20 if ctx.tier == "quick" else 300):
        names = same_name_engines(rng)
        shared_total += len(names)
        just = [nm for _p, nm in names]
        if len(set(just)) != len(just) or any(not nm.startswith(p + "_") for p, nm in names):
            dup = sorted({x for x in just if just.count(x) > 1})[:4]
            found |= ctx.failing_case({"kind": "engines-sharing-a-name", "duplicates": dup, "names": names[:12]}, None)
            break
    bits = {1: "the names differ from the model's rendering of the same counter values and uuids",
            4: "real names collide or lack the requested prefix"}
    summ = core.judge(ctx, cases, HDR, "check_names", bits=bits, shard=100, found_elsewhere=found) if cases else \
        {"evaluated": 0, "spec_failures": 0, "model_mismatches": 0}
    found |= summ["spec_failures"] > 0
    core.conclude_s1(ctx, s1, found or bool(ctx.violations))
    ctx.coverage.update({
        "names_from_engines_sharing_a_name": shared_total,
        "forced_schedules": {"driven": len(forced), "with_collisions": forced_bad,
                             "rule": "request A parked at its 1st/2nd/3rd access to the engine's counter while 1 or 2 complete "
                                     "requests B run on the same engine (both engine classes, every request kind); engines "
                                     "created and dropped in sequence"},
        "evaluations": len(cases) + rounds, "distinct_nontrivial": len({c["key"] for c in cases if c["nontrivial"]}),
        "rule": "sequential histories of name requests (direct, via LeafRelation, via materialized()) on 1-3 engines with "
                "a deterministic uuid source, compared character by character with the model; plus real threads (8 threads, "
                "switch interval 1e-6 s) on two engines checked for collisions and prefixes; non-trivial = at least two requests",
        "threaded_names": total, "lost_counter_updates_observed": lost_updates,
        "traces_validated_against_impl": summ["evaluated"], "judgement": summ,
        "samples": [c["json"] for c in cases[:1] + cases[-1:]],
    })
    ctx.assumptions += ["uuid4() draws are pairwise distinct 32-character hex strings (probabilistic in reality; an oracle in the theorem)",
                        "the GIL makes each bytecode-level read/write of the counter atomic; their interleaving is arbitrary"]


def replay(ctx, path):
    print(json.dumps(json.load(open(path)), indent=1)[:4000])
    return 0
