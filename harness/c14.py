"""C14 — every reachable tree is engine-consistent and structurally well-formed."""
from __future__ import annotations

import json
import random

import lsst.daf.relation as dr

import core
import enc
import multiprog as mp
import signatures as sg
from enc import jsonable

THEOREMS = ["C14_iteration_programs_well_formed", "C14_noop_projection_returns_self", "C14_noop_sort_returns_self",
            "C14_transfer_to_own_engine_returns_self", "C14_placeholders_never_nodes",
            "C14_multi_engine_iteration_programs_well_formed", "C14_sql_programs_well_formed",
            "C14_partial_join_resolves_common_columns"]
HDR = "From DR Require Import Model.CheckStruct.\nOpen Scope Z_scope.\n"


def noop_identity_checks(w, rel):
    """The documented no-op calls return the relation itself (Python identity)."""
    bad = []
    try:
        if rel.with_only_columns(set(rel.columns)) is not rel:
            bad.append("with_only_columns(all columns) is not self")
        if rel.sorted([]) is not rel:
            bad.append("sorted([]) is not self")
        if rel.transferred_to(rel.engine) is not rel:
            bad.append("transferred_to(own engine) is not self")
        if rel[0:] is not rel or rel[:] is not rel:
            bad.append("[0:] is not self")
        # ... whatever preferred-engine options accompany the no-op call
        for key, other in w.engines.items():
            if other is rel.engine:
                continue
            for kw in (dict(transfer=True), dict(require_preferred_engine=True), dict(backtrack=False, transfer=True), dict()):
                if rel.with_only_columns(set(rel.columns), preferred_engine=other, **kw) is not rel:
                    bad.append(f"with_only_columns(all columns, preferred_engine={key}, {kw}) is not self")
                if rel.sorted([], preferred_engine=other, **kw) is not rel:
                    bad.append(f"sorted([], preferred_engine={key}, {kw}) is not self")
            break
    except Exception as e:  # noqa: BLE001
        bad.append(f"no-op call raised {type(e).__name__}: {e}")
    return bad


def walk_classes(rel, seen=None):
    """Class names of every node and operation reachable from rel (placeholders must not occur)."""
    out = []
    stack = [rel]
    while stack:
        r = stack.pop()
        out.append(type(r).__name__)
        for attr in ("operation",):
            if hasattr(r, attr):
                out.append(type(getattr(r, attr)).__name__)
        for attr in ("target", "lhs", "rhs", "skip_to"):
            if hasattr(r, attr):
                stack.append(getattr(r, attr))
    return out


def join_nodes(rel):
    out, stack = [], [rel]
    while stack:
        r = stack.pop()
        if isinstance(r, dr.BinaryOperationRelation) and isinstance(r.operation, dr.Join):
            out.append(r)
        for attr in ("target", "lhs", "rhs", "skip_to"):
            if hasattr(r, attr):
                stack.append(getattr(r, attr))
    return out


def explicit_common_columns(rng, n):
    """Join operations constructed with explicit minimum / maximum common columns (unequal, so that the operation has to
    resolve them against its operands) and applied through Join.apply and Join.partial(...).apply(...), directly and
    downstream of a transfer: every join node of the result has its common columns resolved, and they are columns of both
    operands."""
    bad, done = [], 0
    while done < n:
        p, cols = mp.gen_mprog(rng, rng.choice([0, 1, 2, 3]), p_opts=0.2, p_xfer=0.4)
        w, rel, res = mp.run_build(p)
        keys = sorted(c for c in (rel.columns if rel is not None else ()) if c.is_key)
        if rel is None or not keys:
            continue
        home = w.reg.engine(rel.engine)
        feng = rng.choice([home, home, mp.ENGINES[2], rng.choice(mp.ENGINES)])
        shared = [k for k in keys if rng.random() < 0.7] or keys[:1]
        fcols = sorted(set(shared) | {enc.K(9)})
        fixed = mp.build_impl(("leaf", 95, feng, fcols, [dict.fromkeys(fcols, 1)], (0, None)), w)
        mn = frozenset(k for k in shared if rng.random() < 0.4)
        mx = rng.choice([None, frozenset(mn | {k for k in keys if rng.random() < 0.5} | ({enc.K(8)} if rng.random() < 0.4 else set()))])
        if mx == mn:
            continue
        join = dr.Join(min_columns=mn, max_columns=mx)
        for what, call in (("Join.partial(fixed).apply(target)", lambda: join.partial(fixed).apply(rel, backtrack=True, transfer=rng.random() < 0.3)),
                           ("Join.partial(target, is_lhs=True).apply(fixed)", lambda: join.partial(rel, is_lhs=True).apply(fixed)),
                           ("Join.apply(target, fixed)", lambda: join.apply(rel, fixed))):
            try:
                out = call()
            except dr.RelationalAlgebraError:
                continue
            except Exception as e:  # noqa: BLE001
                bad.append({"program": jsonable(p), "call": what, "problem": f"raised {type(e).__name__}: {e}"})
                continue
            for node in join_nodes(out):
                op = node.operation
                if op.min_columns != op.max_columns or not op.min_columns <= (node.lhs.columns & node.rhs.columns):
                    bad.append({"program": jsonable(p), "call": what, "min_columns": sorted(map(str, mn)),
                                "max_columns": None if mx is None else sorted(map(str, mx)), "fixed_engine": list(feng),
                                "problem": f"join node with min_columns={sorted(map(str, op.min_columns))} max_columns="
                                           f"{None if op.max_columns is None else sorted(map(str, op.max_columns))} over operands "
                                           f"sharing {sorted(map(str, node.lhs.columns & node.rhs.columns))}"})
                    break
        done += 1
    return done, bad


def signature(case):
    t = case["impl_tree"]
    if t[0] == "ok" and sg.sort_needs_dropped_column(t[1]):
        return "absorbed_sort_needs_dropped_column"
    return None


def make_cases(rng, tier):
    n = 900 if tier == "quick" else 20000
    cases, extra_bad = [], []
    progs = mp.forced_backtrack_cases(rng, n // 5)
    # a backtracking call that completes as a no-op inside the engine a transfer left leaves two transfers back to back
    # (there and back again): transferring THAT relation to its own engine must still return the relation itself
    for src, mid in ((("it", 0), ("it", 1)), (("it", 1), ("sql", 0)), (("sql", 0), ("it", 0))):
        k1, k2 = enc.K(1), enc.K(2)
        z = ("leaf", 1, src, [k1, k2], [{k1: 1, k2: 2}, {k1: 3, k2: 4}], (0, None))
        back = ("xfer", src, ("un", ("calc", enc.K(5), ("add", ("ref", k1), ("lit", 1))), mp.DEFAULT, ("xfer", mid, z)))
        progs.append(("un", ("proj", [k1, k2]), (mid, True, False, False), back))
    for _ in range(n):
        progs.append(mp.gen_mprog(rng, rng.choice([1, 2, 3, 4, 5, 7, 9]))[0])
    # joins with the join identity whose surviving operand has to stay a subquery (predicate, DISTINCT, window, UNION)
    k1 = enc.K(1)
    for i in range(12):
        x = ("leaf", 1, ("sql", 0), [k1], [{k1: 1}, {k1: 2}, {k1: 2}], (0, None))
        ident = ("leaf", 2, ("sql", 0), [], [{}], (1, 1), "identity")
        pred = ("cmp", "gt", ("ref", k1), ("lit", 0)) if i % 4 == 0 else None
        y = [x, ("un", ("dedup",), mp.DEFAULT, x), ("un", ("slice", 1, 3), mp.DEFAULT, x), ("chain", x, x)][i % 4]
        progs.append(("join", pred, True, False, y, ident) if i % 2 == 0 else ("join", pred, True, False, ident, y))
    # engine-restricted column functions requested with every kind of preferred-engine option
    import c20
    progs += [c["json"]["program_term"] for c in c20.restricted_cases(rng, n // 6, keep_term=True)[0]]
    for p in progs:
        try:
            w, rel, res = mp.run_build(p)
        except Exception as e:  # noqa: BLE001 — e.g. a placeholder operation met by the decoder
            extra_bad.append({"program": jsonable(p), "problem": f"tree could not be decoded: {e!r}"})
            continue
        t = enc.cresult(res[0], enc.ctree(res[1]) if res[0] == "ok" else res[1])
        if rel is not None:
            bad = noop_identity_checks(w, rel)
            ph = [c for c in walk_classes(rel) if c in ("Identity", "PartialJoin", "IgnoreOne")]
            if bad or ph:
                extra_bad.append({"program": jsonable(p), "problem": bad + ph})
        cases.append({"json": {"program": jsonable(p), "impl": jsonable(res)}, "coq": f"STCase {mp.cprog(p)} {t}",
                      "nontrivial": res[0] == "ok" and json.dumps(jsonable(res[1])).count("xfer") + json.dumps(jsonable(res[1])).count("select") > 0,
                      "key": mp.cprog(p), "impl_tree": res})
    n_ecc, ecc_bad = explicit_common_columns(rng, n // 6)
    extra_bad += ecc_bad
    return cases, extra_bad


def run(ctx):
    rng = random.Random(ctx.seed)
    s1 = core.s1(ctx, ["Slice"], "Properties.C14", THEOREMS, extra_targets=["Model/CheckStruct.vo"])
    cases, extra_bad = make_cases(rng, ctx.tier)
    found = False
    for b in extra_bad[:3]:
        found |= ctx.failing_case({"kind": "noop-or-placeholder", "case": b}, None)
    bits = {1: "built tree (or exception class) differs from the model's",
            4: "a node is not well-formed or engines are inconsistent",
            8: "a SELECT marker is not coherent (C17's concern; not judged here)",
            16: "a SQL-engine result is not a SELECT marker (C17's concern; not judged here)"}
    summ = core.judge(ctx, cases, HDR, "check_struct_c14", bits=bits, signature_of=signature)
    found |= summ["spec_failures"] > 0
    core.conclude_s1(ctx, s1, found or bool(ctx.violations))
    ctx.coverage.update({
        "evaluations": len(cases), "distinct_nontrivial": len({c["key"] for c in cases if c["nontrivial"]}),
        "rule": "random programs over two iteration engines and one SQL engine with every preferred-engine option "
                "combination, joins, chains, transfers, materializations and engine-restricted column functions; the real "
                "tree is walked (target/lhs/rhs/skip_to) and judged node by node; the documented no-op calls are checked "
                "for object identity; non-trivial = the built tree has a transfer or a SELECT marker",
        "traces_validated_against_impl": summ["evaluated"], "judgement": summ, "noop_or_placeholder_problems": len(extra_bad),
        "samples": [cases[3]["json"]["program"], cases[-1]["json"]["program"]],
    })


def replay(ctx, path):
    print(json.dumps(json.load(open(path)), indent=1)[:4000])
    return 0
