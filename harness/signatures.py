"""Signatures of the known findings: predicates over a failing case (terms of enc.py), mirroring the
side conditions under which the corresponding theorems are stated.  A failing case is suppressed
only if its signature is listed in KNOWN_FINDINGS.txt."""
from __future__ import annotations


def expr_cols(e):
    if e[0] == "ref":
        return {e[1]}
    if e[0] == "lit":
        return set()
    if e[0] == "supp":
        return expr_cols(e[3])
    out = set()
    for a in e[1:]:
        out |= expr_cols(a)
    return out


def tcolumns(t):
    k = t[0]
    if k == "leaf":
        return set(t[3])
    if k == "un":
        o, c = t[1], tcolumns(t[2])
        if o[0] == "calc":
            return c | {o[1]}
        if o[0] == "proj":
            return set(o[1])
        return c
    if k == "chain":
        return tcolumns(t[1])
    if k == "join":
        return tcolumns(t[3]) | tcolumns(t[4])
    if k in ("mat", "xfer"):
        return tcolumns(t[2])
    if k == "select":
        return tcolumns(t[6])
    raise ValueError(t)


def subtrees(t):
    yield t
    k = t[0]
    if k == "un":
        yield from subtrees(t[2])
    elif k == "chain":
        yield from subtrees(t[1])
        yield from subtrees(t[2])
    elif k == "join":
        yield from subtrees(t[3])
        yield from subtrees(t[4])
    elif k in ("mat", "xfer"):
        yield from subtrees(t[2])
    elif k == "select":
        yield from subtrees(t[6])
        yield from subtrees(t[5])


def sort_needs_dropped_column(tree):
    """F7: an absorbed sort refers to a column that a projection pushed below it has removed."""
    for s in subtrees(tree):
        if s[0] == "un" and s[1][0] == "sort":
            need = set()
            for e, _a in s[1][1]:
                need |= expr_cols(e)
            if not need <= tcolumns(s[2]):
                return True
        if s[0] == "select" and s[1]:
            need = set()
            for e, _a in s[1]:
                need |= expr_cols(e)
            if not need <= tcolumns(s[5]):
                return True
    return False


def unused_calc_swallowed(tree):
    """F13: apply_skip's simplification merged a projection with an unused calculation at the top of
    skip_to, so skip_to is no longer on the marker's target chain."""
    for s in subtrees(tree):
        if s[0] == "select" and s[2] is not None and s[5][0] == "un" and s[5][1][0] == "calc" and s[5][1][1] not in set(s[2]):
            return True
    return False


def nested_compound_operand(tree):
    """F14: a UNION operand that is itself a compound select and has to be parenthesised (a chain whose operand
    select wraps another chain, possibly through nested selects without own clauses)."""
    def is_compound_select(t):
        return t[0] == "select" and t[5][0] == "chain"
    for s in subtrees(tree):
        if s[0] == "chain":
            for side in (s[1], s[2]):
                if is_compound_select(side):
                    return True
    return False
