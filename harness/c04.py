"""C04 — commutation reports are sound for every operation pair and target."""
from __future__ import annotations

import itertools
import json
import random

import lsst.daf.relation as dr
from lsst.daf.relation import iteration

import core
import enc
import gen
from enc import K, N, cbool, clist, cop, cpred, crows, cset, ctree, jsonable

THEOREMS = ["C04_commute_sound", "C04_failed_commute_hands_back_current", "C04_join_commute_sound"]
HDR = "From DR Require Import Model.CheckCommute.\nOpen Scope Z_scope.\n"
ENG = iteration.Engine(name="it0", functions={"vid": lambda x: x, "vid_it": lambda x: x})
REG = enc.Registry()
REG.add_engine(ENG, "it", 0)
FIXED_ID = 99


def op_menu(cols, fresh, more_tags=()):
    """Parameter shapes of every concrete unary operation over the given columns."""
    cols = sorted(cols)
    ops = [("dedup",), ("slice", 1, None), ("slice", 0, 2), ("slice", 1, 2), ("slice", 2, 5), ("slice", 0, 3)]
    for n in range(len(cols) + 1):
        for sub in itertools.combinations(cols, n):
            ops.append(("proj", list(sub)))
    for c in cols:
        ops.append(("sel", ("cmp", "gt", ("ref", c), ("lit", 0))))
        ops.append(("sort", [(("ref", c), True)]))
        ops.append(("sort", [(("ref", c), False)]))
        ops.append(("calc", fresh, ("add", ("ref", c), ("lit", 1))))
        for t in more_tags:
            if t not in cols:
                ops.append(("calc", t, ("add", ("ref", c), ("lit", 2))))
    if len(cols) >= 2:
        a, b = cols[0], cols[1]
        ops.append(("sel", ("cmp", "eq", ("ref", a), ("ref", b))))
        ops.append(("sort", [(("ref", a), True), (("ref", b), False)]))
        # a sort by an expression over both columns: rows can tie on it although they differ on either column
        ops.append(("sort", [(("add", ("ref", a), ("ref", b)), True)]))
        ops.append(("calc", fresh, ("add", ("ref", a), ("ref", b))))
    return ops


def op_columns(o, cols):
    if o[0] == "calc":
        return set(cols) | {o[1]}
    if o[0] == "proj":
        return set(o[1])
    return set(cols)


def creq(r):
    if r[0] == "un":
        return f"(RUn {cop(r[1])})"
    _, pred, common, ftree, lhs = r
    return f"(RJoin (JSpec {cpred(pred)} {cset(common)} (Some {cset(common)})) {ctree(ftree)} {cbool(lhs)})"


def ccomm(c):
    first, second, done = c
    f = "None" if first is None else f"(Some {creq(first)})"
    return f"(Comm {f} {cop(second)} {cbool(done)})"


def dreq(op):
    if isinstance(op, dr.PartialJoin):
        return ("join", enc.dpred(op.binary.predicate), sorted(op.binary.common_columns),
                enc.dtree(op.fixed, REG), op.fixed_is_lhs)
    return ("un", enc.dop(op))


def consistent_rows(cols, vals):
    """rows over cols; the non-key column is a function of the key columns (documented contract)."""
    keys = [c for c in cols if c.is_key]
    out = []
    for combo in vals:
        r = dict(zip(keys, combo))
        for c in cols:
            if not c.is_key:
                # a function of the FIRST key column only, so that operands with different key sets still agree on it
                r[c] = 10 + (r[keys[0]] if keys else 0)
        out.append(r)
    return out


def targets(cols, tier):
    keys = [c for c in cols if c.is_key]
    dom = (0, 1)
    tuples = list(itertools.product(dom, repeat=len(keys)))
    maxlen = 2 if tier == "quick" else 3
    out = []
    for n in range(maxlen + 1):
        for combo in itertools.product(tuples, repeat=n):
            out.append(consistent_rows(cols, combo))
    return out


def long_targets(cols):
    """A few targets long enough (4 to 7 rows) for two windows with non-zero starts and finite stops to be told apart."""
    keys = [c for c in cols if c.is_key]
    tuples = list(itertools.product((0, 1), repeat=len(keys)))
    pats = [[0, 1, 1, 0], [1, 0, 0, 1, 1], [0, 0, 1, 0, 1, 1, 0]]
    return [consistent_rows(cols, [tuples[(i * 3 + k) % len(tuples)] if len(tuples) > 2 else tuples[k] for i, k in enumerate(pat)])
            for pat in pats]


_OPS = {}


def shared_op(term):
    """One operation object (hence one predicate / expression object) per term for the whole sweep: commute() is asked
    about the same objects many times, so a report must not depend on what was asked before."""
    key = repr(term)
    if key not in _OPS:
        _OPS[key] = enc.iop(term)
    return _OPS[key]


def make_cases(rng, tier):
    _OPS.clear()
    schemas = [[K(1)], [K(1), K(2)], [K(1), N(1)]] + ([[K(1), K(2), N(1)]] if tier == "thorough" else [])
    cases = []
    for cols in schemas:
        fresh_k, fresh_n = K(7), N(7)
        tgts = targets(cols, tier)
        if len(tgts) > 40 and tier == "quick":
            tgts = rng.sample(tgts, 40)
        tgts = tgts + long_targets(cols)
        if len([c for c in cols if c.is_key]) >= 2:
            tgts = tgts + [consistent_rows(cols, [(1, 0), (0, 1)]), consistent_rows(cols, [(0, 1), (1, 0), (0, 0)])]
        leaf = ENG.make_leaf(set(cols), payload=iteration.RowSequence([]), name="L1")
        REG.names["L1"] = 1
        for cur in op_menu(cols, fresh_k, more_tags=[fresh_n]):
            try:
                current = shared_op(cur).apply(leaf)
            except Exception:  # noqa: BLE001
                continue
            if not isinstance(current, dr.UnaryOperationRelation):
                continue        # the existing operation was a no-op on this target
            ccols = op_columns(cur, cols)
            # new calculations also try to re-create a column that exists further upstream (hidden by a projection)
            news = [("un", o) for o in op_menu(ccols, fresh_n if fresh_n not in ccols else N(8), more_tags=[c for c in cols if c not in ccols])]
            # joins: fixed operands sharing a key column, with and without an extra / shared non-key column
            # (fixed on either side; [K1, K2] shares a KEY column that a projection of the target may hide)
            for fcols in ([K(1)], [K(1), K(3)], [K(1), N(1)], [K(1), N(7)], [K(3)], [K(1), K(2)], []):
                frows = consistent_rows(fcols, [(0,) * len([c for c in fcols if c.is_key]), (1,) * len([c for c in fcols if c.is_key])])
                if not fcols:
                    frows = [{}]            # one row, no columns: the join identity
                for is_lhs in (False, True):
                    news.append(("join", fcols, frows, None, is_lhs))
                    if (K(1) in fcols or not fcols) and K(1) in ccols:
                        news.append(("join", fcols, frows, ("cmp", "ge", ("ref", K(1)), ("lit", 1)), is_lhs))
            for new in news:
                env = []
                try:
                    if new[0] == "un":
                        new_obj, _pe = shared_op(new[1])._begin_apply(current, None)
                        if isinstance(new_obj, dr.Identity):
                            continue
                    else:
                        _, fcols, frows, pred, is_lhs = new
                        fixed = ENG.make_leaf(set(fcols), payload=iteration.RowSequence(frows), name="F99")
                        REG.names["F99"] = FIXED_ID
                        j = dr.Join(enc.ipred(pred) if pred else dr.Predicate.literal(True)).partial(fixed, is_lhs=is_lhs)
                        new_obj, _pe = j._begin_apply(current, None)
                        env = [f"({FIXED_ID}%positive, {crows(frows)})"]
                except (dr.ColumnError, dr.EngineError):
                    continue
                c = new_obj.commute(current)
                impl = (None if c.first is None else dreq(c.first), enc.dop(c.second), bool(c.done))
                newreq = dreq(new_obj)
                rows_lists = clist([crows(t) for t in tgts])
                coq = (f"CCase {creq(newreq)} {cop(cur)} {cset(cols)} {clist(env)} {rows_lists} {ccomm(impl)}")
                pair = f"{type(new_obj).__name__}/{type(current.operation).__name__}"
                cases.append({"json": {"new": jsonable(newreq), "current": jsonable(cur), "target_columns": jsonable(cols),
                                       "impl_commutator": jsonable(impl), "targets": len(tgts)},
                              "coq": coq, "nontrivial": c.first is not None, "key": creq(newreq) + cop(cur) + cset(cols),
                              "pair": pair, "moved": c.first is not None, "new_t": newreq, "cur_t": cur})
    return cases


def signature(case):
    new, cur = case["new_t"], case["cur_t"]
    if new[0] == "un" and new[1][0] == "proj" and cur[0] == "dedup":
        return "proj_commutes_past_dedup"
    return None


def run(ctx):
    rng = random.Random(ctx.seed)
    s1 = core.s1(ctx, [], "Properties.C04", THEOREMS, extra_targets=["Model/CheckCommute.vo"])
    cases = make_cases(rng, ctx.tier)
    bits = {1: "the real commute() reported something else than the model's commute",
            4: "the reported commutation is unsound or ill-formed on some target (counterexample on the real code)"}
    summ = core.judge(ctx, cases, HDR, "check_commute", bits=bits, signature_of=signature, shard=60)
    core.conclude_s1(ctx, s1, summ["spec_failures"] > 0 or bool(ctx.violations))
    pairs = {}
    for c in cases:
        pairs.setdefault(c["pair"], [0, 0])
        pairs[c["pair"]][0] += 1
        pairs[c["pair"]][1] += c["moved"]
    ctx.coverage.update({
        "evaluations": len(cases), "distinct_nontrivial": len({c["key"] for c in cases if c["nontrivial"]}),
        "rule": "exhaustive sweep of the real commute(): every (new, existing) pair of concrete operation types with all "
                "parameter shapes over small schemas (key and non-key columns), PartialJoin with five fixed operands, each "
                "judged on every target of <= 2 rows (thorough: 3) over {0,1} plus three targets of 4 to 7 rows; non-trivial = a move was reported",
        "pairs": {k: {"calls": v[0], "moves": v[1]} for k, v in sorted(pairs.items())},
        "traces_validated_against_impl": summ["evaluated"], "judgement": summ, "exhaustive": True,
        "samples": [cases[5]["json"], cases[-1]["json"]],
    })
    ctx.assumptions += ["join inputs satisfy the documented ColumnTag contract: rows that match on the common key columns "
                        "agree on every column both operands expose"]


def replay(ctx, path):
    print(json.dumps(json.load(open(path)), indent=1)[:4000])
    return 0
