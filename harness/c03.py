"""C03 — preferred-engine (backtracking) insertion never changes relation content.
The last call of every program carries preferred-engine options; the tree it returns is processed by a real
Processor, executed, and judged against the specification of applying the call at the root."""
from __future__ import annotations

import itertools
import json
import random

import core
import enc
import gen
import multiprog as mp
import ordering
import signatures as sg
from enc import cbool, crows, ctree, jsonable

THEOREMS = ["C03_backtrack_sound", "C03_apply_with_options_sound", "C03_result_engine",
            "C03_iteration_programs_with_options_denote_their_specification",
            "C03_join_backtrack_sound", "C03_join_with_options_sound", "C03_join_in_one_engine_sound",
            "C03_programs_over_both_engine_kinds_denote_their_specification"]
HDR = "From DR Require Import Model.CheckBack.\nOpen Scope Z_scope.\n"


def layered_base(rng, counter):
    """source engine -> operations -> transfer -> operations in another engine (-> materialization / transfer)."""
    src, mid = rng.sample(mp.ENGINES, 2)
    cols = gen.gen_schema(rng, maxk=3, maxn=1, allow_empty=rng.random() < 0.1)
    counter[0] += 1
    p = mp.gen_leaf(rng, counter[0], cols, src, special=0.02)
    cur = set(p[3])
    for _ in range(rng.choice([0, 0, 1, 2])):
        o, cur = gen.gen_op(rng, cur)
        p = ("un", o, mp.DEFAULT, p)
    if rng.random() < 0.12:
        counter[0] += 1
        p = ("mat", counter[0], p)
    p = ("xfer", mid, p)
    for _ in range(rng.choice([0, 1, 1, 2, 3])):
        o, cur = gen.gen_op(rng, cur)
        p = ("un", o, mp.DEFAULT, p)
        if rng.random() < 0.06:
            counter[0] += 1
            p = ("mat", counter[0], p)
    if rng.random() < 0.15:
        third = [e for e in mp.ENGINES if e not in (src, mid)][0]
        p = ("xfer", third, p)
        if rng.random() < 0.5:
            o, cur = gen.gen_op(rng, cur)
            p = ("un", o, mp.DEFAULT, p)
    return p, cur, src


ALL_OPTS = [(bt, tr, rq) for bt in (True, False) for tr in (True, False) for rq in (True, False)]


def f2_program():
    """The listed known finding (F2), every run: a projection moved upstream of a Deduplication."""
    k1, k2 = enc.K(1), enc.K(2)
    leaf = ("leaf", 1, ("it", 0), [k1, k2], [{k1: 1, k2: 5}, {k1: 2, k2: 5}])
    base = ("un", ("dedup",), mp.DEFAULT, ("xfer", ("it", 1), leaf))
    o = ("proj", [k2])
    return base, ("un", o, (("it", 0), True, False, False), base), ("un", o, mp.DEFAULT, base)


def f14_program():
    """The listed known finding (F14), every run: a nested compound select, which SQLite rejects."""
    k1 = enc.K(1)
    lf = [("leaf", i, ("sql", 0), [k1], [{k1: i}], (0, None)) for i in (1, 2, 3)]
    base = ("chain", ("chain", lf[0], lf[1]), lf[2])
    o = ("sel", ("cmp", "ge", ("ref", k1), ("lit", 2)))
    return base, ("un", o, (("sql", 0), True, False, False), base), ("un", o, mp.DEFAULT, base)


def order_sensitive(rng, counter, blocker_kind=None, mover_kind=None, between=None):
    """Iteration engines only (row order is exact): an order- or count-sensitive operation downstream of the transfer,
    then an operation that must not move past it — a slice above a sort / selection / deduplication, a sort above a
    sort or slice, a deduplication or selection above a slice."""
    src, mid = rng.sample([("it", 0), ("it", 1)], 2)
    cols = gen.gen_schema(rng, maxk=2, maxn=1, allow_empty=False)
    counter[0] += 1
    leaf = mp.gen_leaf(rng, counter[0], cols, src, special=0, loose=0)
    for _try in range(30):        # the systematic pairs want enough distinct rows for order and count to matter
        if blocker_kind is None or len({tuple(sorted(r.items())) for r in leaf[4]}) >= 3:
            break
        leaf = mp.gen_leaf(rng, counter[0], cols, src, special=0, loose=0)
    cur = set(leaf[3])
    p = ("xfer", mid, leaf)
    c = rng.choice(sorted(cur))
    blockers = [("sort", [(("ref", c), rng.random() < 0.5)]), ("slice", rng.choice([0, 1]), rng.choice([2, 3, None])),
                ("sel", ("cmp", rng.choice(["gt", "le"]), ("ref", c), ("lit", 1))), ("dedup",)]
    blocker = rng.choice(blockers) if blocker_kind is None else [b for b in blockers if b[0] == blocker_kind][0]
    if blocker == ("slice", 0, None):
        blocker = ("slice", 1, None)
    p = ("un", blocker, mp.DEFAULT, p)
    for _ in range(rng.choice([0, 0, 1]) if between is None else between):
        o, cur = gen.gen_op(rng, cur, weights=[2, 0, 2, 0, 0, 0])      # calculations / projections in between
        p = ("un", o, mp.DEFAULT, p)
    a0 = rng.choice([0, 1])
    movers = [("slice", a0, a0 + rng.choice([1, 2])), ("dedup",)]
    if cur:
        c2 = rng.choice(sorted(cur))
        movers += [("sort", [(("ref", c2), rng.random() < 0.5)]), ("sel", ("cmp", "ge", ("ref", c2), ("lit", 1)))]
    if mover_kind is not None and any(m[0] == mover_kind for m in movers):
        return p, cur, src, [m for m in movers if m[0] == mover_kind][0]
    return p, cur, src, rng.choice(movers)


def passable(rng, counter):
    """Only operations every mover commutes with (calculations, projections) between the root and the transfer, iteration
    engines only: backtracking reaches the transfer and inserts the operation in the source engine."""
    src, mid = rng.sample([("it", 0), ("it", 1)], 2)
    cols = gen.gen_schema(rng, maxk=2, maxn=1, allow_empty=False)
    counter[0] += 1
    leaf = mp.gen_leaf(rng, counter[0], cols, src, special=0, loose=0)
    p, cur = ("xfer", mid, leaf), set(cols)
    for _ in range(rng.choice([0, 1, 2])):
        o, cur = gen.gen_op(rng, cur, weights=[2, 0, 2, 0, 0, 0])
        p = ("un", o, mp.DEFAULT, p)
    o, _c = gen.gen_op(rng, cur, weights=[1, 1, 2, 3, 3, 2])
    return p, cur, src, o


def make_programs(rng, n):
    out = [f2_program(), f14_program()]
    for i in range(n // 5):
        base, cur, src, o = passable(rng, [0])
        out.append((base, ("un", o, (src, True, rng.random() < 0.3, False), base), ("un", o, mp.DEFAULT, base), i % 3 != 0))
    # the shapes of multiprog.forced_backtrack_cases (partial projections below operations that assumed a full move,
    # calculations re-creating hidden columns, commutators that modify the existing operation, no-op completions)
    for p in mp.forced_backtrack_cases(rng, max(n // 3, 60)):
        if p[0] == "un":
            out.append((p[3], p, ("un", p[1], mp.DEFAULT, p[3])))
        elif p[0] == "join":
            out.append((p[4], p, ("join", p[1], False, True, p[4], p[5])))
    combos = [(b, m, k) for b in ("sort", "slice", "sel", "dedup") for m in ("slice", "dedup", "sort", "sel") for k in (0, 1)]
    for i in range(max(n // 4, len(combos))):
        counter = [0]
        bk, mk, btw = combos[i] if i < len(combos) else (None, None, None)      # every blocker/mover pair once, then random
        base, cur, src, o = order_sensitive(rng, counter, bk, mk, btw)
        # half of these histories apply the call to a tree that a Processor has already processed (its transfers hold payloads)
        processed = rng.random() < 0.5
        if i < len(combos):
            processed = False
        for bt, tr, rq in rng.sample(ALL_OPTS, 2) + [(True, False, False)]:
            out.append((base, ("un", o, (src, bt, tr, rq), base), ("un", o, mp.DEFAULT, base), processed))
    for _ in range(n):
        counter = [0]
        if rng.random() < 0.7:
            base, cur, src = layered_base(rng, counter)
        else:
            base, cur = mp.gen_mprog(rng, rng.choice([1, 2, 3, 4, 5]), counter, p_opts=0.15, p_xfer=0.25)
            src = rng.choice(mp.ENGINES)
        if rng.random() < 0.2:
            # a join whose other operand lives in the engine to backtrack to
            counter[0] += 1
            shared = {c for c in cur if rng.random() < 0.6}
            extra = {gen.fresh_tag(rng, cur)} if rng.random() < 0.7 else set()
            other = mp.gen_leaf(rng, counter[0], shared | extra, src if rng.random() < 0.7 else None, special=0.05)
            pred = gen.gen_pred(rng, cur | shared | extra, 1) if rng.random() < 0.3 and (cur | extra) else None
            for bt, tr in rng.sample([(True, True), (True, False), (False, True), (False, False)], 2):
                out.append((base, ("join", pred, bt, tr, base, other), ("join", pred, False, True, base, other)))
            continue
        o, _c = gen.gen_op(rng, cur)
        if rng.random() < 0.06:            # not valid at the root: must be rejected the same way
            o = ("proj", sorted(set(cur) | {gen.fresh_tag(rng, cur)}))
        prefs = [src if rng.random() < 0.6 else rng.choice(mp.ENGINES + [None])]
        for pref in prefs:
            for bt, tr, rq in rng.sample(ALL_OPTS, 3):
                out.append((base, ("un", o, (pref, bt, tr, rq), base), ("un", o, mp.DEFAULT, base)))
    return out


def proj_below_dedup(tree):
    """The (Deduplication node, Projection somewhere in its operand) pairs of a tree, as a multiset of the projections'
    column sets: backtracking a projection past a Deduplication (finding F2) is the only way a call adds a pair — a
    new Projection node, or an existing one narrowed by merging with the moved one."""
    from collections import Counter
    out = Counter()
    for d in sg.subtrees(tree):
        if d[0] == "un" and d[1][0] == "dedup":
            for x in sg.subtrees(d[2]):
                if x[0] == "un" and x[1][0] == "proj":
                    out[tuple(sorted(map(str, x[1][1])))] += 1
    return out


def signature(case):
    a = case["prog"]
    errs = case.get("error") or ""
    t = case.get("impl_tree")
    if a[0] == "un" and a[1][0] == "proj" and a[2][1] and t and t[0] == "ok" \
            and proj_below_dedup(t[1]) - proj_below_dedup(case["base_tree"]):
        return "proj_commutes_past_dedup"
    if t and t[0] == "ok" and "syntax error" in errs and sg.nested_compound_operand(t[1]):
        return "nested_compound_operand"
    return None


def make_cases(rng, tier):
    n = 260 if tier == "quick" else 6000
    cases = []
    stats = {"accepted": 0, "rejected": {}, "iteration_join_refused": 0, "moved_upstream": 0, "joins": 0, "modes": {},
             "options": {}}
    for item in make_programs(rng, n):
        base, a, b = item[:3]
        processed_first = len(item) > 3 and item[3]
        _wb, _rb, base_res = mp.run_build(base)
        if base_res[0] != "ok":
            continue
        _w2, rel_b, b_res = mp.run_build(b)
        if processed_first:
            # history: build the base, process it (iteration engines only: payloads are RowSequences), then make the call
            w = mp.World()
            try:
                done = mp.RealProcessor(w, None).process(mp.build_impl(base, w))
                rel = mp.apply_un(done, a[1], a[2], w)
                res = ("ok", enc.dtree(rel, w.reg))
            except Exception as e:  # noqa: BLE001
                rel, res = None, ("err", mp.exc_name(e))
            stats["applied_to_processed_tree"] = stats.get("applied_to_processed_tree", 0) + 1
        else:
            w, rel, res = mp.run_build(a)
        rows, mode, err = "(Err RelAlgError)", 0, None
        if rel is not None:
            reverse = rng.random() < 0.5
            mode = ordering.state(res[1])
            try:
                got, _proc, _processed = mp.execute(w, rel, reverse)
                rows = f"(Ok {crows(got)})"
            except Exception as e:  # noqa: BLE001
                err = f"{type(e).__name__}: {e}"
                if "Joins are not supported by the iteration engine" in err:
                    stats["iteration_join_refused"] += 1
                    continue
            stats["accepted"] += 1
            stats["modes"][mode] = stats["modes"].get(mode, 0) + 1
            moved = res[1][0] != "un" and res[1] != base_res[1] if a[0] == "un" else res[1][0] != "join"
            stats["moved_upstream"] += bool(moved)
        else:
            stats["rejected"][res[1]] = stats["rejected"].get(res[1], 0) + 1
            moved = False
        stats["joins"] += a[0] == "join"
        if a[0] == "un":
            k = "bt=%d tr=%d rq=%d" % tuple(a[2][1:])
            stats["options"][k] = stats["options"].get(k, 0) + 1
        t = enc.cresult(res[0], ctree(res[1]) if res[0] == "ok" else res[1])
        bt = enc.cresult("ok", ctree(base_res[1]))
        cases.append({
            "json": {"program": jsonable(a), "applied_to_processed_tree": bool(processed_first), "impl": jsonable(res),
                     "rows": rows[:2000], "error": err,
                     "root_call_accepted": b_res[0] == "ok"},
            "coq": f"BKCase {mp.cprog(a)} {mp.cenv(a)} {bt} {t} {rows} {mode}%N {cbool(b_res[0] == 'ok')}",
            "nontrivial": bool(moved), "key": mp.cprog(a), "prog": a, "impl_tree": res, "error": err, "base_tree": base_res[1]})
    return cases, stats


def run(ctx):
    rng = random.Random(ctx.seed)
    s1 = core.s1(ctx, ["Slice"], "Properties.C03", THEOREMS, extra_targets=["Model/CheckBack.vo"])
    cases, stats = make_cases(rng, ctx.tier)
    bits = {1: "built tree (or exception class) differs from the model's apply",
            4: "processed rows or columns contradict applying the operation at the root (or processing raised)",
            8: "rejected with ColumnError although the same call without a preferred engine is accepted",
            16: "transfer=True but the result does not live in the preferred engine",
            32: "require_preferred_engine but an operation was added outside the preferred engine"}
    summ = core.judge(ctx, cases, HDR, "check_back", bits=bits, signature_of=signature, shard=60)
    core.conclude_s1(ctx, s1, summ["spec_failures"] > 0 or bool(ctx.violations))
    ctx.coverage.update({
        "evaluations": len(cases), "distinct_nontrivial": len({c["key"] for c in cases if c["nontrivial"]}),
        "rule": "layered trees (source engine, operations, transfer, operations in another engine, optional materializations, "
                "optional third engine) and random multi-engine programs; the last call is a random unary operation with "
                "three of the eight backtrack/transfer/require combinations and a preferred engine (mostly the source's), "
                "or a join whose other operand lives upstream; the returned tree is processed by a real SQLite<->iteration "
                "Processor and executed; non-trivial = the operation did not end up at the root",
        "traces_validated_against_impl": summ["evaluated"], "judgement": summ, "distribution": stats,
        "samples": [cases[0]["json"]["program"], cases[-1]["json"]["program"]],
    })
    ctx.assumptions += ["row order of content that passed through a SQL table is not determined (multiset comparison; see "
                        "harness/ordering.py)",
                        "join inputs satisfy the documented ColumnTag contract (non-key columns are functions of the keys)"]


def replay(ctx, path):
    print(json.dumps(json.load(open(path)), indent=1)[:4000])
    return 0
