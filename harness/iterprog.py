"""Iteration-engine programs: generation, execution on the real library, encoding for Coq."""
from __future__ import annotations

import lsst.daf.relation as dr
from lsst.daf.relation import iteration

import enc
import gen
from enc import cz, coptz, cset, cop, crows, ctree, cengine


def exc_name(e):
    for cls in (dr.ColumnError, dr.EngineError):
        if isinstance(e, cls):
            return cls.__name__
    if type(e) is dr.RelationalAlgebraError:
        return "OrderLoss"
    for cls in (ValueError, TypeError, KeyError, NotImplementedError):
        if isinstance(e, cls):
            return cls.__name__
    return "Internal:" + type(e).__name__


class World:
    """Engines and registry of one case."""

    def __init__(self, n_iter=2):
        self.reg = enc.Registry()
        self.engines = {}
        for i in range(n_iter):
            e = iteration.Engine(name=f"it{i}", functions={"vid": lambda x: x, "vid_it": lambda x: x})
            self.engines[("it", i)] = self.reg.add_engine(e, "it", i)
        self.leaf_objs = {}

    def engine(self, key):
        return self.engines[key]


# ---- program terms ---------------------------------------------------------------------------------
# ("leaf", id, eng, cols, rows) | ("un", op, p) | ("item", a, b, step, p) | ("chain", l, r)
# | ("mat", id, p) | ("xfer", eng, p)

def cprog(p):
    k = p[0]
    if k == "leaf":
        n, eng, cols, rows = p[1:5]
        mn, mx = leaf_bounds(p)
        return f"(PLeaf {n} {cengine(eng)} {cset(cols)} {cz(mn)} {coptz(mx)})"
    if k == "un":
        return f"(PUn {cop(p[1])} {cprog(p[2])})"
    if k == "item":
        return f"(PItem {coptz(p[1])} {coptz(p[2])} {coptz(p[3])} {cprog(p[4])})"
    if k == "chain":
        return f"(PChain {cprog(p[1])} {cprog(p[2])})"
    if k == "mat":
        return f"(PMat {p[1]} {cprog(p[2])})"
    if k == "xfer":
        return f"(PXfer {cengine(p[1])} {cprog(p[2])})"
    raise ValueError(p)


def leaf_bounds(p):
    """(min_rows, max_rows) declared for a leaf term: exact unless given."""
    rows = p[4]
    if len(p) > 5 and p[5] is not None:
        return p[5]
    return len(rows), len(rows)


def leaves(p):
    if p[0] == "leaf":
        return [p]
    if p[0] == "chain":
        return leaves(p[1]) + leaves(p[2])
    return leaves(p[-1])


def cenv(p):
    seen, out = set(), []
    for lf in leaves(p):
        if lf[1] not in seen:
            seen.add(lf[1])
            out.append(f"({lf[1]}%positive, {crows(lf[4])})")
    return "[" + "; ".join(out) + "]"


def apply_un(rel, o):
    k = o[0]
    if k == "calc":
        return rel.with_calculated_column(o[1], enc.iexpr(o[2]))
    if k == "dedup":
        return rel.without_duplicates()
    if k == "proj":
        return rel.with_only_columns(set(o[1]))
    if k == "sel":
        return rel.with_rows_satisfying(enc.ipred(o[1]))
    if k == "slice":
        return dr.Slice(o[1], o[2]).apply(rel)
    if k == "sort":
        return rel.sorted(enc.iterms(o[1]))
    raise ValueError(o)


def build_impl(p, w: World):
    k = p[0]
    if k == "leaf":
        # one leaf object per leaf id: a leaf used twice in a program is the SAME relation (and payload) both times
        if p[1] not in w.leaf_objs:
            w.leaf_objs[p[1]] = _build_leaf(p, w)
        return w.leaf_objs[p[1]]
    return _build_node(p, w)


def _build_leaf(p, w):
    return _build_node(p, w)


def _build_node(p, w: World):
    k = p[0]
    if k == "leaf":
        n, eng, cols, rows = p[1:5]
        name = f"L{n}"
        w.reg.names[name] = n
        kind = p[6] if len(p) > 6 else None
        if kind == "doomed":
            return w.engine(eng).make_doomed_relation(set(cols), ["doomed by the harness"], name=name)
        if kind == "identity":
            return w.engine(eng).make_join_identity_relation(name=name)
        payload = iteration.RowSequence([dict(r) for r in rows])
        if len(p) > 5 and p[5] is not None:   # declared (loose) bounds: the public LeafRelation constructor
            return dr.LeafRelation(w.engine(eng), frozenset(cols), payload, name=name, min_rows=p[5][0], max_rows=p[5][1])
        return w.engine(eng).make_leaf(set(cols), payload=payload, name=name)
    if k == "un":
        return apply_un(build_impl(p[2], w), p[1])
    if k == "item":
        return build_impl(p[4], w)[slice(p[1], p[2], p[3])]
    if k == "chain":
        return build_impl(p[1], w).chain(build_impl(p[2], w))
    if k == "mat":
        name = f"M{p[1]}"
        w.reg.names[name] = p[1]
        return build_impl(p[2], w).materialized(name=name)
    if k == "xfer":
        return build_impl(p[2], w).transferred_to(w.engine(p[1]))
    raise ValueError(p)


def run_impl(p):
    """-> dict(tree=('ok', term)|('err', name), rows=('ok', rows)|('err', name)|None)"""
    w = World()
    try:
        rel = build_impl(p, w)
    except Exception as e:  # noqa: BLE001
        return {"tree": ("err", exc_name(e)), "rows": None}
    out = {"tree": ("ok", enc.dtree(rel, w.reg))}
    try:
        rows = [dict(r) for r in rel.engine.execute(rel)]
        out["rows"] = ("ok", rows)
        # executing again (same objects, same leaf payloads) must give the same rows
        again = [dict(r) for r in rel.engine.execute(rel)]
        out["repeat_differs"] = again != rows
    except Exception as e:  # noqa: BLE001
        out["rows"] = ("err", exc_name(e))
    return out


def ccase(p, res):
    t = res["tree"]
    tree = enc.cresult(t[0], ctree(t[1]) if t[0] == "ok" else t[1])
    r = res["rows"]
    if r is None:
        rows = "(Err RelAlgError)"
    else:
        rows = enc.cresult(r[0], crows(r[1]) if r[0] == "ok" else r[1])
    return f"ICase {cprog(p)} {cenv(p)} {tree} {rows}"


def cspeccase(p, res):
    r = res["rows"]
    rows = f"(Some {crows(r[1])})" if r is not None and r[0] == "ok" else "None"
    return f"SCase {cprog(p)} {cenv(p)} {rows}"


# ---- generation --------------------------------------------------------------------------------------
def gen_leaf(rng, ident, cols=None, eng=("it", 0), maxrows=6, loose=0.0, special=0.0):
    """loose: probability of declaring non-exact (but truthful) bounds; special: probability of a
    doomed / join-identity leaf."""
    if cols is None:
        cols = gen.gen_schema(rng)
    r = rng.random()
    if r < special / 2:
        return ("leaf", ident, eng, sorted(cols), [], (0, 0), "doomed")
    if r < special and not cols:
        return ("leaf", ident, eng, [], [{}], (1, 1), "identity")
    rows = gen.gen_rows(rng, cols, maxrows)
    if rng.random() < loose:
        n = len(rows)
        mn = rng.choice([0, n, max(0, n - 1), n // 2])
        mx = rng.choice([None, n, n + 1, n + 3])
        return ("leaf", ident, eng, sorted(cols), rows, (mn, mx))
    return ("leaf", ident, eng, sorted(cols), rows)


def gen_prog(rng, length, counter=None, cols=None, eng=("it", 0), allow_chain=True, allow_markers=True, weights=None,
             loose=0.0, special=0.0):
    """A random well-typed program; returns (prog, columns)."""
    counter = counter if counter is not None else [0]
    counter[0] += 1
    p = gen_leaf(rng, counter[0], cols, eng, loose=loose, special=special)
    cur = set(p[3])
    for _ in range(length):
        r = rng.random()
        if allow_chain and r < 0.08:
            counter[0] += 1
            other = gen_leaf(rng, counter[0], cur, eng, loose=loose, special=special)
            first = leaves(p)[0]
            if rng.random() < 0.4 and set(first[3]) == cur and first[2] == eng:
                other = first          # the SAME leaf again: both occurrences share one payload object
            if rng.random() < 0.5:
                o, c2 = gen.gen_op(rng, cur, weights=[0, 2, 0, 3, 3, 3])
                other = ("un", o, other)
            p = ("chain", p, other) if rng.random() < 0.5 else ("chain", other, p)
        elif allow_markers and r < 0.13:
            counter[0] += 1
            p = ("mat", counter[0], p)
        elif allow_markers and r < 0.17:
            p = ("xfer", ("it", rng.choice([0, 1])), p)
        elif r < 0.22:
            a, b = gen.gen_slice(rng)
            p = ("item", a if rng.random() < 0.7 or a else None, b, rng.choice([None, None, 1]), p)
        else:
            o, cur = gen.gen_op(rng, cur, weights)
            p = ("un", o, p)
        eng = p[1] if p[0] == "xfer" else eng
    return p, cur
