"""C17 — SQL conform is idempotent, content-preserving and keeps SELECT markers coherent."""
from __future__ import annotations

import json
import random

import lsst.daf.relation as dr
from lsst.daf.relation import sql

import core
import enc
import multiprog as mp
import signatures as sg
from enc import K, N, jsonable

THEOREMS = ["C17_conform_returns_select", "C17_conform_idempotent", "C17_append_unary_returns_select",
            "C17_append_binary_returns_select", "C17_compound_iff_chain", "C17_conform_preserves_rows",
            "C17_conform_preserves_rows_raw"]
HDR = "From DR Require Import Model.CheckStruct.\nOpen Scope Z_scope.\n"


def signature(case):
    t = case["impl_tree"]
    if t[0] == "ok" and sg.unused_calc_swallowed(t[1]):
        return "unused_calc_swallowed_in_apply_skip"
    return None


def python_side_checks(w, rel):
    bad = []
    if isinstance(rel.engine, sql.Engine):
        if not isinstance(rel, sql.Select):
            bad.append("a SQL-engine relation produced by the factories is not a Select")
        elif rel.engine.conform(rel) is not rel:
            bad.append("conform(conformed) is not the same object")
    # every Select in the tree: compound flag iff skip_to is a chain
    stack = [rel]
    while stack:
        r = stack.pop()
        if isinstance(r, sql.Select):
            is_chain = isinstance(r.skip_to, dr.BinaryOperationRelation) and isinstance(r.skip_to.operation, dr.Chain)
            if bool(r.is_compound) != is_chain:
                bad.append("is_compound disagrees with skip_to being a chain")
            stack.append(r.skip_to)
        for attr in ("target", "lhs", "rhs"):
            if hasattr(r, attr):
                stack.append(getattr(r, attr))
    return bad


def corpus():
    a, b = K(1), K(2)
    leaf = ("leaf", 1, ("sql", 0), [a, b], [{a: 1, b: 2}], (0, None))
    return [("un", ("proj", [a]), mp.DEFAULT, ("un", ("calc", K(3), ("neg", ("ref", a))), mp.DEFAULT, leaf))]


def raw_build(p, w):
    """The tree of an SQL-engine program assembled bottom-up WITHOUT the engine's help (no SELECT markers, no
    simplification): plain LeafRelation / UnaryOperationRelation / BinaryOperationRelation objects."""
    k = p[0]
    eng = w.engine(("sql", 0))
    if k == "leaf":
        n, _e, cols, rows = p[1:5]
        t = w.sql_table(n, cols, rows)
        w.reg.names[f"L{n}"] = n
        mn, mx = mp.leaf_bounds(p)
        return dr.LeafRelation(eng, frozenset(cols), sql.Payload(t, columns_available={c: t.columns[c.qualified_name] for c in cols}),
                               name=f"L{n}", min_rows=mn, max_rows=mx)
    if k in ("un", "item"):
        t = raw_build(p[3] if k == "un" else p[4], w)
        op = enc.iop(p[1]) if k == "un" else dr.Slice(p[1] or 0, p[2])
        return dr.UnaryOperationRelation(operation=op, target=t, columns=op.applied_columns(t))
    if k in ("chain", "join"):
        l, r = (raw_build(p[1], w), raw_build(p[2], w)) if k == "chain" else (raw_build(p[4], w), raw_build(p[5], w))
        if k == "chain":
            op = dr.Chain()
        else:
            common = frozenset(c for c in l.columns & r.columns if c.is_key)
            op = dr.Join(dr.Predicate.literal(True) if p[1] is None else enc.ipred(p[1]), min_columns=common, max_columns=common)
        return dr.BinaryOperationRelation(operation=op, lhs=l, rhs=r, columns=op.applied_columns(l, r))
    raise ValueError(p)


def raw_cases(rng, n):
    """Raw trees, conformed and executed on SQLite under both scan orders (rows must be the program's)."""
    import sqlprog as sp
    import gen
    out, refused = [], 0
    a, b, c = K(1), K(2), K(3)
    l1 = ("leaf", 1, ("sql", 0), [a, b], [{a: 1, b: 10}, {a: 2, b: 20}, {a: 3, b: 30}], (0, None))
    l2 = ("leaf", 2, ("sql", 0), [c], [{c: 7}, {c: 8}], (0, None))
    srt = ("un", ("sort", [(("ref", a), True), (("ref", b), True)]), mp.DEFAULT, l1)
    fixed = [("join", None, True, False, ("un", ("slice", x, y), mp.DEFAULT, base), l2)
             for x, y in ((0, 0), (1, 1), (0, 1), (1, None), (0, 2)) for base in (l1, srt)
             if base is srt or x == y]        # a non-empty window of an unsorted table is not determined
    fixed += [("chain", ("un", ("slice", x, y), mp.DEFAULT, srt), l1) for x, y in ((0, 0), (0, 1), (2, None))]
    # a window of a two-term order, re-sorted by the same terms in another order (or by one of them plus the rest), windowed again
    l3 = ("leaf", 3, ("sql", 0), [a, b], [{a: 1, b: 30}, {a: 2, b: 10}, {a: 3, b: 20}, {a: 4, b: 5}], (0, None))
    for base in (l3, ("chain", l3, ("leaf", 4, ("sql", 0), [a, b], [{a: 0, b: 40}], (0, None)))):
        first = ("un", ("slice", 0, 3), mp.DEFAULT, ("un", ("sort", [(("ref", a), True), (("ref", b), True)]), mp.DEFAULT, base))
        for again in ([(("ref", b), True), (("ref", a), True)], [(("ref", b), True)]):
            for w in ((0, 1), (1, 2)):
                if len(again) == 2 or True:
                    fixed.append(("un", ("slice", w[0], w[1]), mp.DEFAULT, ("un", ("sort", again), mp.DEFAULT, first)))
    fixed += sp.fixed_window_cases()
    fixed += sp.sorted_then_sequences(False)
    # a window of a window (both with a start and a stop) over a totally sorted ten-row table, also with a third one on top
    big = ("leaf", 5, ("sql", 0), [a], [{a: (7 * i) % 10} for i in range(10)], (0, None))
    srt10 = ("un", ("sort", [(("ref", a), True)]), mp.DEFAULT, big)
    for w1 in ((2, 8), (0, 2), (1, None), (3, 6)):
        for w2 in ((1, 3), (1, 5), (0, 2), (2, None)):
            two = ("un", ("slice", w2[0], w2[1]), mp.DEFAULT, ("un", ("slice", w1[0], w1[1]), mp.DEFAULT, srt10))
            fixed += [two, ("un", ("slice", 1, 2), mp.DEFAULT, two)]
    n += len(fixed)
    for k in range(n):
        p, cols, ordered = sp.gen_sqlprog(rng, rng.choice([1, 2, 3, 4, 5]))
        if k < len(fixed):
            p, cols, ordered = fixed[k], [], False
        if k < len(fixed):
            pass
        elif rng.random() < 0.15:
            p, ordered = sp.dedup_then_project(rng), False
        elif rng.random() < 0.2:
            (p, cols), ordered = sp.windowed_then_op(rng), False
        elif rng.random() < 0.12:
            p, ordered = sp.mutual_hidden_join(rng), False
        elif rng.random() < 0.12:
            (p, cols), ordered = sp.compound_order_cases(rng), False
        elif rng.random() < 0.4:
            # windows the generator reaches rarely, below a binary operation: empty [0:0] / [k:k], one row, offset only
            win = rng.choice([(0, 0), (0, 0), (1, 1), (0, 1), (2, None)])
            counter = [50]
            shared = {c for c in cols if c.is_key and rng.random() < 0.7} if rng.random() < 0.5 else set()   # else: a cross join
            q = mp.gen_leaf(rng, 51, sorted(shared | {gen.fresh_tag(rng, set(cols))}), ("sql", 0), special=0)
            for _try in range(10):
                if q[4]:
                    break
                q = mp.gen_leaf(rng, 51, q[3], ("sql", 0), special=0)
            terms = sp.total_sort_terms(rng, set(cols))
            inner = ("un", ("slice", win[0], win[1]), mp.DEFAULT, ("un", ("sort", terms), mp.DEFAULT, p)) if cols else \
                ("un", ("slice", win[0], win[1]), mp.DEFAULT, p)
            p = ("join", None, True, False, inner, q) if rng.random() < 0.6 else ("join", None, True, False, q, inner)
            ordered = False
        w = mp.World()
        try:
            raw = raw_build(p, w)
        except Exception:  # noqa: BLE001 — the operation classes reject the parameters themselves
            continue
        try:
            rel = w.engine(("sql", 0)).conform(raw)
        except dr.RelationalAlgebraError:
            refused += 1                 # documented refusal (a sort that would be buried)
            continue
        try:
            a, b = sp.execute_both(w, rel)
        except Exception:  # noqa: BLE001 — C08's concern
            continue
        out.append({"json": {"raw_program": jsonable(p), "conformed": str(rel), "rows": jsonable(a)},
                    "coq": f"RAWCase {mp.cprog(p)} {mp.cenv(p)} {enc.crows(a)} {enc.crows(b)} {0 if ordered else 1}%N",
                    "nontrivial": True, "key": mp.cprog(p)})
    return out, refused


def make_cases(rng, tier):
    n = 900 if tier == "quick" else 20000
    cases, extra_bad = [], []
    progs = corpus()
    for _ in range(n):
        # bias towards the SQL engine
        p, _c = mp.gen_mprog(rng, rng.choice([1, 2, 3, 4, 5, 7, 9]), eng=("sql", 0) if rng.random() < 0.7 else None, p_xfer=0.08)
        progs.append(p)
    for p in progs:
        w, rel, res = mp.run_build(p)
        t = enc.cresult(res[0], enc.ctree(res[1]) if res[0] == "ok" else res[1])
        if rel is not None:
            bad = python_side_checks(w, rel)
            if bad:
                extra_bad.append({"program": jsonable(p), "problem": bad})
        nsel = json.dumps(jsonable(res[1])).count('"select"') if res[0] == "ok" else 0
        cases.append({"json": {"program": jsonable(p), "impl": jsonable(res)}, "coq": f"STCase {mp.cprog(p)} {t}",
                      "nontrivial": nsel >= 2, "key": mp.cprog(p), "impl_tree": res})
    return cases, extra_bad


def run(ctx):
    rng = random.Random(ctx.seed)
    s1 = core.s1(ctx, ["Slice"], "Properties.C17", THEOREMS, extra_targets=["Model/CheckStruct.vo"])
    cases, extra_bad = make_cases(rng, ctx.tier)
    found = False
    for b in extra_bad[:3]:
        found |= ctx.failing_case({"kind": "conform-identity-or-flag", "case": b}, None)
    bits = {1: "built tree (or exception class) differs from the model's",
            8: "a SELECT marker is not coherent with the operation nodes between it and its skip target",
            16: "a SQL-engine relation produced by the factories is not a SELECT marker"}
    raws, refused = raw_cases(rng, 250 if ctx.tier == "quick" else 6000)
    rsumm = core.judge(ctx, raws, "From DR Require Import Model.CheckMulti.\nOpen Scope Z_scope.\n", "check_raw", prefix="cases_C17raw",
                       bits={4: "conforming a raw tree changed its rows (database result, both scan orders, against the specification)"})
    found |= rsumm["spec_failures"] > 0
    summ = core.judge(ctx, cases, HDR, "check_struct_c17", bits=bits, signature_of=signature, found_elsewhere=found)
    found |= summ["spec_failures"] > 0
    core.conclude_s1(ctx, s1, found or bool(ctx.violations))
    ctx.coverage.update({
        "evaluations": len(cases), "distinct_nontrivial": len({c["key"] for c in cases if c["nontrivial"]}),
        "rule": "SQL-engine (and mixed) programs built incrementally through the API; every SELECT marker of the real tree "
                "is walked and compared with its recorded slots; conform(conformed) is checked for object identity; "
                "non-trivial = at least two SELECT markers in the tree",
        "traces_validated_against_impl": summ["evaluated"] + rsumm["evaluated"], "judgement": summ, "python_side_problems": len(extra_bad),
        "raw_trees_conformed_and_executed": rsumm, "raw_trees_refused_for_order_loss": refused,
        "samples": [cases[1]["json"]["program"], cases[-1]["json"]["program"]],
    })
    ctx.assumptions += ["content preservation of the conformation rules is C02's theorem (layer a); here raw trees assembled "
                        "without the engine are conformed by the real engine, executed on SQLite and compared with the specification"]


def replay(ctx, path):
    print(json.dumps(json.load(open(path)), indent=1)[:4000])
    return 0
