"""C17 — SQL conform is idempotent, content-preserving and keeps SELECT markers coherent."""
from __future__ import annotations

import json
import random

import lsst.daf.relation as dr
from lsst.daf.relation import sql

import core
import enc
import multiprog as mp
import signatures as sg
from enc import K, N, jsonable

THEOREMS = ["C17_conform_returns_select", "C17_conform_idempotent", "C17_append_unary_returns_select",
            "C17_append_binary_returns_select", "C17_compound_iff_chain"]
HDR = "From DR Require Import Model.CheckStruct.\nOpen Scope Z_scope.\n"


def signature(case):
    t = case["impl_tree"]
    if t[0] == "ok" and sg.unused_calc_swallowed(t[1]):
        return "unused_calc_swallowed_in_apply_skip"
    return None


def python_side_checks(w, rel):
    bad = []
    if isinstance(rel.engine, sql.Engine):
        if not isinstance(rel, sql.Select):
            bad.append("a SQL-engine relation produced by the factories is not a Select")
        elif rel.engine.conform(rel) is not rel:
            bad.append("conform(conformed) is not the same object")
    # every Select in the tree: compound flag iff skip_to is a chain
    stack = [rel]
    while stack:
        r = stack.pop()
        if isinstance(r, sql.Select):
            is_chain = isinstance(r.skip_to, dr.BinaryOperationRelation) and isinstance(r.skip_to.operation, dr.Chain)
            if bool(r.is_compound) != is_chain:
                bad.append("is_compound disagrees with skip_to being a chain")
            stack.append(r.skip_to)
        for attr in ("target", "lhs", "rhs"):
            if hasattr(r, attr):
                stack.append(getattr(r, attr))
    return bad


def corpus():
    a, b = K(1), K(2)
    leaf = ("leaf", 1, ("sql", 0), [a, b], [{a: 1, b: 2}], (0, None))
    return [("un", ("proj", [a]), mp.DEFAULT, ("un", ("calc", K(3), ("neg", ("ref", a))), mp.DEFAULT, leaf))]


def make_cases(rng, tier):
    n = 900 if tier == "quick" else 20000
    cases, extra_bad = [], []
    progs = corpus()
    for _ in range(n):
        # bias towards the SQL engine
        p, _c = mp.gen_mprog(rng, rng.choice([1, 2, 3, 4, 5, 7, 9]), eng=("sql", 0) if rng.random() < 0.7 else None, p_xfer=0.08)
        progs.append(p)
    for p in progs:
        w, rel, res = mp.run_build(p)
        t = enc.cresult(res[0], enc.ctree(res[1]) if res[0] == "ok" else res[1])
        if rel is not None:
            bad = python_side_checks(w, rel)
            if bad:
                extra_bad.append({"program": jsonable(p), "problem": bad})
        nsel = json.dumps(jsonable(res[1])).count('"select"') if res[0] == "ok" else 0
        cases.append({"json": {"program": jsonable(p), "impl": jsonable(res)}, "coq": f"STCase {mp.cprog(p)} {t}",
                      "nontrivial": nsel >= 2, "key": mp.cprog(p), "impl_tree": res})
    return cases, extra_bad


def run(ctx):
    rng = random.Random(ctx.seed)
    s1 = core.s1(ctx, ["Slice"], "Properties.C17", THEOREMS, extra_targets=["Model/CheckStruct.vo"])
    cases, extra_bad = make_cases(rng, ctx.tier)
    found = False
    for b in extra_bad[:3]:
        found |= ctx.failing_case({"kind": "conform-identity-or-flag", "case": b}, None)
    bits = {1: "built tree (or exception class) differs from the model's",
            8: "a SELECT marker is not coherent with the operation nodes between it and its skip target",
            16: "a SQL-engine relation produced by the factories is not a SELECT marker"}
    summ = core.judge(ctx, cases, HDR, "check_struct_c17", bits=bits, signature_of=signature)
    found |= summ["spec_failures"] > 0
    core.conclude_s1(ctx, s1, found or bool(ctx.violations))
    ctx.coverage.update({
        "evaluations": len(cases), "distinct_nontrivial": len({c["key"] for c in cases if c["nontrivial"]}),
        "rule": "SQL-engine (and mixed) programs built incrementally through the API; every SELECT marker of the real tree "
                "is walked and compared with its recorded slots; conform(conformed) is checked for object identity; "
                "non-trivial = at least two SELECT markers in the tree",
        "traces_validated_against_impl": summ["evaluated"], "judgement": summ, "python_side_problems": len(extra_bad),
        "samples": [cases[1]["json"]["program"], cases[-1]["json"]["program"]],
    })
    ctx.assumptions += ["content preservation of conform is C02's theorem; raw (hand-assembled) trees are conformed through "
                        "the same rules and are exercised there"]


def replay(ctx, path):
    print(json.dumps(json.load(open(path)), indent=1)[:4000])
    return 0
