"""Multi-engine programs (two iteration engines and one SQL engine): generation, building on the real
library, execution through a real Processor (SQLite <-> iteration), encoding for Coq."""
from __future__ import annotations

import sqlalchemy
import lsst.daf.relation as dr
from lsst.daf.relation import iteration, sql

import enc
import gen
from enc import cz, coptz, cset, cop, crows, ctree, cengine, cbool, cpred
from iterprog import exc_name, leaf_bounds

ENGINES = [("it", 0), ("it", 1), ("sql", 0)]


class World:
    def __init__(self):
        self.reg = enc.Registry()
        self.engines = {}
        for i in range(2):
            e = iteration.Engine(name=f"it{i}", functions={"vid": lambda x: x, "vid_it": lambda x: x})
            self.engines[("it", i)] = self.reg.add_engine(e, "it", i)
        s = sql.Engine(name="sql0", functions={"vid": lambda x: x, "vid_sql": lambda x: x})
        self.engines[("sql", 0)] = self.reg.add_engine(s, "sql", 0)
        self.meta = sqlalchemy.MetaData()
        self.tables = {}     # leaf id -> (table, cols, rows)
        self.leaf_rows = {}
        self.leaf_objs = {}

    def engine(self, key):
        return self.engines[key]

    def sql_table(self, ident, cols, rows):
        if ident not in self.tables:
            t = sqlalchemy.Table(f"L{ident}", self.meta,
                                 *([sqlalchemy.Column(c.qualified_name, sqlalchemy.Integer) for c in cols]
                                   or [sqlalchemy.Column("dummy__", sqlalchemy.Integer)]))
            self.tables[ident] = (t, list(cols), [dict(r) for r in rows])
        return self.tables[ident][0]


# ---- encoding ----------------------------------------------------------------------------------------
def copts(o):
    pref, bt, tr, rq = o
    p = "None" if pref is None else f"(Some {cengine(pref)})"
    return f"(Opts {p} {cbool(bt)} {cbool(tr)} {cbool(rq)})"


DEFAULT = (None, True, False, False)


def cprog(p):
    k = p[0]
    if k == "leaf":
        n, eng, cols, rows = p[1:5]
        mn, mx = leaf_bounds(p)
        return f"(MpLeaf {n} {cengine(eng)} {cset(cols)} {cz(mn)} {coptz(mx)})"
    if k == "un":
        return f"(MpUn {cop(p[1])} {copts(p[2])} {cprog(p[3])})"
    if k == "item":
        return f"(MpItem {coptz(p[1])} {coptz(p[2])} {coptz(p[3])} {cprog(p[4])})"
    if k == "chain":
        return f"(MpChain {cprog(p[1])} {cprog(p[2])})"
    if k == "join":
        pr = "None" if p[1] is None else f"(Some {cpred(p[1])})"
        return f"(MpJoin {pr} {cbool(p[2])} {cbool(p[3])} {cprog(p[4])} {cprog(p[5])})"
    if k == "mat":
        return f"(MpMat {p[1]} {cprog(p[2])})"
    if k == "xfer":
        return f"(MpXfer {cengine(p[1])} {cprog(p[2])})"
    raise ValueError(p)


def leaves(p):
    k = p[0]
    if k == "leaf":
        return [p]
    if k == "chain":
        return leaves(p[1]) + leaves(p[2])
    if k == "join":
        return leaves(p[4]) + leaves(p[5])
    return leaves(p[-1])


def cenv(p):
    seen, out = set(), []
    for lf in leaves(p):
        if lf[1] not in seen:
            seen.add(lf[1])
            out.append(f"({lf[1]}%positive, {crows(lf[4])})")
    return "[" + "; ".join(out) + "]"


# ---- building on the real library -------------------------------------------------------------------------
def kw(opts, w):
    pref, bt, tr, rq = opts
    return dict(preferred_engine=None if pref is None else w.engine(pref), backtrack=bt, transfer=tr,
                require_preferred_engine=rq)


def apply_un(rel, o, opts, w):
    k = o[0]
    a = kw(opts, w)
    if k == "calc":
        return rel.with_calculated_column(o[1], enc.iexpr(o[2]), **a)
    if k == "dedup":
        return rel.without_duplicates(**a)
    if k == "proj":
        return rel.with_only_columns(set(o[1]), **a)
    if k == "sel":
        return rel.with_rows_satisfying(enc.ipred(o[1]), **a)
    if k == "slice":
        return dr.Slice(o[1], o[2]).apply(rel, **a)
    if k == "sort":
        return rel.sorted(enc.iterms(o[1]), **a)
    raise ValueError(o)


def _build_leaf(p, w: World):
    n, eng, cols, rows = p[1:5]
    name = f"L{n}"
    w.reg.names[name] = n
    w.leaf_rows[n] = rows
    kind = p[6] if len(p) > 6 else None
    e = w.engine(eng)
    if kind == "doomed":
        return e.make_doomed_relation(set(cols), ["doomed by the harness"], name=name)
    if kind == "identity":
        return e.make_join_identity_relation(name=name)
    mn, mx = leaf_bounds(p)
    if eng[0] == "sql":
        t = w.sql_table(n, cols, rows)
        payload = sql.Payload(t, columns_available={c: t.columns[c.qualified_name] for c in cols})
        return e.make_leaf(set(cols), payload, min_rows=mn, max_rows=mx, name=name)
    payload = iteration.RowSequence([dict(r) for r in rows])
    if len(p) > 5 and p[5] is not None:
        return dr.LeafRelation(e, frozenset(cols), payload, name=name, min_rows=mn, max_rows=mx)
    return e.make_leaf(set(cols), payload=payload, name=name)


def build_impl(p, w: World):
    k = p[0]
    if k == "leaf":
        n = p[1]
        # one leaf object per leaf id: a leaf used twice in a program is the SAME relation (and payload) both times
        if n not in w.leaf_objs:
            w.leaf_objs[n] = _build_leaf(p, w)
        return w.leaf_objs[n]
    if k == "un":
        return apply_un(build_impl(p[3], w), p[1], p[2], w)
    if k == "item":
        return build_impl(p[4], w)[slice(p[1], p[2], p[3])]
    if k == "chain":
        return build_impl(p[1], w).chain(build_impl(p[2], w))
    if k == "join":
        lhs, rhs = build_impl(p[4], w), build_impl(p[5], w)
        return lhs.join(rhs, None if p[1] is None else enc.ipred(p[1]), backtrack=p[2], transfer=p[3])
    if k == "mat":
        name = f"M{p[1]}"
        w.reg.names[name] = p[1]
        return build_impl(p[2], w).materialized(name=name)
    if k == "xfer":
        return build_impl(p[2], w).transferred_to(w.engine(p[1]))
    raise ValueError(p)


def run_build(p):
    """-> (world, relation or None, ('ok', tree term) | ('err', class name))"""
    w = World()
    try:
        rel = build_impl(p, w)
    except Exception as e:  # noqa: BLE001
        return w, None, ("err", exc_name(e))
    return w, rel, ("ok", enc.dtree(rel, w.reg))


# ---- a real Processor: SQLite temp tables <-> RowSequence --------------------------------------------------
class RealProcessor(dr.Processor):
    def __init__(self, w: World, conn):
        self.w, self.conn = w, conn
        self.log = []          # hook calls: (kind, str(source), engine of source)
        self.counter = 0

    def _rows_of(self, source):
        eng = source.engine
        if isinstance(eng, sql.Engine):
            ex = eng.to_executable(source)
            cols = list(source.columns)
            out = []
            for r in self.conn.execute(ex).mappings():
                out.append({c: r[c.qualified_name] for c in cols})
            return out
        return [dict(r) for r in eng.execute(source)]

    def _payload_for(self, dest, columns, rows, name):
        if isinstance(dest, sql.Engine):
            self.counter += 1
            cols = sorted(columns)
            tname = f"tmp_{name or 'x'}_{self.counter}"
            t = sqlalchemy.Table(tname, self.w.meta, *[sqlalchemy.Column(c.qualified_name, sqlalchemy.Integer) for c in cols]
                                 + ([sqlalchemy.Column("dummy__", sqlalchemy.Integer)] if not cols else []))
            t.create(self.conn)
            if rows:
                self.conn.execute(t.insert(), [{**{c.qualified_name: r[c] for c in cols}, **({"dummy__": 1} if not cols else {})} for r in rows])
            return sql.Payload(t, columns_available={c: t.columns[c.qualified_name] for c in cols})
        return iteration.RowSequence(rows)

    def transfer(self, source, destination, materialize_as):
        self.log.append(("transfer", source, source.engine))
        return self._payload_for(destination, source.columns, self._rows_of(source), materialize_as)

    def materialize(self, target, name):
        self.log.append(("materialize", target, target.engine))
        return self._payload_for(target.engine, target.columns, self._rows_of(target), name)


def execute(w: World, rel, reverse=False):
    """Process and execute rel in its final engine against a fresh SQLite database.
    -> (rows, processor, processed relation)"""
    db = sqlalchemy.create_engine("sqlite://")
    try:
        with db.connect() as conn:
            conn.exec_driver_sql(f"PRAGMA reverse_unordered_selects = {'ON' if reverse else 'OFF'}")
            for ident, (t, cols, rows) in w.tables.items():
                t.create(conn)
                if rows:
                    conn.execute(t.insert(), [({c.qualified_name: r[c] for c in cols} or {"dummy__": 1}) for r in rows])
            proc = RealProcessor(w, conn)
            processed = proc.process(rel)
            rows = proc._rows_of(processed)
            return rows, proc, processed
    finally:
        db.dispose()
        for t in list(w.meta.tables.values()):
            if t.name.startswith("tmp_"):
                w.meta.remove(t)


# ---- generation ------------------------------------------------------------------------------------------------
def gen_opts(rng, cur_eng, p_special=0.5):
    if rng.random() > p_special:
        return DEFAULT
    pref = rng.choice(ENGINES + [None])
    return (pref, rng.random() < 0.75, rng.random() < 0.4, rng.random() < 0.3)


def gen_leaf(rng, ident, cols=None, eng=None, loose=0.2, special=0.05):
    eng = eng or rng.choice(ENGINES)
    if cols is None:
        cols = gen.gen_schema(rng)
    r = rng.random()
    if r < special / 2:
        return ("leaf", ident, eng, sorted(cols), [], (0, 0), "doomed")
    if r < special and not cols:
        return ("leaf", ident, eng, [], [{}], (1, 1), "identity")
    rows = gen.gen_rows(rng, cols, 5)
    if eng[0] == "sql" or rng.random() < loose:
        n = len(rows)
        mn = rng.choice([0, n, max(0, n - 1)])
        mx = rng.choice([None, n, n + 2])
        return ("leaf", ident, eng, sorted(cols), rows, (mn, mx))
    return ("leaf", ident, eng, sorted(cols), rows)


def engine_of_prog(p):
    """Best-effort engine tracking for generation (the library decides in the end)."""
    k = p[0]
    if k == "leaf":
        return p[2]
    if k == "xfer":
        return p[1]
    if k == "un":
        pref, bt, tr, rq = p[2]
        base = engine_of_prog(p[3])
        return pref if (pref is not None and tr) else base
    if k == "chain":
        return engine_of_prog(p[1])
    if k == "join":
        return engine_of_prog(p[5]) if p[3] else engine_of_prog(p[4])
    return engine_of_prog(p[-1])


def gen_mprog(rng, length, counter=None, cols=None, eng=None, allow_binary=True, p_opts=0.5, p_xfer=0.15, p_mat=0.08,
              weights=None):
    counter = counter if counter is not None else [0]
    counter[0] += 1
    p = gen_leaf(rng, counter[0], cols, eng)
    cur = set(p[3])
    for _ in range(length):
        r = rng.random()
        here = engine_of_prog(p)
        if allow_binary and r < 0.07:
            counter[0] += 1
            other = gen_leaf(rng, counter[0], cur, here if rng.random() < 0.85 else None)
            if rng.random() < 0.4:
                o, _c = gen.gen_op(rng, cur, weights=[0, 2, 0, 3, 2, 2])
                other = ("un", o, DEFAULT, other)
            p = ("chain", p, other) if rng.random() < 0.5 else ("chain", other, p)
        elif allow_binary and r < 0.16:
            counter[0] += 1
            # the other operand shares some key columns and possibly a non-key column
            shared = {c for c in cur if rng.random() < 0.6}
            extra = set()
            for _i in range(rng.choice([0, 1, 1, 2])):
                extra.add(gen.fresh_tag(rng, cur | extra))
            ocols = shared | extra
            other = gen_leaf(rng, counter[0], ocols, here if rng.random() < 0.8 else None, special=0.1)
            pred = None
            if rng.random() < 0.4 and (cur | ocols):
                pred = gen.gen_pred(rng, cur | ocols, 1)
            bt, tr = rng.random() < 0.8, rng.random() < 0.4
            if rng.random() < 0.5:
                p = ("join", pred, bt, tr, p, other)
            else:
                p = ("join", pred, bt, tr, other, p)
            cur = cur | ocols
        elif r < 0.16 + p_mat:
            counter[0] += 1
            p = ("mat", counter[0], p)
        elif r < 0.16 + p_mat + p_xfer:
            p = ("xfer", rng.choice(ENGINES), p)
        elif r < 0.16 + p_mat + p_xfer + 0.05:
            a, b = gen.gen_slice(rng)
            p = ("item", a if rng.random() < 0.7 or a else None, b, rng.choice([None, None, 1]), p)
        else:
            o, cur = gen.gen_op(rng, cur, weights)
            p = ("un", o, gen_opts(rng, here, p_opts), p)
    return p, cur


def chain_backtrack_cases(engines=None):
    """Deterministic: every kind of operation requested with a preferred engine on a chain (also on a chain under a
    selection) whose branches both come from that engine through transfers; the rows of the branches interleave under
    the sort keys, so an operation wrongly distributed over the branches shows."""
    k, v = enc.K(1), enc.K(2)
    out = []
    for src_eng in (engines or ENGINES):
        for mid_eng in (engines or ENGINES):
            if src_eng == mid_eng:
                continue
            x = ("leaf", 1, src_eng, [k, v], [{k: 3, v: 10}, {k: 1, v: 11}, {k: 3, v: 10}], (0, None))
            y = ("leaf", 2, src_eng, [k, v], [{k: 2, v: 20}, {k: 0, v: 21}], (0, None))
            base = ("chain", ("xfer", mid_eng, x), ("xfer", mid_eng, ("un", ("sort", [(("ref", k), True)]), DEFAULT, y)))
            ops = [("sort", [(("ref", k), True)]), ("sort", [(("ref", v), False), (("ref", k), True)]), ("dedup",), ("slice", 1, 3),
                   ("sel", ("cmp", "ge", ("ref", k), ("lit", 1))), ("proj", [k]), ("calc", enc.K(5), ("add", ("ref", k), ("lit", 1)))]
            for o in ops:
                for opts in ((src_eng, True, False, False), (src_eng, True, True, False)):
                    out.append(("un", o, opts, base))
            out.append(("un", ops[0], (src_eng, True, True, False), ("un", ops[4], DEFAULT, base)))
    return out


def forced_backtrack_cases(rng, n):
    """Shapes the uniform generator reaches too rarely: a new operation whose commutation modifies the existing one
    (calculation or join past a projection, projection past a calculation) while backtracking cannot complete —
    the source is a leaf / binary node, or the preferred engine is a third one — or completes as a no-op."""
    out = []
    # deterministic: a join that has to pass a deduplication to reach the fixed operand's engine, for every pair of
    # engines and fixed operands with duplicate rows / deduplicated / a projection of a deduplicated relation / one row
    k, extra, other = enc.K(1), enc.K(3), enc.K(2)
    for src_eng in ENGINES:
        for mid_eng in ENGINES:
            if src_eng == mid_eng:
                continue
            leaf = ("leaf", 1, src_eng, [k, other], [{k: 1, other: 5}, {k: 0, other: 6}, {k: 1, other: 5}], (0, None))
            g = ("leaf", 2, src_eng, [k, extra], [{k: 0, extra: 1}, {k: 0, extra: 2}, {k: 1, extra: 1}, {k: 1, extra: 2}, {k: 0, extra: 1}], (0, None))
            dd = ("un", ("dedup",), DEFAULT, g)
            for fixed in (g, dd, ("un", ("proj", [k]), DEFAULT, dd), ("un", ("slice", 0, 1), DEFAULT, g),
                          ("un", ("sel", ("cmp", "ge", ("ref", k), ("lit", 0))), DEFAULT, ("un", ("proj", [k]), DEFAULT, dd))):
                out.append(("join", None, True, True, ("un", ("dedup",), DEFAULT, ("xfer", mid_eng, leaf)), fixed))
            # the fixed operand is the other engine's join identity: nothing to join, but a predicate still has to filter
            ident = ("leaf", 3, src_eng, [], [{}], (1, 1), "identity")
            for pred in (None, ("cmp", "ge", ("ref", k), ("lit", 1))):
                for jt in (False, True):
                    out.append(("join", pred, True, jt, ("xfer", mid_eng, leaf), ident))
                    out.append(("join", pred, jt, True, ("un", ("calc", enc.K(5), ("add", ("ref", k), ("lit", 1))), DEFAULT, ("xfer", mid_eng, leaf)), ident))
    out += chain_backtrack_cases()
    for _ in range(n):
        cols = gen.gen_schema(rng, maxk=3, maxn=1, allow_empty=False)
        src_eng, mid_eng = rng.sample(ENGINES, 2)
        third = [e for e in ENGINES if e not in (src_eng, mid_eng)][0]
        leaf = gen_leaf(rng, 1, cols, src_eng, special=0)
        base = ("xfer", mid_eng, leaf) if rng.random() < 0.8 else leaf
        keep = sorted(c for c in cols if rng.random() < 0.6) or [sorted(cols)[0]]
        kind = rng.choice(["calc_past_proj", "join_past_proj", "proj_past_calc", "sort_past_sort", "calc_recreates",
                           "partial_proj", "partial_proj", "join_past_dedup"])
        pref = rng.choice([src_eng, third])
        opts = (pref, True, rng.random() < 0.5, False)
        if kind == "partial_proj":
            # a projection that can only partly be inserted upstream (a selection needs a column it drops), below
            # operations that assumed all of it would be: a dropped projection, a calculation re-creating a column
            cs = sorted(cols)
            c = rng.choice(cs)
            rest = [x for x in cs if x != c] or cs
            p = ("un", ("sel", ("cmp", "ge", ("ref", c), ("lit", 1))), DEFAULT, ("xfer", mid_eng, leaf))
            keep2 = sorted(x for x in rest if rng.random() < 0.7) or [rest[0]]
            p = ("un", ("proj", keep2), DEFAULT, p)
            last, must = set(keep2), set()
            if rng.random() < 0.85:
                t = c if rng.random() < 0.8 else gen.fresh_tag(rng, set(cols))
                p = ("un", ("calc", t, gen.gen_expr(rng, keep2, 1, need_col=True)), DEFAULT, p)
                last.add(t)
                must = {t} if rng.random() < 0.85 else set()
            if rng.random() < 0.3:
                o, _c = gen.gen_op(rng, last, weights=[0, 0, 0, 2, 1, 2])
                p = ("un", o, DEFAULT, p)
            final = sorted(must | {x for x in last if rng.random() < 0.5}) or [sorted(last)[0]]
            p = ("un", ("proj", final), (src_eng, True, rng.random() < 0.5, False), p)
        elif kind == "calc_past_proj":
            p = ("un", ("proj", keep), DEFAULT, base)
            t = gen.fresh_tag(rng, set(cols))
            p = ("un", ("calc", t, gen.gen_expr(rng, keep, 1, need_col=True)), opts, p)
        elif kind == "calc_recreates":
            p = ("un", ("proj", keep), DEFAULT, base)
            hidden = [c for c in cols if c not in keep]
            t = rng.choice(hidden) if hidden else gen.fresh_tag(rng, set(cols))
            p = ("un", ("calc", t, gen.gen_expr(rng, keep, 1, need_col=True)), opts, p)
        elif kind == "join_past_dedup":
            # a join that would have to pass a deduplication to reach the fixed operand's engine; the fixed operand has
            # duplicate rows, is deduplicated, is a projection of a deduplicated relation (duplicates again), or has one row
            k = sorted(cols)[0]
            extra = [x for x in (enc.K(7), enc.K(8)) if x not in cols][0]     # a key column (the ColumnTag contract)
            vals = sorted({r[k] for r in leaf[4]} | {1})[:2]
            g = ("leaf", 2, src_eng, sorted([k, extra]), [{k: v, extra: e} for v in vals for e in (1, 2)] + [{k: vals[0], extra: 1}], (0, None))
            fixed = rng.choice([g, ("un", ("dedup",), DEFAULT, g), ("un", ("proj", [k]), DEFAULT, ("un", ("dedup",), DEFAULT, g)),
                                ("un", ("proj", [k]), DEFAULT, ("un", ("dedup",), DEFAULT, g)), ("un", ("slice", 0, 1), DEFAULT, g),
                                ("un", ("sel", ("cmp", "ge", ("ref", k), ("lit", 0))), DEFAULT, ("un", ("proj", [k]), DEFAULT, ("un", ("dedup",), DEFAULT, g)))])
            p = ("un", ("dedup",), DEFAULT, ("xfer", mid_eng, leaf))
            if rng.random() < 0.3:
                p = ("un", ("sel", ("cmp", "ge", ("ref", k), ("lit", -5))), DEFAULT, p)
            p = ("join", None, True, True, p, fixed) if rng.random() < 0.8 else ("join", None, True, True, fixed, p)
        elif kind == "join_past_proj":
            p = ("un", ("proj", keep), DEFAULT, base)
            ocols = sorted({c for c in keep if rng.random() < 0.7} | {gen.fresh_tag(rng, set(cols))})
            other = gen_leaf(rng, 2, ocols, rng.choice(ENGINES), special=0)
            p = ("join", None, True, rng.random() < 0.6, p, other)
        elif kind == "proj_past_calc":
            t = gen.fresh_tag(rng, set(cols))
            p = ("un", ("calc", t, gen.gen_expr(rng, cols, 1, need_col=True)), DEFAULT, base)
            p = ("un", ("proj", sorted(set(keep) | ({t} if rng.random() < 0.5 else set()))), opts, p)
        else:
            c = sorted(cols)[0]
            p = ("un", ("sort", [(("ref", c), True)]), DEFAULT, base)
            p = ("un", ("sort", [(("ref", c), False)]), opts, p)
        out.append(p)
    return out
