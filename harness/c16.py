"""C16 — Diagnostics never dooms a non-empty relation; exact with an executor."""
from __future__ import annotations

import json
import random

import lsst.daf.relation as dr

import core
import enc
import gen
import multiprog as mp
from enc import K, N, cbool, jsonable

THEOREMS = ["C16_diagnostics_correct", "C16_never_dooms_a_relation_with_rows"]
HDR = "From DR Require Import Model.CheckDiag.\nOpen Scope Z_scope.\n"


def leaf_msgs(p):
    out = []
    for lf in mp.leaves(p):
        kind = lf[6] if len(lf) > 6 else None
        out.append((lf[1], 1 if kind == "doomed" else 0))
    return "[" + "; ".join(f"({n}%positive, {m}%nat)" for n, m in dict(out).items()) + "]"


def gen_prog(rng):
    """Programs rich in the static doom causes: doomed/identity leaves, empty leaves, zero-limit slices,
    trivially false predicates, chains and joins of those."""
    eng = rng.choice([("it", 0), ("sql", 0), ("sql", 0)])
    counter = [0]

    def leaf(cols=None):
        counter[0] += 1
        lf = mp.gen_leaf(rng, counter[0], cols, eng, special=0.3)
        if rng.random() < 0.15 and len(lf) <= 6:          # an empty leaf that is not statically known to be empty
            lf = ("leaf", lf[1], lf[2], lf[3], [], (0, rng.choice([None, 3])))
        return lf
    p = leaf()
    cur = set(p[3])
    for _ in range(rng.choice([0, 1, 2, 3, 4])):
        r = rng.random()
        if rng.random() < 0.15:
            # a transfer: whatever empties the relation upstream of it must still be found, with the executor's help
            eng = rng.choice([e for e in mp.ENGINES if e != eng])
            p = ("xfer", eng, p)
            if rng.random() < 0.3:
                counter[0] += 1
                p = ("mat", 40 + counter[0], p)
            continue
        if r < 0.10:
            a = rng.choice([0, 1, 2])
            p = ("un", ("slice", a, a), mp.DEFAULT, p)
        elif r < 0.15:
            # slices that are NOT statically empty: open-ended with an offset, one row, beyond the end
            a = rng.choice([1, 1, 2, 3])
            p = ("un", ("slice", a, rng.choice([None, None, a + 1, a + 4])), mp.DEFAULT, p)
        elif r < 0.3:
            choices = [("plit", False), ("and", [("plit", False)]), ("not", ("plit", True)),
                       ("and", [gen.gen_pred(rng, cur, 1), ("plit", False)])]
            if cur:
                # memberships in ranges / sequences that are empty, ascending, descending, one element
                c = rng.choice(sorted(cur))
                choices += [("in", ("ref", c), ("range", a, b, st)) for a, b, st in
                            [(0, 3, 1), (3, 0, -1), (5, 0, -2), (2, 2, 1), (4, 1, 1), (0, 5, -1), (1, 2, 3)]]
                choices += [("in", ("ref", c), ("seq", [])), ("in", ("ref", c), ("seq", [("lit", 1), ("lit", 2)]))]
            p = ("un", ("sel", rng.choice(choices)), mp.DEFAULT, p)
        elif r < 0.45:
            other = leaf(sorted(cur))
            p = ("chain", p, other) if rng.random() < 0.5 else ("chain", other, p)
        elif r < 0.6 and eng[0] == "sql":
            shared = {c for c in cur if rng.random() < 0.6}
            other = leaf(sorted(shared | {gen.fresh_tag(rng, cur)}))
            pred = rng.choice([None, None, ("plit", False), gen.gen_pred(rng, cur | set(other[3]), 1)])
            p = ("join", pred, True, False, p, other)
            cur = cur | set(other[3])
        else:
            o, cur = gen.gen_op(rng, cur, weights=[1, 2, 2, 3, 2, 1])
            p = ("un", o, mp.DEFAULT, p)
    return p


def fixed_programs():
    """A deterministic list: joins of operands that share no column, with predicates across them that keep all, some or
    none of the pairs; equi-joins with and without matches; each bare, under empty-invariant operations, below a window
    that starts exactly at / inside / beyond the rows, and across a transfer."""
    a, b, c = K(1), K(2), K(3)
    S = ("sql", 0)
    X = ("leaf", 1, S, [a], [{a: 1}, {a: 2}, {a: 3}], (3, 3))
    Y = ("leaf", 2, S, [b], [{b: 10}, {b: 20}], (2, 2))
    Z = ("leaf", 3, S, [a, c], [{a: 7, c: 1}, {a: 8, c: 2}], (2, 2))
    out = []
    joins = [("join", pr, True, False, X, Y) for pr in (None, ("cmp", "lt", ("ref", a), ("ref", b)), ("cmp", "gt", ("ref", a), ("ref", b)),
                                                        ("cmp", "gt", ("ref", a), ("add", ("ref", b), ("lit", 100))))]
    joins += [("join", None, True, False, X, Z), ("join", ("cmp", "gt", ("ref", c), ("lit", 5)), True, False, X, Z)]
    for j in joins:
        out.append(j)
        cols = sorted(set(j[4][3]) | set(j[5][3]))
        out.append(("un", ("dedup",), mp.DEFAULT, ("un", ("proj", cols[:1]), mp.DEFAULT, j)))
        out.append(("xfer", ("it", 0), j))
    for lf in (X, ("leaf", 4, ("it", 0), [a], [{a: 1}, {a: 2}], (2, 2))):
        nrows = len(lf[4])
        for start in (nrows - 1, nrows, nrows + 1):
            w = ("un", ("slice", start, start + 2), mp.DEFAULT, lf)
            out += [w, ("un", ("proj", []), mp.DEFAULT, w), ("un", ("slice", start, None), mp.DEFAULT, ("un", ("proj", [a]), mp.DEFAULT, lf))]
        # the SAME relation object in two branches of a tree (one leaf id is one object): as it is in one branch, below an
        # operation that empties it in the other
        empties = [("sel", ("plit", False)), ("slice", nrows + 2, None), ("slice", 0, 0), ("sel", ("cmp", "gt", ("ref", a), ("lit", 99)))]
        for e in empties:
            gone = ("un", e, mp.DEFAULT, lf)
            out += [("chain", lf, gone), ("chain", gone, lf), ("chain", ("un", ("sel", ("cmp", "ge", ("ref", a), ("lit", 0))), mp.DEFAULT, lf), gone),
                    ("chain", ("chain", gone, lf), gone)]
    return out


def make_cases(rng, tier):
    n = 500 if tier == "quick" else 8000
    cases = []
    fixed = fixed_programs()
    for it in range(n + len(fixed)):
        p = fixed[it] if it < len(fixed) else gen_prog(rng)
        w, rel, res = mp.run_build(p)
        if rel is None:
            continue
        d0 = dr.Diagnostics.run(rel)
        static = f"({cbool(d0.is_doomed)}, {len(d0.messages)}%nat)"
        execd = "None"
        d1 = None
        try:
            def executor(r):
                rows, _proc, _pr = mp.execute(w, r)
                return bool(rows)
            d1 = dr.Diagnostics.run(rel, executor)
            execd = f"(Some ({cbool(d1.is_doomed)}, {len(d1.messages)}%nat))"
        except Exception:  # noqa: BLE001 — relation cannot be executed (e.g. a finding of C08): static verdict only
            pass
        t = enc.cresult(res[0], enc.ctree(res[1]))
        cases.append({"json": {"program": jsonable(p), "static": [d0.is_doomed, d0.messages],
                               "with_executor": None if d1 is None else [d1.is_doomed, d1.messages]},
                      "coq": f"DGCase {mp.cprog(p)} {mp.cenv(p)} {leaf_msgs(p)} {t} {static} {execd}",
                      "nontrivial": d0.is_doomed or (d1 is not None and d1.is_doomed), "key": mp.cprog(p)})
    return cases


def run(ctx):
    rng = random.Random(ctx.seed)
    s1 = core.s1(ctx, ["Slice"], "Properties.C16", THEOREMS, extra_targets=["Model/CheckDiag.vo"])
    cases = make_cases(rng, ctx.tier)
    bits = {1: "built tree differs from the model's", 2: "Diagnostics verdict or message count differs from the model's",
            4: "the verdict contradicts the specification (doomed with rows, no message, or empty but not doomed with a truthful executor)"}
    summ = core.judge(ctx, cases, HDR, "check_diag", bits=bits)
    core.conclude_s1(ctx, s1, summ["spec_failures"] > 0 or bool(ctx.violations))
    ctx.coverage.update({
        "evaluations": len(cases), "distinct_nontrivial": len({c["key"] for c in cases if c["nontrivial"]}),
        "rule": "iteration- and SQL-engine trees with doomed/identity/empty leaves, zero-limit slices, trivially false "
                "predicates, chains and joins; Diagnostics.run without and with a truthful executor (real execution through "
                "SQLite/the iteration engine); non-trivial = some verdict is doomed",
        "with_executor": sum(1 for c in cases if c["json"]["with_executor"] is not None),
        "traces_validated_against_impl": summ["evaluated"], "judgement": summ,
        "samples": [cases[0]["json"], cases[-1]["json"]],
    })


def replay(ctx, path):
    print(json.dumps(json.load(open(path)), indent=1)[:4000])
    return 0
