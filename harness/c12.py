"""C12 — column expressions mean the same thing in every engine (iteration callable, SQL on a real
SQLite database, direct evaluation)."""
from __future__ import annotations

import itertools
import json
import random

import sqlalchemy
from lsst.daf.relation import iteration, sql

import core
import enc
import gen
from enc import K, N, cbool, clist, cexpr, coptz, cpred, crow, jsonable

THEOREMS = ["C12_iteration_expression_agrees", "C12_iteration_predicate_agrees", "C12_sql_expression_agrees",
            "C12_sql_predicate_agrees", "C12_all_ranges_ok"]
HDR = "From DR Require Import Model.CheckExpr.\nOpen Scope Z_scope.\n"
SPEC_HDR = "From DR Require Import Spec.CheckExprSpec.\nOpen Scope Z_scope.\n"
IT = iteration.Engine(name="it", functions={"vid": lambda x: x, "vid_it": lambda x: x})
SQL = sql.Engine(name="sql", functions={"vid": lambda x: x, "vid_sql": lambda x: x})
DB = sqlalchemy.create_engine("sqlite://")


def coptb(b):
    return "None" if b is None else f"(Some {cbool(bool(b))})"


def make_table(cols, rows, meta):
    t = sqlalchemy.Table("t", meta, sqlalchemy.Column("idx", sqlalchemy.Integer, primary_key=True),
                         *[sqlalchemy.Column(c.qualified_name, sqlalchemy.Integer) for c in cols])
    return t


def with_table(cols, rows, fn):
    meta = sqlalchemy.MetaData()
    t = make_table(cols, rows, meta)
    with DB.connect() as conn:
        meta.create_all(conn)
        try:
            if rows:
                conn.execute(t.insert(), [{"idx": i, **{c.qualified_name: r[c] for c in cols}} for i, r in enumerate(rows)])
            avail = {c: t.columns[c.qualified_name] for c in cols}
            return fn(conn, t, avail)
        finally:
            meta.drop_all(conn)
            conn.commit()


def run_pred(p, cols, rows):
    obj = enc.ipred(p)
    call = IT.convert_predicate(obj)
    it_vals = []
    for r in rows:
        try:
            it_vals.append(bool(call(r)))
        except KeyError:
            it_vals.append(None)

    def q(conn, t, avail):
        try:
            clause = SQL.convert_predicate(obj, avail)
            hit = {row[0] for row in conn.execute(sqlalchemy.select(t.c.idx).where(clause))}
            return [i in hit for i in range(len(rows))], str(clause.compile(compile_kwargs={"literal_binds": True}))
        except Exception as e:  # noqa: BLE001
            return [None] * len(rows), f"ERROR {type(e).__name__}: {e}"
    sql_vals, text = with_table(cols, rows, q)
    return {"iter": it_vals, "sql": sql_vals, "sql_text": text}


def run_expr(e, cols, rows):
    obj = enc.iexpr(e)
    call = IT.convert_column_expression(obj)
    it_vals = []
    for r in rows:
        try:
            it_vals.append(call(r))
        except KeyError:
            it_vals.append(None)

    def q(conn, t, avail):
        try:
            col = SQL.convert_column_expression(obj, avail)
            got = dict(conn.execute(sqlalchemy.select(t.c.idx, col)).all())
            return [got.get(i) for i in range(len(rows))], str(col)
        except Exception as ex:  # noqa: BLE001
            return [None] * len(rows), f"ERROR {type(ex).__name__}: {ex}"
    sql_vals, text = with_table(cols, rows, q)
    return {"iter": it_vals, "sql": sql_vals, "sql_text": text}


def pcase(p, cols, rows):
    res = run_pred(p, cols, rows)
    coq = f"EPCase {cpred(p)} {clist([crow(r) for r in rows])} {clist([coptb(b) for b in res['iter']])} {clist([coptb(b) for b in res['sql']])}"
    spec = coq.replace("EPCase", "EPS", 1)
    has_range = "range" in json.dumps(jsonable(p))
    return {"json": {"predicate": jsonable(p), "rows": jsonable(rows), "impl": res}, "coq": coq, "spec": spec,
            "nontrivial": True, "key": cpred(p), "kind": "pred", "has_range": has_range}


def ecase(e, cols, rows):
    res = run_expr(e, cols, rows)
    coq = f"EECase {cexpr(e)} {clist([crow(r) for r in rows])} {clist([coptz(b) for b in res['iter']])} {clist([coptz(b) for b in res['sql']])}"
    return {"json": {"expression": jsonable(e), "rows": jsonable(rows), "impl": res}, "coq": coq,
            "nontrivial": e[0] not in ("ref", "lit"), "key": cexpr(e), "kind": "expr"}


def make_cases(rng, tier):
    pcs, ecs = [], []
    a = K(1)
    # all ranges with start, stop in -B..B and step in +-1..4, rows over -9..9
    B = 4 if tier == "quick" else 8
    dom = list(range(-9, 10))
    rows1 = [{a: v} for v in dom]
    rngs = [(s, e, st) for s in range(-B, B + 1) for e in range(-B, B + 1) for st in (1, 2, 3, 4, -1, -2, -3, -4)]
    rngs += [(2, 11, 3), (3, 4, 1), (3, 6, 1), (-5, 5, 3), (10, 0, -2), (5, 6, -1), (0, 0, 1)]
    # ranges of exactly one, two and three members, whose last member is the last value before the stop or earlier
    rngs += [(s, s + sg * (m * k + d), sg * k) for s in (-7, -1, 0, 2) for k in (2, 3, 5) for m in (0, 1, 2) for d in (1, 2) for sg in (1, -1)]
    for s, e, st in rngs:
        item = ("ref", a) if rng.random() < 0.8 else ("sub", ("ref", a), ("lit", 1))
        pcs.append(pcase(("in", item, ("range", s, e, st)), [a], rows1))
    # membership in every list of up to three (thorough: four) integer literals over -2, 0, 1, 3 — with repeats and gaps — and
    # in the same lists with one item computed
    import itertools
    rows2 = [{a: v} for v in range(-3, 6)]
    for k in range(0, 4 if tier == "quick" else 5):
        for items in itertools.product((-2, 0, 1, 3), repeat=k):
            pcs.append(pcase(("in", ("ref", a), ("seq", [("lit", x) for x in items])), [a], rows2))
            if k == 3 and items[0] != items[1]:
                pcs.append(pcase(("in", ("ref", a), ("seq", [("add", ("lit", items[0]), ("lit", 0))] + [("lit", x) for x in items[1:]])), [a], rows2))
    n = 300 if tier == "quick" else 4000
    for _ in range(n):
        cols = gen.gen_schema(rng, maxk=2, maxn=1, allow_empty=False)
        rows = [dict(zip(cols, [rng.choice((-3, -1, 0, 1, 2, 5)) for _ in cols])) for _ in range(6)]
        pcs.append(pcase(gen.gen_pred(rng, cols, rng.choice([1, 2, 3])), cols, rows))
    for _ in range(n // 2):
        cols = gen.gen_schema(rng, maxk=2, maxn=1, allow_empty=False)
        rows = [dict(zip(cols, [rng.choice((-3, -1, 0, 1, 2, 5)) for _ in cols])) for _ in range(6)]
        ecs.append(ecase(gen.gen_expr(rng, cols, rng.choice([1, 2, 3, 4]), need_col=True), cols, rows))
    return pcs, ecs


def run(ctx):
    rng = random.Random(ctx.seed)
    s1 = core.s1(ctx, ["SqlRange"], "Properties.C12", THEOREMS,
                 extra_targets=["Model/CheckExpr.vo", "Spec/CheckExprSpec.vo"])
    pcs, ecs = make_cases(rng, ctx.tier)
    bits = {2: "SQLite's answer differs from the model's evaluation of the model's translation",
            4: "the iteration callable or the database contradicts direct evaluation (the specification)"}
    s_p = core.judge(ctx, pcs, HDR, "check_epred", SPEC_HDR, "check_epred_spec", model_v="Model/CheckExpr.v",
                     bits=bits, prefix="cases_C12p")
    s_e = {"evaluated": 0, "spec_failures": 0}
    if core.vo_fresh("Model/CheckExpr.v"):
        s_e = core.judge(ctx, ecs, HDR, "check_eexpr", bits=bits, prefix="cases_C12e")
    found = s_p["spec_failures"] + s_e["spec_failures"] > 0
    core.conclude_s1(ctx, s1, found or bool(ctx.violations))
    distinct = {c["key"] for c in pcs + ecs if c["nontrivial"]}
    ctx.coverage.update({
        "evaluations": len(pcs) + len(ecs), "distinct_nontrivial": len(distinct),
        "rule": "predicates and expressions over the portable operator set: membership in ranges with start/stop in "
                "-B..B and step in +-1..4 on rows -9..9 (thorough: all of them, B=8), plus random trees of depth <=3/4; "
                "each evaluated three ways (iteration callable, SQLite via the engine's translation, Coq eval); "
                "non-trivial = not a bare reference/literal; distinct = distinct term",
        "traces_validated_against_impl": s_p["evaluated"] + s_e["evaluated"],
        "judgement": {"predicates": s_p, "expressions": s_e},
        "ranges": sum(1 for c in pcs if c["has_range"]),
        "samples": [pcs[0]["json"]["predicate"], pcs[-1]["json"]["predicate"], ecs[-1]["json"]["expression"]],
    })
    ctx.assumptions += ["values stay far below 2^63: SQLite integer overflow / REAL promotion is not modelled",
                        "SQLite 3.40 semantics for %, BETWEEN, IN, NOT, AND/OR on integers as defined in Spec/SqlExpr.v "
                        "(validated against the database by this run)"]


def replay(ctx, path):
    print(json.dumps(json.load(open(path)), indent=1)[:4000])
    return 0
