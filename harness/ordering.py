"""How much of the row order of a (decoded) relation tree is determined by the library's documented
behaviour.  SQL tables are scanned in an unspecified order (the harness runs SQLite with both settings
of reverse_unordered_selects), so content that passes through the SQL engine is a bag unless a sort
over all columns fixes it; a slice of a bag has a determined length only.

EXACT < BAG < COUNT < UNKNOWN; the judgement compares lists, multisets, lengths, or columns only."""
from __future__ import annotations

import signatures as sg

EXACT, BAG, COUNT, UNKNOWN = 0, 1, 2, 3


def engine_of(t):
    k = t[0]
    if k == "leaf":
        return tuple(t[2])
    if k == "xfer":
        return tuple(t[1])
    if k == "un":
        return engine_of(t[2])
    if k == "chain":
        return engine_of(t[1])
    if k == "join":
        return engine_of(t[3])
    if k == "mat":
        return engine_of(t[2])
    if k == "select":
        return engine_of(t[6])
    raise ValueError(t)


def total_sort(terms, cols):
    refs = {e[1] for e, _asc in terms if e[0] == "ref"}
    return set(cols) <= refs


def state(t):
    k = t[0]
    sql = engine_of(t)[0] == "sql"
    floor = BAG if sql else EXACT
    if k == "leaf":
        return floor
    if k == "select":
        return state(t[6])
    if k in ("xfer", "mat"):
        return max(state(t[2]), floor)        # a table in the SQL engine is scanned in any order
    if k == "chain":
        return max(state(t[1]), state(t[2]), floor)
    if k == "join":
        s = max(state(t[3]), state(t[4]), floor)
        return UNKNOWN if s >= COUNT else s
    o, s = t[1], state(t[2])
    kind = o[0]
    if kind == "sort":
        if s <= BAG and total_sort(o[1], sg.tcolumns(t[2])):
            return EXACT
        return max(s, floor)
    if kind == "slice":
        return COUNT if s == BAG else s
    if kind in ("sel", "dedup"):
        return UNKNOWN if s >= COUNT else max(s, floor)
    return max(s, floor)                      # proj, calc
