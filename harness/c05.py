"""C05 — merging and eliding adjacent operations preserves semantics and never rejects."""
from __future__ import annotations

import itertools
import json
import os
import random

import core
import gen
import iterprog as ip
from enc import K, N, jsonable

THEOREMS = ["C05_slice_merge_sound", "C05_slice_merge_never_raises", "C05_sort_merge_sound",
            "C05_simplify_sound", "C05_simplify_never_raises", "C05_finish_apply_sound"]
FULL_HDR = "From DR Require Import Model.CheckIter.\nOpen Scope Z_scope.\n"
SPEC_HDR = "From DR Require Import Spec.CheckSpec.\nOpen Scope Z_scope.\n"


def count_un(t):
    if t[0] == "un":
        return 1 + count_un(t[2])
    if t[0] in ("chain",):
        return count_un(t[1]) + count_un(t[2])
    if t[0] in ("mat", "xfer"):
        return count_un(t[2])
    return 0


def n_ops(p):
    if p[0] in ("un",):
        return 1 + n_ops(p[2])
    if p[0] == "item":
        return 1 + n_ops(p[4])
    if p[0] == "chain":
        return n_ops(p[1]) + n_ops(p[2])
    if p[0] in ("mat", "xfer"):
        return n_ops(p[2])
    return 0


def pair_programs(rng, tier):
    """Pairs (upstream, new) of adjacent operations over one leaf, for every merge/elision rule."""
    progs = []
    cols = [K(1), K(2)]
    rows6 = [{K(1): i % 3, K(2): (i * 2) % 3} for i in range(6)]
    leaf = ("leaf", 1, ("it", 0), cols, rows6)
    # slice after slice: exhaustive over small bounds (windows that are empty or beyond the first)
    hi = 4 if tier == "quick" else 7
    bounds = [(a, b) for a in range(hi + 1) for b in [None] + list(range(a, hi + 1))]
    for (a1, b1), (a2, b2) in itertools.product(bounds, bounds):
        progs.append(("un", ("slice", a2, b2), ("un", ("slice", a1, b1), leaf)))
    # ... via __getitem__ too
    for (a1, b1), (a2, b2) in rng.sample(list(itertools.product(bounds, bounds)), 60):
        progs.append(("item", a2, b2, None, ("item", a1 or None, b1, 1, leaf)))
    # sort after sort: term lists up to length 2/3 over two columns and both directions
    atoms = [(("ref", K(1)), True), (("ref", K(1)), False), (("ref", K(2)), True), (("ref", K(2)), False),
             (("neg", ("ref", K(1))), True),
             # keys that are NOT injective in the columns they read: rows that tie on them still differ on those columns
             (("add", ("ref", K(1)), ("ref", K(2))), True), (("mul", ("ref", K(1)), ("ref", K(2))), False)]
    maxlen = 2 if tier == "quick" else 3
    lists = [list(c) for n in range(maxlen + 1) for c in itertools.product(atoms, repeat=n)]
    pairs = list(itertools.product(lists, lists))
    if tier == "quick":
        pairs = rng.sample(pairs, 500)
    rows_s = [{K(1): a, K(2): b} for a, b in [(1, 0), (0, 1), (1, 1), (0, 0), (1, 0), (2, 1)]]
    leaf_s = ("leaf", 1, ("it", 0), cols, rows_s)
    for t1, t2 in pairs:
        progs.append(("un", ("sort", t2), ("un", ("sort", t1), leaf_s)))
    # selection after selection, projection over projection / calculation, no-ops
    n = 300 if tier == "quick" else 3000
    for _ in range(n):
        c = gen.gen_schema(rng, allow_empty=False)
        lf = ("leaf", 1, ("it", 0), c, gen.gen_rows(rng, c))
        kind = rng.choice(["selsel", "projproj", "projcalc", "noop", "any"])
        if kind == "selsel":
            p = ("un", ("sel", gen.gen_pred(rng, c, 2)), ("un", ("sel", gen.gen_pred(rng, c, 2)), lf))
        elif kind == "projproj":
            c1 = [x for x in c if rng.random() < 0.8]
            c2 = [x for x in c1 if rng.random() < 0.7]
            p = ("un", ("proj", c2), ("un", ("proj", c1), lf))
        elif kind == "projcalc":
            t = gen.fresh_tag(rng, c)
            keep = [x for x in c + [t] if rng.random() < 0.6]
            p = ("un", ("proj", keep), ("un", ("calc", t, gen.gen_expr(rng, c, 2, need_col=True)), lf))
        elif kind == "noop":
            o1, c1 = gen.gen_op(rng, c)
            noop = rng.choice([("slice", 0, None), ("sort", []), ("proj", sorted(c1)),
                               ("sel", ("plit", True)), ("sel", ("and", [])), ("sel", ("or", [("plit", True), gen.gen_pred(rng, c1, 1)])),
                               ("sel", ("not", ("plit", False)))])
            p = ("un", noop, ("un", o1, lf))
        else:
            o1, c1 = gen.gen_op(rng, c)
            o2, _ = gen.gen_op(rng, c1)
            p = ("un", o2, ("un", o1, lf))
            if rng.random() < 0.5:
                o3, _ = gen.gen_op(rng, _)
                p = ("un", o3, p)
        progs.append(p)
    # a projection (onto no columns, onto one) right above each kind of operation, over a leaf with duplicate rows: only
    # an unused calculation or another projection may be swallowed
    k1, k2 = K(1), K(2)
    ups = [("dedup",), ("sort", [(("ref", k1), False)]), ("proj", [k1]), ("calc", K(5), ("add", ("ref", k1), ("lit", 1))),
           ("slice", 1, 4), ("sel", ("cmp", "ge", ("ref", k1), ("lit", 1)))]
    for up in ups:
        for keep in ([], [k1]):
            progs.append(("un", ("proj", keep), ("un", up, leaf)))
            progs.append(("un", ("proj", keep), ("un", up, ("un", ("dedup",), leaf))))
    return progs


def signature(case):
    return None


def make_cases(progs):
    cases = []
    for p in progs:
        res = ip.run_impl(p)
        merged = res["tree"][0] == "ok" and count_un(res["tree"][1]) < n_ops(p)
        cases.append({"json": {"program": jsonable(p), "impl": jsonable(res)},
                      "coq": ip.ccase(p, res), "spec": ip.cspeccase(p, res),
                      "nontrivial": merged, "key": ip.cprog(p), "raised": res["tree"][0] == "err" or (res["rows"] or ("ok",))[0] == "err"})
    return cases


def corpus_programs():
    d = os.path.join(core.VERIF, "corpus", "C05")
    out = []
    if os.path.isdir(d):
        for f in sorted(os.listdir(d)):
            out.append(eval(open(os.path.join(d, f)).read(), {"K": K, "N": N}))  # noqa: S307 — our own files
    return out


def guarded_selection_pairs(rng, n):
    """Selection after selection where the later predicate is only defined on the rows the earlier one keeps (a division
    guarded by a non-zero test, ...): the merged tree must evaluate to the rows of the two selections applied in
    sequence — which never evaluates the later predicate on a rejected row — and must not raise.  Judged in Python:
    the partial operators are outside the model's (total) expression language."""
    import lsst.daf.relation as dr
    from lsst.daf.relation import iteration
    E = dr.ColumnExpression
    bad, done = [], 0
    a, b = K(1), K(2)
    for _ in range(n):
        eng = iteration.Engine(name="guard")
        rows = [{a: rng.choice((0, 1, 4, 9)), b: rng.choice((0, 0, 1, 2, 3))} for _ in range(rng.choice([3, 5, 7]))]
        leaf = eng.make_leaf({a, b}, payload=iteration.RowSequence([dict(r) for r in rows]), name="G")
        div = rng.choice(["__floordiv__", "__truediv__", "__mod__"])
        guard = E.reference(b).ne(E.literal(0))
        later = E.reference(a).method(div, E.reference(b)).gt(E.literal(1))
        extra = E.reference(a).ge(E.literal(1))
        steps = rng.choice([[guard, later], [guard, extra, later], [extra, guard, later]])
        fns = {id(guard): lambda r: r[b] != 0, id(extra): lambda r: r[a] >= 1,
               id(later): {"__floordiv__": lambda r: r[a] // r[b] > 1, "__truediv__": lambda r: r[a] / r[b] > 1,
                           "__mod__": lambda r: r[a] % r[b] > 1}[div]}
        want = rows
        for st in steps:
            want = [r for r in want if fns[id(st)](r)]
        rel = leaf
        for st in steps:
            rel = rel.with_rows_satisfying(st)
        merged = str(rel).count("σ") < len(steps)
        try:
            got = [dict(r) for r in eng.execute(rel)]
            problem = None if got == want else f"rows {got} instead of {want}"
        except Exception as e:  # noqa: BLE001
            problem = f"executing the merged tree raised {type(e).__name__}: {e}"
        done += 1
        if problem:
            bad.append({"tree": str(rel), "merged": merged, "rows": jsonable(rows), "problem": problem})
    return done, bad


def sorts_with_unhashable_literals(rng, n):
    """Sort after sort where a term looks a value up in a literal table (a dict / a list: not hashable): the merge must
    not raise and the merged tree must order the rows like the two sorts in sequence.  Judged in Python."""
    import lsst.daf.relation as dr
    from lsst.daf.relation import iteration
    E = dr.ColumnExpression
    bad, done = [], 0
    a, b = K(1), K(2)
    for _ in range(n):
        eng = iteration.Engine(name="unh")
        rows = [{a: rng.choice((0, 1, 2)), b: rng.choice((0, 1, 2, 3))} for _ in range(rng.choice([4, 6]))]
        leaf = eng.make_leaf({a, b}, payload=iteration.RowSequence([dict(r) for r in rows]), name="U")
        table = {0: rng.choice((0, 5)), 1: rng.choice((1, 3)), 2: rng.choice((2, 0))} if rng.random() < 0.6 else [3, 1, 2]
        look = E.function("getitem", E.literal(table), E.reference(a))
        key1 = (lambda r: table[r[a]])
        first_is_lookup = rng.random() < 0.5
        t1 = dr.SortTerm(look if first_is_lookup else E.reference(b), rng.random() < 0.5)
        t2 = dr.SortTerm(E.reference(b) if first_is_lookup else look, rng.random() < 0.5)
        k1, k2 = (key1, lambda r: r[b]) if first_is_lookup else (lambda r: r[b], key1)
        want = sorted(rows, key=k1, reverse=not t1.ascending)
        want = sorted(want, key=k2, reverse=not t2.ascending)
        try:
            rel = leaf.sorted([t1]).sorted([t2])
            got = [dict(r) for r in eng.execute(rel)]
            problem = None if got == want else f"rows {got} instead of {want}"
        except Exception as e:  # noqa: BLE001
            problem = f"{type(e).__name__}: {e}"
        done += 1
        if problem:
            bad.append({"terms": [str(t1), str(t2)], "rows": jsonable(rows), "problem": problem})
    return done, bad


def run(ctx):
    rng = random.Random(ctx.seed)
    s1 = core.s1(ctx, ["Slice"], "Properties.C05", THEOREMS,
                 extra_targets=["Model/CheckIter.vo", "Spec/CheckSpec.vo"])
    progs = corpus_programs() + pair_programs(rng, ctx.tier)
    cases = make_cases(progs)
    # merging must never raise for individually valid operations: any exception here is a failure
    found = False
    raised = [c for c in cases if c["raised"]]
    for c in raised[:3]:
        found |= ctx.failing_case({"kind": "merge-raised", "case": c["json"]}, None)
    summ = core.judge(ctx, cases, FULL_HDR, "check_iter", SPEC_HDR, "check_spec", model_v="Model/CheckIter.v")
    found |= summ["spec_failures"] > 0
    ng, gbad = guarded_selection_pairs(rng, 60 if ctx.tier == "quick" else 1000)
    for g in gbad[:3]:
        found |= ctx.failing_case({"kind": "guarded-selection-pair", "case": g}, None)
    nu, ubad = sorts_with_unhashable_literals(rng, 40 if ctx.tier == "quick" else 600)
    for g in ubad[:3]:
        found |= ctx.failing_case({"kind": "sort-merge-with-unhashable-literal", "case": g}, None)
    core.conclude_s1(ctx, s1, found or bool(ctx.violations))
    distinct = {c["key"] for c in cases if c["nontrivial"]}
    ctx.coverage.update({
        "evaluations": len(cases), "distinct_nontrivial": len(distinct),
        "rule": "every case is a 2- or 3-operation program over one leaf, executed by the real iteration engine; "
                "non-trivial = the library merged or elided at least one operation (built tree has fewer operation "
                "nodes than calls); distinct = distinct program text",
        "traces_validated_against_impl": summ["evaluated"], "judgement": summ,
        "raised": len(raised), "guarded_selection_pairs": {"run": ng, "failing": len(gbad)},
        "sort_merges_with_unhashable_literals": {"run": nu, "failing": len(ubad)},
        "samples": [c["json"]["program"] for c in cases[:2] + cases[-2:]],
        "exhaustive_parts": "slice-after-slice pairs over all bounds in 0..%d ∪ {None}" % (4 if ctx.tier == "quick" else 7),
    })
    ctx.assumptions += ["rows are NULL-free integer rows; values unbounded in the model",
                        "Python list slicing / enumerate semantics as modelled by firstn/skipn (validated by this run)"]


def replay(ctx, path):
    case = json.load(open(path))
    print(json.dumps(case, indent=1)[:4000])
    return 0
