"""C11 — the SQL engine honours sort order for slices and for trailing sorts, or refuses."""
from __future__ import annotations

import json
import random

import lsst.daf.relation as dr

import core
import enc
import gen
import multiprog as mp
import sqlprog as sp
from enc import K, N, jsonable
from iterprog import exc_name

THEOREMS = ["C11_slice_is_positional_on_the_ordered_rows", "C11_trailing_sort_orders_the_rows",
            "C11_binary_refuses_order_loss", "C11_materialize_refuses_order_loss"]
HDR = "From DR Require Import Model.CheckMulti.\nOpen Scope Z_scope.\n"


def ordered_prog(rng):
    """sort (total) and slices in every relative position to projection, deduplication, selection, calculation;
    the program always ENDS with a total sort followed only by slices, so the list is determined."""
    counter = [0]
    p, cols, _o = sp.gen_sqlprog(rng, rng.choice([0, 1, 2, 3]), counter, p_slice=0.25)
    cols = set(cols)
    if rng.random() < 0.12:
        p, cols = sp.compound_order_cases(rng)
    elif rng.random() < 0.15:
        p, cols = sp.windowed_then_op(rng)
    elif rng.random() < 0.3 and cols:
        # forced: a window of a total order taken at EVERY kind of query level (plain, join, UNION / UNION ALL, already
        # sliced), then each kind of operation on top of it; the final total sort below makes the whole list determined
        if rng.random() < 0.6:
            counter[0] += 1
            other = mp.gen_leaf(rng, counter[0], sorted(cols), sp.SQL, special=0)
            p = ("chain", p, other) if rng.random() < 0.5 else ("chain", other, p)
            if rng.random() < 0.3:
                p = ("un", ("dedup",), mp.DEFAULT, p)
        p = ("un", ("sort", sp.total_sort_terms(rng, cols)), mp.DEFAULT, p)
        a = rng.choice([0, 0, 1, 2])
        p = ("un", ("slice", a, a + rng.choice([1, 2, 3])), mp.DEFAULT, p)
        for _ in range(rng.choice([1, 1, 2])):
            o, new = gen.gen_op(rng, cols, weights=[3, 1, 2, 4, 0, 1])
            if o[0] == "sort":
                continue
            if o[0] == "proj" and not new:
                continue
            p = ("un", o, mp.DEFAULT, p)
            cols = set(new)
    # keep at least the key columns we sort by
    terms = sp.total_sort_terms(rng, cols)
    p = ("un", ("sort", terms), mp.DEFAULT, p)
    for _ in range(rng.choice([0, 1, 1, 2])):
        a, b = gen.gen_slice(rng)
        p = ("un", ("slice", a, b), mp.DEFAULT, p)
    # order-compatible trailing operations: a projection that keeps the sort columns, a deduplication
    tail = rng.random()
    need = set()
    for e, _a in terms:
        need |= gen.expr_cols(e)
    if tail < 0.25 and need and need != cols:
        p = ("un", ("proj", sorted(need | {c for c in cols if rng.random() < 0.5})), mp.DEFAULT, p)
    elif tail < 0.4:
        p = ("un", ("dedup",), mp.DEFAULT, p)
    return p


def burying_prog(rng):
    """A sort without a slice that a join, chain or materialization would bury."""
    counter = [0]
    p, cols, _o = sp.gen_sqlprog(rng, rng.choice([0, 1, 2]), counter, allow_binary=False, p_slice=0.0)
    cols = set(cols)
    if not cols:
        return None
    p = ("un", ("sort", [(("ref", sorted(cols)[0]), True)]), mp.DEFAULT, p)
    for _ in range(rng.choice([0, 1])):
        o, cols2 = gen.gen_op(rng, cols, weights=[2, 1, 0, 2, 0, 0])     # calc / dedup / selection keep the sort absorbed
        p = ("un", o, mp.DEFAULT, p)
        cols = set(cols2)
    kind = rng.choice(["chain", "join", "mat"])
    counter[0] += 10
    def dress(other, ocols):
        # the other operand may itself carry a slice, a (sliced) sort, a deduplication ...: none of that excuses the unsliced sort
        r = rng.random()
        if r < 0.35:
            other = ("un", ("slice", rng.choice([0, 1]), rng.choice([3, 6])), mp.DEFAULT, other)
        elif r < 0.5 and ocols:
            other = ("un", ("slice", 0, 4), mp.DEFAULT, ("un", ("sort", sp.total_sort_terms(rng, set(ocols))), mp.DEFAULT, other))
        elif r < 0.6:
            other = ("un", ("dedup",), mp.DEFAULT, other)
        return other
    if kind == "chain":
        other = dress(mp.gen_leaf(rng, counter[0], sorted(cols), sp.SQL, special=0), sorted(cols))
        return ("chain", p, other) if rng.random() < 0.5 else ("chain", other, p)
    if kind == "join":
        ocols = sorted({c for c in cols if rng.random() < 0.6} | {K(9)})
        other = dress(mp.gen_leaf(rng, counter[0], ocols, sp.SQL, special=0), ocols)
        return ("join", None, True, False, p, other) if rng.random() < 0.5 else ("join", None, True, False, other, p)
    return ("mat", counter[0], p)


def make_cases(rng, tier):
    n = 350 if tier == "quick" else 8000
    cases, refusals, problems = [], 0, []
    fixed_left = list(sp.fixed_window_cases())
    n += len(fixed_left) * 4 // 3
    # an unsliced sort buried under a join with the engine's join identity (either side, with and without a predicate,
    # also under a further join): the other operand is handed back inside a fresh SELECT, so the sort would be lost
    a_, b_ = enc.K(1), enc.K(2)
    t_ = ("leaf", 1, ("sql", 0), [a_, b_], [{a_: 1, b_: 2}, {a_: 2, b_: 1}, {a_: 3, b_: 3}], (0, None))
    srt_ = ("un", ("sort", [(("ref", b_), True)]), mp.DEFAULT, t_)
    ident_ = ("leaf", 2, ("sql", 0), [], [{}], (1, 1), "identity")
    other_ = ("leaf", 3, ("sql", 0), [a_, enc.K(3)], [{a_: 1, enc.K(3): 5}], (0, None))
    bury_fixed = []
    for pred in (None, ("cmp", "ge", ("ref", a_), ("lit", 2))):
        bury_fixed += [("join", pred, True, False, srt_, ident_), ("join", pred, True, False, ident_, srt_),
                       ("join", None, True, False, ("join", pred, True, False, srt_, ident_), other_)]
    n += len(bury_fixed) * 4
    for i in range(n):
        if i % 4 == 3:
            p = bury_fixed.pop() if bury_fixed else burying_prog(rng)
            if p is None:
                continue
            w, rel, res = mp.run_build(p)
            t = enc.cresult(res[0], enc.ctree(res[1]) if res[0] == "ok" else res[1])
            if res[0] == "err" and res[1] == "OrderLoss":
                refusals += 1
            elif res[0] == "ok":
                # accepted: then the sort must not have been dropped silently — the tree may only be accepted if the
                # select that was buried had no unsliced sort (e.g. the sorted relation was statically trivial)
                sel = p[1] if p[0] == "mat" else None
                problems.append({"program": jsonable(p), "problem": "a sort without a slice was buried without the row-order-loss error",
                                 "tree": jsonable(res[1])})
            cases.append({"json": {"program": jsonable(p), "impl": jsonable(res)}, "coq": f"BCase {mp.cprog(p)} {t}",
                          "nontrivial": True, "key": mp.cprog(p), "kind": "refusal", "checker": "check_build"})
            continue
        if fixed_left:
            # the deterministic window sweep, closed by a total sort so that the whole list is determined
            p = fixed_left.pop()
            _w0, rel0, _r0 = mp.run_build(p)
            if rel0 is None:
                continue
            p = ("un", ("sort", [(("ref", c), True) for c in sorted(rel0.columns)]), mp.DEFAULT, p)
        else:
            p = ordered_prog(rng)
        w, rel, res = mp.run_build(p)
        if rel is None:
            continue
        try:
            a, b = sp.execute_both(w, rel)
        except Exception:  # noqa: BLE001 — C08's concern
            continue
        t = enc.cresult(res[0], enc.ctree(res[1]))
        cases.append({"json": {"program": jsonable(p), "rows": jsonable(a), "rows_reversed_scan": jsonable(b)},
                      "coq": f"SQCase {mp.cprog(p)} {mp.cenv(p)} {t} {enc.crows(a)} {enc.crows(b)} 0%N",
                      "nontrivial": True, "key": mp.cprog(p), "kind": "ordered", "checker": "check_sql"})
    return cases, refusals, problems


def trivial_exception(p):
    return False


def run(ctx):
    rng = random.Random(ctx.seed)
    s1 = core.s1(ctx, ["Slice"], "Properties.C11", THEOREMS, extra_targets=["Model/CheckMulti.vo"])
    cases, refusals, problems = make_cases(rng, ctx.tier)
    found = False
    for pr in problems[:3]:
        found |= ctx.failing_case({"kind": "order-loss-not-refused", "case": pr}, None)
    ordered = [c for c in cases if c["checker"] == "check_sql"]
    refus = [c for c in cases if c["checker"] == "check_build"]
    bits = {1: "tree (or exception class) differs from the model's", 4: "the database did not return exactly the specification's list"}
    s_o = core.judge(ctx, ordered, HDR, "check_sql", bits=bits, shard=100, prefix="cases_C11o")
    s_r = core.judge(ctx, refus, HDR, "check_build", bits=bits, shard=100, prefix="cases_C11r")
    found |= s_o["spec_failures"] > 0
    core.conclude_s1(ctx, s1, found or bool(ctx.violations))
    ctx.coverage.update({
        "evaluations": len(cases), "distinct_nontrivial": len({c["key"] for c in cases}),
        "rule": "SQL-engine programs ending in a total sort followed by slices and order-compatible projection/deduplication, "
                "with sorts and slices also upstream in every position relative to projection, deduplication, selection and "
                "calculation; the database's rows are compared AS A LIST under both scan orders; every fourth case tries to bury "
                "an unsliced sort under a chain, join or materialization and must be refused",
        "ordered_cases": len(ordered), "burying_attempts": len(refus), "refused": refusals,
        "traces_validated_against_impl": s_o["evaluated"] + s_r["evaluated"], "judgement": {"ordered": s_o, "refusals": s_r},
        "samples": [ordered[0]["json"]["program"], refus[0]["json"]["program"]],
    })
    ctx.assumptions += ["'deduplication after a slice' keeps the order on SQLite (DISTINCT over an ordered subquery): validated here, "
                        "not derivable from the SQL standard"]


def replay(ctx, path):
    print(json.dumps(json.load(open(path)), indent=1)[:4000])
    return 0
