"""C07 — the Processor evaluates multi-engine trees faithfully and only annotates payloads.
A real Processor subclass (SQLite temp tables <-> RowSequence) processes every generated tree twice."""
from __future__ import annotations

import json
import random

import sqlalchemy
import lsst.daf.relation as dr
from lsst.daf.relation import sql

import core
import enc
import gen
import multiprog as mp
import ordering
import signatures as sg
from enc import cbool, cengine, clist, crows, ctree, jsonable

THEOREMS = ["C07_process_faithful", "C07_repeated_process_faithful"]
HDR = "From DR Require Import Model.CheckProc.\nOpen Scope Z_scope.\n"


def nodes(rel):
    out, stack = [], [rel]
    while stack:
        r = stack.pop()
        out.append(r)
        for attr in ("target", "lhs", "rhs"):
            if hasattr(r, attr):
                stack.append(getattr(r, attr))
    return out


def self_contained(source):
    """No transfer without payload upstream of a hook's source (payload-holding nodes end the search)."""
    stack = [source]
    while stack:
        r = stack.pop()
        if r.payload is not None:
            continue
        if isinstance(r, dr.Transfer):
            return False
        for attr in ("target", "lhs", "rhs"):
            if hasattr(r, attr):
                stack.append(getattr(r, attr))
    return True


class Recorder(mp.RealProcessor):
    def __init__(self, w, conn):
        super().__init__(w, conn)
        self.obs = []

    def _observe(self, transfer, source, dest, name):
        t = enc.dtree(source, self.w.reg)
        rows = self._rows_of(source)
        trivial = bool(source.is_join_identity or source.max_rows == 0 or not self_contained(source))
        self.obs.append({"transfer": transfer, "src": self.w.reg.engine(source.engine),
                         "dest": None if dest is None else self.w.reg.engine(dest),
                         "as": None if name is None else self.w.reg.name(name), "tree": t, "rows": rows,
                         "mode": ordering.state(t), "trivial": trivial})
        return rows

    def transfer(self, source, destination, materialize_as):
        rows = self._observe(True, source, destination, materialize_as)
        return self._payload_for(destination, source.columns, rows, materialize_as)

    def materialize(self, target, name):
        rows = self._observe(False, target, None, name)
        return self._payload_for(target.engine, target.columns, rows, name)


def snapshot(rel):
    return [(id(n), type(n).__name__, id(n.payload) if n.payload is not None else None) for n in nodes(rel)]


def frame_ok(before_nodes, before_tree, rel, processed, w):
    """The input tree is the same objects with the same structure; only materializations gained payloads."""
    after = snapshot(rel)
    if len(after) != len(before_nodes) or enc.dtree(rel, w.reg) != before_tree:
        return False
    for (i0, k0, p0), (i1, k1, p1) in zip(before_nodes, after):
        if i0 != i1 or k0 != k1:
            return False
        if p0 != p1 and not (k0 == "Materialization" and p0 is None):
            return False
        if k0 == "Transfer" and p1 is not None:
            return False
    return processed.columns == rel.columns and processed.engine is rel.engine


def run_two_passes(w, rel, reverse):
    db = sqlalchemy.create_engine("sqlite://")
    passes = []
    try:
        with db.connect() as conn:
            conn.exec_driver_sql(f"PRAGMA reverse_unordered_selects = {'ON' if reverse else 'OFF'}")
            for ident, (t, cols, rows) in w.tables.items():
                t.create(conn)
                if rows:
                    conn.execute(t.insert(), [({c.qualified_name: r[c] for c in cols} or {"dummy__": 1}) for r in rows])
            counter = 0
            for _ in range(2):
                proc = Recorder(w, conn)
                proc.counter = counter
                before, before_tree = snapshot(rel), enc.dtree(rel, w.reg)
                try:
                    processed = proc.process(rel)
                    rows = ("ok", proc._rows_of(processed))
                    ok = frame_ok(before, before_tree, rel, processed, w)
                except Exception as e:  # noqa: BLE001
                    rows, ok = ("err", f"{type(e).__name__}: {e}"), True
                counter = proc.counter
                named = sorted(w.reg.name(n.name) for n in nodes(rel)
                               if isinstance(n, dr.Materialization) and n.payload is not None)
                passes.append({"hooks": proc.obs, "rows": rows, "named": named, "frame_ok": ok})
    finally:
        db.dispose()
        for t in list(w.meta.tables.values()):
            if t.name.startswith("tmp_"):
                w.meta.remove(t)
    return passes


def copt(x, f):
    return "None" if x is None else f"(Some {f(x)})"


def chook(h):
    return (f"(HObs {cbool(h['transfer'])} {cengine(h['src'])} {copt(h['dest'], cengine)} "
            f"{copt(h['as'], lambda n: str(n) + '%positive')} {ctree(h['tree'])} {crows(h['rows'])} {h['mode']}%N {cbool(h['trivial'])})")


def cpass(p):
    rows = f"(Ok {crows(p['rows'][1])})" if p["rows"][0] == "ok" else "(Err RelAlgError)"
    named = clist([f"{n}%positive" for n in p["named"]])
    return f"(Pass {clist([chook(h) for h in p['hooks']])} {rows} {named} {cbool(p['frame_ok'])})"


def directed(rng, n):
    """Shapes the property names: a materialization directly after a transfer, chains with statically empty
    branches, transfers / materializations of doomed and join-identity relations, nested materializations."""
    out = []
    for _ in range(n):
        counter = [0]
        p, cur = mp.gen_mprog(rng, rng.choice([0, 1, 2, 3]), counter, allow_binary=rng.random() < 0.3, p_xfer=0.2, p_mat=0.1)
        kind = rng.choice(["xfer_mat", "doomed_chain", "doomed_xfer", "identity", "nested_mat", "xfer_ops_mat", "join_sides",
                           "mat_over_pruned_chain", "identity_chain"])
        dest = rng.choice(mp.ENGINES)
        counter[0] += 1
        m1 = counter[0]
        counter[0] += 1
        m2 = counter[0]
        counter[0] += 1
        lid = counter[0]
        if kind == "identity_chain":
            # a chain one of whose branches is the join identity (one row, no columns): nothing may be pruned
            eng = rng.choice(mp.ENGINES)
            ident = ("leaf", lid, eng, [], [{}], (1, 1), "identity")
            counter[0] += 1
            other = ("leaf", counter[0], eng, [], [{}] * rng.choice([0, 1, 2, 3]), (0, None))
            if rng.random() < 0.5:
                counter[0] += 1
                k1 = enc.K(1)
                base = ("leaf", counter[0], eng, [k1], [{k1: v} for v in (1, 2, 3)], (0, None))
                other = ("un", ("proj", []), mp.DEFAULT, ("un", ("sel", ("cmp", "gt", ("ref", k1), ("lit", rng.choice([0, 1, 5])))), mp.DEFAULT, base))
            p = ("chain", ident, other) if rng.random() < 0.5 else ("chain", other, ident)
            p = ("xfer", rng.choice([e for e in mp.ENGINES if e != eng]), p)
            if rng.random() < 0.5:
                p = ("mat", m1, p)
        elif kind == "mat_over_pruned_chain":
            # a materialization directly above a chain one of whose branches the Processor prunes as statically empty
            p = ("xfer", dest, p)
            if rng.random() < 0.7 and cur:
                o, cur = gen.gen_op(rng, cur, weights=[1, 0, 1, 3, 0, 0])
                p = ("un", o, mp.DEFAULT, p)
            doomed = ("leaf", lid, dest, sorted(cur), [], (0, 0), "doomed")
            p = ("mat", m1, ("chain", p, doomed) if rng.random() < 0.6 else ("chain", doomed, p))
        elif kind == "xfer_mat":
            p = ("mat", m1, ("xfer", dest, p))
        elif kind == "doomed_chain":
            here = mp.engine_of_prog(p)
            doomed = ("leaf", lid, here, sorted(cur), [], (0, 0), "doomed")
            if rng.random() < 0.4:
                doomed = ("xfer", here, ("leaf", lid, rng.choice(mp.ENGINES), sorted(cur), [], (0, 0), "doomed"))
            p = ("chain", p, doomed) if rng.random() < 0.5 else ("chain", doomed, p)
            p = ("mat", m1, ("xfer", dest, p)) if rng.random() < 0.6 else ("xfer", dest, p)
        elif kind == "doomed_xfer":
            src = rng.choice(mp.ENGINES)
            p = ("leaf", lid, src, sorted(cur), [], (0, 0), "doomed")
            if rng.random() < 0.5:
                p = ("un", ("slice", 0, 2), mp.DEFAULT, p)
            p = ("xfer", dest, p)
            if rng.random() < 0.6:
                p = ("mat", m1, p)
        elif kind == "identity":
            src = rng.choice(mp.ENGINES)
            p = ("leaf", lid, src, [], [{}], (1, 1), "identity")
            p = ("xfer", dest, p) if rng.random() < 0.7 else p
            if rng.random() < 0.6:
                p = ("mat", m1, p)
        elif kind == "nested_mat":
            p = ("mat", m1, p)
            o, cur = gen.gen_op(rng, cur)
            p = ("un", o, mp.DEFAULT, p)
            p = ("mat", m2, ("xfer", dest, p) if rng.random() < 0.5 else p)
        elif kind == "xfer_ops_mat":
            p = ("xfer", dest, p)
            o, cur = gen.gen_op(rng, cur)
            p = ("mat", m1, ("un", o, mp.DEFAULT, p))
            p = ("xfer", rng.choice(mp.ENGINES), p)
        else:
            here = mp.engine_of_prog(p)
            if here[0] != "sql":
                here = ("sql", 0)
                p = ("xfer", here, p)
            other = ("mat", m1, ("xfer", here, mp.gen_leaf(rng, lid, {c for c in cur if c.is_key and rng.random() < 0.7},
                                                           rng.choice(mp.ENGINES), special=0.3)))
            p = ("join", None, True, False, p, other)
        out.append(p)
    return out


def signature(case):
    t = case.get("impl_tree")
    errs = [p["rows"][1] for p in case["passes"] if p["rows"][0] == "err"]
    if t and t[0] == "ok" and errs and all("syntax error" in e for e in errs) and sg.nested_compound_operand(t[1]):
        return "nested_compound_operand"
    for p in case["passes"]:
        for h in p["hooks"]:
            if sg.nested_compound_operand(h["tree"]):
                return "nested_compound_operand"
    return None


def f14_program():
    """The listed known finding (F14), every run: a nested compound select, which SQLite rejects."""
    k1 = enc.K(1)
    lf = [("leaf", i, ("sql", 0), [k1], [{k1: i}], (0, None)) for i in (1, 2, 3)]
    return ("xfer", ("it", 0), ("chain", ("chain", lf[0], lf[1]), lf[2]))


def make_cases(rng, tier):
    n = 500 if tier == "quick" else 12000
    progs = [f14_program()] + directed(rng, n // 2)
    # deterministic: short sequences of SQL operations downstream of a transfer into the SQL engine (the Processor replays
    # them on the transferred relation, so every nesting decision of the SQL engine is taken a second time)
    import sqlprog as sp
    progs += sp.op_sequences(tier != "quick", leaf_engine=("it", 0), xfer_to=("sql", 0))
    for _ in range(n):
        progs.append(mp.gen_mprog(rng, rng.choice([1, 2, 3, 4, 5, 7]), p_xfer=0.25, p_mat=0.15, p_opts=0.2)[0])
    cases, stats = [], {"hooks": 0, "transfer_hooks": 0, "materialize_hooks": 0, "materialize_as": 0, "rejected_at_build": 0, "iteration_join_refused": 0,
                        "modes": {}}
    for p in progs:
        w, rel, res = mp.run_build(p)
        if rel is None:
            stats["rejected_at_build"] += 1
            t = enc.cresult("err", res[1])
            empty = "(Pass [] (Err RelAlgError) [] true)"
            cases.append({"json": {"program": jsonable(p), "impl": jsonable(res)}, "key": mp.cprog(p), "nontrivial": False,
                          "coq": f"PCase {mp.cprog(p)} {mp.cenv(p)} {t} 0%N {empty} {empty}", "impl_tree": res, "passes": []})
            continue
        reverse = rng.random() < 0.5
        mode = ordering.state(res[1])
        passes = run_two_passes(w, rel, reverse)
        if any(ps["rows"][0] == "err" and "Joins are not supported by the iteration engine" in ps["rows"][1] for ps in passes):
            stats["iteration_join_refused"] += 1     # documented refusal: the iteration engine does not execute joins
            continue
        for ps in passes:
            for h in ps["hooks"]:
                stats["hooks"] += 1
                stats["transfer_hooks" if h["transfer"] else "materialize_hooks"] += 1
                stats["materialize_as"] += h["transfer"] and h["as"] is not None
        stats["modes"][mode] = stats["modes"].get(mode, 0) + 1
        t = enc.cresult("ok", ctree(res[1]))
        cases.append({
            "json": {"program": jsonable(p), "reverse_unordered_selects": reverse, "tree": jsonable(res[1]),
                     "passes": jsonable([{**ps, "hooks": [{k: v for k, v in h.items()} for h in ps["hooks"]]} for ps in passes])},
            "coq": f"PCase {mp.cprog(p)} {mp.cenv(p)} {t} {mode}%N {cpass(passes[0])} {cpass(passes[1])}",
            "nontrivial": bool(passes[0]["hooks"]), "key": mp.cprog(p), "impl_tree": res, "passes": passes})
    return cases, stats


def run(ctx):
    rng = random.Random(ctx.seed)
    s1 = core.s1(ctx, ["Slice"], "Properties.C07", THEOREMS, extra_targets=["Model/CheckProc.vo"])
    cases, stats = make_cases(rng, ctx.tier)
    bits = {1: "built tree (or exception class) differs from the model's",
            2: "hook sequence (kind, engines, materialize_as, content) or the set of materializations holding a payload "
               "differs from the model's process",
            4: "rows of the processed tree, executed in its final engine, contradict direct evaluation (or processing raised)",
            8: "a hook was invoked with content that is not its source's, for a statically empty / join-identity source, or "
               "for a source its engine cannot evaluate on its own",
            16: "process() changed the input tree other than by attaching payloads to materializations, or changed "
                "columns / engine of the result"}
    summ = core.judge(ctx, cases, HDR, "check_proc", bits=bits, signature_of=signature, shard=40)
    core.conclude_s1(ctx, s1, summ["spec_failures"] > 0 or bool(ctx.violations))
    ctx.coverage.update({
        "evaluations": len(cases), "distinct_nontrivial": len({c["key"] for c in cases if c["nontrivial"]}),
        "rule": "directed shapes (materialization directly after a transfer, chains with doomed branches, transfers and "
                "materializations of doomed / join-identity relations, nested materializations, materialized join operands) "
                "and random programs over two iteration engines and one SQL engine; each tree is processed TWICE by a real "
                "Processor subclass that moves rows between SQLite temp tables and RowSequences (reverse_unordered_selects "
                "random); hooks, payloads on the input tree and executed rows are compared with the model and judged against "
                "the specification; non-trivial = at least one hook ran",
        "traces_validated_against_impl": summ["evaluated"], "judgement": summ, "distribution": stats,
        "samples": [cases[0]["json"]["program"], cases[-1]["json"]["program"]],
    })
    ctx.assumptions += ["row order of content that passed through a SQL table is not determined (compared as a multiset; "
                        "a slice of such content by length only; anything computed from that slice by columns only)",
                        "structure of the rebuilt (returned) tree is not modelled: only its rows, columns and engine"]


def replay(ctx, path):
    print(json.dumps(json.load(open(path)), indent=1)[:4000])
    return 0
