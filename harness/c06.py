"""C06 — static metadata (columns, row bounds, triviality flags) is truthful."""
from __future__ import annotations

import json
import random

import lsst.daf.relation as dr

import core
import enc
import gen
import iterprog as ip
from enc import K, N, cbool, coptz, cset, cz, jsonable

THEOREMS = ["C06_columns_truthful", "C06_row_bounds_truthful", "C06_max_rows_zero_means_empty",
            "C06_join_identity_flag_truthful", "C06_join_identity_elision_sound"]
HDR = "From DR Require Import Model.CheckMeta.\nOpen Scope Z_scope.\n"


def run_impl(p):
    w = ip.World()
    try:
        rel = ip.build_impl(p, w)
    except Exception as e:  # noqa: BLE001
        return {"tree": ("err", ip.exc_name(e)), "rows": None, "meta": None}
    out = {"tree": ("ok", enc.dtree(rel, w.reg)),
           "meta": {"cols": sorted(rel.columns), "min": rel.min_rows, "max": rel.max_rows,
                    "ident": bool(rel.is_join_identity), "trivial": bool(rel.is_trivial)}}
    try:
        out["rows"] = ("ok", [dict(r) for r in rel.engine.execute(rel)])
    except Exception as e:  # noqa: BLE001
        out["rows"] = ("err", ip.exc_name(e))
    return out


def ccase(p, res):
    t = res["tree"]
    tree = enc.cresult(t[0], enc.ctree(t[1]) if t[0] == "ok" else t[1])
    m = res["meta"] or {"cols": [], "min": 0, "max": None, "ident": False, "trivial": False}
    r = res["rows"]
    rows = "(Err RelAlgError)" if r is None else enc.cresult(r[0], enc.crows(r[1]) if r[0] == "ok" else r[1])
    return (f"MCase {ip.cprog(p)} {ip.cenv(p)} {tree} {cset(m['cols'])} {cz(m['min'])} {coptz(m['max'])} "
            f"{cbool(m['ident'])} {cbool(m['trivial'])} {rows}")


def sort_window_programs():
    """Deterministic: a window (every start / stop up to one past the rows) right above a sort in one direction, in both, and
    above a sort with a projection in between, over a six-row leaf with exact bounds."""
    k1, k2 = K(1), K(2)
    rows6 = [{k1: (5 * i) % 6, k2: i % 2} for i in range(6)]
    leaf6 = ("leaf", 1, ("it", 0), [k1, k2], rows6)
    fixed = []
    for terms in ([(("ref", k1), True)], [(("ref", k1), False)], [(("ref", k2), True), (("ref", k1), True)], [(("ref", k2), True), (("ref", k1), False)]):
        for a in range(0, 5):
            for b in (a, a + 1, a + 3, None):
                fixed.append(("un", ("slice", a, b), ("un", ("sort", terms), leaf6)))
        fixed.append(("un", ("slice", 2, 5), ("un", ("proj", [k1]), ("un", ("sort", terms), leaf6))))
    return fixed


def make_cases(rng, tier):
    n = 700 if tier == "quick" else 20000
    cases = []
    fixed = sort_window_programs()
    for it in range(n + len(fixed)):
        p = fixed[it] if it < len(fixed) else ip.gen_prog(rng, rng.choice([0, 1, 2, 3, 4, 6, 8]), loose=0.5, special=0.25,
                                                         weights=[2, 3, 2, 2, 4, 1])[0]
        res = run_impl(p)
        m = res["meta"]
        interesting = m is not None and (m["max"] is None or m["min"] != m["max"] or m["ident"] or m["trivial"])
        cases.append({"json": {"program": jsonable(p), "impl": jsonable(res)}, "coq": ccase(p, res),
                      "nontrivial": interesting, "key": ip.cprog(p)})
    return cases


def history_cases(rng, n):
    """Multi-engine histories: a tree is built, processed by a real Processor, extended by one more call with
    preferred-engine options (possibly inserted upstream of a transfer that already holds a payload), and the
    declaration of the result is compared with the rows it yields when processed and executed."""
    import c03
    import multiprog as mp
    out = []
    for _ in range(n):
        if rng.random() < 0.3:
            base, _cur, src, o = c03.order_sensitive(rng, [0])
        else:
            # operations every mover commutes with (calculations, projections) above the transfer
            src, mid = rng.sample([("it", 0), ("it", 1)], 2)
            cols = gen.gen_schema(rng, maxk=2, maxn=1, allow_empty=rng.random() < 0.15)
            base = ("xfer", mid, mp.gen_leaf(rng, 1, cols, src, special=0, loose=0))
            cur = set(cols)
            for _i in range(rng.choice([0, 1, 2])):
                op, cur = gen.gen_op(rng, cur, weights=[2, 0, 2, 0, 0, 0])
                base = ("un", op, mp.DEFAULT, base)
            o, _c = gen.gen_op(rng, cur, weights=[1, 1, 2, 2, 3, 1])
        opts = (src, True, rng.random() < 0.3, False)
        w = mp.World()
        try:
            rel0 = mp.build_impl(base, w)
            start = mp.RealProcessor(w, None).process(rel0) if rng.random() < 0.7 else rel0
            rel = mp.apply_un(start, o, opts, w)
            rows, _p, _x = mp.execute(w, rel)
        except Exception:  # noqa: BLE001 — refusals and execution problems are other properties' concern
            continue
        coq = (f"DCase {cset(sorted(rel.columns))} {cz(rel.min_rows)} {coptz(rel.max_rows)} {cbool(bool(rel.is_join_identity))} "
               f"{enc.crows(rows)}")
        out.append({"json": {"base": jsonable(base), "call": jsonable(o), "options": jsonable(opts), "tree": str(rel),
                             "declared": [sorted(map(str, rel.columns)), rel.min_rows, rel.max_rows], "rows": jsonable(rows)},
                    "coq": coq, "nontrivial": True, "key": coq + str(rel)})
    return out


def redeclared_cases(rng, n):
    """Within ONE process and ONE engine a table is described again under the same name with other (truthful) contents and
    bounds — it grew, or was empty the first time — and used in the same binary operations as before: the declaration of
    the new relations must be about the new leaves."""
    import multiprog as mp
    from lsst.daf.relation import iteration
    out = []
    for k in range(n):
        eng = iteration.Engine(name="redecl")
        cols = [K(1)] if rng.random() < 0.6 else [K(1), K(2)]
        def leaf(name, nrows):
            rows = [{c: rng.choice((0, 1, 2)) for c in cols} for _ in range(nrows)]
            return eng.make_leaf(set(cols), payload=iteration.RowSequence(rows), name=name)
        other = leaf("other", rng.choice([0, 1, 2]))
        n1, n2 = rng.sample([0, 1, 2, 3, 5], 2)
        for nrows in (n1, n2):                       # the second round re-declares "visits" with other bounds
            visits = leaf("visits", nrows)
            rel = visits.chain(other) if k % 2 == 0 else other.chain(visits)
            if rng.random() < 0.5:
                rel = rel.chain(leaf("third", 1))
            _ = (rel.min_rows, rel.max_rows, rel.is_trivial)          # looked at, as a caller would
        rows = [dict(r) for r in eng.execute(rel)]
        coq = (f"DCase {cset(sorted(rel.columns))} {cz(rel.min_rows)} {coptz(rel.max_rows)} {cbool(bool(rel.is_join_identity))} "
               f"{enc.crows(rows)}")
        out.append({"json": {"history": f"'visits' declared with {n1} rows, then again with {n2} rows, each time chained with the same operands",
                             "declared": [rel.min_rows, rel.max_rows], "rows": jsonable(rows)},
                    "coq": coq, "nontrivial": True, "key": f"redecl{k}:{n1}:{n2}"})
    return out


def mismatched_chain_cases():
    """Chains whose operands declare different column sets, in either order (subset, superset, overlap, disjoint, zero
    columns): the documented ColumnError is C20's concern, but whatever IS accepted must declare the columns its rows have."""
    from lsst.daf.relation import iteration
    out = []
    a, b, c = K(1), K(2), K(3)
    eng = iteration.Engine(name="mm")
    def leaf(name, cols, nrows=2):
        return eng.make_leaf(set(cols), payload=iteration.RowSequence([{x: i for x in cols} for i in range(nrows)]), name=name)
    shapes = [[a], [a, b], [b], [a, b, c], []]
    k = 0
    for lc in shapes:
        for rc in shapes:
            if lc == rc:
                continue
            k += 1
            try:
                rel = leaf(f"l{k}", lc).chain(leaf(f"r{k}", rc))
                if lc:
                    rel2 = rel.with_only_columns(set(rel.columns))       # elided when nothing is to be dropped
                else:
                    rel2 = rel
                rows = [dict(r) for r in eng.execute(rel2)]
            except dr.RelationalAlgebraError:
                continue
            coq = (f"DCase {cset(sorted(rel2.columns))} {cz(rel2.min_rows)} {coptz(rel2.max_rows)} {cbool(bool(rel2.is_join_identity))} "
                   f"{enc.crows(rows)}")
            out.append({"json": {"history": f"chain of a relation with columns {[str(x) for x in lc]} and one with {[str(x) for x in rc]} was accepted",
                                 "declared_columns": [str(x) for x in sorted(rel2.columns)], "rows": jsonable(rows)},
                        "coq": coq, "nontrivial": True, "key": f"mismatch{k}"})
    return out


def sql_cases(rng, n):
    """SQL-engine programs (joins with shared key columns and duplicate rows, chains, every unary operation) executed on
    SQLite: the declared columns / row bounds / join-identity flag against the rows the database returns."""
    import multiprog as mp
    import sqlprog as sp
    out = []
    for k in range(n):
        if k % 3 == 0:
            # joins in which one operand only has (some of) the join's key columns, with duplicate rows
            a, b = K(1), K(2)
            lcols = [a, b] if rng.random() < 0.7 else [a]
            rcols = [a] if rng.random() < 0.6 else [a, K(3)]
            l = ("leaf", 1, sp.SQL, sorted(lcols), [dict(zip(lcols, [rng.choice((1, 1, 2)), rng.choice((5, 6))][:len(lcols)])) for _ in range(rng.choice([2, 3]))],
                 rng.choice([(0, None), None]))
            r = ("leaf", 2, sp.SQL, sorted(rcols), [dict(zip(rcols, [rng.choice((1, 1, 2)), rng.choice((7, 8))][:len(rcols)])) for _ in range(rng.choice([2, 3, 4]))],
                 rng.choice([(0, None), None]))
            l = l[:5] if l[5] is None else l
            r = r[:5] if r[5] is None else r
            p = ("join", None, True, False, l, r) if rng.random() < 0.5 else ("join", None, True, False, r, l)
            if rng.random() < 0.4:
                p = ("un", ("slice", rng.choice([0, 1]), None), mp.DEFAULT, ("un", ("sort", sp.total_sort_terms(rng, set(lcols) | set(rcols))), mp.DEFAULT, p))
        elif k % 3 == 2 and rng.random() < 0.3:
            # DISTINCT over columns none of which is a key column (every selected column takes part in SQL's DISTINCT)
            kk, v, w2 = K(1), N(1), N(2)
            rows = [{kk: i, v: 10 * (i % 3), w2: i % 2} for i in rng.sample(range(1, 8), rng.choice([3, 4, 5]))]
            p = ("un", ("dedup",), mp.DEFAULT, ("un", ("proj", [v] if rng.random() < 0.6 else [v, w2]), mp.DEFAULT,
                 ("leaf", 1, sp.SQL, [kk, v, w2], rows, (len(rows), len(rows)))))
            if rng.random() < 0.4:
                p = ("un", ("slice", 1, None), mp.DEFAULT, p)
        elif k % 3 == 1 and rng.random() < 0.5:
            # a join of operands that share NO column, with exact positive bounds and a predicate across them that keeps
            # all, some or none of the pairs; sometimes narrowed to an existence check
            a, b = K(1), K(2)
            l = ("leaf", 1, sp.SQL, [a], [{a: v} for v in rng.sample(range(1, 6), rng.choice([1, 2, 3]))], None)
            r = ("leaf", 2, sp.SQL, [b], [{b: v} for v in rng.sample(range(1, 6), rng.choice([1, 2]))], None)
            l, r = l[:5], r[:5]
            pred = rng.choice([("cmp", "lt", ("ref", a), ("ref", b)), ("cmp", "gt", ("ref", a), ("add", ("ref", b), ("lit", 10))),
                               ("cmp", "ge", ("add", ("ref", a), ("ref", b)), ("lit", 0)), None])
            p = ("join", pred, True, False, l, r) if rng.random() < 0.5 else ("join", pred, True, False, r, l)
            if rng.random() < 0.3:
                p = ("un", ("slice", 0, 1), mp.DEFAULT, ("un", ("proj", []), mp.DEFAULT, p))
        else:
            p, _cols, _o = sp.gen_sqlprog(rng, rng.choice([1, 2, 3, 4]))
        w, rel, res = mp.run_build(p)
        if rel is None:
            continue
        try:
            rows, _rev = sp.execute_both(w, rel)
        except Exception:  # noqa: BLE001 — C08's concern
            continue
        coq = (f"DCase {cset(sorted(rel.columns))} {cz(rel.min_rows)} {coptz(rel.max_rows)} {cbool(bool(rel.is_join_identity))} "
               f"{enc.crows(rows)}")
        out.append({"json": {"program": jsonable(p), "declared": [sorted(map(str, rel.columns)), rel.min_rows, rel.max_rows],
                             "rows": jsonable(rows)}, "coq": coq, "nontrivial": True, "key": mp.cprog(p)})
    return out


def run(ctx):
    rng = random.Random(ctx.seed)
    s1 = core.s1(ctx, ["Slice"], "Properties.C06", THEOREMS, extra_targets=["Model/CheckMeta.vo"])
    cases = make_cases(rng, ctx.tier)
    hcases = history_cases(rng, 200 if ctx.tier == "quick" else 4000)
    hsumm = core.judge(ctx, hcases, HDR, "check_decl", prefix="cases_C06h",
                       bits={4: "rows of a processed-extended-processed tree contradict its declared columns / row bounds / flags"})
    rcases = redeclared_cases(rng, 60 if ctx.tier == "quick" else 1000) + mismatched_chain_cases()
    rsumm = core.judge(ctx, rcases, HDR, "check_decl", prefix="cases_C06r",
                       bits={4: "after a table was described again under the same name, a relation built on the new leaf declares "
                                "bounds its rows contradict"})
    qcases = sql_cases(rng, 240 if ctx.tier == "quick" else 5000)
    qsumm = core.judge(ctx, qcases, HDR, "check_decl", prefix="cases_C06q",
                       bits={4: "rows returned by the database contradict the declared columns / row bounds / flags of the SQL relation"})
    bits = {1: "built tree differs from the model",
            2: "columns / min_rows / max_rows / is_join_identity / is_trivial differ from the model's",
            4: "executed rows contradict the metadata the library declares (keys, count bounds or a flag)",
            8: "executed rows differ from the specification"}
    # here bits 4 and 8 are the property failures
    remap = []
    for c in cases:
        remap.append(c)
    summ = core.judge(ctx, cases, HDR.replace("check_meta", "check_meta"), "check_meta_j", bits=bits)
    core.conclude_s1(ctx, s1, summ["spec_failures"] + hsumm["spec_failures"] + qsumm["spec_failures"] + rsumm["spec_failures"] > 0 or bool(ctx.violations))
    distinct = {c["key"] for c in cases + hcases + qcases if c["nontrivial"]}
    ctx.coverage.update({
        "evaluations": len(cases) + len(hcases) + len(qcases), "distinct_nontrivial": len(distinct),
        "multi_engine_histories": hsumm, "sql_engine_programs": qsumm, "redeclared_leaves": rsumm,
        "rule": "iteration-engine programs over leaves whose declared bounds are exact, loose, zero or unbounded but "
                "consistent with the real row count, plus doomed and join-identity leaves; for every built relation the "
                "declared columns/min_rows/max_rows/flags are compared with the model's and with the executed rows; "
                "non-trivial = bounds not exact or a triviality flag set; distinct = program text",
        "traces_validated_against_impl": summ["evaluated"], "judgement": summ,
        "samples": [cases[3]["json"]["program"], cases[-1]["json"]["program"]],
    })
    ctx.assumptions += ["leaves are truthful (declared columns and bounds match the payload): that is the property's premise",
                        "SQL-engine trees are covered by the same theorems (metadata is engine independent); their "
                        "execution against a database is exercised under C02/C08"]


def replay(ctx, path):
    print(json.dumps(json.load(open(path)), indent=1)[:4000])
    return 0
