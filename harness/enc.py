"""Terms shared by the harness: a small Python representation of column expressions, predicates,
operations and trees, with (a) encoders to Gallina text for the Coq model, (b) builders producing
the real lsst.daf.relation objects, and (c) decoders from real objects back to terms (used to
canonicalise the trees the library builds)."""
from __future__ import annotations

import dataclasses

import lsst.daf.relation as dr
from lsst.daf.relation import iteration, sql


# ---- tags ---------------------------------------------------------------------------------------
@dataclasses.dataclass(frozen=True)
class Tag:
    qualified_name: str
    is_key: bool = True

    def __repr__(self):
        return self.qualified_name

    @property
    def pos(self):
        n = int(self.qualified_name[1:])
        return 2 * n if self.is_key else 2 * n + 1

    def __lt__(self, other):
        return self.pos < other.pos


def K(n):
    return Tag(f"k{n}", True)


def N(n):
    return Tag(f"n{n}", False)


def tag_of_pos(p):
    return K(p // 2) if p % 2 == 0 else N(p // 2)


# ---- Gallina encoders ------------------------------------------------------------------------------
def cz(z):
    return f"({z})" if z < 0 else str(z)


def coptz(z):
    return "None" if z is None else f"(Some {cz(z)})"


def cbool(b):
    return "true" if b else "false"


def cpos(t):
    return str(t.pos if isinstance(t, Tag) else t)


def cset(tags):
    return "(mkset [" + "; ".join(cpos(t) for t in sorted(tags)) + "]%positive)"


def clist(xs):
    return "[" + "; ".join(xs) + "]"


def cexpr(e):
    k = e[0]
    if k == "ref":
        return f"(ERef {cpos(e[1])})"
    if k == "lit":
        return f"(ELit {cz(e[1])})"
    if k == "neg":
        return f"(ENeg {cexpr(e[1])})"
    if k in ("add", "sub", "mul"):
        return f"(E{k.capitalize()} {cexpr(e[1])} {cexpr(e[2])})"
    if k == "supp":
        return f"(ESupp {cbool(e[1])} {cbool(e[2])} {cexpr(e[3])})"
    raise ValueError(e)


CMP = {"eq": "CEq", "ne": "CNe", "lt": "CLt", "le": "CLe", "gt": "CGt", "ge": "CGe"}


def cpred(p):
    k = p[0]
    if k == "plit":
        return f"(PLit {cbool(p[1])})"
    if k == "pref":
        return f"(PRef {cpos(p[1])})"
    if k == "cmp":
        return f"(PCmp {CMP[p[1]]} {cexpr(p[2])} {cexpr(p[3])})"
    if k == "not":
        return f"(PNot {cpred(p[1])})"
    if k in ("and", "or"):
        return f"(P{k.capitalize()} {clist([cpred(q) for q in p[1]])})"
    if k == "in":
        c = p[2]
        if c[0] == "range":
            cc = f"(CRange {cz(c[1])} {cz(c[2])} {cz(c[3])})"
        else:
            cc = f"(CSeq {clist([cexpr(x) for x in c[1]])})"
        return f"(PIn {cexpr(p[1])} {cc})"
    raise ValueError(p)


def cterms(ts):
    return clist([f"({cexpr(e)}, {cbool(a)})" for e, a in ts])


def cop(o):
    k = o[0]
    if k == "calc":
        return f"(Calc {cpos(o[1])} {cexpr(o[2])})"
    if k == "dedup":
        return "Dedup"
    if k == "proj":
        return f"(Proj {cset(o[1])})"
    if k == "sel":
        return f"(Sel {cpred(o[1])})"
    if k == "slice":
        return f"(Slice {cz(o[1])} {coptz(o[2])})"
    if k == "sort":
        return f"(Sort {cterms(o[1])})"
    if k == "ident":
        return "Ident"
    raise ValueError(o)


def crow(r):
    return "(mkrow [" + "; ".join(f"({cpos(t)}%positive, {cz(v)})" for t, v in sorted(r.items(), key=lambda kv: kv[0].pos)) + "])"


def crows(rs):
    return clist([crow(r) for r in rs])


def cengine(e):
    return f"(Eng {'KIter' if e[0] == 'it' else 'KSql'} {e[1]})"


ERR = {"ColumnError": "ColumnError", "EngineError": "EngineError", "ValueError": "ValueError",
       "TypeError": "TypeError", "KeyError": "KeyError", "NotImplementedError": "NotImplemented", "ModelGap": "ModelGap",
       "RelationalAlgebraError": "RelAlgError", "OrderLoss": "OrderLoss"}


def ctree(t):
    k = t[0]
    if k == "leaf":
        _, name, eng, cols, mn, mx = t
        return f"(Leaf {name} {cengine(eng)} {cset(cols)} {cz(mn)} {coptz(mx)})"
    if k == "un":
        return f"(Un {cop(t[1])} {ctree(t[2])})"
    if k == "chain":
        return f"(Bin Chain {ctree(t[1])} {ctree(t[2])})"
    if k == "join":
        return f"(Bin (Join {cpred(t[1])} {cset(t[2])}) {ctree(t[3])} {ctree(t[4])})"
    if k == "mat":
        return f"(Mat {t[1]} {ctree(t[2])})"
    if k == "xfer":
        return f"(Xfer {cengine(t[1])} {ctree(t[2])})"
    if k == "select":
        _, sort, proj, dedup, sl, skip, target = t
        pr = "None" if proj is None else f"(Some {cset(proj)})"
        return (f"(SelM (Slots {cterms(sort)} {pr} {cbool(dedup)} ({cz(sl[0])}, {coptz(sl[1])})) "
                f"{ctree(skip)} {ctree(target)})")
    raise ValueError(t)


def cresult(kind, payload_txt):
    """('ok', text) | ('err', class name)"""
    if kind == "ok":
        return f"(Ok {payload_txt})"
    return f"(Err {ERR.get(payload_txt, 'RelAlgError')})"


# ---- builders for the real library ----------------------------------------------------------------------
E = dr.ColumnExpression

METH = {"neg": "__neg__", "add": "__add__", "sub": "__sub__", "mul": "__mul__"}


def iexpr(e):
    k = e[0]
    if k == "ref":
        return E.reference(e[1])
    if k == "lit":
        return E.literal(e[1])
    if k == "neg":
        return iexpr(e[1]).method("__neg__")
    if k in ("add", "sub", "mul"):
        return iexpr(e[1]).method(METH[k], iexpr(e[2]))
    if k == "supp":
        types = tuple(t for t, on in ((iteration.Engine, e[1]), (sql.Engine, e[2])) if on)
        # the function only EXISTS in the engines said to support it (so accepting it elsewhere cannot execute)
        name = "vid" if (e[1] and e[2]) or not (e[1] or e[2]) else ("vid_it" if e[1] else "vid_sql")
        return E.function(name, iexpr(e[3]), supporting_engine_types=types)
    raise ValueError(e)


def ipred(p):
    k = p[0]
    if k == "plit":
        return dr.Predicate.literal(p[1])
    if k == "pref":
        return dr.Predicate.reference(p[1])
    if k == "cmp":
        return getattr(iexpr(p[2]), p[1])(iexpr(p[3]))
    if k == "not":
        return ipred(p[1]).logical_not()
    if k == "and":
        return dr.LogicalAnd(tuple(ipred(q) for q in p[1]))
    if k == "or":
        return dr.LogicalOr(tuple(ipred(q) for q in p[1]))
    if k == "in":
        c = p[2]
        if c[0] == "range":
            cont = dr.ColumnContainer.range_literal(range(c[1], c[2], c[3]))
        else:
            cont = dr.ColumnContainer.sequence([iexpr(x) for x in c[1]])
        return cont.contains(iexpr(p[1]))
    raise ValueError(p)


def iterms(ts):
    return [dr.SortTerm(iexpr(e), a) for e, a in ts]


def iop(o):
    """The operation object, built the way the Relation convenience methods build it."""
    k = o[0]
    if k == "calc":
        return dr.Calculation(o[1], iexpr(o[2]))
    if k == "dedup":
        return dr.Deduplication()
    if k == "proj":
        return dr.Projection(frozenset(o[1]))
    if k == "sel":
        return dr.Selection(ipred(o[1]))
    if k == "slice":
        return dr.Slice(o[1], o[2])
    if k == "sort":
        return dr.Sort(tuple(iterms(o[1])))
    raise ValueError(o)


# ---- decoders: real objects -> terms ---------------------------------------------------------------------
RMETH = {v: k for k, v in METH.items()}
RCMP = {"__eq__": "eq", "__ne__": "ne", "__lt__": "lt", "__le__": "le", "__gt__": "gt", "__ge__": "ge"}


def dexpr(x):
    if isinstance(x, dr.ColumnReference):
        return ("ref", x.tag)
    if isinstance(x, dr.ColumnLiteral):
        return ("lit", x.value)
    if isinstance(x, dr.ColumnFunction):
        if x.name in ("vid", "vid_it", "vid_sql"):
            st = x.supporting_engine_types or ()
            return ("supp", iteration.Engine in st, sql.Engine in st, dexpr(x.args[0]))
        k = RMETH[x.name]
        return (k,) + tuple(dexpr(a) for a in x.args)
    raise ValueError(x)


def dpred(x):
    if isinstance(x, dr.PredicateLiteral):
        return ("plit", x.value)
    if isinstance(x, dr.PredicateReference):
        return ("pref", x.tag)
    if isinstance(x, dr.PredicateFunction):
        return ("cmp", RCMP[x.name], dexpr(x.args[0]), dexpr(x.args[1]))
    if isinstance(x, dr.LogicalNot):
        return ("not", dpred(x.operand))
    if isinstance(x, dr.LogicalAnd):
        return ("and", [dpred(q) for q in x.operands])
    if isinstance(x, dr.LogicalOr):
        return ("or", [dpred(q) for q in x.operands])
    if isinstance(x, dr.ColumnInContainer):
        c = x.container
        if isinstance(c, dr.ColumnRangeLiteral):
            cc = ("range", c.value.start, c.value.stop, c.value.step)
        else:
            cc = ("seq", [dexpr(i) for i in c.items])
        return ("in", dexpr(x.item), cc)
    raise ValueError(x)


def dop(o):
    if isinstance(o, dr.Calculation):
        return ("calc", o.tag, dexpr(o.expression))
    if isinstance(o, dr.Deduplication):
        return ("dedup",)
    if isinstance(o, dr.Projection):
        return ("proj", sorted(o.columns))
    if isinstance(o, dr.Selection):
        return ("sel", dpred(o.predicate))
    if isinstance(o, dr.Slice):
        return ("slice", o.start, o.stop)
    if isinstance(o, dr.Sort):
        return ("sort", [(dexpr(t.expression), t.ascending) for t in o.terms])
    if isinstance(o, dr.Identity):
        return ("ident",)
    raise ValueError(o)


class Registry:
    """Maps real engines / leaves / materializations to model identifiers."""

    def __init__(self):
        self.engines = {}    # id(engine) -> ('it'|'sql', n)
        self.names = {}      # relation name -> positive

    def engine(self, e):
        return self.engines[id(e)]

    def add_engine(self, e, kind, n):
        self.engines[id(e)] = (kind, n)
        return e

    def name(self, s):
        if s not in self.names:
            self.names[s] = len(self.names) + 1
        return self.names[s]


def dtree(rel, reg: Registry):
    if isinstance(rel, dr.LeafRelation):
        return ("leaf", reg.name(rel.name), reg.engine(rel.engine), sorted(rel.columns), rel.min_rows, rel.max_rows)
    if isinstance(rel, dr.UnaryOperationRelation):
        return ("un", dop(rel.operation), dtree(rel.target, reg))
    if isinstance(rel, dr.BinaryOperationRelation):
        if isinstance(rel.operation, dr.Chain):
            return ("chain", dtree(rel.lhs, reg), dtree(rel.rhs, reg))
        if isinstance(rel.operation, dr.Join):
            return ("join", dpred(rel.operation.predicate), sorted(rel.operation.common_columns),
                    dtree(rel.lhs, reg), dtree(rel.rhs, reg))
        raise ValueError(rel.operation)
    if isinstance(rel, dr.Materialization):
        return ("mat", reg.name(rel.name), dtree(rel.target, reg))
    if isinstance(rel, dr.Transfer):
        return ("xfer", reg.engine(rel.destination), dtree(rel.target, reg))
    if isinstance(rel, sql.Select):
        return ("select", [(dexpr(t.expression), t.ascending) for t in rel.sort.terms],
                None if rel.projection is None else sorted(rel.projection.columns),
                rel.deduplication is not None, (rel.slice.start, rel.slice.stop),
                dtree(rel.skip_to, reg), dtree(rel.target, reg))
    raise ValueError(rel)


def jsonable(x):
    """Terms -> JSON-friendly structure (tags become their names)."""
    if isinstance(x, Tag):
        return x.qualified_name
    if isinstance(x, (list, tuple)):
        return [jsonable(i) for i in x]
    if isinstance(x, (set, frozenset)):
        return sorted(jsonable(i) for i in x)
    if isinstance(x, dict):
        return {str(jsonable(k)): jsonable(v) for k, v in x.items()}
    return x
