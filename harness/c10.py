"""C10 — payloads are write-once and materializations are computed at most once."""
from __future__ import annotations

import json
import random

import lsst.daf.relation as dr
from lsst.daf.relation import iteration, sql

import core
import enc
import gen
import iterprog as ip
from enc import K, N, clist, crows, ctree, jsonable

THEOREMS = ["C10_write_once", "C10_evaluated_at_most_once", "C10_cached_rows_returned",
            "C10_attach_second_rejected", "C10_attach_non_marker_rejected"]
HDR = "From DR Require Import Model.CheckStore.\nOpen Scope Z_scope.\n"


class CountingSequence(iteration.RowSequence):
    def __init__(self, rows):
        super().__init__(rows)
        self.iterations = 0

    def __iter__(self):
        self.iterations += 1
        return super().__iter__()

    def to_sequence(self):          # keep counting: do not hand out self as the materialized copy
        return iteration.RowSequence(list(self))


def mats_of(rel, out=None):
    out = {} if out is None else out
    stack = [rel]
    while stack:
        r = stack.pop()
        if isinstance(r, dr.Materialization):
            out[r.name] = r
        for a in ("target", "lhs", "rhs"):
            if hasattr(r, a):
                stack.append(getattr(r, a))
    return out


def history_case(rng):
    w = ip.World(n_iter=1)
    eng = w.engine(("it", 0))
    cols = gen.gen_schema(rng, allow_empty=False)
    env, pool, leaf_of_mat, leaves = [], [], {}, {}
    nmat = rng.choice([1, 2, 3])
    ident = 0
    for i in range(nmat):
        ident += 1
        rows = gen.gen_rows(rng, cols, 4)
        payload = CountingSequence([dict(r) for r in rows])
        name = f"L{ident}"
        w.reg.names[name] = ident
        env.append((ident, rows))
        # build on a fresh leaf or on an earlier materialization (nested materializations)
        if pool and rng.random() < 0.3:
            base = rng.choice(pool)
        else:
            base = eng.make_leaf(set(cols), payload=payload, name=name)
            leaves[ident] = payload
        rel = base
        for _ in range(rng.choice([0, 1, 2])):
            o, _c = gen.gen_op(rng, set(rel.columns), weights=[0, 2, 0, 3, 2, 2])
            try:
                rel = ip.apply_un(rel, o)
            except Exception:  # noqa: BLE001
                pass
        ident += 1
        mname = f"M{ident}"
        w.reg.names[mname] = ident
        m = rel.materialized(name=mname)
        if isinstance(m, dr.Materialization) and base is not None and isinstance(base, dr.LeafRelation):
            leaf_of_mat[ident] = payload
        pool.append(m)
    # derived trees on top of the shared nodes
    trees = list(pool)
    for _ in range(rng.choice([1, 2, 3])):
        rel = rng.choice(pool)
        for _ in range(rng.choice([0, 1, 2])):
            if rng.random() < 0.25:
                other = rng.choice(pool)
                if other.columns == rel.columns:
                    rel = rel.chain(other)
                    continue
            o, _c = gen.gen_op(rng, set(rel.columns), weights=[0, 2, 0, 3, 2, 2])
            try:
                rel = ip.apply_un(rel, o)
            except Exception:  # noqa: BLE001
                pass
        trees.append(rel)
    all_mats = {}
    for t in trees:
        mats_of(t, all_mats)
    events, outcomes, payloads, seen = [], [], [], {}
    for k in range(rng.choice([2, 3, 4, 6, 8])):
        if rng.random() < 0.7:
            t = rng.choice(trees)
            events.append(f"EvExec {ctree(enc.dtree(t, w.reg))}")
            try:
                rows = [dict(r) for r in eng.execute(t)]
                outcomes.append(f"CRows {crows(rows)}")
            except Exception as e:  # noqa: BLE001
                outcomes.append(f"CRaised {enc.ERR.get(ip.exc_name(e), 'RelAlgError')}")
        else:
            t = rng.choice(trees + [x.target for x in pool if hasattr(x, "target")])
            content = gen.gen_rows(rng, sorted(t.columns), 2)
            new_payload = iteration.RowSequence(content)
            held = getattr(t, "payload", None)
            if held is not None and isinstance(t, dr.MarkerRelation) and rng.random() < 0.5:
                # ... or the very object the relation already holds: attaching is refused all the same
                try:
                    content, new_payload = [dict(r) for r in held], held
                except Exception:  # noqa: BLE001
                    pass
            events.append(f"EvAttach {ctree(enc.dtree(t, w.reg))} {crows(content)}")
            try:
                t.attach_payload(new_payload)
                outcomes.append("CUnit")
            except TypeError:
                outcomes.append("CRaised TypeError")
        now = []
        for name, m in all_mats.items():
            if m.payload is not None:
                seen.setdefault((name, id(m.payload)), k)
                now.append((w.reg.names[name], seen[(name, id(m.payload))]))
        payloads.append(now)
    evals = [(mid, p.iterations) for mid, p in leaf_of_mat.items()]
    coq = (f"HCase {clist([f'({n}%positive, {crows(r)})' for n, r in env])} {clist(events)} {clist(outcomes)} "
           f"{clist([clist([f'({n}%positive, {s}%nat)' for n, s in pl]) for pl in payloads])} "
           f"{clist([f'({n}%positive, {c}%nat)' for n, c in evals])}")
    return {"json": {"events": events, "outcomes": outcomes, "payloads_after_each_event": payloads, "leaf_iterations": evals},
            "coq": coq, "nontrivial": len(all_mats) >= 1 and sum("EvExec" in e for e in events) >= 2, "key": coq}


class UserMarker(dr.MarkerRelation):
    """A marker relation defined outside the library."""


def processor_history(rng):
    """Several process()+execute calls, by one real Processor, over trees that share a materialization node whose
    upstream crosses engines (and may hold a chain with a statically empty branch, pruned by the Processor)."""
    import sqlalchemy
    import multiprog as mp
    w = mp.World()
    cols = gen.gen_schema(rng, maxk=2, maxn=1, allow_empty=False)
    rows = gen.gen_rows(rng, cols, 4)
    payload = CountingSequence([dict(r) for r in rows])
    src = w.engine(("it", 0))
    leaf = src.make_leaf(set(cols), payload=payload, name="L1")
    dest = w.engine(rng.choice([("it", 1), ("sql", 0)]))

    def some_ops(rel, k):
        for _ in range(k):
            o, _c = gen.gen_op(rng, set(rel.columns), weights=[1, 0, 2, 3, 0, 0])
            try:
                rel = mp.apply_un(rel, o, mp.DEFAULT, w)
            except Exception:  # noqa: BLE001
                pass
        return rel
    x = some_ops(some_ops(leaf, rng.choice([0, 1])).transferred_to(dest), rng.choice([0, 1, 2]))
    shape = rng.choice(["plain", "doomed_rhs", "doomed_lhs", "doomed_rhs", "user_marker", "user_marker", "trivial_doomed", "trivial_doomed",
                        "trivial_identity"])
    if shape == "trivial_doomed":
        # a statically empty relation (trivially false selection, or a join with a doomed relation) above a transfer that
        # is not: its materialization needs no hook, but the payload still has to land on the node the caller holds
        if isinstance(dest, sql.Engine) and rng.random() < 0.5:
            x = x.join(dest.make_doomed_relation({c for c in x.columns if c.is_key}, ["doomed by the harness"], name="D0"))
        else:
            x = x.with_rows_satisfying(dr.Predicate.literal(False))
    elif shape == "trivial_identity":
        # exactly one row, no columns (the join identity) computed from a one-row leaf in another engine
        payload = CountingSequence([dict(rows[0])] if rows else [dict.fromkeys(cols, 1)])
        leaf = src.make_leaf(set(cols), payload=payload, name="L1")
        c0 = sorted(cols)[0]
        x = leaf.with_calculated_column(gen.fresh_tag(rng, set(cols)), enc.iexpr(("add", ("ref", c0), ("lit", 1)))).transferred_to(dest)
        x = x.with_only_columns(set())
        assert x.is_join_identity, "the harness meant to build a join identity"
    elif shape == "user_marker":
        # a user-defined marker (the documented extension point) directly above the transfer, below the materialization
        x = UserMarker(target=some_ops(leaf, rng.choice([0, 1])).transferred_to(dest))
        if rng.random() < 0.4:
            x = some_ops(x, 1)
    elif shape != "plain":
        doomed = dest.make_doomed_relation(set(x.columns), ["doomed by the harness"], name="D")
        x = x.chain(doomed) if shape == "doomed_rhs" else doomed.chain(x)
    m = x.materialized(name="M1")
    mats = {1: m} if isinstance(m, dr.Materialization) or hasattr(m, "target") else {}
    trees = [m, some_ops(m, 1), some_ops(m, 2)]
    if rng.random() < 0.5:
        other = w.engine(("it", 1)) if dest is not w.engine(("it", 1)) else w.engine(("it", 0))
        trees.append(trees[1].transferred_to(other))

    def find_mats(rel):
        out, stack = [], [rel]
        while stack:
            r = stack.pop()
            if isinstance(r, dr.Materialization):
                out.append(r)
            for a in ("target", "lhs", "rhs"):
                if hasattr(r, a):
                    stack.append(getattr(r, a))
        return out
    all_mats = {}
    for t in trees:
        for mm in find_mats(t):
            all_mats[id(mm)] = mm
    order = {k: i + 1 for i, k in enumerate(all_mats)}
    payloads, seen, events = [], {}, []
    db = sqlalchemy.create_engine("sqlite://")
    try:
        with db.connect() as conn:
            proc = mp.RealProcessor(w, conn)
            for k in range(rng.choice([2, 3, 4])):
                t = rng.choice(trees)
                events.append(str(t))
                try:
                    proc._rows_of(proc.process(t))
                except Exception as e:  # noqa: BLE001 — whether processing succeeds is C07's concern
                    events[-1] += f"  (raised {type(e).__name__})"
                now = []
                for key, mm in all_mats.items():
                    if mm.payload is not None:
                        seen.setdefault((key, id(mm.payload)), k)
                        now.append((order[key], seen[(key, id(mm.payload))]))
                payloads.append(now)
    finally:
        db.dispose()
        for t in list(w.meta.tables.values()):
            if t.name.startswith("tmp_"):
                w.meta.remove(t)
    evals = [(1, payload.iterations)] if all_mats else []
    coq = (f"PHCase {clist([clist([f'({n}%positive, {s}%nat)' for n, s in pl]) for pl in payloads])} "
           f"{clist([f'({n}%positive, {c}%nat)' for n, c in evals])}")
    return {"json": {"shape": shape, "destination": str(dest), "events": events, "payloads_after_each_event": payloads,
                     "leaf_iterations": evals},
            "coq": coq, "nontrivial": bool(all_mats) and len(events) >= 2, "key": coq + "".join(events)}


def non_marker_attach():
    """Every relation that is not a marker rejects attach_payload with TypeError — also when it holds no payload yet
    (a leaf constructed with payload=None, doomed / join-identity leaves of an engine whose trivial payloads are None,
    operation relations) — and stays as it was."""
    from enc import K
    bad = []

    class Bare(iteration.Engine):
        def get_doomed_payload(self, columns):
            return None

        def get_join_identity_payload(self):
            return None
    it, bare, sq = iteration.Engine(name="nm_it"), Bare(name="nm_bare"), sql.Engine(name="nm_sql")
    a = K(1)
    leaf = it.make_leaf({a}, payload=iteration.RowSequence([{a: 1}]), name="nmL")
    subjects = [
        ("iteration leaf constructed with payload=None", dr.LeafRelation(it, frozenset({a}), payload=None, name="nm0")),
        ("SQL leaf constructed with payload=None", dr.LeafRelation(sq, frozenset({a}), payload=None, name="nm1")),
        ("doomed leaf of an engine whose doomed payload is None", bare.make_doomed_relation({a}, ["x"])),
        ("join-identity leaf of an engine whose identity payload is None", bare.make_join_identity_relation()),
        ("leaf with a payload", leaf),
        ("unary operation relation", leaf.with_only_columns(set())),
        ("binary operation relation", leaf.chain(leaf)),
    ]
    for what, rel in subjects:
        before = getattr(rel, "payload", None)
        try:
            rel.attach_payload(iteration.RowSequence([]))
            bad.append({"relation": what, "problem": "attach_payload was accepted"})
        except TypeError:
            pass
        except Exception as e:  # noqa: BLE001
            bad.append({"relation": what, "problem": f"attach_payload raised {type(e).__name__}, not TypeError"})
        if getattr(rel, "payload", None) is not before:
            bad.append({"relation": what, "problem": "the payload slot changed"})
    return len(subjects), bad


def run(ctx):
    rng = random.Random(ctx.seed)
    s1 = core.s1(ctx, ["Slice"], "Properties.C10", THEOREMS, extra_targets=["Model/CheckStore.vo"])
    n = 300 if ctx.tier == "quick" else 5000
    cases = [history_case(rng) for _ in range(n)]
    pcases = [processor_history(rng) for _ in range(n // 3)]
    psumm = core.judge(ctx, pcases, HDR, "check_phist", prefix="cases_C10p", shard=100,
                       bits={4: "over a history of process() calls a payload changed or disappeared, or the upstream of a "
                                "materialization was evaluated more than once"})
    bits = {1: "outcomes or payload sets differ from the model's history",
            4: "a payload changed or disappeared, an upstream tree was evaluated more than once, or an attachment was wrongly accepted"}
    summ = core.judge(ctx, cases, HDR, "check_hist", bits=bits, shard=100)
    nsub, nbad = non_marker_attach()
    for b in nbad[:3]:
        ctx.failing_case({"kind": "attachment-to-a-non-marker", "case": b}, None)
    core.conclude_s1(ctx, s1, summ["spec_failures"] + psumm["spec_failures"] > 0 or bool(ctx.violations))
    ctx.coverage.update({
        "evaluations": len(cases) + len(pcases),
        "distinct_nontrivial": len({c["key"] for c in cases + pcases if c["nontrivial"]}),
        "processor_histories": psumm, "non_marker_relations_refusing_attachment": nsub - len({b["relation"] for b in nbad}),
        "rule": "(b) histories of process()+execute by one real SQLite<->iteration Processor over trees sharing a materialization "
                "whose upstream crosses engines, with chains that have a statically empty branch on either side; the counting "
                "leaf below the materialization may be read at most once over the whole history. "
                "(a) random histories of execute() and attach_payload() calls over iteration-engine trees that share "
                "materialization node objects (including nested materializations and chains of the same node); after every "
                "event the payload object of every materialization is identified, leaf payloads count their iterations; "
                "non-trivial = at least one shared materialization and two executions",
        "traces_validated_against_impl": summ["evaluated"], "judgement": summ,
        "samples": [cases[0]["json"], cases[-1]["json"]],
    })
    ctx.assumptions += ["materialization names identify node objects (the harness gives every node a unique name)",
                        "the hook protocol of Processor.process itself is C07's; here only payload stability and evaluation counts"]


def replay(ctx, path):
    print(json.dumps(json.load(open(path)), indent=1)[:4000])
    return 0
