#!/bin/sh
# Build the framework from files on disk only (offline): regenerate the translated units from
# /repo's working tree, then a full .vo build of the Coq development.
set -e
cd "$(dirname "$0")"
PYTHONHASHSEED=0 /venv/bin/python translate/units.py "${VERIF_REPO:-/repo}" coq/Gen
MK_TIMEOUT=3000 ./coq/mk.sh
echo "setup done"
