(* C05 — Merging and eliding adjacent operations preserves semantics and never rejects.
   Statements only; proofs live in Proofs/.  The Slice arithmetic is the definition generated
   from /repo's _operations/_slice.py on every run. *)
From DR Require Import Model.WF Proofs.SliceLaws Proofs.SortLaws Proofs.PredLaws Proofs.SemLaws
  Proofs.Simplify Proofs.FinishApply.
Local Open Scope Z_scope.

(* slice after slice, all integer bounds *)
Theorem C05_slice_merge_sound : forall a1 b1 a2 b2 a3 b3 (l : rows),
  slice_valid a1 b1 -> slice_valid a2 b2 -> slice_then a1 b1 a2 b2 = Ok (a3, b3) ->
  sem_slice a3 b3 l = sem_slice a2 b2 (sem_slice a1 b1 l).
Proof. intros; apply slice_then_sem; auto. Qed.

Theorem C05_slice_merge_never_raises : forall a1 b1 a2 b2,
  slice_valid a1 b1 -> slice_valid a2 b2 -> exists r, slice_then a1 b1 a2 b2 = Ok r.
Proof. exact slice_then_total. Qed.

(* sort after sort, all term lists (repeated and opposite-direction terms included) *)
Theorem C05_sort_merge_sound : forall self next (l : rows),
  sem_sort (sort_then self next) l = sem_sort next (sem_sort self l).
Proof. exact sort_then_sem. Qed.

(* every merge/elision reported by simplify, for every pair of operations and every row list *)
Theorem C05_simplify_sound : forall new up cs (l : rows),
  op_wf up cs -> op_wf new (op_columns up cs) -> simplify_spec new up cs l.
Proof. exact simplify_sound. Qed.

(* merging never raises for two individually valid operations *)
Theorem C05_simplify_never_raises : forall new up cs e,
  op_wf up cs -> op_wf new (op_columns up cs) -> simplify new up <> SErr e.
Proof. exact simplify_total. Qed.

(* the tree _finish_apply returns (after any number of merge steps) denotes the applied operation *)
Theorem C05_finish_apply_sound : forall env t o t',
  wf_tree t -> env_ok env t -> (o = Ident \/ op_wf o (columns t)) ->
  finish_apply o t = Ok t' -> fa_spec env o t t'.
Proof. exact finish_apply_sem. Qed.

(* non-vacuity: a concrete merge chain meets the hypotheses and really merges *)
Example C05_nonvacuous :
  let leaf := Leaf 1 (Eng KIter 0) (mkset [2;4]%positive) 3 (Some 3) in
  finish_apply (Slice 1 (Some 2)) (Un (Slice 1 (Some 5)) leaf) = Ok (Un (Slice 2 (Some 3)) leaf)
  /\ finish_apply (Slice 3 (Some 5)) (Un (Slice 0 (Some 2)) leaf) = Ok (Un (Slice 3 (Some 3)) leaf).
Proof. vm_compute. auto. Qed.
