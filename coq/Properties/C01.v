(* C01 — Iteration engine executes the applied operation sequence exactly. *)
From DR Require Import Model.IterExec Proofs.SemLaws Proofs.IterExecLaws Proofs.BuildLaws.
From Coq Require Import Lia.
Local Open Scope Z_scope.

(* For every program of factory calls accepted by the library (build_iter = the model of the
   factory pipeline: constructor checks, _begin_apply, _finish_apply with merging/elision,
   chain, materialization, iteration-to-iteration transfer), over truthful leaves, executing
   the built tree (model of Engine.execute incl. its short-cuts) yields exactly — values,
   multiplicity, order — the direct evaluation of the applied operation sequence. *)
Theorem C01_iteration_execute_exact : forall env p t,
  prog_ok env p -> kd_prog env p = true -> build_iter p = Ok t ->
  iter_exec env t = Ok (spec_prog env p).
Proof. exact iter_execute_exact. Qed.

(* the pieces *)
Theorem C01_built_tree_denotes_program : forall env p t,
  prog_ok env p -> build_iter p = Ok t -> built env p t.
Proof. exact build_iter_built. Qed.

Theorem C01_execute_denotes_tree : forall env t,
  wf_tree t -> env_ok env t -> iter_ok t -> kd_tree env t -> iter_exec env t = Ok (sem_tree env t).
Proof. exact iter_exec_sound. Qed.

Theorem C01_multipass_sort_is_stable_lexicographic_sort : forall ts l, multipass_sort ts l = sem_sort ts l.
Proof. exact multipass_sort_eq. Qed.

Theorem C01_dict_deduplication_is_first_occurrence : forall key l,
  kd_rows key l -> dict_dedup key l = sem_dedup l.
Proof. exact dict_dedup_eq. Qed.

(* key-determinedness (the documented ColumnTag.is_key contract) holds automatically on all-key rows *)
Theorem C01_all_key_rows_are_key_determined : forall cs (l : rows),
  rows_dom cs l -> (forall k, k ∈ cs -> is_key k = true) -> key_determined l = true.
Proof. exact all_key_kd. Qed.

(* without it the unconditional statement is false: the engine deduplicates on key columns only *)
Example C01_full_statement_refuted :
  let cs := mkset [2; 3]%positive in
  let l := [mkrow [(2%positive, 1%Z); (3%positive, 5%Z)]; mkrow [(2%positive, 1%Z); (3%positive, 7%Z)]] in
  dict_dedup (key_columns cs) l <> sem_dedup l.
Proof. vm_compute. discriminate. Qed.

Example C01_nonvacuous :
  let leaf := PLeaf 1 (Eng KIter 0) (mkset [2; 4]%positive) 3 (Some 3) in
  let env := mkenv [(1%positive, [mkrow [(2%positive, 1%Z); (4%positive, 0%Z)];
                                  mkrow [(2%positive, 0%Z); (4%positive, 1%Z)];
                                  mkrow [(2%positive, 1%Z); (4%positive, 0%Z)]])] in
  let p := PItem (Some 0%Z) (Some 2%Z) None (PUn Dedup (PUn (Sort [(ERef 2, true)]) leaf)) in
  prog_ok env p /\ kd_prog env p = true /\
  exists t, build_iter p = Ok t /\ iter_exec env t = Ok [mkrow [(2%positive, 0%Z); (4%positive, 1%Z)]; mkrow [(2%positive, 1%Z); (4%positive, 0%Z)]].
Proof.
  split; [|split].
  - simpl. repeat split; auto; try lia. apply rows_domb_spec. vm_compute. reflexivity.
  - vm_compute. reflexivity.
  - eexists. split; vm_compute; reflexivity.
Qed.
