(* C13 — Predicate folding, conjunction flattening and required-column sets are sound. *)
From DR Require Import Model.PredOps Proofs.PredLaws.

(* constant folding: if the answer is b, the predicate evaluates to b on every row (that has its columns) *)
Theorem C13_as_trivial_sound : forall p b (r : row),
  as_trivial p = Some b -> cols_p p ⊆ dom r -> evalp p r = Some b.
Proof. exact as_trivial_sound_total. Qed.

(* ... and never contradicts an evaluation, whatever the row *)
Theorem C13_as_trivial_consistent : forall p r b b',
  as_trivial p = Some b -> evalp p r = Some b' -> b' = b.
Proof. intros p r b b'. apply (as_trivial_sound p r). Qed.

(* flattening a conjunction yields conjuncts whose AND is equivalent to the original *)
Theorem C13_flatten_sound : forall p qs r, flatten_and p = Some qs -> evalp (PAnd qs) r = evalp p r.
Proof. exact flatten_sound. Qed.

(* ... and reports False only for predicates that are false on every row *)
Theorem C13_flatten_false_sound : forall p r b, flatten_and p = None -> evalp p r = Some b -> b = false.
Proof. exact flatten_false_sound. Qed.

(* the predicate stored by a selection is equivalent to the one supplied *)
Theorem C13_selection_predicate_equivalent : forall p r, evalp (selection_norm p) r = evalp p r.
Proof. exact selection_norm_equiv. Qed.

(* required columns are sufficient: evaluation on the row restricted to them succeeds, same value *)
Theorem C13_expr_columns_sufficient : forall e (r : row),
  cols_e e ⊆ dom r -> is_Some (eval e r) /\ eval e (restrict (cols_e e) r) = eval e r.
Proof. intros e r H. split; [apply eval_total; auto|apply eval_restrict; set_solver]. Qed.

Theorem C13_pred_columns_sufficient : forall p (r : row),
  cols_p p ⊆ dom r -> is_Some (evalp p r) /\ evalp p (restrict (cols_p p) r) = evalp p r.
Proof. intros p r H. split; [apply evalp_total; auto|apply evalp_restrict; set_solver]. Qed.

(* ... and necessary in the model: a missing required column makes direct evaluation fail *)
Theorem C13_expr_columns_necessary : forall e (r : row) t, t ∈ cols_e e -> r !! t = None -> eval e r = None.
Proof. exact eval_needs. Qed.

Example C13_nonvacuous :
  as_trivial (POr [PCmp CLt (ERef 2) (ELit 0); PNot (PLit false)]) = Some true /\
  flatten_and (PAnd [PAnd [PRef 2; PLit true]; PCmp CEq (ERef 4) (ELit 1)]) = Some [PRef 2; PCmp CEq (ERef 4) (ELit 1)] /\
  flatten_and (PAnd [PRef 2; PAnd [PLit false]]) = None.
Proof. vm_compute. auto. Qed.
