(* C04 — Commutation reports are sound for every operation pair and target. *)
From DR Require Import Model.CommuteSpec Proofs.SemLaws Proofs.CommuteLaws.

(* For every pair of unary operations (all six concrete types, all parameters), every target
   relation and every list of target rows: if commute reports a move, both reported operations
   are well-formed where they would be applied and applying first, then second (then the new
   operation again when the move is partial) yields exactly the rows, in order, of the existing
   operation followed by the new one; if it reports no move it hands back the existing
   operation.  `commute` is the model compared with the real commute() exhaustively on every run.
   Excluded: Projection past Deduplication (finding F2: reported as a full move although it
   changes the multiset; pinned by tests/test_projection.py::test_backtracking_apply). *)
Theorem C04_commute_sound : forall env new cur tcols (l : rows),
  rows_dom tcols l -> op_wf cur tcols -> op_wf new (op_columns cur tcols) ->
  ~ (exists cs, new = Proj cs /\ cur = Dedup) ->
  commutator_sound env (RUn new) cur tcols (commute (RUn new) cur tcols) l.
Proof. exact commute_sound_unary. Qed.

Theorem C04_failed_commute_hands_back_current : forall new cur tcols,
  c_first (commute new cur tcols) = None ->
  c_second (commute new cur tcols) = cur /\ c_done (commute new cur tcols) = false.
Proof. exact commute_fail_shape. Qed.

(* the excluded case is really unsound on the pinned tree: witness *)
Example C04_projection_past_deduplication_refuted :
  let l := [mkrow [(2%positive, 1%Z); (4%positive, 1%Z)]; mkrow [(2%positive, 1%Z); (4%positive, 2%Z)]] in
  let c := commute (RUn (Proj (mkset [2%positive]))) Dedup (mkset [2; 4]%positive) in
  c_done c = true /\
  sem_op (c_second c) (sem_req (fun _ => []) (default (RUn Ident) (c_first c)) l)
    <> sem_op (Proj (mkset [2%positive])) (sem_op Dedup l).
Proof. split; [reflexivity|]. vm_compute. discriminate. Qed.

Example C04_nonvacuous :
  let c := commute (RUn (Proj (mkset [2%positive]))) (Sel (PCmp CLt (ERef 4) (ELit 3))) (mkset [2; 4]%positive) in
  match c_first c with Some (RUn (Proj cs)) => bool_decide (cs = mkset [2; 4]%positive) | _ => false end = true
  /\ c_done c = false.
Proof. vm_compute. auto. Qed.
