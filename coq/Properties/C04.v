(* C04 — Commutation reports are sound for every operation pair and target. *)
From DR Require Import Model.CommuteSpec Proofs.SemLaws Proofs.CommuteLaws Proofs.JoinCommute.
From Coq Require Import Permutation.

(* For every pair of unary operations (all six concrete types, all parameters), every target
   relation and every list of target rows: if commute reports a move, both reported operations
   are well-formed where they would be applied and applying first, then second (then the new
   operation again when the move is partial) yields exactly the rows, in order, of the existing
   operation followed by the new one; if it reports no move it hands back the existing
   operation.  `commute` is the model compared with the real commute() exhaustively on every run.
   Excluded: Projection past Deduplication (finding F2: reported as a full move although it
   changes the multiset; pinned by tests/test_projection.py::test_backtracking_apply). *)
Theorem C04_commute_sound : forall env new cur tcols (l : rows),
  rows_dom tcols l -> op_wf cur tcols -> op_wf new (op_columns cur tcols) ->
  ~ (exists cs, new = Proj cs /\ cur = Dedup) ->
  commutator_sound env (RUn new) cur tcols (commute (RUn new) cur tcols) l.
Proof. exact commute_sound_unary. Qed.

Theorem C04_failed_commute_hands_back_current : forall new cur tcols,
  c_first (commute new cur tcols) = None ->
  c_second (commute new cur tcols) = cur /\ c_done (commute new cur tcols) = false.
Proof. exact commute_fail_shape. Qed.

(* Requests that are joins with a fixed operand (PartialJoin, the fixed operand on either side), every existing
   operation, every predicate and set of common columns, every fixed tree and every target: a reported move is
   well-formed and yields exactly the rows, in order, of the existing operation followed by the join — except that with
   the fixed operand on the LEFT and an existing Sort the two sides are equal as multisets only (the join lists the
   fixed operand's rows in its outer loop, which no sort of the other operand restores).  `consistent` is the documented
   ColumnTag contract: rows that match on the common columns agree on every other column the operands share.
   The Projection case needs `(tcols ∖ cs) ∩ columns fixed = ∅`: that is what commit 62e461e (finding F22) added to
   PartialJoin.commute, and what `commute` checks. *)
Theorem C04_join_commute_sound : forall env j f lhs cur tcols (l : rows),
  rows_dom tcols l -> op_wf cur tcols -> req_wf env (RJoin j f lhs) (op_columns cur tcols) ->
  consistent (j_min j) l (sem_tree env f) ->
  commutator_sound_upto (if lhs && is_reordering cur then Permutation else eq)
    env (RJoin j f lhs) cur tcols (commute (RJoin j f lhs) cur tcols) l.
Proof. exact commute_sound_join. Qed.

(* F22 as it was: moving F ⋈ · past a projection that hides a column F also has changes the rows *)
Example C04_join_past_hiding_projection_refuted :
  let F := [mkrow [(2%positive, 0%Z); (6%positive, 7%Z)]] in
  let l := [mkrow [(2%positive, 0%Z); (6%positive, 5%Z)]] in
  let cs := mkset [2%positive] in
  rows_eqb (sem_proj (cs ∪ mkset [2; 6]%positive) (sem_join cs (PLit true) F l))
           (sem_join cs (PLit true) F (sem_proj cs l)) = false.
Proof. vm_compute. reflexivity. Qed.

(* the excluded case is really unsound on the pinned tree: witness *)
Example C04_projection_past_deduplication_refuted :
  let l := [mkrow [(2%positive, 1%Z); (4%positive, 1%Z)]; mkrow [(2%positive, 1%Z); (4%positive, 2%Z)]] in
  let c := commute (RUn (Proj (mkset [2%positive]))) Dedup (mkset [2; 4]%positive) in
  c_done c = true /\
  sem_op (c_second c) (sem_req (fun _ => []) (default (RUn Ident) (c_first c)) l)
    <> sem_op (Proj (mkset [2%positive])) (sem_op Dedup l).
Proof. split; [reflexivity|]. vm_compute. discriminate. Qed.

Example C04_nonvacuous :
  let c := commute (RUn (Proj (mkset [2%positive]))) (Sel (PCmp CLt (ERef 4) (ELit 3))) (mkset [2; 4]%positive) in
  match c_first c with Some (RUn (Proj cs)) => bool_decide (cs = mkset [2; 4]%positive) | _ => false end = true
  /\ c_done c = false.
Proof. vm_compute. auto. Qed.
