(* C19 — Generated relation names are unique across all calls and threads. *)
From DR Require Import Model.Names Proofs.NameLaws.
Import ListNotations.
Local Open Scope list_scope.

(* Any number of engines and of concurrent requests, any interleaving of the micro-steps of
   get_relation_name (as generated from the source: build the f-string, then read and write the
   counter): the names handed out are pairwise distinct — provided uuid4() draws are distinct
   32-character hex strings (the oracle: true with overwhelming probability, not a theorem). *)
Theorem C19_names_distinct : forall (uuid_hex : nat -> list ascii),
  (forall k, length (uuid_hex k) = 32) -> (forall j k, uuid_hex j = uuid_hex k -> j = k) ->
  forall n_engines reqs sched, NoDup (names (run uuid_hex sched (init n_engines reqs))).
Proof. exact names_distinct. Qed.

(* each name begins with the requested prefix *)
Theorem C19_name_has_prefix : forall prefix c u, exists rest, render name_parts prefix c u = prefix ++ rest.
Proof. exact render_has_prefix. Qed.

(* the counter alone does not make names unique: two threads can read the same value *)
Example C19_counter_alone_collides :
  let u := fun k : nat => repeat (if Nat.even k then "a"%char else "b"%char) 32 in
  let w := run u [0; 1; 0; 1; 0; 1; 0; 1] (init 1 [(0, chars "leaf"); (0, chars "leaf")]) in
  map (fun nm => firstn 9 nm) (names w) = [chars "leaf_0000"; chars "leaf_0000"] /\ nth 0 (w_ctr w) 7 = 1.
Proof. vm_compute. split; reflexivity. Qed.
