(* C11 — SQL engine honours sort order for slices and for trailing sorts, or refuses. *)
From DR Require Import Model.Reach Proofs.SemLaws Proofs.SqlRules Proofs.OrderLaws.
Local Open Scope Z_scope.

(* a slice applied to a conformed relation returns exactly rows [start, stop) of that relation's
   rows IN ORDER (the denotation is a list; the conformed tree keeps it) *)
Theorem C11_slice_is_positional_on_the_ordered_rows : forall env s a b s',
  good_all env s -> slice_ok a b -> append_unary_sel (Slice a b) s = Ok s' ->
  sem_tree env s' = sem_slice a b (sem_tree env s).
Proof. exact slice_rule_exact. Qed.

(* a sort applied last leaves the rows in that order, whatever was absorbed before *)
Theorem C11_trailing_sort_orders_the_rows : forall env s ts s',
  good_all env s -> op_required (Sort ts) ⊆ columns s -> ts <> [] -> append_unary_sel (Sort ts) s = Ok s' ->
  sem_tree env s' = sem_sort ts (sem_tree env s).
Proof. exact sort_rule_exact. Qed.

(* where a sort without a slice would be buried under a join, chain or materialization the engine
   raises the row-order-loss error instead of dropping it *)
Theorem C11_binary_refuses_order_loss : forall b l r,
  order_loss l = true \/ order_loss r = true -> append_binary_sel b l r = Err OrderLoss.
Proof. exact binary_refuses_order_loss. Qed.

Theorem C11_materialize_refuses_order_loss : forall n t c,
  conform t = Ok c -> order_loss c = true -> sql_materialize n t = Err OrderLoss.
Proof. exact materialize_refuses_order_loss. Qed.
