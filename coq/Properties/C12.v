(* C12 — Column expressions mean the same thing in every engine. *)
From DR Require Import Model.SqlConv Model.IterExpr Proofs.SqlExprLaws.
Local Open Scope Z_scope.

(* iteration engine: the callable built for an expression / predicate agrees with direct evaluation *)
Theorem C12_iteration_expression_agrees : forall e r, iter_call_e e r = eval e r.
Proof. exact iter_call_e_agrees. Qed.
Theorem C12_iteration_predicate_agrees : forall p r b, evalp p r = Some b -> iter_call_p p r = Some b.
Proof. exact iter_pred_agrees. Qed.

(* SQL engine: the translation, evaluated with SQLite's semantics, agrees with direct evaluation *)
Theorem C12_sql_expression_agrees : forall e r, seval (to_sql_e e) r = eval e r.
Proof. exact to_sql_e_agrees. Qed.
Theorem C12_sql_predicate_agrees : forall p r b,
  pred_ranges_ok p = true -> evalp p r = Some b -> sholds (to_sql_p p) r = Some b.
Proof. intros p r b H. exact (sql_pred_agrees p r H b). Qed.

(* the side condition of the SQL theorem is exactly "every range literal Python accepts" *)
Theorem C12_all_ranges_ok : forall a b s, s <> 0 -> range_ok a b s = true.
Proof. intros a b s H. unfold range_ok. apply negb_true_iff, Z.eqb_neq. exact H. Qed.

Example C12_nonvacuous :
  sholds (to_sql_p (PIn (ERef 2) (CRange 2 11 3))) (mkrow [(2%positive, 8)]) = Some true /\
  evalp (PIn (ERef 2) (CRange 2 11 3)) (mkrow [(2%positive, 8)]) = Some true /\
  sholds (to_sql_p (PIn (ERef 2) (CRange 2 11 3))) (mkrow [(2%positive, 9)]) = Some false.
Proof. vm_compute. auto. Qed.
