(* C08 — Every tree the factories accept can be compiled and executed. *)
From DR Require Import Model.IterExec Model.Reach Proofs.IterExecLaws Proofs.BuildLaws Proofs.SqlStruct.

(* iteration engine: a program accepted by the factories executes without any error (no missing
   column lookup, no unsupported node): execute returns rows — in fact exactly the specification's *)
Theorem C08_accepted_iteration_program_executes : forall env p t,
  prog_ok env p -> kd_prog env p = true -> build_iter p = Ok t -> exists l, iter_exec env t = Ok l.
Proof. intros env p t H1 H2 H3. eexists. eapply iter_execute_exact; eauto. Qed.

(* SQL engine: whatever the factories return is a conformed SELECT marker (the only shape the
   compiler's entry point takes); compilation itself is validated against SQLite per run *)
Theorem C08_sql_factories_return_compilable_shape : forall t c, conform t = Ok c -> is_select c = true.
Proof. exact conform_is_select. Qed.
