(* C08 — Every tree the factories accept can be compiled and executed. *)
From DR Require Import Model.IterExec Model.Reach Proofs.IterExecLaws Proofs.BuildLaws Proofs.SqlStruct Proofs.SqlRules Proofs.SqlBuild.

(* iteration engine: a program accepted by the factories executes without any error (no missing
   column lookup, no unsupported node): execute returns rows — in fact exactly the specification's *)
Theorem C08_accepted_iteration_program_executes : forall env p t,
  prog_ok env p -> kd_prog env p = true -> build_iter p = Ok t -> exists l, iter_exec env t = Ok l.
Proof. intros env p t H1 H2 H3. eexists. eapply iter_execute_exact; eauto. Qed.

(* SQL engine: whatever the factories return is a conformed SELECT marker (the only shape the
   compiler's entry point takes); compilation itself is validated against SQLite per run *)
Theorem C08_sql_factories_return_compilable_shape : forall t c, conform t = Ok c -> is_select c = true.
Proof. exact conform_is_select. Qed.

(* ... and for whole single-engine SQL programs the relation handed to the compiler is a conformed relation all of
   whose SELECT markers are coherent with the operation nodes they manage (good_all), denoting the program *)
Theorem C08_sql_program_is_conformed : forall env e0 p t, ekind_of e0 = KSql ->
  sqlprog_ok env e0 p -> build_multi p = Ok t -> good_all env t /\ is_select t = true.
Proof.
  intros env e0 p t Hk H1 H2. destruct (build_sql_built env e0 Hk p t H1 H2) as (G & _).
  split; auto. apply good_all_sel in G. destruct t; try (destruct G; fail). reflexivity.
Qed.
