(* C09 — Relations are persistent, hashable values; evaluation is side-effect free. *)
From DR Require Import Model.Dataclass.
From Coq Require Import String List.
Import ListNotations.
Open Scope string_scope.

(* Every class whose instances the factories put into relation trees is hashable under CPython's
   dataclass rules — decided over the table of all dataclasses regenerated from the package source
   (decorator flags, explicit __hash__, compare fields and their declared container kinds). *)
Theorem C09_all_tree_classes_hashable : all_tree_classes_hashable = true.
Proof. vm_compute. reflexivity. Qed.

(* Every write site of the package (object.__setattr__, attribute and subscript stores, augmented
   assignments, mutating method calls — regenerated from the source with the provenance of the
   object written to) writes to an object created in the same call, to `self` inside a constructor,
   to the write-once payload slot, or to the engine's name counter. *)
Theorem C09_write_sites_confined : all_write_sites_confined = true.
Proof. vm_compute. reflexivity. Qed.

(* non-vacuity: the policy rejects an aliasing write and a mutable-eq dataclass *)
Example C09_policy_rejects :
  site_allowed (WSite "sql/_engine.py::Engine.to_payload" "extend" (PUnknown "call")) = false /\
  class_hashable (DClass "SortTerm" false true false false [DField "expression" true TAtom] []) = false.
Proof. vm_compute. auto. Qed.
