(* C14 — Every reachable tree is engine-consistent and structurally well-formed. *)
From DR Require Import Model.Reach Proofs.BuildLaws Proofs.ReachLaws.

(* iteration-engine programs of any length: the built tree is node-locally well-formed — every
   operation's required columns are present, calculated tags are fresh, chain operands agree on
   columns and engine, transfers cross engines, and no placeholder (Identity) is a node *)
Theorem C14_iteration_programs_well_formed : forall env p t,
  prog_ok env p -> build_iter p = Ok t -> wf_tree t.
Proof. exact iteration_programs_well_formed. Qed.

Theorem C14_placeholders_never_nodes : forall o t, wf_tree (Un o t) -> o <> Ident.
Proof. exact wf_tree_no_ident. Qed.

(* the documented no-op calls return the relation itself, in every engine, with every option *)
Theorem C14_noop_projection_returns_self : forall t op,
  api_relation t -> apply_full (RUn (Proj (columns t))) t op = Ok t.
Proof. exact noop_projection_returns_self. Qed.

Theorem C14_noop_sort_returns_self : forall t op, api_relation t -> apply_full (RUn (Sort [])) t op = Ok t.
Proof. exact noop_sort_returns_self. Qed.

Theorem C14_transfer_to_own_engine_returns_self : forall t,
  api_relation t -> xfer_simplify (engine_of t) t = None -> transfer_e (engine_of t) t = Ok t.
Proof. exact transfer_to_own_engine_returns_self. Qed.
