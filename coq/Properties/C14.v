(* C14 — Every reachable tree is engine-consistent and structurally well-formed. *)
From DR Require Import Model.Reach Proofs.BuildLaws Proofs.ReachLaws Proofs.SqlRules Proofs.BacktrackLaws Proofs.SqlBuild Proofs.MultiIter Proofs.JoinBacktrack.

(* iteration-engine programs of any length: the built tree is node-locally well-formed — every
   operation's required columns are present, calculated tags are fresh, chain operands agree on
   columns and engine, transfers cross engines, and no placeholder (Identity) is a node *)
Theorem C14_iteration_programs_well_formed : forall env p t,
  prog_ok env p -> build_iter p = Ok t -> wf_tree t.
Proof. exact iteration_programs_well_formed. Qed.

(* programs over SEVERAL iteration engines, with transfers and with every combination of preferred-engine options on
   their unary calls: the built tree is well-formed and every engine in it is an iteration engine *)
Theorem C14_multi_engine_iteration_programs_well_formed : forall env p t,
  iterprog_ok env p -> build_multi p = Ok t -> wf_tree t /\ all_iter t.
Proof. intros env p t H1 H2. destruct (build_multi_iter_built env p t H1 H2) as (_ & W & _ & _ & A). auto. Qed.

(* single-engine SQL programs (all unary operations, chains, joins, materializations): the built relation is a
   conformed SELECT marker over a well-formed tree that stays in that engine *)
Theorem C14_sql_programs_well_formed : forall env e0 p t, ekind_of e0 = KSql ->
  sqlprog_ok env e0 p -> build_multi p = Ok t -> wf_tree t /\ good_all env t /\ engine_of t = e0.
Proof.
  intros env e0 p t Hk H1 H2. destruct (build_sql_built env e0 Hk p t H1 H2) as (G & _ & _ & E).
  destruct (good_all_wf env t G). auto.
Qed.

Theorem C14_placeholders_never_nodes : forall o t, wf_tree (Un o t) -> o <> Ident.
Proof. exact wf_tree_no_ident. Qed.

(* the documented no-op calls return the relation itself, in every engine, with every option *)
Theorem C14_noop_projection_returns_self : forall t op,
  api_relation t -> apply_full (RUn (Proj (columns t))) t op = Ok t.
Proof. exact noop_projection_returns_self. Qed.

Theorem C14_noop_sort_returns_self : forall t op, api_relation t -> apply_full (RUn (Sort [])) t op = Ok t.
Proof. exact noop_sort_returns_self. Qed.

Theorem C14_transfer_to_own_engine_returns_self : forall t,
  api_relation t -> transfer_e (engine_of t) t = Ok t.
Proof. exact transfer_to_own_engine_returns_self. Qed.

(* PartialJoin._begin_apply hands on a join whose common columns are resolved (minimum = maximum) whatever minimum and
   maximum the caller gave (Join(min_columns=…, max_columns=…).partial(fixed).apply(target)): they hold the minimum, lie
   within the maximum, and are columns of both operands — so every join node built from it has resolved common columns
   that both operands have *)
Theorem C14_partial_join_resolves_common_columns : forall j f lhs t pref r' e,
  j_min j ⊆ columns f ->
  req_begin (RJoin j f lhs) t pref = Ok (r', e) ->
  exists c, r' = RJoin (JSpec (j_pred j) c (Some c)) f lhs /\ j_resolved (JSpec (j_pred j) c (Some c)) = true /\
       j_min j ⊆ c /\ c ⊆ columns f /\ c ⊆ columns t /\ (forall m, j_max j = Some m -> c ⊆ m) /\
       cols_p (j_pred j) ⊆ columns t ∪ columns f.
Proof. exact req_begin_join_resolved. Qed.

(* non-vacuity: minimum {a}, maximum {a, c} over operands sharing the key columns a and b: resolved to {a} *)
Example C14_explicit_common_columns_resolved :
  let a := 2%positive in let b := 4%positive in let c := 6%positive in let d := 8%positive in
  let t := Leaf 1 (Eng KSql 0) (mkset [a; b; c]) 0 None in
  let f := Leaf 2 (Eng KSql 0) (mkset [a; b; d]) 0 None in
  match req_begin (RJoin (JSpec (PLit true) (mkset [a]) (Some (mkset [a; c]))) f false) t None with
  | Ok (RJoin j' _ _, _) => bool_decide (j_min j' = mkset [a]) && j_resolved j'
  | _ => false
  end = true.
Proof. vm_compute. reflexivity. Qed.
