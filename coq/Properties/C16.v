(* C16 — Diagnostics never dooms a non-empty relation; exact with an executor. *)
From DR Require Import Model.Diag Proofs.DiagLaws.
Local Open Scope Z_scope.

(* For every well-formed tree over truthful leaves (all node kinds, both engines' trees):
   a doomed verdict implies the relation has no rows, it carries at least one message, and with an
   executor that answers truthfully the verdict is exact. *)
Theorem C16_diagnostics_correct : forall env lmsgs exec t,
  wf_tree t -> env_ok env t -> exec_ok env exec ->
  let '(d, m) := diag_run lmsgs exec t in
  (d = true -> sem_tree env t = []) /\
  (d = true -> (1 <= m)%nat) /\
  (match exec with Some _ => sem_tree env t = [] -> d = true | None => True end).
Proof. exact diag_correct. Qed.

Corollary C16_never_dooms_a_relation_with_rows : forall env lmsgs t,
  wf_tree t -> env_ok env t -> sem_tree env t <> [] -> fst (diag_run lmsgs None t) = false.
Proof.
  intros env lmsgs t Hwf Henv Hne. pose proof (diag_correct env lmsgs None t Hwf Henv I) as H.
  destruct (diag_run lmsgs None t) as [[|] m]; simpl; auto. destruct H as (H & _). exfalso. apply Hne. auto.
Qed.

Example C16_nonvacuous :
  let leaf := Leaf 1 (Eng KIter 0) (mkset [2%positive]) 2 (Some 2) in
  diag_run (fun _ => 0%nat) None (Un (Slice 1 (Some 1)) (Un (Sel (PCmp CLt (ERef 2) (ELit 5))) leaf)) = (true, 1%nat)
  /\ diag_run (fun _ => 0%nat) None (Un (Sel (PAnd [PLit false])) leaf) = (true, 1%nat).
Proof. vm_compute. auto. Qed.
