(* C02 — SQL compilation preserves relational semantics (translation validation).
   Layer (a): the SQL engine's rewrite system.  Every rule of _append_unary_to_select, for every
   operation, every slot state of the SELECT marker and every list of rows, returns a conformed
   relation that denotes the applied operation — as a LIST, hence also as a multiset.
   Layer (b), the compilation of a conformed tree to SQLAlchemy and its evaluation by SQLite, is
   validated per run against a real database (both physical scan orders); it is modelled, not
   proved (see MANIFEST / DESIGN). *)
From DR Require Import Model.Reach Proofs.SemLaws Proofs.SqlRules Proofs.SqlBinary Proofs.SqlJoinId Proofs.SqlBuild.
Local Open Scope Z_scope.

(* Select.apply_skip: marker, skip target and target chain agree, and denote the recorded slots *)
Theorem C02_apply_skip_sound : forall env sl skip s,
  wf_tree skip -> env_ok env skip -> slots_wf sl (columns skip) -> apply_skip sl skip = Ok s ->
  good_sel env s /\ sel_slots s = sl /\ sel_skip s = skip.
Proof. exact apply_skip_good. Qed.

(* every unary rule: calculation, deduplication, projection (including the push-down into UNION
   operands, by induction over the operands), selection, slice, sort *)
Theorem C02_append_unary_sound : forall env s o s',
  good_all env s -> op_wf o (columns s) -> append_unary_sel o s = Ok s' ->
  good_all env s' /\ sem_tree env s' = sem_op o (sem_tree env s) /\
  columns s' = op_columns o (columns s) /\ engine_of s' = engine_of s.
Proof. intros env s o s'. exact (append_unary_sel_sound env s o s'). Qed.

(* what a marker's slots denote: sort, then projection, then deduplication, then slice *)
Theorem C02_marker_denotes_slots : forall env sl skip tgt,
  good_sel env (SelM sl skip tgt) -> sem_tree env (SelM sl skip tgt) = slots_sem sl (sem_tree env skip).
Proof. exact good_sel_sem. Qed.

(* the binary rules: UNION ALL of two conformed relations (operands with a slice are nested first) *)
Theorem C02_chain_rule_sound : forall env cf l r s,
  good_all env l -> good_all env r -> columns l = columns r -> engine_of l = engine_of r ->
  append_binary_sel_with cf BChain l r = Ok s ->
  good_all env s /\ sem_tree env s = (sem_tree env l ++ sem_tree env r)%list /\ columns s = columns l /\ engine_of s = engine_of l.
Proof. exact append_chain_sound. Qed.

(* joins: the markers of both operands are stripped where that is safe (no hidden column collides with a column
   of the other operand) and the projection is re-applied outside.  Every pair of conformed operands, including
   operands without columns: when one of them is the join identity, Join._finish_apply hands back the other one with
   the predicate applied as a selection, which re-enters Engine.conform on a stripped skip target — sound because
   every marker inside a good marker's skip target is itself good (good_all). *)
Theorem C02_join_rule_sound : forall env p c l r s,
  good_all env l -> good_all env r -> engine_of l = engine_of r ->
  c ⊆ columns l -> c ⊆ columns r -> cols_p p ⊆ columns l ∪ columns r ->
  append_binary_sel (BJoin p c) l r = Ok s ->
  good_all env s /\ sem_tree env s = sem_join c p (sem_tree env l) (sem_tree env r) /\
  columns s = columns l ∪ columns r /\ engine_of s = engine_of l.
Proof. exact engine_join_sound. Qed.

(* the same with any conformation function that is sound on well-formed trees whose markers are good *)
Theorem C02_join_rule_sound_with : forall env cf p c l r s,
  cf_ok env cf ->
  good_all env l -> good_all env r -> engine_of l = engine_of r ->
  c ⊆ columns l -> c ⊆ columns r -> cols_p p ⊆ columns l ∪ columns r ->
  append_binary_sel_with cf (BJoin p c) l r = Ok s ->
  good_all env s /\ sem_tree env s = sem_join c p (sem_tree env l) (sem_tree env r) /\
  columns s = columns l ∪ columns r /\ engine_of s = engine_of l.
Proof. exact append_join_sound_gen. Qed.

(* the join identity on either side: the rows of the other operand that satisfy the predicate *)
Theorem C02_join_with_identity : forall p (R : rows),
  sem_join ∅ p [∅] R = sem_sel p R /\ sem_join ∅ p R [∅] = sem_sel p R.
Proof. intros p R. split; [apply sem_join_identity_l|apply sem_join_identity_r]. Qed.

(* whole programs: every relation a single-engine SQL program of factory calls (leaves, all unary operations,
   __getitem__, chains, natural joins with a predicate — operands without columns included —, materializations) returns is conformed and denotes the
   specification of the program — the rows, in order, of direct evaluation. *)
Theorem C02_sql_program_denotes_its_specification : forall env e0, ekind_of e0 = KSql ->
  forall p t, sqlprog_ok env e0 p -> build_multi p = Ok t ->
  good_all env t /\ sem_tree env t = spec_mprog env p /\ columns t = mprog_cols p /\ engine_of t = e0.
Proof. exact build_sql_built. Qed.

Example C02_nonvacuous :
  let leaf := Leaf 1 (Eng KSql 0) (mkset [2; 4]%positive) 0 None in
  match select_of leaf with
  | Ok s1 => match append_unary_sel (Sort [(ERef 4, true)]) s1 with
             | Ok s2 => match append_unary_sel (Slice 1 (Some 3)) s2 with
                        | Ok s3 => has_sort (sel_slots s3) && has_slice (sel_slots s3)
                        | Err _ => false end
             | Err _ => false end
  | Err _ => false
  end = true.
Proof. vm_compute. reflexivity. Qed.
