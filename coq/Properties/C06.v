(* C06 — Static metadata (columns, row bounds, triviality flags) is truthful. *)
From DR Require Import Model.WF Proofs.SemLaws Proofs.Metadata.
Local Open Scope Z_scope.

(* every executed row has exactly the relation's columns as its keys — all node kinds, both engines' trees *)
Theorem C06_columns_truthful : forall env t,
  wf_tree t -> env_ok env t -> Forall (fun r : row => dom r = columns t) (sem_tree env t).
Proof. exact sem_tree_dom. Qed.

(* the row count (duplicates included) lies within [min_rows, max_rows]; the Slice bound formulas
   are the definitions generated from _slice.py *)
Theorem C06_row_bounds_truthful : forall env t,
  wf_tree t -> env_ok env t ->
  min_rows t <= Z.of_nat (length (sem_tree env t)) /\
  match max_rows t with Some m => Z.of_nat (length (sem_tree env t)) <= m | None => True end.
Proof. exact metadata_truthful. Qed.

(* hence the flags agree with the real content, which is what the short-cuts rely on *)
Theorem C06_max_rows_zero_means_empty : forall env t,
  wf_tree t -> env_ok env t -> max_rows t = Some 0 -> sem_tree env t = [].
Proof. exact max_rows_zero_empty. Qed.

Theorem C06_join_identity_flag_truthful : forall env t,
  wf_tree t -> env_ok env t -> is_join_identity t = true -> sem_tree env t = [∅].
Proof. exact join_identity_content. Qed.

(* joining with a join identity changes nothing (join elision, trivial predicate) *)
Theorem C06_join_identity_elision_sound : forall c (L : rows) cs,
  rows_dom cs L -> c = ∅ ->
  sem_join c (PLit true) L [∅] = L /\ sem_join c (PLit true) [∅] L = L.
Proof. exact join_identity_elision. Qed.
