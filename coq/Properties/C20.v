(* C20 — Ill-formed requests are rejected at the factory call with the documented error. *)
From DR Require Import Model.Reach Proofs.RejectLaws.
Local Open Scope Z_scope.

(* an operation's own checks run first: their error is the outcome of apply for EVERY combination
   of preferred_engine / backtrack / transfer / require_preferred_engine *)
Theorem C20_checks_precede_backtracking : forall r t op e,
  req_begin r t (o_pref op) = Err e -> apply_full r t op = Err e.
Proof. exact begin_error_is_apply_error. Qed.

Theorem C20_missing_column_rejected :
  (forall tag e t op, ~ (cols_e e ⊆ columns t) -> apply_full (RUn (Calc tag e)) t op = Err ColumnError) /\
  (forall p t op, as_trivial p <> Some true -> ~ (cols_p p ⊆ columns t) -> apply_full (RUn (Sel p)) t op = Err ColumnError) /\
  (forall ps t op, ~ (ps ⊆ columns t) -> apply_full (RUn (Proj ps)) t op = Err ColumnError) /\
  (forall ts t op e asc, In (e, asc) ts -> ~ (cols_e e ⊆ columns t) -> apply_full (RUn (Sort ts)) t op = Err ColumnError).
Proof.
  exact (conj calc_missing_column_rejected (conj selection_missing_column_rejected
        (conj projection_missing_column_rejected sort_missing_column_rejected))).
Qed.

Theorem C20_existing_tag_rejected : forall tag e t op,
  tag ∈ columns t -> apply_full (RUn (Calc tag e)) t op = Err ColumnError.
Proof. exact calc_existing_tag_rejected. Qed.

Theorem C20_bad_slice_rejected :
  (forall a b, (a < 0 \/ match b with Some e => e < a | None => False end) -> construct (Slice a b) = Err ValueError) /\
  (forall a b s t, s <> None -> s <> Some 1 -> getitem a b s t = Err TypeError).
Proof. exact (conj bad_slice_rejected stepped_slice_rejected). Qed.

Theorem C20_chain_mismatch_rejected :
  (forall l r, engine_of l <> engine_of r -> chain_apply_e l r = Err EngineError) /\
  (forall l r, engine_of l = engine_of r -> columns l <> columns r -> chain_apply_e l r = Err ColumnError).
Proof. exact (conj chain_engine_mismatch_rejected chain_column_mismatch_rejected). Qed.

Theorem C20_unsupported_expression_rejected :
  (forall o t, op_supported (ekind_of (engine_of t)) o = false -> finish_default o t = Err EngineError) /\
  (forall cf p c l r, is_join_identity l = false -> is_join_identity r = false -> engine_of l = engine_of r ->
      supp_p (ekind_of (engine_of l)) p = false -> join_finish cf p c l r = Err EngineError).
Proof. exact (conj unsupported_operation_rejected unsupported_join_predicate_rejected). Qed.

Theorem C20_join_predicate_missing_column_rejected : forall p f lhs t op,
  ~ (cols_p p ∖ columns f ⊆ columns t) ->
  exists e, apply_full (RJoin (JSpec p ∅ None) f lhs) t op = Err e /\ e = ColumnError.
Proof. exact join_predicate_missing_column_rejected. Qed.
