(* C03 — preferred-engine (backtracking) insertion never changes relation content. *)
From DR Require Import Model.Backtrack Proofs.SqlRules Proofs.BacktrackLaws Proofs.MultiIter Proofs.JoinCommute Proofs.JoinBacktrack Proofs.SemLaws Proofs.Mixed.
Local Open Scope Z_scope.

(* iteration.Engine.backtrack_unary — for every tree it can walk (unary operations in iteration
   engines, transfers, sources in either engine kind; SQL-engine sources conformed), every unary
   request that is valid at the root, every preferred engine:
   - if it reports the operation inserted (done), the returned tree denotes the operation applied at
     the root, with the root application's columns;
   - otherwise the returned tree is the original, or (a projection only partly inserted upstream) a
     projection of the original that keeps the requested columns;
   well-formedness, truthful leaves and the engine of the tree are preserved.
   The one excluded shape is finding F2 (a projection moved past a Deduplication; pinned by the suite). *)
Theorem C03_backtrack_sound : forall env t o pref t' done,
  wf_tree t -> env_ok env t -> spine_ok env t -> (o = Ident \/ op_wf o (columns t)) ->
  (is_proj o = true -> spine_no_dedup t) ->
  backtrack (RUn o) t pref = Ok (t', done) ->
  wf_tree t' /\ env_ok env t' /\ engine_of t' = engine_of t /\
  if done then sem_tree env t' = sem_op o (sem_tree env t) /\ columns t' = op_columns o (columns t)
  else columns t' ⊆ columns t /\ sem_tree env t' = sem_proj (columns t') (sem_tree env t) /\
       (columns t' = columns t \/ exists cs, o = Proj cs /\ cs ⊆ columns t').
Proof. exact backtrack_sound. Qed.

(* UnaryOperation.apply with any combination of preferred_engine / backtrack / transfer /
   require_preferred_engine: whenever it returns a relation, that relation has the rows (as a list)
   and the columns of the operation applied at the root, and lives in the original engine or — only
   with transfer=True — in the preferred one; with backtrack=False and transfer=True it lives in the
   preferred engine.  (Scope of the transfer step: see transfer_in_scope.) *)
Theorem C03_apply_with_options_sound : forall env o t opts t1,
  wf_tree t -> env_ok env t -> spine_ok env t -> tree_ok env t -> op_wf o (columns t) ->
  (is_proj o = true -> spine_no_dedup t) -> transfer_in_scope env t opts ->
  apply_full (RUn o) t opts = Ok t1 ->
  sem_tree env t1 = sem_op o (sem_tree env t) /\ columns t1 = op_columns o (columns t) /\ wf_tree t1 /\ env_ok env t1 /\
  (engine_of t1 = engine_of t \/ (o_transfer opts = true /\ o_pref opts = Some (engine_of t1))) /\
  (o_backtrack opts = false -> o_transfer opts = true -> begin_apply o (columns t) <> Ok Ident ->
   forall pref, o_pref opts = Some pref -> engine_of t1 = pref).
Proof. exact apply_full_sound. Qed.

(* require_preferred_engine without transfer: if the operation could not be inserted upstream the
   call raises EngineError instead of adding the operation outside the preferred engine. *)
Theorem C03_result_engine : forall bt r t o r' pref,
  req_begin r t (o_pref o) = Ok (r', pref) -> engine_eqb pref (engine_of t) = false ->
  o_require o = true -> o_transfer o = false ->
  (o_backtrack o = false \/ exists res, bt r' t pref = Ok (res, false)) ->
  apply_with bt r t o = Err EngineError.
Proof. exact require_refuses. Qed.

(* whole programs over SEVERAL iteration engines: leaves, all unary operations with ANY combination of
   preferred_engine / backtrack / transfer / require_preferred_engine (projections: without a preferred engine),
   __getitem__, chains, materializations, transfers between the engines.  Every tree such a program builds denotes
   the specification of the program — the rows, in order, of applying every call at the root — is well-formed,
   has the specified columns and stays within iteration engines. *)
Theorem C03_iteration_programs_with_options_denote_their_specification : forall env p t,
  iterprog_ok env p -> build_multi p = Ok t ->
  sem_tree env t = spec_mprog env p /\ wf_tree t /\ env_ok env t /\ columns t = mprog_cols p /\ all_iter t.
Proof. exact build_multi_iter_built. Qed.

(* JOINS as the moved operation (Relation.join with backtracking: the fixed right-hand operand lives in the engine a
   transfer upstream of the target left).  backtrack_unary with a PartialJoin either reports the join inserted — the
   returned tree then denotes the join of the target with the operand, applied at the root, with the columns of both —
   or hands back the very same tree.  `spine_cons` is the documented ColumnTag contract (rows that match on the common
   columns agree on every other column they share) at the levels the join may be moved to. *)
Theorem C03_join_backtrack_sound : forall env j f t t' done,
  wf_tree f -> env_ok env f -> tree_ok env f -> j_max j = Some (j_min j) -> j_min j ⊆ columns f -> columns f <> ∅ ->
  wf_tree t -> env_ok env t -> spine_ok env t ->
  pjoin_required j f ⊆ columns t -> cols_p (j_pred j) ⊆ columns t ∪ columns f -> columns t <> ∅ ->
  spine_cons env (j_min j) (sem_tree env f) t ->
  backtrack (RJoin j f false) t (engine_of f) = Ok (t', done) ->
  wf_tree t' /\ env_ok env t' /\ engine_of t' = engine_of t /\
  if done then sem_tree env t' = sem_join (j_min j) (j_pred j) (sem_tree env t) (sem_tree env f) /\
               columns t' = columns t ∪ columns f
  else t' = t.
Proof.
  intros env j f t t' done Wf Ef Of Hmax Hcf Nf. exact (backtrack_join_sound env j f Wf Ef Of Hmax Hcf Nf t t' done).
Qed.

(* ... and the whole call lhs.join(rhs, predicate, backtrack=, transfer=): whichever route is taken (same engine,
   join inserted upstream, target transferred to the operand's engine) the result denotes the natural join on the
   shared key columns with the predicate, has the columns of both, is well-formed and lives in the target's engine or
   (after a transfer) in the operand's; without a transfer, operands in different engines are refused. *)
Theorem C03_join_with_options_sound : forall env p f t jb jt t1,
  wf_tree t -> env_ok env t -> spine_ok env t -> tree_ok env t ->
  wf_tree f -> env_ok env f -> tree_ok env f -> columns t <> ∅ -> columns f <> ∅ ->
  spine_cons env (natural_common (columns t) (columns f)) (sem_tree env f) t ->
  (engine_of f = engine_of t \/ jt = true \/ ekind_of (engine_of t) = KIter) ->
  (jt = true -> ekind_of (engine_of f) = KSql ->
     (jb = false \/ ekind_of (engine_of t) = KSql) /\ forall x, xfer_simplify (engine_of f) t = Some x -> good_all env x) ->
  apply_full (RJoin (JSpec p ∅ None) f false) t (Opts None jb jt false) = Ok t1 ->
  sem_tree env t1 = sem_join (natural_common (columns t) (columns f)) p (sem_tree env t) (sem_tree env f) /\
  columns t1 = columns t ∪ columns f /\ wf_tree t1 /\ env_ok env t1 /\
  (engine_of t1 = engine_of t \/ (jt = true /\ engine_of t1 = engine_of f)).
Proof. exact apply_full_join_sound. Qed.

(* Whole programs over engines of BOTH kinds — SQL engines and iteration engines, any number of each: leaves,
   every unary operation with any preferred engine and any backtrack / transfer / require combination, __getitem__,
   chains, joins, materializations, explicit transfers.  Every tree such a program builds denotes the specification of
   the program (the rows, in order, of applying every call at the root), is well-formed, has the specified columns, and
   has the shape (`shape_ok`: conformed SELECT markers in SQL engines, plain nodes in iteration engines) that
   C03_apply_with_options_sound, C03_join_with_options_sound and the transfer lemma need of their inputs — so the
   call-by-call theorems compose along any program.  The side conditions (`mixprog_ok`) speak about the relation each
   call is applied to: a projection with a preferred engine meets no deduplication on the way (finding F2) and asks for
   no transfer; a transfer (explicit or as an option) does not undo an earlier one, and with an SQL destination is not
   combined with backtracking through an iteration tree; join operands are in one engine (nothing else is asked of them:
   operands without columns, the join identity among them, are in scope), or they have columns, the target is in an
   iteration engine, no transfer is asked for and the ColumnTag contract holds where the join may be moved. *)
Theorem C03_programs_over_both_engine_kinds_denote_their_specification : forall env p t,
  mixprog_ok env p -> build_multi p = Ok t ->
  sem_tree env t = spec_mprog env p /\ wf_tree t /\ env_ok env t /\ columns t = mprog_cols p /\ shape_ok env t.
Proof. exact build_multi_mixed_built. Qed.

(* non-vacuity: a table in an SQL engine, transferred to an iteration engine, a calculation there, a selection
   preferring the SQL engine (inserted below the transfer by backtracking), then a sort asking to be transferred into
   the SQL engine: the program is in scope *)
Example C03_mixed_program_in_scope :
  let S := Eng KSql 0 in let I := Eng KIter 0 in
  let a := 2%positive in let b := 4%positive in let c := 6%positive in
  let env := fun n : positive => if Pos.eqb n 1 then [mkrow [(a, 1); (b, 5)]; mkrow [(a, 0); (b, 7)]] else [] in
  let p1 := MpUn (Sel (PCmp CGt (ERef a) (ELit 0))) (Opts (Some S) true false false)
             (MpUn (Calc c (EAdd (ERef a) (ELit 1))) default_opts (MpXfer I (MpLeaf 1 S (mkset [a; b]) 0 None))) in
  let p := MpUn (Sort [(ERef b, true)]) (Opts (Some S) false true false) p1 in
  mixprog_ok env p /\
  match build_multi p1 with
  | Ok (Un (Calc _ _) (Xfer _ (SelM _ (Un (Sel _) (Leaf _ _ _ _ _)) _))) => True
  | _ => False
  end /\
  match build_multi p with Ok (SelM _ _ _) => True | _ => False end.
Proof.
  cbv zeta. split; [|split].
  - cbn [mixprog_ok]. repeat split.
    + apply (bool_decide_eq_true_1 _). vm_compute. reflexivity.
    + apply rows_domb_spec. vm_compute. reflexivity.
    + apply Z.le_refl.
    + vm_compute. discriminate.
    + intros t0 Hb. vm_compute in Hb. injection Hb as <-. reflexivity.
    + intros t0 Hb. unfold unary_scope. cbn [o_pref o_transfer is_proj]. discriminate.
    + match goal with H : build_multi _ = Ok _ |- _ => vm_compute in H; injection H as <- end. reflexivity.
    + intros _. left. reflexivity.
  - vm_compute. exact I.
  - vm_compute. exact I.
Qed.

(* non-vacuity of the cross-engine join scope: a table in an SQL engine, transferred to an iteration engine and filtered
   there, then joined with another table of the SQL engine: the join is inserted below the transfer, inside the SQL engine *)
Example C03_mixed_join_in_scope :
  let S := Eng KSql 0 in let I := Eng KIter 0 in
  let a := 2%positive in let b := 4%positive in let d := 6%positive in
  let env := fun n : positive => if Pos.eqb n 1 then [mkrow [(a, 1); (b, 5)]; mkrow [(a, 0); (b, 7)]]
                                 else if Pos.eqb n 2 then [mkrow [(a, 1); (d, 9)]] else [] in
  let p := MpJoin None true false
             (MpUn (Sel (PCmp CGe (ERef b) (ELit 6))) default_opts (MpXfer I (MpLeaf 1 S (mkset [a; b]) 0 None)))
             (MpLeaf 2 S (mkset [a; d]) 0 None) in
  mixprog_ok env p /\
  match build_multi p with
  | Ok (Un (Sel _) (Xfer _ (SelM _ (Bin (Join _ _) _ _) _))) => True
  | _ => False
  end.
Proof.
  cbv zeta. split.
  - cbn [mixprog_ok]. repeat split.
    + apply (bool_decide_eq_true_1 _). vm_compute. reflexivity.
    + apply rows_domb_spec. vm_compute. reflexivity.
    + apply Z.le_refl.
    + vm_compute. discriminate.
    + intros t0 Hb. vm_compute in Hb. injection Hb as <-. reflexivity.
    + apply rows_domb_spec. vm_compute. reflexivity.
    + apply Z.le_refl.
    + vm_compute. discriminate.
    + intros tl tr Hl Hr. vm_compute in Hl, Hr. injection Hl as <-. injection Hr as <-.
      right. split; [reflexivity|]. split; [reflexivity|].
      split; [apply (bool_decide_eq_true_1 _); vm_compute; reflexivity|].
      split; [apply (bool_decide_eq_true_1 _); vm_compute; reflexivity|].
      cbn [spine_cons]. repeat split; apply consistentb_spec; vm_compute; reflexivity.
  - vm_compute. exact I.
Qed.

(* Relation.join of two relations that live in ONE engine (iteration or SQL), with any backtrack/transfer options: the
   result denotes the natural join under the predicate.  No side condition beyond well-formedness: operands without
   columns are covered, the join identity among them (the other operand is handed back, under the predicate as a
   selection unless it is trivially true). *)
Theorem C03_join_in_one_engine_sound : forall env p f t jb jt t1,
  wf_tree t -> env_ok env t -> tree_ok env t -> wf_tree f -> env_ok env f -> tree_ok env f ->
  engine_of f = engine_of t ->
  apply_full (RJoin (JSpec p ∅ None) f false) t (Opts None jb jt false) = Ok t1 ->
  sem_tree env t1 = sem_join (natural_common (columns t) (columns f)) p (sem_tree env t) (sem_tree env f) /\
  columns t1 = columns t ∪ columns f /\ wf_tree t1 /\ env_ok env t1 /\ tree_ok env t1 /\ engine_of t1 = engine_of t.
Proof. exact apply_full_join_same_engine. Qed.

(* joins inside one engine need nothing of their operands: a filtered SQL table joined, under a predicate, with the
   engine's join identity (one row, no columns) is in scope; the library hands back the table under both selections *)
Example C03_identity_join_in_scope :
  let S := Eng KSql 0 in
  let a := 2%positive in let b := 4%positive in
  let env := fun n : positive => if Pos.eqb n 1 then [mkrow [(a, 1); (b, 5)]; mkrow [(a, 0); (b, 7)]]
                                 else if Pos.eqb n 2 then [∅] else [] in
  let p := MpJoin (Some (PCmp CGt (ERef a) (ELit 0))) true false
             (MpUn (Sel (PCmp CGe (ERef b) (ELit 5))) default_opts (MpLeaf 1 S (mkset [a; b]) 0 None))
             (MpLeaf 2 S ∅ 1 (Some 1%Z)) in
  mixprog_ok env p /\
  match build_multi p with Ok (SelM _ _ _ as t) => sem_tree env t = [mkrow [(a, 1); (b, 5)]] | _ => False end.
Proof.
  cbv zeta. split.
  - cbn [mixprog_ok]. repeat split.
    all: try (apply (bool_decide_eq_true_1 _); vm_compute; reflexivity).
    all: try (apply rows_domb_spec; vm_compute; reflexivity).
    all: try (vm_compute; discriminate).
    all: try (vm_compute; reflexivity).
    all: try (intros t0 Hb; vm_compute in Hb; injection Hb as <-; reflexivity).
    all: try (intros tl tr Hl Hr; vm_compute in Hl, Hr; injection Hl as <-; injection Hr as <-; left; reflexivity).
  - vm_compute. reflexivity.
Qed.

(* non-vacuity for joins: a join with an operand in engine A is inserted below the transfer that left A, past a
   selection and a projection of the target *)
Example C03_join_nonvacuous :
  let A := Eng KIter 0 in let B := Eng KIter 1 in
  let a := 2%positive in let c := 4%positive in let d := 6%positive in
  let leaf := Leaf 1 A (mkset [a; c]) 0 None in
  let f := Leaf 2 A (mkset [a; d]) 0 None in
  let t := Un (Proj (mkset [a])) (Un (Sel (PCmp CGt (ERef c) (ELit 0))) (Xfer B leaf)) in
  result_eqb tree_eqb
    (apply_full (RJoin (JSpec (PLit true) ∅ None) f false) t (Opts None true false false))
    (Ok (Un (Proj (mkset [a; d])) (Un (Sel (PCmp CGt (ERef c) (ELit 0))) (Xfer B (Bin (Join (PLit true) (mkset [a])) leaf f))))) = true.
Proof. vm_compute. reflexivity. Qed.

(* non-vacuity: a projection that can only partly be inserted upstream of a selection, across a transfer *)
Example C03_nonvacuous :
  let A := Eng KIter 0 in let B := Eng KIter 1 in
  let a := 2%positive in let c := 4%positive in
  let leaf := Leaf 1 A (mkset [a; c; 6%positive]) 0 None in
  let t := Un (Sel (PCmp CGt (ERef c) (ELit 0))) (Xfer B leaf) in
  result_eqb (fun x y => tree_eqb (fst x) (fst y) && Bool.eqb (snd x) (snd y))
    (backtrack (RUn (Proj (mkset [a]))) t A)
    (Ok (Un (Sel (PCmp CGt (ERef c) (ELit 0))) (Xfer B (Un (Proj (mkset [a; c])) leaf)), false)) = true
  /\ result_eqb tree_eqb
    (apply_full (RUn (Proj (mkset [a]))) t (Opts (Some A) true false false))
    (Ok (Un (Proj (mkset [a])) (Un (Sel (PCmp CGt (ERef c) (ELit 0))) (Xfer B (Un (Proj (mkset [a; c])) leaf))))) = true.
Proof. vm_compute. auto. Qed.
