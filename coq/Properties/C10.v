(* C10 — Payloads are write-once and materializations are computed at most once. *)
From DR Require Import Model.Store Proofs.StoreLaws.

(* over any history of attach_payload / execute events on any trees sharing materialization
   nodes: a payload, once present, is never replaced or cleared *)
Theorem C10_write_once : forall env h k s n p,
  xs_store s !! n = Some p -> xs_store (snd (run_hist env k h s)) !! n = Some p.
Proof. exact write_once. Qed.

(* ... and every materialization's upstream tree is evaluated at most once *)
Theorem C10_evaluated_at_most_once : forall env h, NoDup (xs_evals (snd (run_hist env 0 h (XS ∅ [])))).
Proof. exact evaluated_at_most_once. Qed.

Theorem C10_cached_rows_returned : forall env k n t s p,
  bool_decide (max_rows (Mat n t) = Some 0%Z) = false -> is_join_identity (Mat n t) = false ->
  xs_store s !! n = Some p -> exec_s env k (Mat n t) s = (Ok (snd p), s).
Proof. exact cached_rows_returned. Qed.

Theorem C10_attach_second_rejected : forall n t c k s p,
  xs_store s !! n = Some p -> attach (Mat n t) c k s = (Raised TypeError, s).
Proof. exact attach_second_rejected. Qed.

Theorem C10_attach_non_marker_rejected : forall t c k s,
  (match t with Mat _ _ | Xfer _ _ | SelM _ _ _ => False | _ => True end) -> attach t c k s = (Raised TypeError, s).
Proof. exact attach_non_marker_rejected. Qed.
