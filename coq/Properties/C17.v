(* C17 — SQL conform is idempotent, content-preserving, keeps SELECT markers coherent. *)
From DR Require Import Model.Reach Proofs.SqlStruct Proofs.SqlRules Proofs.SqlBinary Proofs.SqlJoinId.

(* whatever conform returns is a SELECT marker, and conforming it again returns it unchanged *)
Theorem C17_conform_returns_select : forall t c, conform t = Ok c -> is_select c = true.
Proof. exact conform_is_select. Qed.

Theorem C17_conform_idempotent : forall t c, conform t = Ok c -> conform c = Ok c.
Proof. exact conform_idempotent. Qed.

(* every rule of the engine returns a SELECT marker when given conformed operands *)
Theorem C17_append_unary_returns_select : forall s o s', append_unary_sel o s = Ok s' -> is_select s' = true.
Proof. exact append_unary_sel_is_select. Qed.

Theorem C17_append_binary_returns_select : forall b l r s,
  is_select l = true -> is_select r = true -> append_binary_sel b l r = Ok s -> is_select s = true.
Proof. exact append_binary_sel_is_select. Qed.

(* conforming a raw tree (assembled without the engine's help: leaves, transfers and materializations at the bottom,
   any unary operations, chains, joins — also of operands without columns, where the join-identity elision re-enters
   conform —, already conformed subtrees) returns a conformed relation with the same rows — as a list —, columns and
   engine; all markers in it are coherent (good_all: marker, skip target and target chain agree and denote the
   recorded slots, and so does every marker inside a skip target).  The tree has to be well-formed over truthful
   leaves, and the markers it already contains have to be good (chains_good). *)
Theorem C17_conform_preserves_rows : forall env t s,
  wf_tree t -> env_ok env t -> chains_good env t -> conform t = Ok s ->
  good_all env s /\ sem_tree env s = sem_tree env t /\ columns s = columns t /\ engine_of s = engine_of t.
Proof. exact conform_sound_gen. Qed.

(* the earlier, syntactic form of the hypothesis (joins of operands that have columns) *)
Theorem C17_conform_preserves_rows_raw : forall env t s,
  raw_ok env t -> conform t = Ok s ->
  good_all env s /\ sem_tree env s = sem_tree env t /\ columns s = columns t /\ engine_of s = engine_of t.
Proof. exact conform_sound. Qed.

(* non-vacuity of the general form: a join with the join identity under a predicate, conformed from a raw tree *)
Example C17_identity_join_in_scope :
  let leaf := Leaf 1 (Eng KSql 0) (mkset [2; 4]%positive) 0 None in
  let ident := Leaf 2 (Eng KSql 0) ∅ 1 (Some 1%Z) in
  let t := Bin (Join (PCmp CLt (ERef 2) (ELit 3)) ∅) (Un (Proj (mkset [2%positive])) leaf) ident in
  is_join_identity ident = true /\ match conform t with Ok s => is_select s = true | Err _ => False end.
Proof. vm_compute. split; reflexivity. Qed.

(* the marker is flagged compound precisely when its skip target is a chain *)
Theorem C17_compound_iff_chain : forall sl k t, sel_compound (SelM sl k t) = is_chain k.
Proof. exact compound_iff_chain. Qed.

(* non-vacuity, and the shape of finding F13: the slots are re-applied through _finish_apply, whose
   simplification can swallow the top of skip_to *)
Example C17_incoherent_marker_witness :
  let leaf := Leaf 1 (Eng KSql 0) (mkset [2; 4]%positive) 0 None in
  match apply_skip (Slots [] (Some (mkset [2%positive])) false (0%Z, None)) (Un (Calc 6 (ENeg (ERef 2))) leaf) with
  | Ok (SelM sl k t) => coherent_select sl k t = false
  | _ => False
  end.
Proof. vm_compute. reflexivity. Qed.
