(* C18 — Iteration engine is lazy and single-pass where documented. *)
From DR Require Import Model.Lazy Proofs.LazyLaws Proofs.IterExecLaws.

(* trees made only of calculation, projection, selection, slice and chain over leaves:
   execute() iterates no leaf payload; each full iteration of the result starts at most one
   iteration of each leaf occurrence *)
Theorem C18_lazy_operations_defer : forall lk t, lazy_tree t = true ->
  c_exec (cost_of lk t) = [] /\ submset (c_iter (cost_of lk t)) (leaf_occ t).
Proof. exact lazy_ops_defer. Qed.

(* every tree: what execute() consumes plus what one full iteration of its result consumes touches
   each leaf occurrence at most once (sort, deduplication, materialization consume their input once) *)
Theorem C18_single_pass : forall lk t,
  submset (c_exec (cost_of lk t) ++ c_iter (cost_of lk t)) (leaf_occ t).
Proof. exact single_pass. Qed.

(* ... and never again afterwards: the result of an eager operation iterates nothing upstream *)
Theorem C18_eager_results_do_not_reiterate : forall lk t o,
  (o = Dedup \/ exists ts, o = Sort ts) -> bool_decide (max_rows (Un o t) = Some 0%Z) = false ->
  is_join_identity (Un o t) = false -> (forall key, c_kind (cost_of lk t) <> KMap key) ->
  c_iter (cost_of lk (Un o t)) = [].
Proof. exact eager_results_do_not_reiterate. Qed.

(* results can be iterated repeatedly with identical rows: the content of the returned iterable is
   a function of the tree and the leaf payloads (C01's theorem gives that content) *)
Theorem C18_reiteration_yields_identical_rows : forall env t,
  wf_tree t -> env_ok env t -> iter_ok t -> kd_tree env t -> iter_exec env t = Ok (sem_tree env t).
Proof. exact iter_exec_sound. Qed.
