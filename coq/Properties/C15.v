(* C15 — Transfer/materialize simplifications keep content; locked trees are inviolate. *)
From DR Require Import Model.Reach Proofs.LockedLaws.

(* Transfer.simplify only ever returns a subtree reached through transparent markers, so the
   relation handed back by transferred_to has the original content *)
Theorem C15_transfer_roundtrip_keeps_content : forall env d t t1,
  xfer_simplify d t = Some t1 -> sem_tree env t1 = sem_tree env t /\ columns t1 = columns t.
Proof. exact xfer_simplify_content. Qed.

(* materializing a leaf or an already materialized relation adds no new materialization *)
Theorem C15_materialize_adds_none_over_locked : forall n t, is_locked t = true -> materialize_generic n t = t.
Proof. exact materialize_locked_noop. Qed.

(* backtracking insertion stops at a locked node: nothing is inserted upstream of it *)
Theorem C15_backtracking_never_enters_locked : forall r t pref,
  is_locked t = true -> backtrack r t pref = Ok (t, false).
Proof. exact backtrack_locked. Qed.

(* _finish_apply over a locked target keeps that target as the new node's operand, unchanged *)
Theorem C15_finish_apply_keeps_target_subtree : forall o t t',
  is_locked t = true -> finish_apply o t = Ok t' -> t' = t \/ t' = Un o t.
Proof. exact finish_apply_locked. Qed.
