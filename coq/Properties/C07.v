(* C07 — the Processor evaluates multi-engine trees faithfully and only annotates payloads. *)
From DR Require Import Model.Proc Proofs.ProcLaws.
Local Open Scope Z_scope.

(* For every well-formed multi-engine tree `t` inside a tree `root` whose materialization names
   identify its materialization nodes, over truthful leaves, started in ANY state whose stored
   payloads are right (in particular the state any number of earlier process() calls left):
   - the rows of the processed relation are the rows of direct evaluation of `t`;
   - every payload stored afterwards is the content of its materialization;
   - payloads present before are kept, new ones belong to materializations of `t` only
     (transfers, operations and leaves of the input never gain one: the store has no slot for them);
   - hooks are only appended, each with the content of its node, and never for a node that is
     statically empty (max_rows = 0) or a join identity. *)
Theorem C07_process_faithful : forall env root, names_unique root ->
  forall t mat_as s,
  wf_tree t -> env_ok env t -> incl (mats t) (mats root) -> store_inv env root (ps_store s) ->
  let '(r, _, s') := process env t mat_as s in
  r = sem_tree env t /\ store_inv env root (ps_store s') /\
  (forall n p, ps_store s !! n = Some p -> ps_store s' !! n = Some p) /\
  (forall n, is_Some (ps_store s' !! n) -> is_Some (ps_store s !! n) \/ In n (mat_names t)) /\
  (exists new, ps_log s' = ps_log s ++ new /\ Forall (hook_fine env) new).
Proof. exact process_sound. Qed.

(* any number of repeated process() calls on the same tree: each returns the rows of direct evaluation *)
Theorem C07_repeated_process_faithful : forall env t, names_unique t -> wf_tree t -> env_ok env t ->
  forall k s, store_inv env t (ps_store s) ->
  Forall (fun r => r = sem_tree env t) (fst (process_many env t k s)).
Proof. exact process_many_sound. Qed.

Example C07_nonvacuous :
  let l1 := Leaf 1 (Eng KSql 0) (mkset [2%positive]) 0 None in
  let t := Mat 7 (Xfer (Eng KIter 0) (SelM (Slots [] None false (0, None)) l1 l1)) in
  let env := mkenv [(1%positive, [{[ 2%positive := 5 ]}])] in
  let '(r, _, s) := process env t None (PS ∅ []) in
  r = [{[ 2%positive := 5 ]}] /\ length (ps_log s) = 1%nat /\ ps_store s !! 7%positive = Some r /\
  ps_log (snd (process env t None (PS (ps_store s) []))) = [].
Proof. vm_compute. auto. Qed.
