(* Vocabulary of the static tables generated for C09. *)
From Coq Require Export String List Bool.
Import ListNotations.

Inductive tkind := TAtom | TTuple | TFrozenset | TSequence | TMutable | TUnknown.
Record dfield := DField { df_name : string; df_compare : bool; df_kind : tkind }.
Record dclass := DClass {
  dc_name : string; dc_frozen : bool; dc_eq : bool; dc_unsafe_hash : bool; dc_explicit_hash : bool;
  dc_fields : list dfield; dc_bases : list string }.

Inductive prov :=
| PFresh | PCopy | PFreshAttr | PParam | PImmutable
| PSelfAttr (attr : string)
| PSetattr (who attr : string)
| PUnknown (why : string).
Record wsite := WSite { ws_where : string; ws_kind : string; ws_prov : prov }.
