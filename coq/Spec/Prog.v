(* Programs = sequences/trees of public factory calls, and their specification:
   direct evaluation of the applied operation sequence.  Depends on Spec only. *)
From DR Require Export Spec.Sem.
Local Open Scope Z_scope.

Definition lenv := positive -> rows.
Definition mkenv (l : list (positive * rows)) : lenv :=
  fun n => match List.find (fun kv => Pos.eqb (fst kv) n) l with Some kv => snd kv | None => [] end.

Inductive prog :=
| PLeaf (name : positive) (eng : engine) (cols : gset tag) (mn : Z) (mx : option Z)
| PUn (o : uop) (p : prog)                       (* with_calculated_column / with_only_columns / ... *)
| PItem (start stop step : option Z) (p : prog)  (* relation[start:stop:step] *)
| PChain (l r : prog)
| PMat (name : positive) (p : prog)
| PXfer (dest : engine) (p : prog).

(* specification: direct evaluation of the applied operation sequence *)
Fixpoint spec_prog (env : lenv) (p : prog) : rows :=
  match p with
  | PLeaf n _ _ _ _ => env n
  | PUn o p' => sem_op o (spec_prog env p')
  | PItem a b _ p' => sem_slice (default 0 a) b (spec_prog env p')
  | PChain l r => spec_prog env l ++ spec_prog env r
  | PMat _ p' | PXfer _ p' => spec_prog env p'
  end.

(* key-determinedness (documented ColumnTag.is_key contract): wherever the program
   deduplicates, rows that agree on the key columns are equal *)
Definition key_agree (r1 r2 : row) : bool :=
  bool_decide (filter (fun kv => is_key kv.1 = true) r1 = filter (fun kv => is_key kv.1 = true) r2).
Definition key_determined (l : rows) : bool :=
  forallb (fun r1 => forallb (fun r2 => implb (key_agree r1 r2) (row_eqb r1 r2)) l) l.
Fixpoint kd_prog (env : lenv) (p : prog) : bool :=
  match p with
  | PLeaf _ _ _ _ _ => true
  | PUn Dedup p' => kd_prog env p' && key_determined (spec_prog env p')
  | PUn _ p' | PItem _ _ _ p' | PMat _ p' | PXfer _ p' => kd_prog env p'
  | PChain l r => kd_prog env l && kd_prog env r
  end.
