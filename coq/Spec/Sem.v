(* Specification semantics: "direct evaluation of the applied operation sequence".
   Every operation denotes a total function on lists of rows. *)
From DR Require Export Spec.Expr.
From DR Require Export Lib.ListOps Lib.StableSort Lib.SortCompose Lib.FirstOcc.
Local Open Scope Z_scope.

(* ---- unary operations, as the library's dataclasses carry them ---- *)
Inductive uop :=
| Calc (t : tag) (e : expr)
| Dedup
| Proj (cs : gset tag)
| Sel (p : pred)
| Slice (start : Z) (stop : option Z)
| Sort (terms : list (expr * bool))
| Ident.

Definition calc1 (t : tag) (e : expr) (r : row) : row := <[t := ev e r]> r.
Definition sem_calc (t : tag) (e : expr) (l : rows) : rows := map (calc1 t e) l.
Definition sem_proj (cs : gset tag) (l : rows) : rows := map (restrict cs) l.
Definition sem_sel (p : pred) (l : rows) : rows := List.filter (holds p) l.
Definition sem_dedup (l : rows) : rows := first_occ row_eqb l.

Definition sem_slice (start : Z) (stop : option Z) (l : rows) : rows :=
  let l' := skipn (Z.to_nat start) l in
  match stop with
  | None => l'
  | Some e => firstn (Z.to_nat (e - start)) l'
  end.

(* lexicographic, per-term-directed "less or equal" on rows *)
Fixpoint leb_terms (ts : list (expr * bool)) (r1 r2 : row) : bool :=
  match ts with
  | [] => true
  | (e, asc) :: ts' =>
      let a := ev e r1 in let b := ev e r2 in
      if a =? b then leb_terms ts' r1 r2
      else if asc then a <? b else b <? a
  end.
Definition sem_sort (ts : list (expr * bool)) (l : rows) : rows := isort (leb_terms ts) l.

Definition sem_op (o : uop) (l : rows) : rows :=
  match o with
  | Calc t e => sem_calc t e l
  | Dedup => sem_dedup l
  | Proj cs => sem_proj cs l
  | Sel p => sem_sel p l
  | Slice a b => sem_slice a b l
  | Sort ts => sem_sort ts l
  | Ident => l
  end.

(* ---- binary operations ---- *)
Definition sem_chain (l1 l2 : rows) : rows := l1 ++ l2.

(* {**lhs, **rhs}: the right operand wins on shared columns *)
Definition merge_rows (l r : row) : row := r ∪ l.
Definition agree_on (cs : gset tag) (l r : row) : bool :=
  bool_decide (restrict cs l = restrict cs r).
Definition sem_join (common : gset tag) (p : pred) (L R : rows) : rows :=
  flat_map (fun l => omap (fun r =>
     if agree_on common l r && holds p (merge_rows l r) then Some (merge_rows l r) else None) R) L.

(* columns of the result *)
Definition op_columns (o : uop) (cs : gset tag) : gset tag :=
  match o with
  | Calc t _ => cs ∪ {[t]}
  | Proj ps => ps
  | _ => cs
  end.

Definition op_required (o : uop) : gset tag :=
  match o with
  | Calc _ e => cols_e e
  | Proj ps => ps
  | Sel p => cols_p p
  | Sort ts => (fix go l := match l with [] => ∅ | (e, _) :: l' => cols_e e ∪ go l' end) ts
  | _ => ∅
  end.

(* bag equality of row lists, as a boolean (for the harness) *)
Fixpoint remove1 (r : row) (l : rows) : option rows :=
  match l with
  | [] => None
  | x :: l' => if row_eqb r x then Some l' else option_map (cons x) (remove1 r l')
  end.
Fixpoint bag_eqb (l1 l2 : rows) : bool :=
  match l1 with
  | [] => match l2 with [] => true | _ => false end
  | r :: l1' => match remove1 r l2 with Some l2' => bag_eqb l1' l2' | None => false end
  end.
Definition rows_eqb (l1 l2 : rows) : bool := bool_decide (l1 = l2).
