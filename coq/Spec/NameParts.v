(* Vocabulary for the generated description of GenericConcreteEngine.get_relation_name. *)
From Coq Require Export String List.
Inductive npart := NPrefix | NLit (s : string) | NCounter (width : nat) | NUuidHex.
Inductive nstep := SBuildName | SIncrCounter | SReturn.
