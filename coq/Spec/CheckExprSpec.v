(* Specification-only checker for C12 (no dependency on Gen/ or Model/). *)
From DR Require Export Spec.Expr.
Local Open Scope N_scope.
Record epred_scase := EPS { eps_pred : pred; eps_rows : list row; eps_iter : list (option bool); eps_sql : list (option bool) }.
Definition check_epred_spec (c : epred_scase) : N :=
  let p := eps_pred c in
  if forallb (fun rv => bool_decide (evalp p (fst rv) = snd rv)) (combine (eps_rows c) (eps_iter c))
     && forallb (fun rv => bool_decide (evalp p (fst rv) = snd rv)) (combine (eps_rows c) (eps_sql c))
     && Nat.eqb (length (eps_rows c)) (length (eps_iter c)) && Nat.eqb (length (eps_rows c)) (length (eps_sql c))
  then 0 else 4.
