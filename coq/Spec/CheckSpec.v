(* Specification-only checker (independent of Gen/ and Model/): used when the model no longer
   builds, to search for a concrete failing input of the implementation against the spec. *)
From DR Require Export Spec.Prog.
Local Open Scope N_scope.

Record spec_case := SCase {
  sc_prog : prog;
  sc_env : list (positive * rows);
  sc_rows : option rows }.    (* executed rows, None when the library raised *)

Definition check_spec (c : spec_case) : N :=
  let env := mkenv (sc_env c) in
  match sc_rows c with
  | None => 0
  | Some l => if negb (kd_prog env (sc_prog c)) then 1000
              else if rows_eqb (spec_prog env (sc_prog c)) l then 0 else 4
  end.
