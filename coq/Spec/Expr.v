(* Column expressions and predicates over the portable operator set, with their
   direct ("Python") evaluation.  None = a referenced column is missing (KeyError). *)
From DR Require Export Spec.Base.
Local Open Scope Z_scope.

Inductive expr :=
| ERef (t : tag)
| ELit (z : Z)
| ENeg (e : expr)
| EAdd (a b : expr)
| ESub (a b : expr)
| EMul (a b : expr)
| ESupp (it sql : bool) (e : expr).   (* identity function restricted to engine kinds *)

Inductive cmp := CEq | CNe | CLt | CLe | CGt | CGe.

Inductive container :=
| CRange (start stop step : Z)
| CSeq (items : list expr).

Inductive pred :=
| PLit (b : bool)
| PRef (t : tag)
| PCmp (c : cmp) (a b : expr)
| PNot (p : pred)
| PAnd (ps : list pred)
| POr (ps : list pred)
| PIn (e : expr) (c : container).

Fixpoint eval (e : expr) (r : row) : option Z :=
  match e with
  | ERef t => r !! t
  | ELit z => Some z
  | ENeg a => x ← eval a r; Some (- x)
  | EAdd a b => x ← eval a r; y ← eval b r; Some (x + y)
  | ESub a b => x ← eval a r; y ← eval b r; Some (x - y)
  | EMul a b => x ← eval a r; y ← eval b r; Some (x * y)
  | ESupp _ _ a => eval a r
  end.

Fixpoint cols_e (e : expr) : gset tag :=
  match e with
  | ERef t => {[t]}
  | ELit _ => ∅
  | ENeg a | ESupp _ _ a => cols_e a
  | EAdd a b | ESub a b | EMul a b => cols_e a ∪ cols_e b
  end.

Definition cmpb (c : cmp) (x y : Z) : bool :=
  match c with
  | CEq => x =? y | CNe => negb (x =? y)
  | CLt => x <? y | CLe => x <=? y | CGt => y <? x | CGe => y <=? x
  end.

(* Python: x in range(start, stop, step), step <> 0 *)
Definition in_range (start stop step x : Z) : bool :=
  if 0 <? step then (start <=? x) && (x <? stop) && ((x - start) mod step =? 0)
  else if step <? 0 then (stop <? x) && (x <=? start) && ((start - x) mod (- step) =? 0)
  else false.

Fixpoint eval_items (items : list expr) (r : row) : option (list Z) :=
  match items with
  | [] => Some []
  | e :: items' => x ← eval e r; xs ← eval_items items' r; Some (x :: xs)
  end.

Definition mem_z (x : Z) (l : list Z) : bool := existsb (Z.eqb x) l.

Definition eval_in (c : container) (x : Z) (r : row) : option bool :=
  match c with
  | CRange a b s => Some (in_range a b s x)
  | CSeq items => xs ← eval_items items r; Some (mem_z x xs)
  end.

Definition cols_c (c : container) : gset tag :=
  match c with
  | CRange _ _ _ => ∅
  | CSeq items => (fix go l := match l with [] => ∅ | e :: l' => cols_e e ∪ go l' end) items
  end.

Fixpoint evalp (p : pred) (r : row) : option bool :=
  match p with
  | PLit b => Some b
  | PRef t => v ← r !! t; Some (negb (v =? 0))
  | PCmp c a b => x ← eval a r; y ← eval b r; Some (cmpb c x y)
  | PNot q => b ← evalp q r; Some (negb b)
  | PAnd ps => (fix go ps := match ps with [] => Some true | q :: ps' => b ← evalp q r; c ← go ps'; Some (b && c) end) ps
  | POr ps => (fix go ps := match ps with [] => Some false | q :: ps' => b ← evalp q r; c ← go ps'; Some (b || c) end) ps
  | PIn e c => x ← eval e r; eval_in c x r
  end.

Fixpoint cols_p (p : pred) : gset tag :=
  match p with
  | PLit _ => ∅
  | PRef t => {[t]}
  | PCmp _ a b => cols_e a ∪ cols_e b
  | PNot q => cols_p q
  | PAnd ps | POr ps => (fix go ps := match ps with [] => ∅ | q :: ps' => cols_p q ∪ go ps' end) ps
  | PIn e c => cols_e e ∪ cols_c c
  end.

(* nested induction principle for pred *)
Section pred_ind2.
  Variable P : pred → Prop.
  Hypothesis HLit : ∀ b, P (PLit b).
  Hypothesis HRef : ∀ t, P (PRef t).
  Hypothesis HCmp : ∀ c a b, P (PCmp c a b).
  Hypothesis HNot : ∀ p, P p → P (PNot p).
  Hypothesis HAnd : ∀ ps, Forall P ps → P (PAnd ps).
  Hypothesis HOr : ∀ ps, Forall P ps → P (POr ps).
  Hypothesis HIn : ∀ e c, P (PIn e c).
  Fixpoint pred_ind2 (p : pred) : P p :=
    match p with
    | PLit b => HLit b | PRef t => HRef t | PCmp c a b => HCmp c a b
    | PNot q => HNot q (pred_ind2 q)
    | PAnd ps => HAnd ps ((fix go ps : Forall P ps := match ps with [] => @List.Forall_nil _ P | q :: ps' => @List.Forall_cons _ P q ps' (pred_ind2 q) (go ps') end) ps)
    | POr ps => HOr ps ((fix go ps : Forall P ps := match ps with [] => @List.Forall_nil _ P | q :: ps' => @List.Forall_cons _ P q ps' (pred_ind2 q) (go ps') end) ps)
    | PIn e c => HIn e c
    end.
End pred_ind2.

(* total versions used by the list semantics (agree with eval/evalp on rows that have
   every required column; the "no KeyError" half is a separate theorem) *)
Definition ev (e : expr) (r : row) : Z := default 0 (eval e r).
Definition holds (p : pred) (r : row) : bool := default false (evalp p r).

Definition restrict (cs : gset tag) (r : row) : row := filter (λ kv, kv.1 ∈ cs) r.
