(* Basic vocabulary of the specification: tags, rows, engines.  std++ style. *)
From stdpp Require Export gmap list.
From Coq Require Export ZArith.

(* Column tags are positives.  A tag is a key column unless its lowest bit pattern is xI:
   the harness maps every Python ColumnTag to a positive whose shape encodes is_key. *)
Notation tag := positive (only parsing).
Definition is_key (t : tag) : bool := match t with xI _ => false | _ => true end.

Notation row := (gmap positive Z) (only parsing).
Notation rows := (list (gmap positive Z)) (only parsing).

Definition row_eqb (r1 r2 : row) : bool := bool_decide (r1 = r2).
Lemma row_eqb_spec (r1 r2 : row) : row_eqb r1 r2 = true <-> r1 = r2.
Proof. unfold row_eqb. rewrite bool_decide_eq_true. reflexivity. Qed.

Definition mkrow (l : list (positive * Z)) : row := list_to_map l.
Definition mkset (l : list positive) : gset positive := list_to_set l.

(* Engines: an engine has a kind (what it can execute) and an identity. *)
Inductive ekind := KIter | KSql.
Record engine := Eng { ekind_of : ekind; eid : nat }.
Global Instance ekind_eq_dec : EqDecision ekind.
Proof. solve_decision. Defined.
Global Instance engine_eq_dec : EqDecision engine.
Proof. solve_decision. Defined.
Definition engine_eqb (a b : engine) : bool := bool_decide (a = b).

(* Results of library calls: the documented exception classes. *)
Inductive err := ColumnError | EngineError | OrderLoss | ValueError | TypeError | KeyError | NotImplemented | RelAlgError
  | ModelGap.   (* not an exception of the library: the model does not cover this call path *)
Inductive result (A : Type) := Ok (a : A) | Err (e : err).
Arguments Ok {A}. Arguments Err {A}.
Global Instance err_eq_dec : EqDecision err.
Proof. solve_decision. Defined.
Definition rbind {A B} (x : result A) (f : A -> result B) : result B :=
  match x with Ok a => f a | Err e => Err e end.
Notation "'do' x <- e ; f" := (rbind e (fun x => f)) (at level 200, x pattern, e at level 100, f at level 200).
