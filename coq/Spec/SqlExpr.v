(* A small SQL scalar-expression language with SQLite's semantics on NULL-free integers:
   booleans are 0/1, % is truncated remainder, BETWEEN is inclusive, IN () is false. *)
From DR Require Export Spec.Expr.
Local Open Scope Z_scope.

Inductive sexpr :=
| SCol (t : tag)
| SLit (z : Z)
| SBool (b : bool)
| SNeg (a : sexpr)
| SAdd (a b : sexpr) | SSub (a b : sexpr) | SMul (a b : sexpr)
| SMod (a b : sexpr)
| SCmp (c : cmp) (a b : sexpr)
| SNot (a : sexpr)
| SAnd (l : list sexpr)
| SOr (l : list sexpr)
| SBetween (e lo hi : sexpr)
| SIn (e : sexpr) (l : list sexpr).

Definition truth (v : Z) : bool := negb (v =? 0).
Definition b2z (b : bool) : Z := if b then 1 else 0.

Fixpoint seval (s : sexpr) (r : row) : option Z :=
  match s with
  | SCol t => r !! t
  | SLit z => Some z
  | SBool b => Some (b2z b)
  | SNeg a => x ← seval a r; Some (- x)
  | SAdd a b => x ← seval a r; y ← seval b r; Some (x + y)
  | SSub a b => x ← seval a r; y ← seval b r; Some (x - y)
  | SMul a b => x ← seval a r; y ← seval b r; Some (x * y)
  | SMod a b => x ← seval a r; y ← seval b r; if y =? 0 then None else Some (Z.rem x y)
  | SCmp c a b => x ← seval a r; y ← seval b r; Some (b2z (cmpb c x y))
  | SNot a => x ← seval a r; Some (b2z (negb (truth x)))
  | SAnd l => (fix go l := match l with [] => Some 1 | a :: l' => x ← seval a r; y ← go l'; Some (b2z (truth x && truth y)) end) l
  | SOr l => (fix go l := match l with [] => Some 0 | a :: l' => x ← seval a r; y ← go l'; Some (b2z (truth x || truth y)) end) l
  | SBetween e lo hi => x ← seval e r; a ← seval lo r; b ← seval hi r; Some (b2z ((a <=? x) && (x <=? b)))
  | SIn e l => x ← seval e r;
      (fix go l := match l with [] => Some 0 | a :: l' => y ← seval a r; z ← go l'; Some (b2z ((x =? y) || truth z)) end) l
  end.

(* a predicate used in WHERE keeps the rows on which it is true (non-zero) *)
Definition sholds (s : sexpr) (r : row) : option bool := option_map truth (seval s r).
