(* Multi-engine programs of public factory calls with their preferred-engine options, and their
   specification (options never change the denotation). *)
From DR Require Export Spec.Prog.
Local Open Scope Z_scope.

Record opts := Opts { o_pref : option engine; o_backtrack : bool; o_transfer : bool; o_require : bool }.
Definition default_opts : opts := Opts None true false false.

Inductive mprog :=
| MpLeaf (name : positive) (eng : engine) (cols : gset tag) (mn : Z) (mx : option Z)
| MpUn (o : uop) (op : opts) (p : mprog)
| MpItem (start stop step : option Z) (p : mprog)
| MpChain (l r : mprog)
| MpJoin (pred : option pred) (backtrack transfer : bool) (l r : mprog)     (* l.join(r, pred, backtrack=, transfer=) *)
| MpMat (name : positive) (p : mprog)
| MpXfer (dest : engine) (p : mprog).

Fixpoint mprog_cols (p : mprog) : gset tag :=
  match p with
  | MpLeaf _ _ cs _ _ => cs
  | MpUn o _ p' => op_columns o (mprog_cols p')
  | MpItem _ _ _ p' | MpMat _ p' | MpXfer _ p' => mprog_cols p'
  | MpChain l _ => mprog_cols l
  | MpJoin _ _ _ l r => mprog_cols l ∪ mprog_cols r
  end.

Definition natural_common (a b : gset tag) : gset tag := filter (fun t => is_key t = true) (a ∩ b).

Fixpoint spec_mprog (env : lenv) (p : mprog) : rows :=
  match p with
  | MpLeaf n _ _ _ _ => env n
  | MpUn o _ p' => sem_op o (spec_mprog env p')
  | MpItem a b _ p' => sem_slice (default 0 a) b (spec_mprog env p')
  | MpChain l r => spec_mprog env l ++ spec_mprog env r
  | MpJoin pr _ _ l r =>
      sem_join (natural_common (mprog_cols l) (mprog_cols r)) (default (PLit true) pr)
               (spec_mprog env l) (spec_mprog env r)
  | MpMat _ p' | MpXfer _ p' => spec_mprog env p'
  end.

Fixpoint kd_mprog (env : lenv) (p : mprog) : bool :=
  match p with
  | MpLeaf _ _ _ _ _ => true
  | MpUn Dedup _ p' => kd_mprog env p' && key_determined (spec_mprog env p')
  | MpUn _ _ p' | MpItem _ _ _ p' | MpMat _ p' | MpXfer _ p' => kd_mprog env p'
  | MpChain l r | MpJoin _ _ _ l r => kd_mprog env l && kd_mprog env r
  end.
