(* Generic list algebra used by the slice / filter / map laws.  Stdlib only. *)
From Coq Require Import List Bool Arith Lia Permutation.
Import ListNotations.

Section ListOps.
  Context {A : Type}.

  Lemma skipn_skipn (n m : nat) (l : list A) : skipn n (skipn m l) = skipn (m + n) l.
  Proof.
    revert l; induction m as [|m IH]; intros l; simpl; auto.
    destruct l; [destruct n; reflexivity|apply IH].
  Qed.

  (* canonical form: every positional window is  firstn k (skipn s l)  *)
  Lemma window_compose (a1 a2 k1 k2 : nat) (l : list A) :
    firstn k2 (skipn a2 (firstn k1 (skipn a1 l))) = firstn (Nat.min k2 (k1 - a2)) (skipn (a1 + a2) l).
  Proof. rewrite skipn_firstn_comm, skipn_skipn, firstn_firstn. reflexivity. Qed.

  Lemma filter_filter (p q : A -> bool) l :
    filter p (filter q l) = filter (fun x => q x && p x) l.
  Proof.
    induction l as [|a l IH]; simpl; auto.
    destruct (q a); simpl; [destruct (p a); simpl; rewrite IH; auto | auto].
  Qed.

  Lemma filter_ext' (p q : A -> bool) l : (forall x, p x = q x) -> filter p l = filter q l.
  Proof. intros H; induction l as [|a l IH]; simpl; auto. rewrite H, IH; auto. Qed.

  Lemma filter_true (p : A -> bool) l : (forall x, In x l -> p x = true) -> filter p l = l.
  Proof.
    induction l as [|a l IH]; simpl; intros H; auto.
    rewrite (H a) by auto. f_equal. apply IH. intros; apply H; auto.
  Qed.

  Lemma filter_comm (p q : A -> bool) l : filter p (filter q l) = filter q (filter p l).
  Proof. rewrite !filter_filter. apply filter_ext'. intros; apply andb_comm. Qed.

  Lemma filter_length_le (p : A -> bool) l : length (filter p l) <= length l.
  Proof. induction l as [|a l IH]; simpl; auto. destruct (p a); simpl; lia. Qed.

  Lemma In_firstn (n : nat) (l : list A) x : In x (firstn n l) -> In x l.
  Proof. revert l; induction n as [|n IH]; intros [|y l]; simpl; try tauto. intros [->|H]; auto. Qed.
  Lemma In_skipn (n : nat) (l : list A) x : In x (skipn n l) -> In x l.
  Proof. revert l; induction n as [|n IH]; intros [|y l]; simpl; try tauto. intros H; auto. Qed.

  Lemma firstn_length_le' (n : nat) (l : list A) : length (firstn n l) = Nat.min n (length l).
  Proof. apply firstn_length. Qed.
End ListOps.

Lemma filter_map_comm {A B} (f : A -> B) (p : B -> bool) (l : list A) :
  filter p (map f l) = map f (filter (fun x => p (f x)) l).
Proof. induction l as [|a l IH]; simpl; auto. destruct (p (f a)); simpl; rewrite IH; auto. Qed.

Lemma firstn_map' {A B} (f : A -> B) n (l : list A) : firstn n (map f l) = map f (firstn n l).
Proof. apply firstn_map. Qed.

Lemma skipn_map' {A B} (f : A -> B) n (l : list A) : skipn n (map f l) = map f (skipn n l).
Proof. apply skipn_map. Qed.
