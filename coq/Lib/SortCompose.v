From Coq Require Import List Bool Arith Lia Permutation.
Import ListNotations.
From DR Require Import Lib.StableSort.

Section Compose.
  Context {A : Type} (leb1 leb2 : A -> A -> bool).
  Hypothesis tot1 : forall x y, leb1 x y = true \/ leb1 y x = true.
  Hypothesis tot2 : forall x y, leb2 x y = true \/ leb2 y x = true.
  Hypothesis tr1 : forall x y z, leb1 x y = true -> leb1 y z = true -> leb1 x z = true.
  Hypothesis tr2 : forall x y z, leb2 x y = true -> leb2 y z = true -> leb2 x z = true.

  (* primary key leb2, ties broken by leb1 *)
  Definition lex x y := leb2 x y && (negb (leb2 y x) || leb1 x y).

  Lemma lex_total x y : lex x y = true \/ lex y x = true.
  Proof.
    unfold lex. destruct (tot2 x y) as [H|H], (tot1 x y) as [K|K];
      destruct (leb2 x y) eqn:E1, (leb2 y x) eqn:E2, (leb1 x y) eqn:E3, (leb1 y x) eqn:E4;
      simpl; auto; try discriminate.
  Qed.

  Lemma equiv_lex z x : equiv lex z x = equiv leb2 z x && equiv leb1 z x.
  Proof.
    unfold equiv, lex.
    destruct (leb2 z x), (leb2 x z), (leb1 z x), (leb1 x z); reflexivity.
  Qed.

  Lemma filter_filter (p q : A -> bool) l : filter p (filter q l) = filter (fun x => q x && p x) l.
  Proof. induction l as [|a l IH]; simpl; auto. destruct (q a); simpl; [destruct (p a); simpl; rewrite IH; auto | auto]. Qed.
  Lemma filter_ext' (p q : A -> bool) l : (forall x, p x = q x) -> filter p l = filter q l.
  Proof. intros H; induction l as [|a l IH]; simpl; auto. rewrite H, IH; auto. Qed.

  Lemma sorted_filter (leb : A -> A -> bool) p l : sortedb leb l -> sortedb leb (filter p l).
  Proof.
    induction l as [|a l IH]; simpl; auto. intros [F S]. destruct (p a); simpl; auto.
    split; auto. rewrite Forall_forall in *. intros y Hy. apply filter_In in Hy as [? _]; auto.
  Qed.

  (* sorted for the primary key, and every primary-equivalence class sorted for the secondary key,
     implies sorted for the lexicographic order *)
  Lemma sorted_lex l :
    sortedb leb2 l -> (forall z, sortedb leb1 (filter (equiv leb2 z) l)) -> sortedb lex l.
  Proof.
    induction l as [|x l IH]; simpl; auto. intros [F S] H. split.
    - rewrite Forall_forall in *. intros y Hy. unfold lex. rewrite (F y Hy). simpl.
      destruct (leb2 y x) eqn:E; simpl; auto.
      specialize (H x). rewrite (equiv_refl leb2 tot2) in H. simpl in H. destruct H as [Hx _].
      rewrite Forall_forall in Hx. apply Hx. apply filter_In. split; auto.
      unfold equiv. rewrite (F y Hy), E; auto.
    - apply IH; auto. intros z. specialize (H z). destruct (equiv leb2 z x); simpl in H; tauto.
  Qed.

  Theorem isort_isort l : isort leb2 (isort leb1 l) = isort lex l.
  Proof.
    apply (stable_sorted_unique lex lex_total).
    - apply sorted_lex.
      + apply isort_sorted; auto.
      + intros z. rewrite (isort_stable leb2 tot2 tr2). apply sorted_filter. apply isort_sorted; auto.
    - apply isort_sorted; auto using lex_total.
      (* transitivity of lex *)
      intros x y z. unfold lex.
      destruct (leb2 x y) eqn:A1, (leb2 y z) eqn:A2; simpl; try discriminate.
      intros H1 H2. rewrite (tr2 _ _ _ A1 A2). simpl.
      destruct (leb2 z x) eqn:A3; simpl; auto.
      assert (B1 : leb2 y x = true) by (eapply tr2; eauto).
      assert (B2 : leb2 z y = true) by (eapply tr2; eauto).
      rewrite B1 in H1; rewrite B2 in H2; simpl in *. eapply tr1; eauto.
    - intros z. rewrite (isort_stable lex lex_total).
      2:{ intros x y w. unfold lex.
          destruct (leb2 x y) eqn:A1, (leb2 y w) eqn:A2; simpl; try discriminate.
          intros H1 H2. rewrite (tr2 _ _ _ A1 A2). simpl.
          destruct (leb2 w x) eqn:A3; simpl; auto.
          assert (B1 : leb2 y x = true) by (eapply tr2; eauto).
          assert (B2 : leb2 w y = true) by (eapply tr2; eauto).
          rewrite B1 in H1; rewrite B2 in H2; simpl in *. eapply tr1; eauto. }
      assert (FL : forall m, filter (equiv lex z) m = filter (equiv leb1 z) (filter (equiv leb2 z) m)).
      { intros m. rewrite filter_filter. apply filter_ext'. apply equiv_lex. }
      assert (FC : forall m, filter (equiv leb1 z) (filter (equiv leb2 z) m) = filter (equiv leb2 z) (filter (equiv leb1 z) m)).
      { intros m. rewrite !filter_filter. apply filter_ext'. intros; apply andb_comm. }
      rewrite !FL. rewrite (isort_stable leb2 tot2 tr2). rewrite FC.
      rewrite (isort_stable leb1 tot1 tr1). rewrite <- FC. reflexivity.
  Qed.
End Compose.
