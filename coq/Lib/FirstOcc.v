(* First-occurrence distinct: keeps the first occurrence of each element. Stdlib only. *)
From Coq Require Import List Bool Arith Lia Permutation.
From DR Require Import Lib.ListOps.
Import ListNotations.

Section FirstOcc.
  Context {A : Type} (eqb : A -> A -> bool).
  Hypothesis eqb_spec : forall x y, eqb x y = true <-> x = y.

  Definition neqb (x y : A) : bool := negb (eqb y x).

  Fixpoint first_occ (l : list A) : list A :=
    match l with
    | [] => []
    | x :: l' => x :: filter (neqb x) (first_occ l')
    end.

  Lemma eqb_refl x : eqb x x = true.
  Proof. apply eqb_spec; reflexivity. Qed.

  Lemma first_occ_filter (p : A -> bool) l :
    first_occ (filter p l) = filter p (first_occ l).
  Proof.
    induction l as [|x l IH]; simpl; auto.
    destruct (p x) eqn:E; simpl.
    - f_equal. rewrite IH. apply filter_comm.
    - rewrite IH.
      (* filtering out x changes nothing under p since p x = false *)
      rewrite filter_comm. symmetry. rewrite filter_filter. apply filter_ext'.
      intros y. unfold neqb. destruct (eqb y x) eqn:Ey; simpl.
      + apply eqb_spec in Ey. subst. rewrite E. reflexivity.
      + rewrite andb_true_r. reflexivity.
  Qed.

  Lemma first_occ_incl l x : In x (first_occ l) <-> In x l.
  Proof.
    induction l as [|y l IH]; simpl; [tauto|].
    rewrite filter_In, IH. unfold neqb. split.
    - intros [->|[H _]]; auto.
    - intros [->|H]; auto. destruct (eqb x y) eqn:E.
      + apply eqb_spec in E. subst. auto.
      + right. split; auto.
  Qed.

  Lemma first_occ_nodup l : NoDup (first_occ l).
  Proof.
    induction l as [|x l IH]; simpl; constructor.
    - rewrite filter_In. unfold neqb. rewrite eqb_refl. simpl. intros [_ H]; discriminate.
    - apply NoDup_filter. exact IH.
  Qed.

  Lemma first_occ_id_nodup l : NoDup l -> first_occ l = l.
  Proof.
    induction l as [|x l IH]; simpl; auto. intros H. inversion H as [|? ? Hx Hl]; subst.
    f_equal. rewrite IH by auto. apply filter_true. intros y Hy. unfold neqb.
    destruct (eqb y x) eqn:E; auto. apply eqb_spec in E. subst. contradiction.
  Qed.

  Lemma first_occ_idem l : first_occ (first_occ l) = first_occ l.
  Proof. apply first_occ_id_nodup, first_occ_nodup. Qed.

  Lemma first_occ_length l : length (first_occ l) <= length l.
  Proof.
    induction l as [|x l IH]; simpl; auto.
    pose proof (filter_length_le (neqb x) (first_occ l)). lia.
  Qed.

  Lemma first_occ_nonempty l : l <> [] -> first_occ l <> [].
  Proof. destruct l; simpl; congruence. Qed.

  (* injective map commutes with first_occ *)
End FirstOcc.

Section FirstOccMap.
  Context {A B : Type} (eqa : A -> A -> bool) (eqb : B -> B -> bool).
  Hypothesis eqa_spec : forall x y, eqa x y = true <-> x = y.
  Hypothesis eqb_spec : forall x y, eqb x y = true <-> x = y.

  Lemma filter_neqb_map (f : A -> B) x (m : list A) :
    (forall y, In y m -> f x = f y -> x = y) ->
    filter (fun y => neqb eqb (f x) (f y)) m = filter (neqb eqa x) m.
  Proof.
    intros Hinj. apply filter_ext_in. intros y Hy. unfold neqb.
    destruct (eqa y x) eqn:E1.
    - apply eqa_spec in E1. subst. rewrite (proj2 (eqb_spec _ _) eq_refl). reflexivity.
    - destruct (eqb (f y) (f x)) eqn:E2; auto. apply eqb_spec in E2.
      assert (x = y) by (apply Hinj; auto).
      subst. rewrite (proj2 (eqa_spec _ _) eq_refl) in E1. discriminate.
  Qed.

  Lemma first_occ_map_inj (f : A -> B) l :
    (forall x y, In x l -> In y l -> f x = f y -> x = y) ->
    first_occ eqb (map f l) = map f (first_occ eqa l).
  Proof.
    induction l as [|x l IH]; simpl; auto. intros Hinj. f_equal.
    rewrite IH by (intros; apply Hinj; auto). rewrite filter_map_comm.
    f_equal. apply filter_neqb_map. intros y Hy Hf.
    apply Hinj; auto. right. apply (first_occ_incl eqa eqa_spec). exact Hy.
  Qed.
End FirstOccMap.
