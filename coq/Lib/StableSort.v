From Coq Require Import List Bool Arith Lia Permutation.
Import ListNotations.

Section StableSort.
  Context {A : Type} (leb : A -> A -> bool).
  Hypothesis leb_total : forall x y, leb x y = true \/ leb y x = true.
  Hypothesis leb_trans : forall x y z, leb x y = true -> leb y z = true -> leb x z = true.

  Fixpoint insert (x : A) (l : list A) : list A :=
    match l with
    | [] => [x]
    | y :: l' => if leb x y then x :: y :: l' else y :: insert x l'
    end.
  Definition isort (l : list A) : list A := fold_right insert [] l.
  Definition equiv x y := leb x y && leb y x.

  Fixpoint sortedb (l : list A) : Prop :=
    match l with [] => True | x :: l' => Forall (fun y => leb x y = true) l' /\ sortedb l' end.

  Lemma leb_refl x : leb x x = true.
  Proof. destruct (leb_total x x); auto. Qed.
  Lemma equiv_refl x : equiv x x = true.
  Proof. unfold equiv; rewrite leb_refl; auto. Qed.
  Lemma equiv_sym x y : equiv x y = equiv y x.
  Proof. unfold equiv; apply andb_comm. Qed.

  Lemma insert_perm x l : Permutation (x :: l) (insert x l).
  Proof.
    induction l as [|y l IH]; simpl; auto.
    destruct (leb x y); auto. rewrite perm_swap. constructor. exact IH.
  Qed.
  Lemma isort_perm l : Permutation l (isort l).
  Proof.
    induction l as [|x l IH]; simpl; auto.
    etransitivity; [|apply insert_perm]. constructor; exact IH.
  Qed.

  Lemma insert_sorted x l : sortedb l -> sortedb (insert x l).
  Proof.
    induction l as [|y l IH]; simpl; intros H.
    - split; auto.
    - destruct H as [Hy Hl]. destruct (leb x y) eqn:E; simpl.
      + split; [|split; auto]. constructor; auto.
        eapply Forall_impl; [|exact Hy]. intros a Ha; simpl in Ha. eapply leb_trans; eauto.
      + assert (Hyx : leb y x = true) by (destruct (leb_total x y); congruence).
        split; [|auto]. eapply Permutation_Forall; [apply insert_perm|]. constructor; auto.
  Qed.
  Lemma isort_sorted l : sortedb (isort l).
  Proof. induction l; simpl; auto. apply insert_sorted; auto. Qed.

  (* x is inserted before the first y with x <= y, hence before all its equivalents *)
  Lemma insert_filter_equiv z x l :
    sortedb l ->
    filter (equiv z) (insert x l) =
    if equiv z x then x :: filter (equiv z) l else filter (equiv z) l.
  Proof.
    induction l as [|y l IH]; simpl; intros H.
    - destruct (equiv z x); auto.
    - destruct H as [Hy Hl]. destruct (leb x y) eqn:E; simpl.
      + destruct (equiv z x); auto.
      + rewrite IH by auto.
        destruct (equiv z x) eqn:Ezx; auto.
        (* leb x y = false, z ~ x  ==>  z !~ y *)
        destruct (equiv z y) eqn:Ezy; auto. exfalso.
        unfold equiv in Ezx, Ezy. apply andb_prop in Ezx as [Hzx Hxz], Ezy as [Hzy Hyz].
        assert (leb x y = true) by (eapply leb_trans; eauto). congruence.
  Qed.

  Lemma isort_stable z l : filter (equiv z) (isort l) = filter (equiv z) l.
  Proof.
    induction l as [|x l IH]; simpl; auto.
    rewrite insert_filter_equiv by apply isort_sorted. rewrite IH. reflexivity.
  Qed.

  Lemma filter_nil_no_in (p : A -> bool) l x : filter p l = [] -> In x l -> p x = false.
  Proof.
    induction l as [|y l IH]; simpl; [tauto|]. destruct (p y) eqn:E; [discriminate|].
    intros H [->|Hin]; auto.
  Qed.

  Theorem stable_sorted_unique l1 : forall l2,
    sortedb l1 -> sortedb l2 ->
    (forall z, filter (equiv z) l1 = filter (equiv z) l2) -> l1 = l2.
  Proof.
    induction l1 as [|x l1 IH]; intros l2 S1 S2 H.
    - destruct l2 as [|y l2]; auto. specialize (H y). simpl in H. rewrite equiv_refl in H. discriminate.
    - destruct l2 as [|y l2].
      { specialize (H x). simpl in H. rewrite equiv_refl in H. discriminate. }
      simpl in S1, S2. destruct S1 as [F1 S1], S2 as [F2 S2].
      assert (Hxy : equiv x y = true).
      { unfold equiv. apply andb_true_intro; split.
        - (* y occurs in x::l1 *)
          pose proof (H y) as Hy. simpl in Hy. rewrite equiv_refl in Hy.
          assert (In y (x :: l1)).
          { destruct (equiv y x) eqn:E.
            - assert (In y (filter (equiv y) (x :: l1))) by (simpl; rewrite E, Hy; left; auto).
              apply filter_In in H0 as [? _]; auto.
            - assert (In y (filter (equiv y) l1)) by (rewrite Hy; left; auto).
              apply filter_In in H0 as [? _]; right; auto. }
          destruct H0 as [->|Hin]; [apply leb_refl|]. rewrite Forall_forall in F1; auto.
        - pose proof (H x) as Hx. simpl in Hx. rewrite equiv_refl in Hx.
          assert (In x (y :: l2)).
          { destruct (equiv x y) eqn:E.
            - assert (In x (filter (equiv x) (y :: l2))) by (simpl; rewrite E, <- Hx; left; auto).
              apply filter_In in H0 as [? _]; auto.
            - assert (In x (filter (equiv x) l2)) by (rewrite <- Hx; left; auto).
              apply filter_In in H0 as [? _]; right; auto. }
          destruct H0 as [<-|Hin]; [apply leb_refl|]. rewrite Forall_forall in F2; auto. }
      pose proof (H x) as Hx. simpl in Hx. rewrite equiv_refl, Hxy in Hx. injection Hx as <- Hx.
      f_equal. apply IH; auto. intros z. specialize (H z). simpl in H.
      destruct (equiv z x); auto. injection H; auto.
  Qed.
End StableSort.

Lemma insert_ext {A} (leb leb' : A -> A -> bool) x l :
  (forall a b, leb a b = leb' a b) -> insert leb x l = insert leb' x l.
Proof. intros H. induction l as [|y l IH]; simpl; auto. rewrite H, IH. reflexivity. Qed.
Lemma isort_ext {A} (leb leb' : A -> A -> bool) l :
  (forall a b, leb a b = leb' a b) -> isort leb l = isort leb' l.
Proof.
  intros H. induction l as [|x l IH]; simpl; auto. rewrite IH. apply insert_ext; auto.
Qed.
