(* C02(a) / C17: the SQL engine's conformation rules preserve the denotation of the tree —
   list equality, for every rule, every slot state and every operation. *)
From DR Require Import Model.Reach Proofs.PredLaws Proofs.SliceLaws Proofs.SortLaws Proofs.SemLaws
  Proofs.Metadata Proofs.Simplify Proofs.FinishApply Proofs.CommuteLaws.
From Coq Require Import Lia.
Local Open Scope Z_scope.

(* ---- what a SELECT marker's slots denote ---- *)
Definition slots_sem (sl : selslots) (l : rows) : rows :=
  let l1 := sem_sort (s_sort sl) l in
  let l2 := match s_proj sl with Some cs => sem_proj cs l1 | None => l1 end in
  let l3 := if s_dedup sl then sem_dedup l2 else l2 in
  sem_slice (fst (s_slice sl)) (snd (s_slice sl)) l3.

Definition slots_cols (sl : selslots) (cs : gset tag) : gset tag :=
  match s_proj sl with Some ps => ps | None => cs end.

Definition slots_wf (sl : selslots) (cs : gset tag) : Prop :=
  op_required (Sort (s_sort sl)) ⊆ cs ∧
  (match s_proj sl with Some ps => ps ⊆ cs | None => True end) ∧
  slice_ok (fst (s_slice sl)) (snd (s_slice sl)).

Lemma sem_slice_trivial s (l : rows) : slice_nontrivial s = false → sem_slice (fst s) (snd s) l = l.
Proof.
  destruct s as [a b]. unfold slice_nontrivial. simpl. intros H. apply orb_false_iff in H as [H1 H2].
  apply negb_false_iff, Z.eqb_eq in H1. subst. destruct b; [discriminate|]. reflexivity.
Qed.

(* a conformed relation: marker, skip target and target chain agree *)
Definition good_sel (env : lenv) (s : tree) : Prop :=
  match s with
  | SelM sl skip tgt =>
      wf_tree skip ∧ wf_tree tgt ∧ env_ok env skip ∧ env_ok env tgt ∧ slots_wf sl (columns skip) ∧
      columns tgt = slots_cols sl (columns skip) ∧ engine_of tgt = engine_of skip ∧
      sem_tree env tgt = slots_sem sl (sem_tree env skip)
  | _ => False
  end.

Lemma good_sel_sem env sl skip tgt :
  good_sel env (SelM sl skip tgt) → sem_tree env (SelM sl skip tgt) = slots_sem sl (sem_tree env skip).
Proof. simpl. tauto. Qed.

(* ---- Select.apply_skip ---- *)
Lemma apply_skip_good env sl skip s :
  wf_tree skip → env_ok env skip → slots_wf sl (columns skip) → apply_skip sl skip = Ok s →
  good_sel env s ∧ sel_slots s = sl ∧ sel_skip s = skip.
Proof.
  intros Hwf Henv (W1 & W2 & W3) H. unfold apply_skip in H.
  (* sort *)
  assert (S1 : ∃ t1, (do t2 <- (match s_proj sl with Some cs => finish_apply (Proj cs) t1 | None => Ok t1 end);
                      do t3 <- (if s_dedup sl then finish_apply Dedup t2 else Ok t2);
                      do t4 <- (if slice_nontrivial (s_slice sl) then finish_apply (Slice (fst (s_slice sl)) (snd (s_slice sl))) t3 else Ok t3);
                      Ok (SelM sl skip t4)) = Ok s ∧ fa_spec env (Sort (s_sort sl)) skip t1).
  { destruct (s_sort sl) as [|t0 ts] eqn:Es.
    - exists skip. split; [exact H|]. unfold fa_spec. simpl. rewrite sem_sort_nil. auto 10.
    - destruct (finish_apply (Sort (t0 :: ts)) skip) as [t1|] eqn:E1; cbn [rbind] in H; [|discriminate].
      exists t1. split; [exact H|]. apply finish_apply_sem; auto; right; simpl; exact W1. }
  clear H. destruct S1 as (t1 & H & (A1 & A2 & A3 & A4 & A5)). simpl in A3.
  (* projection *)
  destruct (match s_proj sl with Some cs => finish_apply (Proj cs) t1 | None => Ok t1 end) as [t2|] eqn:E2; cbn [rbind] in H; [|discriminate].
  assert (F2 : sem_tree env t2 = (match s_proj sl with Some cs => sem_proj cs (sem_tree env t1) | None => sem_tree env t1 end) ∧
               wf_tree t2 ∧ columns t2 = slots_cols sl (columns skip) ∧ env_ok env t2 ∧ engine_of t2 = engine_of skip).
  { unfold slots_cols. destruct (s_proj sl) as [cs|].
    - assert (HW : op_wf (Proj cs) (columns t1)) by (simpl; rewrite A3; exact W2).
      destruct (finish_apply_sem env t1 (Proj cs) t2 A2 A4 (or_intror HW) E2) as (B1 & B2 & B3 & B4 & B5).
      simpl in *. repeat split; auto. congruence.
    - injection E2 as <-. repeat split; auto. }
  destruct F2 as (B1 & B2 & B3 & B4 & B5).
  (* deduplication *)
  destruct (if s_dedup sl then finish_apply Dedup t2 else Ok t2) as [t3|] eqn:E3; cbn [rbind] in H; [|discriminate].
  assert (F3 : sem_tree env t3 = (if s_dedup sl then sem_dedup (sem_tree env t2) else sem_tree env t2) ∧
               wf_tree t3 ∧ columns t3 = columns t2 ∧ env_ok env t3 ∧ engine_of t3 = engine_of skip).
  { destruct (s_dedup sl).
    - destruct (finish_apply_sem env t2 Dedup t3 B2 B4 (or_intror I) E3) as (C1 & C2 & C3 & C4 & C5).
      simpl in *. repeat split; auto. congruence.
    - injection E3 as <-. repeat split; auto. }
  destruct F3 as (C1 & C2 & C3 & C4 & C5).
  (* slice *)
  destruct (if slice_nontrivial (s_slice sl) then finish_apply (Slice (s_slice sl).1 (s_slice sl).2) t3 else Ok t3) as [t4|] eqn:E4;
    cbn [rbind] in H; [|discriminate].
  assert (F4 : sem_tree env t4 = sem_slice (s_slice sl).1 (s_slice sl).2 (sem_tree env t3) ∧
               wf_tree t4 ∧ columns t4 = columns t3 ∧ env_ok env t4 ∧ engine_of t4 = engine_of skip).
  { destruct (slice_nontrivial (s_slice sl)) eqn:En.
    - destruct (finish_apply_sem env t3 (Slice (s_slice sl).1 (s_slice sl).2) t4 C2 C4 (or_intror W3) E4) as (D1 & D2 & D3 & D4 & D5).
      simpl in *. repeat split; auto. congruence.
    - injection E4 as <-. rewrite sem_slice_trivial by auto. repeat split; auto. }
  destruct F4 as (D1 & D2 & D3 & D4 & D5).
  injection H as <-. split; [|split; reflexivity]. simpl.
  refine (conj Hwf (conj D2 (conj Henv (conj D4 (conj (conj W1 (conj W2 W3)) (conj _ (conj _ _))))))).
  - congruence.
  - exact D5.
  - unfold slots_sem. rewrite D1, C1, B1, A1. reflexivity.
Qed.

(* ---- domains of the intermediate lists ---- *)
Lemma rd_sort ts cs l : op_required (Sort ts) ⊆ cs → rows_dom cs l → rows_dom cs (sem_sort ts l).
Proof. intros H Hd. apply (rows_dom_op (Sort ts) cs l H Hd). Qed.
Lemma rd_proj ps cs l : ps ⊆ cs → rows_dom cs l → rows_dom ps (sem_proj ps l).
Proof. intros H Hd. apply (rows_dom_op (Proj ps) cs l H Hd). Qed.
Lemma rd_dedup cs l : rows_dom cs l → rows_dom cs (sem_dedup l).
Proof. intros Hd. apply (rows_dom_op Dedup cs l I Hd). Qed.
Lemma rd_calc t e cs l : rows_dom cs l → rows_dom (cs ∪ {[t]}) (sem_calc t e l).
Proof.
  unfold rows_dom, sem_calc. intros Hd. apply Forall_map. eapply Forall_impl; [exact Hd|]. simpl.
  intros r Hr. unfold calc1. rewrite dom_insert_L. set_solver.
Qed.

Definition mid_sem (sl : selslots) (l : rows) : rows :=      (* slots without the slice *)
  let l1 := sem_sort (s_sort sl) l in
  let l2 := match s_proj sl with Some cs => sem_proj cs l1 | None => l1 end in
  if s_dedup sl then sem_dedup l2 else l2.

Lemma slots_sem_mid sl l : slots_sem sl l = sem_slice (fst (s_slice sl)) (snd (s_slice sl)) (mid_sem sl l).
Proof. reflexivity. Qed.

Lemma rd_mid sl cs l : slots_wf sl cs → rows_dom cs l → rows_dom (slots_cols sl cs) (mid_sem sl l).
Proof.
  intros (W1 & W2 & W3) Hd. unfold mid_sem, slots_cols.
  pose proof (rd_sort _ _ _ W1 Hd) as H1.
  destruct (s_proj sl) as [ps|]; destruct (s_dedup sl).
  - apply rd_dedup. eapply rd_proj; eauto.
  - eapply rd_proj; eauto.
  - apply rd_dedup. auto.
  - auto.
Qed.

(* ---- a calculation pushed below the managed operations ---- *)
Lemma slots_calc sl cs t e l :
  rows_dom cs l → slots_wf sl cs → t ∉ cs → cols_e e ⊆ slots_cols sl cs →
  slots_sem (with_proj sl (match s_proj sl with Some ps => Some (ps ∪ {[t]}) | None => None end)) (sem_calc t e l)
  = sem_calc t e (slots_sem sl l).
Proof.
  intros Hd (W1 & W2 & W3) Ht He. unfold slots_sem, slots_cols in *. cbn [s_sort s_proj s_dedup s_slice with_proj].
  rewrite sort_calc_commute by set_solver.
  pose proof (rd_sort _ _ _ W1 Hd) as H1. set (Y := sem_sort (s_sort sl) l) in *.
  assert (SL : ∀ W, sem_slice (s_slice sl).1 (s_slice sl).2 (sem_calc t e W) = sem_calc t e (sem_slice (s_slice sl).1 (s_slice sl).2 W)).
  { intros W. unfold sem_calc. apply sem_slice_map. }
  destruct (s_proj sl) as [ps|].
  - rewrite <- (calc_proj_commute t e ps cs Y) by auto.
    pose proof (rd_proj ps cs _ W2 H1) as H2.
    destruct (s_dedup sl).
    + rewrite (dedup_calc_commute t e ps) by (auto; set_solver). apply SL.
    + apply SL.
  - destruct (s_dedup sl).
    + rewrite (dedup_calc_commute t e cs) by auto. apply SL.
    + apply SL.
Qed.

(* ---- a selection pushed below the managed operations (no slice) ---- *)
Lemma slots_sel sl cs p l :
  slots_wf sl cs → cols_p p ⊆ slots_cols sl cs → slice_nontrivial (s_slice sl) = false →
  slots_sem sl (sem_sel p l) = sem_sel p (slots_sem sl l).
Proof.
  intros (W1 & W2 & W3) Hp Hs. unfold slots_sem, slots_cols in *. rewrite !sem_slice_trivial by auto.
  rewrite <- sel_sort_commute.
  destruct (s_proj sl) as [ps|].
  - rewrite <- sel_proj_commute by auto. destruct (s_dedup sl); auto. symmetry. apply sel_dedup_commute.
  - destruct (s_dedup sl); auto. symmetry. apply sel_dedup_commute.
Qed.

(* ---- a sort merged into the sort slot (no slice) ---- *)
Lemma slots_sort sl cs ts l :
  slots_wf sl cs → op_required (Sort ts) ⊆ slots_cols sl cs → slice_nontrivial (s_slice sl) = false →
  slots_sem (with_sort sl (sort_then (s_sort sl) ts)) l = sem_sort ts (slots_sem sl l).
Proof.
  intros (W1 & W2 & W3) Ht Hs. unfold slots_sem, slots_cols in *. cbn [s_sort s_proj s_dedup s_slice with_sort].
  rewrite !sem_slice_trivial by auto. rewrite sort_then_sem.
  destruct (s_proj sl) as [ps|].
  - rewrite <- sort_proj_commute by auto. destruct (s_dedup sl); auto. apply dedup_sort_commute.
  - destruct (s_dedup sl); auto. apply dedup_sort_commute.
Qed.

(* ---- a slice merged into the slice slot ---- *)
Lemma slots_slice sl a b na nb l :
  slice_ok (fst (s_slice sl)) (snd (s_slice sl)) → slice_ok a b →
  slice_then (fst (s_slice sl)) (snd (s_slice sl)) a b = Ok (na, nb) →
  slots_sem (with_slice sl (na, nb)) l = sem_slice a b (slots_sem sl l).
Proof.
  intros H1 H2 H. unfold slots_sem. cbn [s_sort s_proj s_dedup s_slice with_slice fst snd].
  apply (slice_then_sem _ _ _ _ _ _ _ (proj2 (slice_valid_iff _ _) H1) (proj2 (slice_valid_iff _ _) H2) H).
Qed.

(* ---- deduplication ---- *)
Lemma NoDup_firstn {A} n (l : list A) : List.NoDup l → List.NoDup (firstn n l).
Proof.
  revert l. induction n as [|n IH]; intros [|x l] H; simpl; try constructor.
  - inversion H; subst. intros Hin. apply In_firstn in Hin. contradiction.
  - inversion H; subst. apply IH; auto.
Qed.
Lemma NoDup_skipn {A} n (l : list A) : List.NoDup l → List.NoDup (skipn n l).
Proof. revert l. induction n as [|n IH]; intros [|x l] H; simpl; auto. inversion H; auto. Qed.

Lemma slots_dedup_idem sl l : s_dedup sl = true → sem_dedup (slots_sem sl l) = slots_sem sl l.
Proof.
  intros Hd. unfold slots_sem. rewrite Hd. unfold sem_dedup at 1. apply first_occ_id_nodup; [apply row_eqb_spec|].
  unfold sem_slice. destruct (snd (s_slice sl)); [apply NoDup_firstn|]; apply NoDup_skipn;
    apply (first_occ_nodup row_eqb row_eqb_spec).
Qed.

Lemma slots_dedup_add sl l : s_dedup sl = false → slice_nontrivial (s_slice sl) = false →
  slots_sem (with_dedup sl true) l = sem_dedup (slots_sem sl l).
Proof.
  intros Hd Hs. unfold slots_sem. cbn [s_sort s_proj s_dedup s_slice with_dedup]. rewrite Hd.
  rewrite !sem_slice_trivial by auto. reflexivity.
Qed.

Lemma sem_slice_proj a b ps (l : rows) : sem_slice a b (sem_proj ps l) = sem_proj ps (sem_slice a b l).
Proof. unfold sem_proj. apply sem_slice_map. Qed.

(* ---- projection ---- *)
Lemma slots_proj_simple sl cs ps l :
  s_dedup sl = false → ps ⊆ slots_cols sl cs →
  slots_sem (with_proj sl (Some ps)) l = sem_proj ps (slots_sem sl l).
Proof.
  intros Hd Hp. unfold slots_sem, slots_cols in *. cbn [s_sort s_proj s_dedup s_slice with_proj]. rewrite Hd.
  rewrite <- sem_slice_proj. f_equal.
  destruct (s_proj sl) as [ps0|]; auto. symmetry. apply sem_proj_proj. auto.
Qed.

(* with a deduplication upstream: the deduplication goes into a subquery without sort and slice,
   the new projection, the sort and the slice stay outside *)
Lemma slots_proj_dedup sl cs ps l :
  slots_wf sl cs → ps ⊆ slots_cols sl cs → op_required (Sort (s_sort sl)) ⊆ slots_cols sl cs →
  slots_sem (Slots (s_sort sl) (Some ps) false (s_slice sl))
            (slots_sem (with_slice (with_sort sl []) (0, None)) l)
  = sem_proj ps (slots_sem sl l).
Proof.
  intros (W1 & W2 & W3) Hp Hs. unfold slots_sem, slots_cols in *.
  cbn [s_sort s_proj s_dedup s_slice with_sort with_slice fst snd].
  rewrite sem_sort_nil. change (sem_slice 0 None ?x) with x.
  rewrite <- sem_slice_proj. f_equal.
  destruct (s_proj sl) as [ps0|].
  - assert (op_required (Sort (s_sort sl)) ⊆ ps0) by exact Hs.
    destruct (s_dedup sl).
    + rewrite <- dedup_sort_commute. rewrite sort_proj_commute by auto. reflexivity.
    + rewrite sort_proj_commute by auto. reflexivity.
  - destruct (s_dedup sl); auto. rewrite <- dedup_sort_commute. reflexivity.
Qed.

(* ---- conformed relations, including the branch selects of compound (UNION) selects ---- *)
Fixpoint good_all (env : lenv) (s : tree) : Prop :=
  good_sel env s ∧
  match s with
  | SelM _ skip _ =>
      (fix cg (t : tree) : Prop :=
         match t with
         | Bin Chain l r => good_all env l ∧ good_all env r
         | Bin (Join _ _) l r => cg l ∧ cg r
         | Un _ t' => cg t'
         | SelM _ _ _ => good_all env t
         | _ => True
         end) skip
  | _ => True
  end.

(* every SELECT marker inside a skip target is itself good: the branch selects of a compound (UNION) select, the
   operands of a join (stripped or not), a nested select *)
Fixpoint chains_good (env : lenv) (t : tree) : Prop :=
  match t with
  | Bin Chain l r => good_all env l ∧ good_all env r
  | Bin (Join _ _) l r => chains_good env l ∧ chains_good env r
  | Un _ t' => chains_good env t'
  | SelM _ _ _ => good_all env t
  | _ => True
  end.

Lemma good_all_unfold env sl skip tgt :
  good_all env (SelM sl skip tgt) ↔ good_sel env (SelM sl skip tgt) ∧ chains_good env skip.
Proof.
  cbn [good_all].
  assert (E : ∀ t, (fix cg (t : tree) : Prop :=
                      match t with
                      | Bin Chain l r => good_all env l ∧ good_all env r
                      | Bin (Join _ _) l r => cg l ∧ cg r
                      | Un _ t' => cg t'
                      | SelM _ _ _ => good_all env t
                      | _ => True
                      end) t = chains_good env t).
  { induction t as [| o t IH | b l IHl r IHr | | | ]; simpl; auto. destruct b; [reflexivity|]. rewrite IHl, IHr. reflexivity. }
  rewrite E. reflexivity.
Qed.

Lemma good_all_sel env s : good_all env s → good_sel env s.
Proof. destruct s; simpl; tauto. Qed.

Lemma finish_apply_chains env : ∀ t o t', finish_apply o t = Ok t' → chains_good env t → chains_good env t'.
Proof.
  induction t as [n e cs mn mx|up t IH|b l _ r _|n t _|d t _|sl sk _ t _]; intros o t' H Hc;
    cbn [finish_apply] in H;
    (destruct (is_noop o _); [injection H as <-; exact Hc|]);
    try (unfold finish_default in H; destruct (op_supported _ o); [injection H as <-; exact Hc|discriminate]).
  destruct (simplify o up) as [| |m|e'] eqn:Es.
  - unfold finish_default in H. destruct (op_supported _ o); [injection H as <-; exact Hc|discriminate].
  - injection H as <-. exact Hc.
  - eapply IH; eauto.
  - discriminate.
Qed.

Definition sound_result (env : lenv) (o : uop) (s s' : tree) : Prop :=
  good_all env s' ∧ sem_tree env s' = sem_op o (sem_tree env s) ∧
  columns s' = op_columns o (columns s) ∧ engine_of s' = engine_of s.

Lemma good_all_of_sel env s :
  good_sel env s → chains_good env (sel_skip s) → good_all env s.
Proof.
  destruct s as [| | | | |sl skip tgt]; simpl; try tauto. intros H Hc.
  apply good_all_unfold. split; auto.
Qed.

(* nesting: operation._finish_apply(select) followed by a fresh SELECT marker *)
Lemma nest_unary_sound env o s s' :
  good_all env s → op_wf o (columns s) → nest_unary o s = Ok s' → sound_result env o s s'.
Proof.
  intros Hg Ho H. unfold nest_unary in H.
  destruct (finish_default o s) as [t|] eqn:Ef; cbn [rbind] in H; [|discriminate].
  unfold finish_default in Ef. destruct (op_supported _ o); [|discriminate]. injection Ef as <-.
  pose proof (good_all_sel _ _ Hg) as Hs. destruct s as [| | | | |sl skip tgt]; try (destruct Hs; fail).
  destruct Hs as (G1 & G2 & G3 & G4 & G5 & G6 & G7 & G8).
  unfold select_of in H.
  destruct (apply_skip_good env no_slots (Un o (SelM sl skip tgt)) s') as (A & B & C); auto.
  - simpl. split; auto.
  - unfold slots_wf, no_slots. simpl. repeat split; try set_solver; lia.
  - destruct s' as [| | | | |sl' skip' tgt']; try (destruct A; fail). simpl in B, C. subst.
    unfold sound_result. split; [|split; [|split]].
    + apply good_all_of_sel; auto; simpl; exact Hg.
    + destruct A as (_ & _ & _ & _ & _ & _ & _ & A8). simpl. rewrite A8. unfold slots_sem, no_slots. simpl.
      rewrite sem_sort_nil. reflexivity.
    + destruct A as (_ & _ & _ & _ & _ & A6 & _). simpl. rewrite A6. reflexivity.
    + destruct A as (_ & _ & _ & _ & _ & _ & A7 & _). simpl. rewrite A7. reflexivity.
Qed.

(* rebuilding a SELECT marker with new slots over a new skip target *)
Lemma reskip_sound env o s sl' skip' s' :
  apply_skip sl' skip' = Ok s' → wf_tree skip' → env_ok env skip' → slots_wf sl' (columns skip') →
  slots_sem sl' (sem_tree env skip') = sem_op o (sem_tree env s) →
  slots_cols sl' (columns skip') = op_columns o (columns s) →
  engine_of skip' = engine_of s → chains_good env skip' →
  sound_result env o s s'.
Proof.
  intros H Hwf Henv Hsl Hsem Hcols Heng Hch.
  destruct (apply_skip_good env sl' skip' s' Hwf Henv Hsl H) as (A & B & C).
  destruct s' as [| | | | |sl2 skip2 tgt2]; try (destruct A; fail). simpl in B, C. subst.
  pose proof A as (_ & _ & _ & _ & _ & A6 & A7 & A8).
  unfold sound_result. split; [|split; [|split]].
  - apply good_all_unfold. split; auto.
  - simpl. rewrite A8. exact Hsem.
  - simpl. rewrite A6. exact Hcols.
  - simpl. rewrite A7. exact Heng.
Qed.

Lemma good_sel_cols env sl skip tgt : good_sel env (SelM sl skip tgt) → columns (SelM sl skip tgt) = slots_cols sl (columns skip).
Proof. simpl. tauto. Qed.

Lemma slots_cols_sub sl cs : slots_wf sl cs → slots_cols sl cs ⊆ cs.
Proof. intros (_ & W2 & _). unfold slots_cols. destruct (s_proj sl); set_solver. Qed.

Lemma with_proj_same sl : with_proj sl (s_proj sl) = sl.
Proof. destruct sl; reflexivity. Qed.

(* ---- the rules of _append_unary_to_select, one operation at a time ---- *)
Section Rules.
  Variable env : lenv.
  Variables (sl : selslots) (skip tgt : tree).
  Hypothesis Hg : good_all env (SelM sl skip tgt).

  Let Hs : good_sel env (SelM sl skip tgt) := good_all_sel _ _ Hg.
  Let Hch : chains_good env skip := proj2 (proj1 (good_all_unfold env sl skip tgt) Hg).

  Lemma G_parts :
    wf_tree skip ∧ wf_tree tgt ∧ env_ok env skip ∧ env_ok env tgt ∧ slots_wf sl (columns skip) ∧
    columns tgt = slots_cols sl (columns skip) ∧ engine_of tgt = engine_of skip ∧
    sem_tree env tgt = slots_sem sl (sem_tree env skip).
  Proof. exact Hs. Qed.

End Rules.

Section Rules2.
  Variable env : lenv.
  Variables (sl : selslots) (skip tgt : tree).
  Hypothesis Hg : good_all env (SelM sl skip tgt).
  Let S := SelM sl skip tgt.
  Let Hch : chains_good env skip := proj2 (proj1 (good_all_unfold env sl skip tgt) Hg).
  Let GP := G_parts env sl skip tgt Hg.

  Lemma sem_S : sem_tree env S = slots_sem sl (sem_tree env skip).
  Proof. destruct GP as (_ & _ & _ & _ & _ & _ & _ & G8). exact G8. Qed.
  Lemma cols_S : columns S = slots_cols sl (columns skip).
  Proof. destruct GP as (_ & _ & _ & _ & _ & G6 & _). exact G6. Qed.
  Lemma eng_S : engine_of S = engine_of skip.
  Proof. destruct GP as (_ & _ & _ & _ & _ & _ & G7 & _). exact G7. Qed.

  (* nesting the whole select under a fresh marker with given slots *)
  Lemma nest_slots_sound o sl' s' :
    apply_skip sl' S = Ok s' → slots_wf sl' (columns S) →
    slots_sem sl' (sem_tree env S) = sem_op o (sem_tree env S) →
    slots_cols sl' (columns S) = op_columns o (columns S) →
    sound_result env o S s'.
  Proof.
    intros H Hw Hsem Hc. destruct GP as (G1 & G2 & G3 & G4 & G5 & G6 & G7 & G8).
    eapply (reskip_sound env o S sl' S s'); eauto; simpl; auto.
  Qed.

  (* nesting without the sort; the sort is re-applied outside *)
  Lemma nest_hoist_sound o s' :
    (match o with Sel _ | Calc _ _ => True | _ => False end) →
    op_wf o (columns S) → has_slice sl = false →
    nest_hoist_sort o sl skip = Ok s' → sound_result env o S s'.
  Proof.
    intros Hkind Ho Hsl H. destruct GP as (G1 & G2 & G3 & G4 & G5 & G6 & G7 & G8). unfold nest_hoist_sort in H.
    pose proof G5 as (W1 & W2 & W3).
    match type of H with (if negb (bool_decide ?P) then _ else _) = _ => destruct (bool_decide P) eqn:Eg end;
      cbn [negb] in H; [|discriminate].
    apply bool_decide_eq_true in Eg. fold (slots_cols sl (columns skip)) in Eg.
    destruct (apply_skip (with_sort sl []) skip) as [sub|] eqn:Esub; cbn [rbind] in H; [|discriminate].
    assert (Hw0 : slots_wf (with_sort sl []) (columns skip)).
    { split; [simpl; apply empty_subseteq|]. split; [exact W2|exact W3]. }
    destruct (apply_skip_good env _ skip sub G1 G3 Hw0 Esub) as (A & B & C).
    destruct sub as [| | | | |sl2 skip2 tgt2]; try (destruct A; fail). simpl in B, C. subst sl2 skip2.
    pose proof A as (A1 & A2 & A3 & A4 & A5 & A6 & A7 & A8).
    set (sub := SelM (with_sort sl []) skip tgt2) in *.
    destruct (finish_default o sub) as [t|] eqn:Ef; cbn [rbind] in H; [|discriminate].
    unfold finish_default in Ef. destruct (op_supported _ o); [|discriminate]. injection Ef as <-.
    assert (Hcsub : columns sub = columns S) by (simpl; rewrite A6, G6; reflexivity).
    refine (reskip_sound env o S (with_sort no_slots (s_sort sl)) (Un o sub) s' H _ _ _ _ _ _ _);
      [| | | | | |change (good_all env sub); unfold sub; apply good_all_unfold; split; [exact A|exact Hch]].
    - split; [change (op_wf o (columns sub)); rewrite Hcsub; exact Ho|exact A2].
    - simpl. exact A4.
    - assert (Hreq : op_required (Sort (s_sort sl)) ⊆ columns (Un o sub)).
      { change (columns (Un o sub)) with (op_columns o (columns sub)). rewrite Hcsub.
        unfold S. cbn [columns]. rewrite G6.
        destruct o; simpl; try (destruct Hkind; fail); set_solver. }
      unfold slots_wf, slice_ok. cbn [s_sort s_proj s_slice with_sort no_slots fst snd].
      split; [exact Hreq|]. split; [exact I|]. split; [reflexivity|exact I].
    - cbn [sem_tree]. change (sem_tree env sub) with (sem_tree env tgt2). rewrite A8.
      unfold S. cbn [sem_tree]. rewrite G8.
      unfold slots_sem. cbn [s_sort s_proj s_dedup s_slice with_sort no_slots fst snd].
      rewrite sem_sort_nil. rewrite !(sem_slice_trivial _ _ Hsl). change (sem_slice 0 None ?x) with x.
      set (X := sem_tree env skip).
      assert (E1 : sem_sort (s_sort sl) (if s_dedup sl then sem_dedup (match s_proj sl with Some cs => sem_proj cs X | None => X end)
                                          else match s_proj sl with Some cs => sem_proj cs X | None => X end)
                   = (if s_dedup sl then sem_dedup (match s_proj sl with Some cs => sem_proj cs (sem_sort (s_sort sl) X) | None => sem_sort (s_sort sl) X end)
                      else match s_proj sl with Some cs => sem_proj cs (sem_sort (s_sort sl) X) | None => sem_sort (s_sort sl) X end)).
      { unfold slots_cols in Eg. destruct (s_proj sl) as [ps|]; destruct (s_dedup sl);
          rewrite <- ?dedup_sort_commute, ?sort_proj_commute by auto; reflexivity. }
      destruct o; try (destruct Hkind; fail).
      + (* calculation *)
        simpl. simpl in Ho. destruct Ho as (O1 & O2 & O3).
        rewrite sort_calc_commute by (rewrite G6 in O2; set_solver). rewrite E1. reflexivity.
      + simpl. rewrite <- sel_sort_commute. rewrite E1. reflexivity.
    - cbn [slots_cols s_proj with_sort no_slots]. rewrite <- Hcsub. reflexivity.
    - simpl. rewrite A7. symmetry. exact G7.
  Qed.

  Lemma rule_dedup s' :
    append_unary_sel Dedup S = Ok s' → sound_result env Dedup S s'.
  Proof.
    intros H. destruct GP as (G1 & G2 & G3 & G4 & G5 & G6 & G7 & G8). cbn [append_unary_sel S] in H.
    destruct (has_dedup sl) eqn:Ed.
    - injection H as <-. unfold sound_result. split; [exact Hg|]. split; [|split; reflexivity].
      unfold S. cbn [sem_tree sem_op]. rewrite !G8. symmetry. apply slots_dedup_idem. exact Ed.
    - destruct (has_slice sl) eqn:Es.
      + apply nest_slots_sound with (sl' := with_dedup no_slots true); auto.
        * unfold slots_wf, slice_ok. simpl. repeat split; try apply empty_subseteq; try lia.
        * unfold slots_sem. simpl. rewrite sem_sort_nil. reflexivity.
      + refine (reskip_sound env Dedup S (with_dedup sl true) skip s' H G1 G3 _ _ _ _ Hch).
        * exact G5.
        * rewrite sem_S. apply slots_dedup_add; auto.
        * rewrite cols_S. reflexivity.
        * rewrite eng_S. reflexivity.
  Qed.

  Lemma rule_sel p s' :
    op_wf (Sel p) (columns S) → append_unary_sel (Sel p) S = Ok s' → sound_result env (Sel p) S s'.
  Proof.
    intros Ho H. destruct GP as (G1 & G2 & G3 & G4 & G5 & G6 & G7 & G8). cbn [append_unary_sel S] in H.
    destruct (has_slice sl) eqn:Es; [apply nest_unary_sound; auto|].
    destruct (is_chain skip) eqn:Ec; [apply nest_hoist_sound; auto; exact I|].
    destruct (finish_apply (Sel p) skip) as [k|] eqn:Ek; cbn [rbind] in H; [|discriminate].
    simpl in Ho. rewrite G6 in Ho.
    assert (Hwfo : op_wf (Sel p) (columns skip)).
    { simpl. etransitivity; [exact Ho|]. apply slots_cols_sub. exact G5. }
    destruct (finish_apply_sem env skip (Sel p) k G1 G3 (or_intror Hwfo) Ek) as (K1 & K2 & K3 & K4 & K5).
    simpl in K3.
    refine (reskip_sound env (Sel p) S sl k s' H K2 K4 _ _ _ _ _).
    - rewrite K3. exact G5.
    - rewrite K1, sem_S. simpl. apply (slots_sel sl (columns skip)); auto.
    - rewrite K3, cols_S. reflexivity.
    - rewrite K5, eng_S. reflexivity.
    - eapply finish_apply_chains; eauto.
  Qed.

  Lemma rule_slice a b s' :
    op_wf (Slice a b) (columns S) → append_unary_sel (Slice a b) S = Ok s' → sound_result env (Slice a b) S s'.
  Proof.
    intros Ho H. destruct GP as (G1 & G2 & G3 & G4 & G5 & G6 & G7 & G8). cbn [append_unary_sel S] in H.
    destruct (slice_then (s_slice sl).1 (s_slice sl).2 a b) as [[na nb]|] eqn:Et; cbn [rbind] in H; [|discriminate].
    destruct G5 as (W1 & W2 & W3).
    refine (reskip_sound env (Slice a b) S (with_slice sl (na, nb)) skip s' H G1 G3 _ _ _ _ Hch).
    - split; [exact W1|]. split; [exact W2|]. simpl. apply slice_valid_iff. eapply slice_then_valid; eauto.
    - rewrite sem_S. simpl. eapply slots_slice; eauto.
    - rewrite cols_S. reflexivity.
    - rewrite eng_S. reflexivity.
  Qed.

  Lemma rule_sort ts s' :
    op_wf (Sort ts) (columns S) → append_unary_sel (Sort ts) S = Ok s' → sound_result env (Sort ts) S s'.
  Proof.
    intros Ho H. destruct GP as (G1 & G2 & G3 & G4 & G5 & G6 & G7 & G8). cbn [append_unary_sel S] in H.
    simpl in Ho. pose proof Ho as Ho1. rewrite G6 in Ho1.
    assert (Hnest : apply_skip (with_sort no_slots ts) S = Ok s' → sound_result env (Sort ts) S s').
    { intros H'. apply nest_slots_sound with (sl' := with_sort no_slots ts); auto.
      unfold slots_wf, slice_ok. simpl. repeat split; try exact Ho; try lia. }
    destruct (is_chain skip && negb (forallb (λ t : expr * bool, is_colref t.1) ts)) eqn:E15.
    { destruct (has_sort sl && negb (has_slice sl)); [discriminate|]. apply Hnest. exact H. }
    destruct (has_slice sl) eqn:Es.
    - apply Hnest. exact H.
    - destruct G5 as (W1 & W2 & W3).
      refine (reskip_sound env (Sort ts) S (with_sort sl (sort_then (s_sort sl) ts)) skip s' H G1 G3 _ _ _ _ Hch).
      + split; [|split; [exact W2|exact W3]]. cbn [s_sort with_sort].
        etransitivity; [apply sort_then_required|].
        pose proof (slots_cols_sub sl (columns skip) (conj W1 (conj W2 W3))). set_solver.
      + rewrite sem_S. simpl. apply (slots_sort sl (columns skip)); auto. exact (conj W1 (conj W2 W3)).
      + rewrite cols_S. reflexivity.
      + rewrite eng_S. reflexivity.
  Qed.
  Lemma rule_calc t e s' :
    op_wf (Calc t e) (columns S) → append_unary_sel (Calc t e) S = Ok s' →
    sound_result env (Calc t e) S s'.
  Proof.
    intros Ho H. pose proof GP as (G1 & G2 & G3 & G4 & G5 & G6 & G7 & G8).
    cbn [append_unary_sel S] in H.
    destruct (is_chain skip || bool_decide (t ∈ columns skip)) eqn:Eb.
    { destruct (has_sort sl && negb (has_slice sl)) eqn:Eh.
      - apply andb_true_iff in Eh as [_ Eh]. apply negb_true_iff in Eh. apply nest_hoist_sound; auto; exact I.
      - apply nest_unary_sound; auto. }
    apply orb_false_iff in Eb as [Ec Et]. apply bool_decide_eq_false in Et.
    destruct (finish_apply (Calc t e) skip) as [k|] eqn:Ek; cbn [rbind] in H; [|discriminate].
    clear GP. pose proof Ho as Ho0. simpl in Ho. rewrite G6 in Ho. destruct Ho as (O1 & O2 & O3).
    assert (Hwfo : op_wf (Calc t e) (columns skip)).
    { simpl. destruct G5 as (_ & W2 & _). unfold slots_cols in *. destruct (s_proj sl); repeat split; auto; set_solver. }
    destruct (finish_apply_sem env skip (Calc t e) k G1 G3 (or_intror Hwfo) Ek) as (K1 & K2 & K3 & K4 & K5).
    pose proof (sem_tree_dom env skip G1 G3) as Hdom.
    assert (Hsem : slots_sem (with_proj sl (match s_proj sl with Some ps => Some (ps ∪ {[t]}) | None => None end)) (sem_tree env k)
                   = sem_calc t e (slots_sem sl (sem_tree env skip))).
    { rewrite K1. simpl. apply (slots_calc sl (columns skip)); auto. }
    assert (Hwf' : slots_wf (with_proj sl (match s_proj sl with Some ps => Some (ps ∪ {[t]}) | None => None end)) (columns k)).
    { destruct G5 as (W1 & W2 & W3). rewrite K3. simpl. unfold slots_wf. cbn [s_sort s_proj s_slice with_proj].
      split; [set_solver|]. split; [|auto]. destruct (s_proj sl); auto. set_solver. }
    assert (Hcols : slots_cols (with_proj sl (match s_proj sl with Some ps => Some (ps ∪ {[t]}) | None => None end)) (columns k)
                    = op_columns (Calc t e) (columns S)).
    { simpl. rewrite G6, K3. unfold slots_cols. cbn [s_proj with_proj]. destruct (s_proj sl); reflexivity. }
    assert (Hchk : chains_good env k) by (eapply finish_apply_chains; eauto).
    destruct (has_proj sl) eqn:Ep.
    - unfold has_proj in Ep. destruct (s_proj sl) as [ps|] eqn:Eps; [|discriminate].
      assert (EE : columns (SelM sl skip tgt) ∪ {[t]} = ps ∪ {[t]}).
      { simpl. rewrite G6. unfold slots_cols. rewrite Eps. reflexivity. }
      rewrite EE in H.
      eapply reskip_sound; eauto. simpl. rewrite G8. exact Hsem. simpl. congruence.
    - unfold has_proj in Ep. destruct (s_proj sl) as [ps|] eqn:Eps; [discriminate|].
      rewrite <- Eps, with_proj_same in Hsem, Hwf', Hcols.
      eapply reskip_sound; eauto. simpl. rewrite G8. exact Hsem. simpl. congruence.
  Qed.
End Rules2.

Section RuleProj.
  Variable env : lenv.
  Variables (sl : selslots) (skip tgt : tree).
  Hypothesis Hg : good_all env (SelM sl skip tgt).
  Let S := SelM sl skip tgt.
  Let Hch : chains_good env skip := proj2 (proj1 (good_all_unfold env sl skip tgt) Hg).
  Let GP := G_parts env sl skip tgt Hg.

  Definition P_branch (b : tree) : Prop :=
    ∀ o s1, good_all env b → op_wf o (columns b) → append_unary_sel o b = Ok s1 → sound_result env o b s1.

  (* operation.apply(branch) for a projection *)
  Lemma branch_proj cs b b' :
    P_branch b → good_all env b → cs ⊆ columns b →
    (do o' <- begin_apply (Proj cs) (columns b); match o' with Ident => Ok b | _ => append_unary_sel o' b end) = Ok b' →
    good_all env b' ∧ sem_tree env b' = sem_proj cs (sem_tree env b) ∧ columns b' = cs ∧ engine_of b' = engine_of b.
  Proof.
    intros HP Hb Hc H. simpl in H.
    destruct (bool_decide (cs = columns b)) eqn:E1; cbn [rbind] in H.
    - injection H as <-. apply bool_decide_eq_true in E1. subst cs. repeat split; auto.
      symmetry. apply sem_proj_id.
      pose proof (good_all_sel _ _ Hb) as Hs. destruct b as [| | | | |sl0 k0 t0]; try (destruct Hs; fail).
      destruct Hs as (B1 & B2 & B3 & B4 & _). simpl. apply sem_tree_dom; auto.
    - rewrite bool_decide_eq_true_2 in H by auto. cbn [negb rbind] in H.
      destruct (HP (Proj cs) b' Hb Hc H) as (R1 & R2 & R3 & R4). auto.
  Qed.

  Lemma rule_proj cs s' :
    (∀ l r, skip = Bin Chain l r → P_branch l ∧ P_branch r) →
    op_wf (Proj cs) (columns S) → append_unary_sel (Proj cs) S = Ok s' → sound_result env (Proj cs) S s'.
  Proof.
    intros IH Ho H. destruct GP as (G1 & G2 & G3 & G4 & G5 & G6 & G7 & G8). cbn [append_unary_sel S] in H.
    simpl in Ho. pose proof Ho as Ho1. rewrite G6 in Ho1.
    pose proof G5 as (W1 & W2 & W3).
    match type of H with (if ?c then _ else _) = _ => destruct c eqn:EF end.
    { (* the sort needs a column the projection drops: keep the query as a subquery (only if sliced) *)
      destruct (has_slice sl) eqn:Es; [|discriminate].
      apply (nest_slots_sound env sl skip tgt Hg (Proj cs) (with_proj no_slots (Some cs)) s' H).
      - unfold slots_wf, slice_ok. simpl. repeat split; try apply empty_subseteq; try exact Ho; try lia.
      - unfold slots_sem. simpl. rewrite sem_sort_nil. reflexivity.
      - reflexivity. }
    (* otherwise the sort's columns survive where they are needed *)
    assert (Hsort : has_dedup sl = false → is_chain skip = true → op_required (Sort (s_sort sl)) ⊆ cs).
    { intros Hd Hc. rewrite Hd, Hc, andb_true_r in EF. apply andb_false_iff in EF as [E|E].
      - unfold has_sort in E. destruct (s_sort sl); [simpl; apply empty_subseteq|discriminate].
      - apply negb_false_iff, bool_decide_eq_true in E. exact E. }
    assert (Hvis : has_dedup sl = true → op_required (Sort (s_sort sl)) ⊆ slots_cols sl (columns skip)).
    { intros Hd. rewrite Hd in EF. apply andb_false_iff in EF as [E|E]; [apply andb_false_iff in E as [E|E]|].
      - unfold has_sort in E. destruct (s_sort sl); [simpl; apply empty_subseteq|discriminate].
      - apply negb_false_iff, bool_decide_eq_true in E. etransitivity; [exact E|exact Ho1].
      - apply negb_false_iff, bool_decide_eq_true in E.
        change (columns (SelM sl skip tgt)) with (columns tgt) in E. rewrite G6 in E. exact E. }
    destruct (has_dedup sl) eqn:Ed.
    - (* deduplication upstream: nested subquery without sort and slice *)
      destruct (apply_skip (with_slice (with_sort sl []) (0, None)) skip) as [sub|] eqn:Esub; cbn [rbind] in H; [|discriminate].
      assert (Hw0 : slots_wf (with_slice (with_sort sl []) (0, None)) (columns skip)).
      { unfold slots_wf, slice_ok. simpl. repeat split; try apply empty_subseteq; try exact W2; try lia. }
      destruct (apply_skip_good env _ skip sub G1 G3 Hw0 Esub) as (A & B & C).
      destruct sub as [| | | | |sl2 skip2 tgt2]; try (destruct A; fail). simpl in B, C. subst sl2 skip2.
      pose proof A as (A1 & A2 & A3 & A4 & A5 & A6 & A7 & A8).
      set (sub := SelM (with_slice (with_sort sl []) (0, None)) skip tgt2) in *.
      assert (Hcsub : columns sub = slots_cols sl (columns skip)) by (simpl; rewrite A6; reflexivity).
      refine (reskip_sound env (Proj cs) S (Slots (s_sort sl) (Some cs) false (s_slice sl)) sub s' H _ _ _ _ _ _ _);
        [| | | | | |unfold sub; change (good_all env (SelM (with_slice (with_sort sl []) (0, None)) skip tgt2));
                    apply good_all_unfold; split; [exact A|exact Hch]].
      + simpl. exact A2.
      + simpl. exact A4.
      + rewrite Hcsub. split; [|split; [exact Ho1|exact W3]]. cbn [s_sort]. apply Hvis. reflexivity.
      + change (sem_tree env sub) with (sem_tree env tgt2). rewrite A8. unfold S. cbn [sem_tree sem_op]. rewrite G8.
        apply (slots_proj_dedup sl (columns skip)); auto.
      + reflexivity.
      + simpl. rewrite A7. symmetry. exact G7.
    - destruct (is_chain skip) eqn:Ec.
      + (* compound select: the projection goes into the operands of the chain *)
        destruct skip as [| |[|] l r| | |]; try discriminate.
        destruct (IH l r eq_refl) as [Pl Pr]. simpl in Hch. destruct Hch as [Gl Gr].
        simpl in G1. destruct G1 as (Cc & Ce & Wl & Wr).
        assert (Hcl : cs ⊆ columns l).
        { etransitivity; [exact Ho1|]. apply (slots_cols_sub sl (columns (Bin Chain l r)) G5). }
        assert (Hcr : cs ⊆ columns r) by (rewrite <- Cc; exact Hcl).
        match type of H with rbind ?x _ = _ => destruct x as [l'|] eqn:El end; cbn [rbind] in H; [|discriminate].
        match type of H with rbind ?x _ = _ => destruct x as [r'|] eqn:Er end; cbn [rbind] in H; [|discriminate].
        destruct (branch_proj cs l l' Pl Gl Hcl El) as (L1 & L2 & L3 & L4).
        destruct (branch_proj cs r r' Pr Gr Hcr Er) as (R1 & R2 & R3 & R4).
        pose proof (good_all_sel _ _ L1) as Ls. pose proof (good_all_sel _ _ R1) as Rs.
        assert (Wl' : wf_tree l' ∧ env_ok env l').
        { destruct l' as [| | | | |a b c]; try (destruct Ls; fail). destruct Ls as (_ & X & _ & Y & _). simpl. auto. }
        assert (Wr' : wf_tree r' ∧ env_ok env r').
        { destruct r' as [| | | | |a b c]; try (destruct Rs; fail). destruct Rs as (_ & X & _ & Y & _). simpl. auto. }
        refine (reskip_sound env (Proj cs) S (with_proj sl None) (Bin Chain l' r') s' H _ _ _ _ _ _ _).
        * simpl. repeat split; try tauto; congruence.
        * simpl. tauto.
        * simpl. rewrite L3. split; [|split; [exact I|exact W3]]. cbn [s_sort with_proj]. apply Hsort; reflexivity.
        * cbn [sem_tree sem_bop]. rewrite L2, R2. unfold S. cbn [sem_tree sem_op]. rewrite G8. cbn [sem_tree sem_bop].
          unfold sem_chain. unfold sem_proj at 1 2. rewrite <- map_app. fold (sem_proj cs).
          unfold slots_sem. cbn [s_sort s_proj s_dedup s_slice with_proj]. unfold has_dedup in Ed. rewrite Ed.
          rewrite <- sem_slice_proj. f_equal.
          change (map (restrict cs) (sem_tree env l ++ sem_tree env r)) with (sem_proj cs (sem_tree env l ++ sem_tree env r)).
          rewrite (sort_proj_commute _ cs) by (apply Hsort; reflexivity).
          destruct (s_proj sl) as [ps0|] eqn:Ep; auto. symmetry. apply sem_proj_proj.
          unfold slots_cols in Ho1. rewrite Ep in Ho1. exact Ho1.
        * simpl. rewrite L3. reflexivity.
        * simpl. rewrite L4. symmetry. exact G7.
        * simpl. auto.
      + (* ordinary case: the projection slot *)
        assert (H' : apply_skip (with_proj sl (Some cs)) skip = Ok s').
        { destruct skip as [| |[|] l r| | |]; try discriminate; exact H. }
        refine (reskip_sound env (Proj cs) S (with_proj sl (Some cs)) skip s' H' G1 G3 _ _ _ _ Hch).
        * split; [exact W1|]. split; [|exact W3]. cbn [s_proj with_proj].
          etransitivity; [exact Ho1|]. apply slots_cols_sub. exact G5.
        * unfold S. cbn [sem_tree sem_op]. rewrite G8. apply (slots_proj_simple sl (columns skip)); auto.
        * reflexivity.
        * symmetry. exact G7.
  Qed.
End RuleProj.

(* ---- _append_unary_to_select is sound for every operation and every conformed relation ---- *)
Theorem append_unary_sel_sound env : ∀ s, P_branch env s.
Proof.
  assert (Q : ∀ s, P_branch env s ∧ match s with Bin Chain l r => P_branch env l ∧ P_branch env r | _ => True end).
  { induction s as [n e cs mn mx|o t IH|b l IHl r IHr|n t IH|d t IH|sl sk IHk t IHt].
    - split; auto. intros o s1 _ _ H. discriminate.
    - split; auto. intros o' s1 _ _ H. discriminate.
    - split.
      + intros o s1 _ _ H. discriminate.
      + destruct b; auto. split; [apply IHl|apply IHr].
    - split; auto. intros o s1 _ _ H. discriminate.
    - split; auto. intros o s1 _ _ H. discriminate.
    - split; auto. intros o s1 Hg Ho H.
      destruct o as [t0 e0| |cs|p|a b|ts|].
      + eapply rule_calc; eauto.
      + eapply rule_dedup; eauto.
      + eapply rule_proj; eauto. intros l r ->. apply IHk.
      + eapply rule_sel; eauto.
      + eapply rule_slice; eauto.
      + eapply rule_sort; eauto.
      + destruct Ho. }
  intros s. apply Q.
Qed.
