(* C20: ill-formed requests are rejected by the factory call itself, whatever the options. *)
From DR Require Import Model.Reach Proofs.SliceLaws.
From Coq Require Import Lia.
Local Open Scope Z_scope.

(* the operation's own checks run before any preferred-engine logic: an error there is the
   result of apply for every combination of preferred_engine/backtrack/transfer/require *)
Theorem begin_error_is_apply_error r t op e :
  req_begin r t (o_pref op) = Err e → apply_full r t op = Err e.
Proof. intros H. unfold apply_full, apply_with. rewrite H. reflexivity. Qed.

Lemma begin_apply_error_req o t pref e :
  begin_apply o (columns t) = Err e → req_begin (RUn o) t pref = Err e.
Proof. intros H. unfold req_begin. rewrite H. reflexivity. Qed.

Theorem calc_missing_column_rejected tag e t op :
  ¬ (cols_e e ⊆ columns t) → apply_full (RUn (Calc tag e)) t op = Err ColumnError.
Proof.
  intros H. apply begin_error_is_apply_error, begin_apply_error_req. simpl.
  rewrite bool_decide_eq_false_2 by auto. reflexivity.
Qed.

Theorem calc_existing_tag_rejected tag e t op :
  tag ∈ columns t → apply_full (RUn (Calc tag e)) t op = Err ColumnError.
Proof.
  intros H. apply begin_error_is_apply_error, begin_apply_error_req. simpl.
  destruct (bool_decide (cols_e e ⊆ columns t)); simpl; auto.
  rewrite bool_decide_eq_true_2 by auto. reflexivity.
Qed.

Theorem selection_missing_column_rejected p t op :
  as_trivial p ≠ Some true → ¬ (cols_p p ⊆ columns t) → apply_full (RUn (Sel p)) t op = Err ColumnError.
Proof.
  intros Ht H. apply begin_error_is_apply_error, begin_apply_error_req. simpl.
  destruct (as_trivial p) as [[|]|]; try congruence; rewrite bool_decide_eq_false_2 by auto; reflexivity.
Qed.

Theorem projection_missing_column_rejected ps t op :
  ¬ (ps ⊆ columns t) → apply_full (RUn (Proj ps)) t op = Err ColumnError.
Proof.
  intros H. apply begin_error_is_apply_error, begin_apply_error_req. simpl.
  rewrite bool_decide_eq_false_2 by (intros ->; apply H; reflexivity).
  rewrite bool_decide_eq_false_2 by auto. reflexivity.
Qed.

Theorem sort_missing_column_rejected ts t op e asc :
  In (e, asc) ts → ¬ (cols_e e ⊆ columns t) → apply_full (RUn (Sort ts)) t op = Err ColumnError.
Proof.
  intros Hin H. apply begin_error_is_apply_error, begin_apply_error_req. simpl.
  destruct ts as [|t0 ts']; [destruct Hin|].
  assert (E : sort_cols_ok (t0 :: ts') (columns t) = false).
  { unfold sort_cols_ok. apply not_true_is_false. intros Hall. rewrite forallb_forall in Hall.
    specialize (Hall _ Hin). apply bool_decide_eq_true in Hall. auto. }
  rewrite E. reflexivity.
Qed.

Theorem join_predicate_missing_column_rejected p f lhs t op :
  ¬ (cols_p p ∖ columns f ⊆ columns t) →
  (∃ e, apply_full (RJoin (JSpec p ∅ None) f lhs) t op = Err e ∧ e = ColumnError).
Proof.
  intros H. exists ColumnError. split; auto. apply begin_error_is_apply_error. unfold req_begin.
  destruct (common_columns _ _ _) as [c|e] eqn:Ec; cbn [rbind].
  - rewrite bool_decide_eq_false_2; [reflexivity|]. unfold pjoin_required. simpl. set_solver.
  - unfold common_columns in Ec. simpl in Ec.
    match type of Ec with (if ?c then _ else _) = _ => destruct c end; [discriminate|].
    injection Ec as <-. reflexivity.
Qed.

(* slices: negative or reversed bounds are rejected when the Slice is constructed; a step by
   Relation.__getitem__ *)
Theorem bad_slice_rejected a b : (a < 0 ∨ match b with Some e => e < a | None => False end) →
  construct (Slice a b) = Err ValueError.
Proof.
  intros H. simpl. unfold mk_slice.
  assert (E : slice_post_init a b = Err ValueError).
  { destruct (slice_post_init a b) as [[]|e] eqn:E.
    - apply slice_valid_iff in E. destruct b; lia.
    - unfold slice_post_init in E.
      repeat match type of E with
             | context [if ?c then _ else _] => destruct c
             | context [match ?x with Some _ => _ | None => _ end] => destruct x
             end; congruence. }
  rewrite E. reflexivity.
Qed.

Theorem stepped_slice_rejected a b s t : s ≠ None → s ≠ Some 1 → getitem a b s t = Err TypeError.
Proof.
  intros H1 H2. unfold getitem. rewrite !bool_decide_eq_false_2 by auto. reflexivity.
Qed.

(* chains *)
Theorem chain_engine_mismatch_rejected l r : engine_of l ≠ engine_of r → chain_apply_e l r = Err EngineError.
Proof. intros H. unfold chain_apply_e, engine_eqb. rewrite bool_decide_eq_false_2 by auto. reflexivity. Qed.

Theorem chain_column_mismatch_rejected l r :
  engine_of l = engine_of r → columns l ≠ columns r → chain_apply_e l r = Err ColumnError.
Proof.
  intros He H. unfold chain_apply_e, engine_eqb. rewrite bool_decide_eq_true_2 by auto. simpl.
  rewrite bool_decide_eq_false_2 by auto. reflexivity.
Qed.

(* unsupported expressions: the node is never created *)
Theorem unsupported_operation_rejected o t :
  op_supported (ekind_of (engine_of t)) o = false → finish_default o t = Err EngineError.
Proof. intros H. unfold finish_default. rewrite H. reflexivity. Qed.

Theorem unsupported_join_predicate_rejected cf p c l r :
  is_join_identity l = false → is_join_identity r = false → engine_of l = engine_of r →
  supp_p (ekind_of (engine_of l)) p = false → join_finish cf p c l r = Err EngineError.
Proof.
  intros H1 H2 He Hs. unfold join_finish. rewrite H1, H2. unfold engine_eqb.
  rewrite bool_decide_eq_true_2 by auto. simpl. rewrite Hs. reflexivity.
Qed.
