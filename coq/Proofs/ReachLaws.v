(* Structural facts about what the factory calls return (C14). *)
From DR Require Import Model.Reach Proofs.PredLaws Proofs.SliceLaws Proofs.SortLaws Proofs.SemLaws
  Proofs.Metadata Proofs.Simplify Proofs.FinishApply Proofs.IterExecLaws Proofs.BuildLaws.
From Coq Require Import Lia.
Local Open Scope Z_scope.

Lemma conform_select sl k t : conform (SelM sl k t) = Ok (SelM sl k t).
Proof. reflexivity. Qed.

Definition api_relation (t : tree) : Prop :=
  ekind_of (engine_of t) = KIter ∨ is_select t = true.

Lemma append_ident t : api_relation t → append_unary_e (RUn Ident) t = Ok t.
Proof.
  unfold append_unary_e. intros [H|H].
  - rewrite H. apply finish_apply_ident.
  - destruct t; try discriminate. simpl. destruct (ekind_of _); reflexivity.
Qed.

Lemma engine_eqb_refl e : engine_eqb e e = true.
Proof. unfold engine_eqb. apply bool_decide_eq_true. reflexivity. Qed.

(* a request whose _begin_apply answers Identity returns the relation itself, whatever the options *)
Lemma apply_noop o t op :
  api_relation t → begin_apply o (columns t) = Ok Ident → apply_full (RUn o) t op = Ok t.
Proof.
  intros Ha Hb. unfold apply_full, apply_with, req_begin. rewrite Hb. cbn [rbind].
  rewrite engine_eqb_refl. apply append_ident. auto.
Qed.

Theorem noop_projection_returns_self t op :
  api_relation t → apply_full (RUn (Proj (columns t))) t op = Ok t.
Proof.
  intros Ha. apply apply_noop; auto. simpl. rewrite bool_decide_eq_true_2; auto.
Qed.

Theorem noop_sort_returns_self t op : api_relation t → apply_full (RUn (Sort [])) t op = Ok t.
Proof. intros Ha. apply apply_noop; auto. Qed.

Theorem noop_slice_returns_self t op : api_relation t → apply_full (RUn (Slice 0 None)) t op = Ok t.
Proof. intros Ha. apply apply_noop; auto. Qed.

Theorem transfer_to_own_engine_returns_self t :
  api_relation t → transfer_e (engine_of t) t = Ok t.
Proof.
  intros Ha. unfold transfer_e, sql_transfer, transfer_generic.
  rewrite engine_eqb_refl. destruct Ha as [H|H].
  - rewrite H. reflexivity.
  - destruct (ekind_of (engine_of t)); [reflexivity|]. cbn [rbind]. destruct t; try discriminate. reflexivity.
Qed.

(* iteration-engine programs: every node is well-formed, no placeholder is ever a node *)
Fixpoint no_placeholder (t : tree) : Prop :=
  match t with
  | Leaf _ _ _ _ _ => True
  | Un o t' => o ≠ Ident ∧ no_placeholder t'
  | Bin _ l r => no_placeholder l ∧ no_placeholder r
  | Mat _ t' | Xfer _ t' => no_placeholder t'
  | SelM _ k t' => no_placeholder t' ∧ no_placeholder k
  end.

Theorem iteration_programs_well_formed env p t :
  prog_ok env p → build_iter p = Ok t → wf_tree t.
Proof. intros Hok Hb. destruct (build_iter_built env p t Hok Hb) as (_ & H & _). exact H. Qed.

Lemma wf_tree_no_ident o t : wf_tree (Un o t) → o ≠ Ident.
Proof. simpl. intros [H _] ->. exact H. Qed.
