(* Programs of factory calls (iteration engine): the tree the library builds denotes the
   specification of the program, is well-formed, and inherits key-determinedness. *)
From DR Require Import Model.IterExec Proofs.PredLaws Proofs.SliceLaws Proofs.SortLaws Proofs.SemLaws
  Proofs.Metadata Proofs.Simplify Proofs.FinishApply Proofs.IterExecLaws.
From Coq Require Import Lia.
Local Open Scope Z_scope.

(* ---- key-determinedness: boolean (Spec) vs. the form used by the dict model ---- *)
Lemma key_filter_eq_iff (r1 r2 : row) :
  filter (fun kv => is_key kv.1 = true) r1 = filter (fun kv => is_key kv.1 = true) r2
  <-> (forall k, is_key k = true -> r1 !! k = r2 !! k).
Proof.
  assert (E : forall (m : row) k v, is_key k = true -> (m !! k = Some v <-> filter (fun kv => is_key kv.1 = true) m !! k = Some v)).
  { intros m k v Hk. rewrite map_filter_lookup_Some. simpl. split; [auto|intros [? _]; auto]. }
  split.
  - intros H k Hk. apply option_eq. intros v. rewrite (E r1 k v Hk), (E r2 k v Hk), H. reflexivity.
  - intros H. apply map_eq. intros k. apply option_eq. intros v.
    rewrite !map_filter_lookup_Some. simpl. split; intros [E' Hk]; split; auto.
    + rewrite <- (H k Hk); auto.
    + rewrite (H k Hk); auto.
Qed.

Lemma keyof_eq_iff cs (r1 r2 : row) :
  dom r1 = cs -> dom r2 = cs ->
  (keyof (key_columns cs) r1 = keyof (key_columns cs) r2 <-> key_agree r1 r2 = true).
Proof.
  intros D1 D2. unfold key_agree. rewrite bool_decide_eq_true, key_filter_eq_iff.
  assert (Hk : forall k, In k (key_columns cs) <-> k ∈ cs /\ is_key k = true).
  { intros k. unfold key_columns. rewrite filter_In, <- elem_of_list_In, elem_of_elements. tauto. }
  split.
  - intros H k Hi. destruct (decide (k ∈ cs)) as [Hc|Hc].
    + assert (Hin : In k (key_columns cs)) by (apply Hk; auto).
      assert (G : forall ks, keyof ks r1 = keyof ks r2 -> In k ks -> default 0 (r1 !! k) = default 0 (r2 !! k)).
      { induction ks as [|x ks IHk]; simpl; [tauto|]. intros [= E1 E2] [->|Hin']; auto. }
      specialize (G _ H Hin).
      assert (is_Some (r1 !! k)) as [v1 E1] by (apply elem_of_dom; rewrite D1; auto).
      assert (is_Some (r2 !! k)) as [v2 E2] by (apply elem_of_dom; rewrite D2; auto).
      rewrite E1, E2 in *. simpl in G. subst. reflexivity.
    + rewrite (proj1 (not_elem_of_dom r1 k)) by (rewrite D1; auto).
      rewrite (proj1 (not_elem_of_dom r2 k)) by (rewrite D2; auto). reflexivity.
  - intros G.
    assert (G2 : forall ks, (forall k, In k ks -> is_key k = true) -> keyof ks r1 = keyof ks r2).
    { induction ks as [|x ks IHk]; simpl; auto. intros Hall. rewrite (G x), IHk; auto. }
    apply G2. intros k Hin. apply Hk in Hin. tauto.
Qed.

Lemma key_determined_kd cs (l : rows) :
  rows_dom cs l -> key_determined l = true -> kd_rows (key_columns cs) l.
Proof.
  unfold key_determined, kd_rows, rows_dom. intros Hd H r1 r2 H1 H2 Hk.
  rewrite forallb_forall in H. specialize (H r1 H1). rewrite forallb_forall in H. specialize (H r2 H2).
  rewrite Forall_forall in Hd.
  apply (keyof_eq_iff cs r1 r2) in Hk; [|apply Hd, elem_of_list_In; auto..].
  rewrite Hk in H. simpl in H. apply row_eqb_spec. auto.
Qed.

(* ---- _finish_apply preserves key-determinedness of the deduplications below ---- *)
Lemma simplify_new_not_dedup o up m : simplify o up = SNew m -> m <> Dedup.
Proof.
  destruct o; simpl; try discriminate.
  - destruct up; try discriminate. destruct (bool_decide _); try discriminate. all: intros [= <-]; discriminate.
  - destruct up; try discriminate. intros [= <-]; discriminate.
  - destruct (slice_begin _ _); try discriminate;
      (destruct up; try discriminate; destruct (slice_then _ _ _ _) as [[]|]; try discriminate; intros [= <-]; discriminate).
  - destruct terms; try discriminate. destruct up; try discriminate. intros [= <-]; discriminate.
Qed.

Lemma finish_apply_kd env : forall t o t',
  finish_apply o t = Ok t' -> kd_tree env t ->
  (o = Dedup -> kd_rows (key_columns (columns t)) (sem_tree env t)) -> kd_tree env t'.
Proof.
  assert (D : forall o t t', finish_default o t = Ok t' -> kd_tree env t ->
              (o = Dedup -> kd_rows (key_columns (columns t)) (sem_tree env t)) -> kd_tree env t').
  { unfold finish_default. intros o t t'. destruct (op_supported _ o); [|discriminate].
    intros [= <-] Hk Hd. simpl. split; auto. destruct o; auto. }
  induction t as [n e cs mn mx|up t IH|b l _ r _|n t _|d t _|sl sk _ t _]; intros o t' Hf Hk Hd;
    cbn [finish_apply] in Hf;
    (destruct (is_noop o (columns _)); [injection Hf as <-; exact Hk|]); eauto.
  destruct (simplify o up) as [| |m|err] eqn:Es; eauto.
  - injection Hf as <-. exact Hk.
  - apply (IH m t' Hf); [apply Hk|]. intros ->. exfalso. eapply simplify_new_not_dedup; eauto.
  - discriminate.
Qed.

(* ---- programs ---- *)
Fixpoint prog_cols (p : prog) : gset tag :=
  match p with
  | PLeaf _ _ cs _ _ => cs
  | PUn o p' => op_columns o (prog_cols p')
  | PItem _ _ _ p' | PMat _ p' | PXfer _ p' => prog_cols p'
  | PChain l r => prog_cols l
  end.

Fixpoint prog_ok (env : lenv) (p : prog) : Prop :=
  match p with
  | PLeaf n e cs mn mx =>
      ekind_of e = KIter ∧ rows_dom cs (env n) ∧ 0 <= mn ∧ mn <= Z.of_nat (length (env n)) ∧
      match mx with Some m => Z.of_nat (length (env n)) <= m | None => True end
  | PUn o p' => (match o with Sel q => cols_p q ⊆ prog_cols p' | Ident => False | _ => True end) ∧ prog_ok env p'
  | PItem _ _ _ p' | PMat _ p' => prog_ok env p'
  | PXfer d p' => ekind_of d = KIter ∧ prog_ok env p'
  | PChain l r => prog_ok env l ∧ prog_ok env r
  end.

Definition built env (p : prog) (t : tree) : Prop :=
  sem_tree env t = spec_prog env p ∧ wf_tree t ∧ env_ok env t ∧ iter_ok t ∧ columns t = prog_cols p ∧
  (kd_prog env p = true -> kd_tree env t) ∧ ekind_of (engine_of t) = KIter.

Lemma xfer_simplify_sem env d : forall t t1,
  xfer_simplify d t = Some t1 -> wf_tree t -> env_ok env t -> iter_ok t -> kd_tree env t ->
  sem_tree env t1 = sem_tree env t ∧ wf_tree t1 ∧ env_ok env t1 ∧ iter_ok t1 ∧ columns t1 = columns t ∧
  kd_tree env t1 ∧ ekind_of (engine_of t1) = KIter.
Proof.
  induction t as [n e cs mn mx|up t IH|b l _ r _|n t _|d' t IH|sl sk _ t IH]; simpl; intros t1 H Hwf Henv Hit Hkd;
    try discriminate.
  - destruct Hwf as [Hne Hwf]. destruct Hit as [Hk Hit].
    destruct (engine_eqb d (engine_of t)).
    + injection H as <-. auto 10.
    + apply IH; auto.
  - apply IH; auto.
Qed.

Lemma finish_apply_ident t : finish_apply Ident t = Ok t.
Proof. destruct t; reflexivity. Qed.

(* unary factory call: construct, _begin_apply, _finish_apply *)
Lemma apply_simple_built env o o' t t' (l := sem_tree env t) :
  wf_tree t -> env_ok env t -> iter_ok t -> ekind_of (engine_of t) = KIter ->
  (match o with Sel q => cols_p q ⊆ columns t | Ident => False | _ => True end) ->
  construct o = Ok o' -> apply_simple o' t = Ok t' ->
  sem_tree env t' = sem_op o l ∧ wf_tree t' ∧ env_ok env t' ∧ columns t' = op_columns o (columns t) ∧
  engine_of t' = engine_of t ∧
  (kd_tree env t -> (o = Dedup -> kd_rows (key_columns (columns t)) l) -> kd_tree env t').
Proof.
  intros Hwf Henv Hit Hkind Hsel Hc Ha. unfold apply_simple in Ha.
  destruct (begin_apply o' (columns t)) as [o''|] eqn:Eb; [|discriminate]. cbn [rbind] in Ha.
  pose proof (sem_tree_dom env t Hwf Henv) as Hdom.
  (* what construct did *)
  assert (Hsem : sem_op o' l = sem_op o l ∧ op_columns o' (columns t) = op_columns o (columns t) ∧
                 (match o' with Calc _ e => cols_e e ≠ ∅ | Slice a b => slice_ok a b | Ident => False | _ => True end) ∧
                 (match o' with Sel p => cols_p p ⊆ columns t | _ => True end) ∧ (o = Dedup <-> o' = Dedup)).
  { destruct o; simpl in Hc.
    - destruct (bool_decide (cols_e e = ∅)) eqn:E; [discriminate|]. injection Hc as <-.
      apply bool_decide_eq_false in E. repeat split; auto; try discriminate; try (intros HH; discriminate HH).
    - injection Hc as <-. repeat split; auto.
    - injection Hc as <-. repeat split; auto; try discriminate; try (intros HH; discriminate HH).
    - injection Hc as <-. repeat split; auto; try discriminate; try (intros HH; discriminate HH).
      + apply sem_sel_ext. intros r. apply selection_norm_holds.
      + etransitivity; [apply selection_norm_cols|auto].
    - destruct (mk_slice start stop) as [[]|] eqn:E; [|discriminate]. injection Hc as <-.
      apply mk_slice_ok in E as [_ V]. apply slice_valid_iff in V. destruct V as [V1 V2]. repeat split; auto; try discriminate; try (intros HH; discriminate HH).
    - injection Hc as <-. repeat split; auto; try discriminate; try (intros HH; discriminate HH).
    - destruct Hsel. }
  destruct Hsem as (S1 & S2 & S3 & S4 & S5).
  destruct (begin_apply_wf o' (columns t) o'' S3 Eb) as [[-> Hid]|[-> Hwfo]].
  - (* identity *)
    assert (t' = t) by (rewrite finish_apply_ident in Ha; congruence). subst t'.
    destruct (Hid l Hdom S4) as [I1 I2]. rewrite <- S1, <- S2, I1, I2. repeat split; auto.
  - destruct (finish_apply_sem env t o' t' Hwf Henv (or_intror Hwfo) Ha) as (F1 & F2 & F3 & F4 & F5).
    rewrite <- S1, <- S2. repeat split; auto.
    intros Hk Hd. eapply finish_apply_kd; eauto. intros E. apply Hd. apply S5. exact E.
Qed.

Theorem build_iter_built env : forall p t, prog_ok env p -> build_iter p = Ok t -> built env p t.
Proof.
  induction p as [n e cs mn mx|o p IH|a b s p IH|l IHl r IHr|n p IH|d p IH]; intros t Hok Hb; cbn [build_iter] in Hb.
  - (* leaf *)
    destruct Hok as (Hk & Hd & H0 & H1 & H2). unfold leaf_make in Hb.
    assert (t = Leaf n e cs mn mx).
    { destruct mx as [m|]; [destruct (Z.ltb_spec m mn)|]; congruence. }
    subst t. unfold built. simpl. repeat split; auto.
    destruct mx; auto. lia.
  - (* unary factory call *)
    destruct Hok as [Hsel Hok]. destruct (build_iter p) as [t0|] eqn:E0; [|discriminate]. cbn [rbind] in Hb.
    destruct (construct o) as [o'|] eqn:Ec; [|discriminate]. cbn [rbind] in Hb.
    destruct (IH t0 Hok eq_refl) as (B1 & B2 & B3 & B4 & B5 & B6 & B7).
    assert (Hsel' : match o with Sel q => cols_p q ⊆ columns t0 | Ident => False | _ => True end)
      by (destruct o; auto; rewrite B5; auto).
    destruct (apply_simple_built env o o' t0 t B2 B3 B4 B7 Hsel' Ec Hb) as (A1 & A2 & A3 & A4 & A5 & A6).
    unfold built. cbn [spec_prog prog_cols kd_prog]. rewrite A1, B1, A4, B5, A5.
    assert (Hit : iter_ok t).
    { (* the result is built from t0's nodes by _finish_apply: unary nodes over a subtree of t0 *)
      clear -Hb B4. unfold apply_simple in Hb. destruct (begin_apply o' (columns t0)) as [o''|]; [|discriminate].
      cbn [rbind] in Hb. revert o'' t Hb. induction t0 as [| up t0 IHt | | | |]; intros o'' t Hb; cbn [finish_apply] in Hb;
        (destruct (is_noop o'' _); [injection Hb as <-; exact B4|]);
        try (unfold finish_default in Hb; destruct (op_supported _ _); [injection Hb as <-; exact B4|discriminate]).
      destruct (simplify o'' up); try (unfold finish_default in Hb; destruct (op_supported _ _); [injection Hb as <-; exact B4|discriminate]).
      - injection Hb as <-. exact B4.
      - eapply IHt; eauto.
      - discriminate. }
    repeat split; auto.
    intros Hkd. destruct o; try (apply A6; [apply B6; auto|discriminate]).
    + apply andb_true_iff in Hkd as [K1 K2]. apply A6; [apply B6; auto|]. intros _.
      rewrite B1. apply key_determined_kd; auto. rewrite <- B1. apply sem_tree_dom; auto.
  - (* __getitem__ *)
    destruct (build_iter p) as [t0|] eqn:E0; [|discriminate]. cbn [rbind] in Hb.
    unfold getitem in Hb. destruct (negb _); [discriminate|].
    destruct (construct (Slice (default 0 a) b)) as [o'|] eqn:Ec; [|discriminate]. cbn [rbind] in Hb.
    simpl in Hok. destruct (IH t0 Hok eq_refl) as (B1 & B2 & B3 & B4 & B5 & B6 & B7).
    destruct (apply_simple_built env (Slice (default 0 a) b) o' t0 t B2 B3 B4 B7 I Ec Hb) as (A1 & A2 & A3 & A4 & A5 & A6).
    unfold built. cbn [spec_prog prog_cols kd_prog]. rewrite A1, B1, A4, B5, A5.
    assert (Hit : iter_ok t).
    { clear -Hb B4. unfold apply_simple in Hb. destruct (begin_apply o' (columns t0)) as [o''|]; [|discriminate].
      cbn [rbind] in Hb. revert o'' t Hb. induction t0 as [| up t0 IHt | | | |]; intros o'' t Hb; cbn [finish_apply] in Hb;
        (destruct (is_noop o'' _); [injection Hb as <-; exact B4|]);
        try (unfold finish_default in Hb; destruct (op_supported _ _); [injection Hb as <-; exact B4|discriminate]).
      destruct (simplify o'' up); try (unfold finish_default in Hb; destruct (op_supported _ _); [injection Hb as <-; exact B4|discriminate]).
      - injection Hb as <-. exact B4.
      - eapply IHt; eauto.
      - discriminate. }
    repeat split; auto. intros Hkd. apply A6; [apply B6; auto|discriminate].
  - (* chain *)
    destruct Hok as [Hl Hr].
    destruct (build_iter l) as [tl|] eqn:El; [|discriminate]. cbn [rbind] in Hb.
    destruct (build_iter r) as [tr|] eqn:Er; [|discriminate]. cbn [rbind] in Hb.
    destruct (IHl tl Hl eq_refl) as (L1 & L2 & L3 & L4 & L5 & L6 & L7).
    destruct (IHr tr Hr eq_refl) as (R1 & R2 & R3 & R4 & R5 & R6 & R7).
    unfold chain_apply in Hb.
    destruct (engine_eqb (engine_of tl) (engine_of tr)) eqn:Ee; [|discriminate]. cbn [negb] in Hb.
    destruct (bool_decide (columns tl = columns tr)) eqn:Ecol; [|discriminate]. cbn [negb] in Hb.
    injection Hb as <-. apply bool_decide_eq_true in Ee, Ecol.
    unfold built. simpl. rewrite L1, R1. repeat split; auto.
    all: match goal with H : _ && _ = true |- _ => apply andb_true_iff in H as [K1 K2] end; auto.
  - (* materialize *)
    destruct (build_iter p) as [t0|] eqn:E0; [|discriminate]. cbn [rbind] in Hb. injection Hb as <-.
    simpl in Hok. destruct (IH t0 Hok eq_refl) as (B1 & B2 & B3 & B4 & B5 & B6 & B7).
    unfold materialize_generic. destruct (mat_simplify t0); unfold built; simpl; repeat split; auto.
  - (* transfer *)
    destruct Hok as [Hkd Hok].
    destruct (build_iter p) as [t0|] eqn:E0; [|discriminate]. cbn [rbind] in Hb.
    destruct (IH t0 Hok eq_refl) as (B1 & B2 & B3 & B4 & B5 & B6 & B7).
    unfold transfer_generic in Hb.
    destruct (engine_eqb (engine_of t0) d) eqn:Ee0.
    { injection Hb as <-. unfold built. simpl. repeat split; auto. }
    assert (G : forall t1, built env p t1 -> (if engine_eqb (engine_of t1) d then Ok t1 else do c <- Ok t1; Ok (Xfer d c)) = Ok t -> built env (PXfer d p) t).
    { intros t1 (C1 & C2 & C3 & C4 & C5 & C6 & C7) H.
      destruct (engine_eqb (engine_of t1) d) eqn:Ee.
      - injection H as <-. unfold built. simpl. repeat split; auto.
      - cbn [rbind] in H. injection H as <-. unfold built. simpl. repeat split; auto.
        apply bool_decide_eq_false in Ee. congruence. }
    destruct (xfer_simplify d t0) as [t1|] eqn:Ex; cbn [default] in Hb.
    + (* kd of the simplified tree needs kd of t0, available only under the program's kd *)
      apply (G t1); auto.
      unfold built.
      (* everything except kd does not depend on kd_tree: redo the induction without it *)
      assert (NK : sem_tree env t1 = sem_tree env t0 ∧ wf_tree t1 ∧ env_ok env t1 ∧ iter_ok t1 ∧
                   columns t1 = columns t0 ∧ ekind_of (engine_of t1) = KIter ∧ (kd_tree env t0 -> kd_tree env t1)).
      { clear -Ex B2 B3 B4. revert t1 Ex B2 B3 B4.
        induction t0 as [| | | |d' t0 IHt|sl sk _ t0 IHt]; simpl; intros t1 H Hwf Henv Hit; try discriminate.
        - destruct Hwf as [Hne Hwf]. destruct Hit as [Hk Hit].
          destruct (engine_eqb d (engine_of t0)).
          + injection H as <-. auto 10.
          + apply IHt; auto.
        - apply IHt; auto. }
      destruct NK as (N1 & N2 & N3 & N4 & N5 & N6 & N7).
      rewrite N1, N5. repeat split; auto.
    + apply (G t0); auto; unfold built; repeat split; auto.
Qed.

(* C01: executing the tree the library built yields exactly the specification of the program *)
Theorem iter_execute_exact env p t :
  prog_ok env p -> kd_prog env p = true -> build_iter p = Ok t ->
  iter_exec env t = Ok (spec_prog env p).
Proof.
  intros Hok Hkd Hb. destruct (build_iter_built env p t Hok Hb) as (B1 & B2 & B3 & B4 & B5 & B6 & B7).
  rewrite <- B1. apply iter_exec_sound; auto.
Qed.

(* all-key schemas: key-determinedness is automatic when every row's columns are key columns
   and ... (no extra hypothesis needed beyond the rows being maps) *)
Lemma all_key_kd cs (l : rows) : rows_dom cs l -> (forall k, k ∈ cs -> is_key k = true) -> key_determined l = true.
Proof.
  intros Hd Hk. unfold key_determined. apply forallb_forall. intros r1 H1. apply forallb_forall. intros r2 H2.
  destruct (key_agree r1 r2) eqn:E; auto. simpl. apply row_eqb_spec.
  unfold key_agree in E. apply bool_decide_eq_true in E. rewrite key_filter_eq_iff in E.
  unfold rows_dom in Hd. rewrite Forall_forall in Hd.
  apply map_eq. intros k. destruct (decide (k ∈ cs)) as [Hc|Hc].
  - apply E. auto.
  - rewrite (proj1 (not_elem_of_dom r1 k)) by (rewrite (Hd r1); auto; apply elem_of_list_In; auto).
    rewrite (proj1 (not_elem_of_dom r2 k)) by (rewrite (Hd r2); auto; apply elem_of_list_In; auto). reflexivity.
Qed.
