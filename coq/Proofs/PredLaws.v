(* Soundness of predicate folding, conjunction flattening and required-column sets (C13),
   and the facts about expressions used everywhere else. *)
From DR Require Import Model.PredOps.
From Coq Require Import Lia.
Local Open Scope Z_scope.

(* ---- the local fixpoints, named ---- *)
Definition evalp_and (r : row) := fix go (ps : list pred) : option bool :=
  match ps with [] => Some true | q :: ps' => b ← evalp q r; c ← go ps'; Some (b && c) end.
Definition evalp_or (r : row) := fix go (ps : list pred) : option bool :=
  match ps with [] => Some false | q :: ps' => b ← evalp q r; c ← go ps'; Some (b || c) end.
Definition cols_ps := fix go (ps : list pred) : gset tag :=
  match ps with [] => ∅ | q :: ps' => cols_p q ∪ go ps' end.
Definition cols_es := fix go (l : list expr) : gset tag :=
  match l with [] => ∅ | e :: l' => cols_e e ∪ go l' end.

Lemma evalp_PAnd ps r : evalp (PAnd ps) r = evalp_and r ps. Proof. reflexivity. Qed.
Lemma evalp_POr ps r : evalp (POr ps) r = evalp_or r ps. Proof. reflexivity. Qed.
Lemma cols_PAnd ps : cols_p (PAnd ps) = cols_ps ps. Proof. reflexivity. Qed.
Lemma cols_POr ps : cols_p (POr ps) = cols_ps ps. Proof. reflexivity. Qed.

(* ---- restriction to the required columns ---- *)
Lemma restrict_lookup cs (r : row) t : restrict cs r !! t = if decide (t ∈ cs) then r !! t else None.
Proof.
  unfold restrict. destruct (decide (t ∈ cs)) as [H|H].
  - destruct (r !! t) as [v|] eqn:E.
    + apply map_filter_lookup_Some. split; auto.
    + apply map_filter_lookup_None. left; auto.
  - apply map_filter_lookup_None. right. intros v _. simpl. auto.
Qed.

Lemma dom_restrict cs (r : row) : dom (restrict cs r) = dom r ∩ cs.
Proof.
  apply set_eq. intros t. rewrite elem_of_intersection, !elem_of_dom, restrict_lookup.
  destruct (decide (t ∈ cs)); split.
  - intros H; split; auto.
  - intros [H _]; auto.
  - intros [? H]; discriminate.
  - intros [_ H]; contradiction.
Qed.

Lemma eval_restrict e cs r : cols_e e ⊆ cs → eval e (restrict cs r) = eval e r.
Proof.
  induction e; simpl; intros H; auto.
  - rewrite restrict_lookup. destruct (decide (t ∈ cs)); auto. set_solver.
  - rewrite IHe; auto.
  - rewrite IHe1, IHe2 by set_solver. auto.
  - rewrite IHe1, IHe2 by set_solver. auto.
  - rewrite IHe1, IHe2 by set_solver. auto.
Qed.

Lemma eval_items_restrict items cs r : cols_es items ⊆ cs → eval_items items (restrict cs r) = eval_items items r.
Proof.
  induction items as [|e items IH]; simpl; intros H; auto.
  rewrite eval_restrict by set_solver. rewrite IH by set_solver. reflexivity.
Qed.

Lemma evalp_restrict p cs r : cols_p p ⊆ cs → evalp p (restrict cs r) = evalp p r.
Proof.
  revert cs. induction p using pred_ind2; intros cs Hc; simpl in *; auto.
  - rewrite restrict_lookup. destruct (decide (t ∈ cs)); auto. set_solver.
  - rewrite !eval_restrict by set_solver. auto.
  - rewrite IHp; auto.
  - induction H as [|q ps Hq Hps IH]; auto. rewrite Hq by set_solver. rewrite IH by set_solver. auto.
  - induction H as [|q ps Hq Hps IH]; auto. rewrite Hq by set_solver. rewrite IH by set_solver. auto.
  - rewrite eval_restrict by set_solver. destruct c as [a b s|items]; simpl; auto.
    destruct (eval e r); simpl; auto.
    rewrite eval_items_restrict; auto. simpl in Hc. set_solver.
Qed.

(* required columns are sufficient: evaluation succeeds when they are present *)
Lemma eval_total e (r : row) : cols_e e ⊆ dom r → is_Some (eval e r).
Proof.
  induction e; simpl; intros H; eauto.
  - apply elem_of_dom. set_solver.
  - destruct IHe as [x ->]; simpl; eauto.
  - destruct IHe1 as [x ->]; [set_solver|]. destruct IHe2 as [y ->]; [set_solver|]. simpl; eauto.
  - destruct IHe1 as [x ->]; [set_solver|]. destruct IHe2 as [y ->]; [set_solver|]. simpl; eauto.
  - destruct IHe1 as [x ->]; [set_solver|]. destruct IHe2 as [y ->]; [set_solver|]. simpl; eauto.
Qed.

Lemma eval_items_total items (r : row) : cols_es items ⊆ dom r → is_Some (eval_items items r).
Proof.
  induction items as [|e items IH]; simpl; intros H; eauto.
  destruct (eval_total e r) as [x ->]; [set_solver|]. destruct IH as [xs ->]; [set_solver|]. simpl; eauto.
Qed.

Lemma evalp_total p (r : row) : cols_p p ⊆ dom r → is_Some (evalp p r).
Proof.
  induction p using pred_ind2; simpl; intros Hc; eauto.
  - assert (is_Some (r !! t)) as [v ->] by (apply elem_of_dom; set_solver). simpl; eauto.
  - destruct (eval_total a r) as [x ->]; [set_solver|]. destruct (eval_total b r) as [y ->]; [set_solver|]. simpl; eauto.
  - destruct (IHp Hc) as [b ->]. simpl; eauto.
  - induction H as [|q ps Hq Hps IH]; eauto.
    destruct Hq as [b ->]; [set_solver|]. destruct IH as [c ->]; [set_solver|]. simpl; eauto.
  - induction H as [|q ps Hq Hps IH]; eauto.
    destruct Hq as [b ->]; [set_solver|]. destruct IH as [c ->]; [set_solver|]. simpl; eauto.
  - destruct (eval_total e r) as [x ->]; [set_solver|]. simpl.
    destruct c as [a b s|items]; simpl; eauto.
    destruct (eval_items_total items r) as [xs ->]; [simpl in Hc; set_solver|]. simpl; eauto.
Qed.

(* ---- constant folding ---- *)
Definition triv_and := fix go (ps : list pred) (acc : option bool) : option bool :=
  match ps with
  | [] => acc
  | q :: ps' => match as_trivial q with
                | Some false => Some false | None => go ps' None | Some true => go ps' acc end
  end.
Definition triv_or := fix go (ps : list pred) (acc : option bool) : option bool :=
  match ps with
  | [] => acc
  | q :: ps' => match as_trivial q with
                | Some true => Some true | None => go ps' None | Some false => go ps' acc end
  end.

Lemma triv_and_None ps bb : triv_and ps None = Some bb → bb = false.
Proof.
  induction ps as [|p ps IHp]; simpl; [discriminate|].
  destruct (as_trivial p) as [[|]|]; auto. congruence.
Qed.
Lemma triv_or_None ps bb : triv_or ps None = Some bb → bb = true.
Proof.
  induction ps as [|p ps IHp]; simpl; [discriminate|].
  destruct (as_trivial p) as [[|]|]; auto. congruence.
Qed.

Definition triv_ok (r : row) (p : pred) : Prop :=
  ∀ b b', as_trivial p = Some b → evalp p r = Some b' → b' = b.

Lemma triv_and_sound r ps : Forall (triv_ok r) ps →
  ∀ acc bb y, triv_and ps acc = Some bb → evalp_and r ps = Some y →
    (acc = Some true ∨ acc = None) → y = bb.
Proof.
  induction 1 as [|q ps Hq Hps IH]; intros acc bb y Ht He Hacc; simpl in *.
  - injection He as <-. destruct Hacc as [->| ->]; [injection Ht as <-; auto|discriminate].
  - destruct (evalp q r) as [x|] eqn:Ex; [|discriminate]. simpl in He.
    destruct (evalp_and r ps) as [y'|] eqn:Ey; [|discriminate]. simpl in He. injection He as <-.
    destruct (as_trivial q) as [[|]|] eqn:Eq.
    + rewrite (Hq true x Eq Ex). simpl. eapply IH; eauto.
    + injection Ht as <-. rewrite (Hq false x Eq Ex). reflexivity.
    + rewrite (IH None bb y' Ht eq_refl (or_intror eq_refl)).
      rewrite (triv_and_None _ _ Ht). apply andb_false_r.
Qed.

Lemma triv_or_sound r ps : Forall (triv_ok r) ps →
  ∀ acc bb y, triv_or ps acc = Some bb → evalp_or r ps = Some y →
    (acc = Some false ∨ acc = None) → y = bb.
Proof.
  induction 1 as [|q ps Hq Hps IH]; intros acc bb y Ht He Hacc; simpl in *.
  - injection He as <-. destruct Hacc as [->| ->]; [injection Ht as <-; auto|discriminate].
  - destruct (evalp q r) as [x|] eqn:Ex; [|discriminate]. simpl in He.
    destruct (evalp_or r ps) as [y'|] eqn:Ey; [|discriminate]. simpl in He. injection He as <-.
    destruct (as_trivial q) as [[|]|] eqn:Eq.
    + injection Ht as <-. rewrite (Hq true x Eq Ex). reflexivity.
    + rewrite (Hq false x Eq Ex). simpl. eapply IH; eauto.
    + rewrite (IH None bb y' Ht eq_refl (or_intror eq_refl)).
      rewrite (triv_or_None _ _ Ht). apply orb_true_r.
Qed.

(* if the folding answer is b, every successful evaluation gives b *)
Theorem as_trivial_sound p r : triv_ok r p.
Proof.
  unfold triv_ok. induction p using pred_ind2; intros bb bb' Ht He; simpl in *; try discriminate.
  - congruence.
  - destruct (as_trivial p) as [x|]; [|discriminate]. injection Ht as <-.
    destruct (evalp p r) as [y|]; [|discriminate]. injection He as <-. f_equal. eauto.
  - eapply (triv_and_sound r ps H (Some true)); eauto.
  - eapply (triv_or_sound r ps H (Some false)); eauto.
Qed.

Corollary as_trivial_sound_total p b (r : row) :
  as_trivial p = Some b → cols_p p ⊆ dom r → evalp p r = Some b.
Proof.
  intros Ht Hc. destruct (evalp_total p r Hc) as [b' He]. rewrite He.
  f_equal. eapply (as_trivial_sound p r); eauto.
Qed.

Corollary as_trivial_true_holds p r : as_trivial p = Some true → cols_p p ⊆ dom r → holds p r = true.
Proof. intros. unfold holds. erewrite as_trivial_sound_total; eauto. Qed.

(* ---- conjunction flattening ---- *)
Definition flat_go := fix go (ps : list pred) : option (list pred) :=
  match ps with
  | [] => Some []
  | q :: ps' => match flatten_and q with
                | None => None
                | Some l => match go ps' with None => None | Some l' => Some (l ++ l') end
                end
  end.

Lemma evalp_and_app r l l' :
  evalp_and r (l ++ l') = b ← evalp_and r l; c ← evalp_and r l'; Some (b && c).
Proof.
  induction l as [|q l IH]; simpl.
  - destruct (evalp_and r l'); reflexivity.
  - destruct (evalp q r) as [x|]; simpl; auto. rewrite IH.
    destruct (evalp_and r l) as [y|]; simpl; auto.
    destruct (evalp_and r l') as [z|]; simpl; auto. rewrite andb_assoc. reflexivity.
Qed.

Definition flat_ok (r : row) (p : pred) : Prop :=
  (∀ qs, flatten_and p = Some qs → evalp_and r qs = evalp p r) ∧
  (flatten_and p = None → ∀ b, evalp p r = Some b → b = false).

Theorem flatten_and_ok p r : flat_ok r p.
Proof.
  unfold flat_ok. induction p using pred_ind2; simpl.
  - destruct b; split; intros; try discriminate; try congruence.
    injection H as <-. reflexivity.
  - split; [|discriminate]. intros qs [= <-]. simpl. destruct (r !! t); simpl; auto. rewrite andb_true_r; auto.
  - split; [|discriminate]. intros qs [= <-]. simpl.
    destruct (eval a r); simpl; auto. destruct (eval b r); simpl; auto. rewrite andb_true_r; auto.
  - split; [|discriminate]. intros qs [= <-]. simpl.
    destruct (evalp p r); simpl; auto. rewrite andb_true_r; auto.
  - change (flat_go ps) with (flat_go ps). fold (evalp_and r ps).
    induction H as [|q ps [Hq1 Hq2] Hps [IH1 IH2]]; simpl.
    + split; [|discriminate]. intros qs [= <-]. reflexivity.
    + fold (flat_go ps) in *. fold (evalp_and r ps) in *. split.
      * intros qs Hqs. destruct (flatten_and q) as [l|]; [|discriminate].
        destruct (flat_go ps) as [l'|]; [|discriminate]. injection Hqs as <-.
        rewrite evalp_and_app, (Hq1 l eq_refl), (IH1 l' eq_refl). reflexivity.
      * intros Hn b Hb. destruct (evalp q r) as [x|] eqn:Ex; [|discriminate]. simpl in Hb.
        destruct (evalp_and r ps) as [y|] eqn:Ey; [|discriminate]. simpl in Hb. injection Hb as <-.
        destruct (flatten_and q) as [l|].
        -- destruct (flat_go ps) as [l'|]; [discriminate|]. rewrite (IH2 eq_refl y eq_refl). apply andb_false_r.
        -- rewrite (Hq2 eq_refl x eq_refl). reflexivity.
  - split; [|discriminate]. intros qs [= <-]. simpl.
    fold (evalp_or r ps). destruct (evalp_or r ps); simpl; auto.
    rewrite andb_true_r; auto.
  - split; [|discriminate]. intros qs [= <-]. simpl.
    destruct (eval e r); simpl; auto. destruct (eval_in c z r); simpl; auto. rewrite andb_true_r; auto.
Qed.

(* flattening yields conjuncts whose AND is equivalent to the original *)
Corollary flatten_sound p qs r : flatten_and p = Some qs → evalp (PAnd qs) r = evalp p r.
Proof. intros H. apply (proj1 (flatten_and_ok p r)); auto. Qed.
(* flattening reports False only for predicates false on every row *)
Corollary flatten_false_sound p r b : flatten_and p = None → evalp p r = Some b → b = false.
Proof. intros H. apply (proj2 (flatten_and_ok p r)); auto. Qed.

Lemma evalp_logical_and qs r : evalp (logical_and qs) r = evalp (PAnd qs) r.
Proof.
  destruct qs as [|q [|q' qs]]; simpl; auto.
  destruct (evalp q r); simpl; auto. rewrite andb_true_r; auto.
Qed.

(* the predicate stored by a selection is equivalent to the one supplied *)
Theorem selection_norm_equiv p r : evalp (selection_norm p) r = evalp p r.
Proof.
  unfold selection_norm. destruct (flatten_and p) as [qs|] eqn:E; auto.
  rewrite evalp_logical_and. apply flatten_sound; auto.
Qed.
Corollary selection_norm_holds p r : holds (selection_norm p) r = holds p r.
Proof. unfold holds. rewrite selection_norm_equiv. reflexivity. Qed.

Lemma cols_ps_app l l' : cols_ps (l ++ l') = cols_ps l ∪ cols_ps l'.
Proof. induction l as [|q l IH]; simpl; [set_solver|]. rewrite IH. set_solver. Qed.

Lemma flatten_cols p qs : flatten_and p = Some qs → cols_ps qs ⊆ cols_p p.
Proof.
  revert qs. induction p using pred_ind2; simpl; intros qs Hq; try (injection Hq as <-; simpl; set_solver).
  - destruct b; [injection Hq as <-; simpl; set_solver|discriminate].
  - fold (flat_go ps) in Hq. fold (cols_ps ps). revert qs Hq.
    induction H as [|q ps Hq1 Hps IH]; simpl; intros qs Hq.
    + injection Hq as <-. set_solver.
    + fold (flat_go ps) in *. fold (cols_ps ps) in *.
      destruct (flatten_and q) as [l|]; [|discriminate]. destruct (flat_go ps) as [l'|]; [|discriminate].
      injection Hq as <-. rewrite cols_ps_app. specialize (Hq1 l eq_refl). specialize (IH l' eq_refl). set_solver.
Qed.

Lemma cols_logical_and qs : cols_p (logical_and qs) = cols_ps qs.
Proof. destruct qs as [|q [|q' qs]]; simpl; set_solver. Qed.

Lemma selection_norm_cols p : cols_p (selection_norm p) ⊆ cols_p p.
Proof.
  unfold selection_norm. destruct (flatten_and p) as [qs|] eqn:E; auto.
  rewrite cols_logical_and. apply flatten_cols; auto.
Qed.

(* filter by a conjunction = successive filters *)
Lemma holds_and2 q p r : holds (PAnd [q; p]) r = holds q r && holds p r.
Proof.
  unfold holds. simpl. destruct (evalp q r) as [[|]|], (evalp p r) as [[|]|]; reflexivity.
Qed.

Lemma eval_needs e (r : row) t : t ∈ cols_e e → r !! t = None → eval e r = None.
Proof.
  induction e; simpl; intros Ht Hr.
  - assert (t = t0) by set_solver. subst. auto.
  - set_solver.
  - rewrite IHe; auto.
  - apply elem_of_union in Ht as [Ht|Ht].
    + rewrite IHe1; auto.
    + rewrite IHe2; auto. destruct (eval e1 r); auto.
  - apply elem_of_union in Ht as [Ht|Ht].
    + rewrite IHe1; auto.
    + rewrite IHe2; auto. destruct (eval e1 r); auto.
  - apply elem_of_union in Ht as [Ht|Ht].
    + rewrite IHe1; auto.
    + rewrite IHe2; auto. destruct (eval e1 r); auto.
  - auto.
Qed.
