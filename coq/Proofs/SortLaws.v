(* Laws of the lexicographic, per-term-directed comparison and of Sort.then. *)
From DR Require Import Model.Ops.
From Coq Require Import Lia.
Local Open Scope Z_scope.

Lemma leb_terms_total ts r1 r2 : leb_terms ts r1 r2 = true \/ leb_terms ts r2 r1 = true.
Proof.
  induction ts as [|[e asc] ts IH]; simpl; auto.
  rewrite (Z.eqb_sym (ev e r2) (ev e r1)).
  destruct (Z.eqb_spec (ev e r1) (ev e r2)); auto.
  destruct asc; destruct (Z.ltb_spec (ev e r1) (ev e r2)), (Z.ltb_spec (ev e r2) (ev e r1)); auto; lia.
Qed.

Lemma leb_terms_trans ts r1 r2 r3 :
  leb_terms ts r1 r2 = true -> leb_terms ts r2 r3 = true -> leb_terms ts r1 r3 = true.
Proof.
  induction ts as [|[e asc] ts IH]; simpl; auto.
  destruct (Z.eqb_spec (ev e r1) (ev e r2)) as [E12|N12].
  - rewrite E12. destruct (Z.eqb_spec (ev e r2) (ev e r3)); auto.
  - destruct (Z.eqb_spec (ev e r2) (ev e r3)) as [E23|N23].
    + rewrite <- E23. destruct (Z.eqb_spec (ev e r1) (ev e r2)); [contradiction|auto].
    + destruct (Z.eqb_spec (ev e r1) (ev e r3)) as [E13|N13]; destruct asc;
        rewrite ?Z.ltb_lt; intros; try lia.
Qed.

(* both directions hold iff every term evaluates equally *)
Lemma leb_terms_equiv ts r1 r2 :
  leb_terms ts r1 r2 && leb_terms ts r2 r1 = true <->
  Forall (fun t => ev (fst t) r1 = ev (fst t) r2) ts.
Proof.
  induction ts as [|[e asc] ts IH]; simpl.
  - split; auto.
  - rewrite (Z.eqb_sym (ev e r2) (ev e r1)).
    destruct (Z.eqb_spec (ev e r1) (ev e r2)) as [E|N].
    + rewrite IH. split; [intros; constructor; auto|intros H; inversion H; auto].
    + split.
      * destruct asc; rewrite andb_true_iff, !Z.ltb_lt; lia.
      * intros H. inversion H; subst. simpl in *. contradiction.
Qed.

(* appending term lists = lexicographic composition (primary = the first list) *)
Lemma leb_terms_app a b r1 r2 :
  leb_terms (a ++ b) r1 r2 = lex (leb_terms b) (leb_terms a) r1 r2.
Proof.
  unfold lex. induction a as [|[e asc] a IH]; simpl.
  - reflexivity.
  - rewrite (Z.eqb_sym (ev e r2) (ev e r1)).
    destruct (Z.eqb_spec (ev e r1) (ev e r2)) as [E|N]; [exact IH|].
    destruct asc; destruct (Z.ltb_spec (ev e r1) (ev e r2)), (Z.ltb_spec (ev e r2) (ev e r1)); simpl; auto; lia.
Qed.

(* a term already compared earlier in the list is redundant *)
Lemma leb_terms_drop_dup pre e asc post r1 r2 :
  (exists t', In t' pre /\ ev (fst t') r1 = ev e r1 /\ ev (fst t') r2 = ev e r2) ->
  leb_terms (pre ++ (e, asc) :: post) r1 r2 = leb_terms (pre ++ post) r1 r2.
Proof.
  induction pre as [|[e' a'] pre IH]; simpl.
  - intros [? [[] _]].
  - intros [t' [[Heq|Hin] [H1 H2]]].
    + subst t'. simpl in H1, H2. rewrite H1, H2.
      destruct (Z.eqb_spec (ev e r1) (ev e r2)) as [E|N]; auto.
      clear IH. induction pre as [|[e'' a''] pre IH]; simpl.
      * rewrite E, Z.eqb_refl. reflexivity.
      * destruct (ev e'' r1 =? ev e'' r2); auto.
    + destruct (ev e' r1 =? ev e' r2); auto. apply IH. eauto.
Qed.

(* expr_eqb identifies only expressions that evaluate equally *)
Lemma expr_eqb_eval a b r : expr_eqb a b = true -> eval a r = eval b r.
Proof.
  revert b. induction a; intros [] H; simpl in H; try discriminate; simpl.
  - apply Pos.eqb_eq in H. subst. reflexivity.
  - apply Z.eqb_eq in H. subst. reflexivity.
  - rewrite (IHa _ H). reflexivity.
  - apply andb_true_iff in H as [H1 H2]. rewrite (IHa1 _ H1), (IHa2 _ H2). reflexivity.
  - apply andb_true_iff in H as [H1 H2]. rewrite (IHa1 _ H1), (IHa2 _ H2). reflexivity.
  - apply andb_true_iff in H as [H1 H2]. rewrite (IHa1 _ H1), (IHa2 _ H2). reflexivity.
  - apply IHa; auto.
Qed.
Lemma expr_eqb_ev a b r : expr_eqb a b = true -> ev a r = ev b r.
Proof. intros H. unfold ev. rewrite (expr_eqb_eval _ _ r H). reflexivity. Qed.

Lemma term_eqb_ev t t' r : term_eqb t t' = true -> ev (fst t) r = ev (fst t') r /\ snd t = snd t'.
Proof.
  unfold term_eqb. intros H. apply andb_true_iff in H as [H1 H2].
  split; [apply expr_eqb_ev; auto|apply Bool.eqb_prop; auto].
Qed.

Lemma sort_then_fold self acc r1 r2 :
  leb_terms (fold_left (fun acc t => if existsb (term_eqb t) acc then acc else acc ++ [t]) self acc) r1 r2
  = leb_terms (acc ++ self) r1 r2.
Proof.
  revert acc. induction self as [|[e asc] self IH]; intros acc; simpl.
  - rewrite app_nil_r. reflexivity.
  - destruct (existsb (term_eqb (e, asc)) acc) eqn:Ex.
    + rewrite IH. symmetry. apply leb_terms_drop_dup.
      apply existsb_exists in Ex as [t' [Hin Ht]]. exists t'. split; auto.
      split; symmetry; apply (term_eqb_ev _ _ _ Ht).
    + rewrite IH. rewrite <- app_assoc. reflexivity.
Qed.

(* sort-after-sort merge *)
Theorem sort_then_sem self next (l : rows) :
  sem_sort (sort_then self next) l = sem_sort next (sem_sort self l).
Proof.
  unfold sem_sort. rewrite (isort_isort (leb_terms self) (leb_terms next)).
  - apply isort_ext. intros a b. unfold sort_then. rewrite sort_then_fold. apply leb_terms_app.
  - apply leb_terms_total.
  - apply leb_terms_total.
  - apply leb_terms_trans.
  - apply leb_terms_trans.
Qed.

Lemma sem_sort_nil (l : rows) : sem_sort [] l = l.
Proof.
  unfold sem_sort, isort. induction l as [|x l IH]; [reflexivity|].
  cbn [fold_right]. rewrite IH. destruct l; reflexivity.
Qed.
