(* C04 for PartialJoin requests: moving a join with a fixed operand upstream of an existing unary operation
   (PartialJoin.commute) preserves the rows — as a list when the fixed operand is the right-hand side (what
   Relation.join always does), as a multiset past a Sort when it is the left-hand side (the order of a join's rows
   is then the fixed operand's first, which no sort of the other operand can restore). *)
From DR Require Import Model.CommuteSpec Proofs.PredLaws Proofs.SortLaws Proofs.SemLaws Proofs.Metadata
  Proofs.CommuteLaws Proofs.SqlBinary.
From Coq Require Import Lia Permutation.
Local Open Scope Z_scope.

(* ---- a stable sort commutes with an expansion of every element into a block of equal keys ---- *)
Section SortFlatMap.
  Context {A B : Type} (leb : A → A → bool) (leb' : B → B → bool) (h : A → list B) (P : A → Prop).
  Hypothesis leb_total : ∀ x y, leb x y = true ∨ leb y x = true.
  Hypothesis leb_trans : ∀ x y z, leb x y = true → leb y z = true → leb x z = true.
  Hypothesis key : ∀ x y, P x → P y → ∀ b c, In b (h x) → In c (h y) → leb' b c = leb x y.

  Lemma insert_past m c T : (∀ d, In d m → leb' c d = false) → insert leb' c (m ++ T) = m ++ insert leb' c T.
  Proof.
    induction m as [|d m IH]; intros H; [reflexivity|].
    cbn [app insert]. rewrite (H d (or_introl eq_refl)). rewrite IH; [reflexivity|]. intros d' Hd'. apply H. right. exact Hd'.
  Qed.
  Lemma insert_front c T : (∀ t, In t T → leb' c t = true) → insert leb' c T = c :: T.
  Proof. destruct T as [|t T]; intros H; [reflexivity|]. cbn [insert]. rewrite (H t (or_introl eq_refl)). reflexivity. Qed.

  Lemma block_front b T :
    (∀ c d, In c b → In d b → leb' c d = true) → (∀ c t, In c b → In t T → leb' c t = true) →
    fold_right (insert leb') T b = b ++ T.
  Proof.
    induction b as [|c b IH]; intros H1 H2; [reflexivity|].
    cbn [fold_right app]. rewrite IH.
    - apply insert_front. intros t Ht. apply in_app_or in Ht as [Ht|Ht].
      + apply H1; [left; reflexivity|right; exact Ht].
      + apply H2; [left; reflexivity|exact Ht].
    - intros c' d Hc Hd. apply H1; right; assumption.
    - intros c' t Hc Ht. apply H2; [right; assumption|assumption].
  Qed.
  Lemma block_past b m T :
    (∀ c d, In c b → In d m → leb' c d = false) →
    fold_right (insert leb') (m ++ T) b = m ++ fold_right (insert leb') T b.
  Proof.
    induction b as [|c b IH]; intros H; [reflexivity|].
    cbn [fold_right]. rewrite IH by (intros c' d Hc Hd; apply H; [right; assumption|assumption]).
    apply insert_past. intros d Hd. apply H; [left; reflexivity|assumption].
  Qed.

  Lemma block_insert x S : P x → List.Forall P S → sortedb leb S →
    fold_right (insert leb') (flat_map h S) (h x) = flat_map h (insert leb x S).
  Proof.
    intros Px. induction S as [|y S IH]; intros HP Hs.
    - cbn [flat_map insert]. apply block_front.
      + intros c d Hc Hd. rewrite (key x x Px Px c d Hc Hd). destruct (leb_total x x); assumption.
      + intros c t _ [].
    - inversion HP as [|? ? Py HPS]; subst. destruct Hs as [Hy Hs].
      cbn [flat_map insert]. destruct (leb x y) eqn:E.
      + cbn [flat_map]. apply block_front.
        * intros c d Hc Hd. rewrite (key x x Px Px c d Hc Hd). destruct (leb_total x x); assumption.
        * intros c t Hc Ht. apply in_app_or in Ht as [Ht|Ht].
          -- rewrite (key x y Px Py c t Hc Ht). exact E.
          -- apply in_flat_map in Ht as (z & Hz & Htz).
             assert (Pz : P z) by (rewrite List.Forall_forall in HPS; apply HPS; exact Hz).
             rewrite (key x z Px Pz c t Hc Htz). eapply leb_trans; [exact E|].
             rewrite List.Forall_forall in Hy. apply Hy. exact Hz.
      + cbn [flat_map]. rewrite block_past.
        * rewrite IH by assumption. reflexivity.
        * intros c d Hc Hd. rewrite (key x y Px Py c d Hc Hd). exact E.
  Qed.

  Lemma isort_app b m : isort leb' (b ++ m) = fold_right (insert leb') (isort leb' m) b.
  Proof. unfold isort. rewrite fold_right_app. reflexivity. Qed.

  Lemma isort_flat_map l : List.Forall P l → isort leb' (flat_map h l) = flat_map h (isort leb l).
  Proof.
    induction l as [|x l IH]; intros HP; [reflexivity|].
    inversion HP as [|? ? Px HPl]; subst.
    cbn [flat_map]. rewrite isort_app. rewrite IH by assumption.
    change (isort leb (x :: l)) with (insert leb x (isort leb l)).
    apply block_insert; [assumption| |apply isort_sorted; assumption].
    eapply Permutation_Forall; [apply isort_perm|]. exact HPl.
  Qed.
End SortFlatMap.

(* ---- generic facts about flat_map / omap blocks ---- *)
Lemma filter_all {A} (q : A → bool) l : (∀ x, In x l → q x = true) → List.filter q l = l.
Proof.
  induction l as [|x l IH]; intros H; [reflexivity|]. cbn [List.filter]. rewrite (H x (or_introl eq_refl)).
  rewrite IH; [reflexivity|]. intros y Hy. apply H. right. exact Hy.
Qed.

Lemma flat_map_filter {A B} (h : A → list B) (q : A → bool) (q' : B → bool) l :
  (∀ x, In x l → ∀ b, In b (h x) → q' b = q x) →
  flat_map h (List.filter q l) = List.filter q' (flat_map h l).
Proof.
  induction l as [|x l IH]; intros H; [reflexivity|].
  cbn [List.filter flat_map]. rewrite List.filter_app.
  rewrite <- IH by (intros y Hy; apply H; right; exact Hy).
  destruct (q x) eqn:E.
  - cbn [flat_map]. f_equal. symmetry. apply (filter_all q' (h x)). intros b Hb. rewrite (H x (or_introl eq_refl) b Hb). exact E.
  - rewrite (filter_none q' (h x)); [reflexivity|]. intros b Hb. rewrite (H x (or_introl eq_refl) b Hb). exact E.
Qed.

Lemma flat_map_map_blocks {A B} (h h' : A → list B) (f : A → A) (f' : B → B) l :
  (∀ x, In x l → h' (f x) = map f' (h x)) → flat_map h' (map f l) = map f' (flat_map h l).
Proof.
  induction l as [|x l IH]; intros H; [reflexivity|].
  cbn [map flat_map]. rewrite map_app. rewrite IH by (intros y Hy; apply H; right; exact Hy).
  rewrite (H x (or_introl eq_refl)). reflexivity.
Qed.

Lemma flat_map_ext_in {A B} (h h' : A → list B) l : (∀ x, In x l → h x = h' x) → flat_map h l = flat_map h' l.
Proof.
  induction l as [|x l IH]; intros H; [reflexivity|]. cbn [flat_map]. rewrite (H x (or_introl eq_refl)).
  rewrite IH; [reflexivity|]. intros y Hy. apply H. right. exact Hy.
Qed.
Lemma filter_flat_map {A B} (h : A → list B) (q : B → bool) l :
  List.filter q (flat_map h l) = flat_map (λ x, List.filter q (h x)) l.
Proof. induction l as [|x l IH]; [reflexivity|]. cbn [flat_map]. rewrite List.filter_app, IH. reflexivity. Qed.
Lemma map_flat_map' {A B C} (h : A → list B) (f : B → C) l : map f (flat_map h l) = flat_map (λ x, map f (h x)) l.
Proof. induction l as [|x l IH]; [reflexivity|]. cbn [flat_map]. rewrite map_app, IH. reflexivity. Qed.
Lemma flat_map_perm {A B} (h h' : A → list B) l : (∀ x, In x l → Permutation (h x) (h' x)) →
  Permutation (flat_map h l) (flat_map h' l).
Proof.
  induction l as [|x l IH]; intros H; [constructor|]. cbn [flat_map]. apply Permutation_app.
  - apply H. left. reflexivity.
  - apply IH. intros y Hy. apply H. right. exact Hy.
Qed.

Lemma omap_fmap_ext {A B} (g1 g2 : A → option B) (f' : B → B) (F : list A) :
  (∀ r, r ∈ F → g2 r = f' <$> g1 r) → omap g2 F = map f' (omap g1 F).
Proof.
  induction F as [|r F IH]; intros H; [reflexivity|].
  cbn [omap list_omap]. rewrite (H r (elem_of_list_here _ _)).
  rewrite IH by (intros r' Hr'; apply H; apply elem_of_list_further; exact Hr').
  destruct (g1 r); reflexivity.
Qed.
Lemma omap_filter_comm {A B} (g : A → option B) (q : A → bool) (q' : B → bool) (l : list A) :
  (∀ x b, x ∈ l → g x = Some b → q' b = q x) → omap g (List.filter q l) = List.filter q' (omap g l).
Proof.
  induction l as [|x l IH]; intros H; [reflexivity|].
  assert (IH' : omap g (List.filter q l) = List.filter q' (omap g l))
    by (apply IH; intros y b Hy; apply H; apply elem_of_list_further; exact Hy).
  cbn [List.filter]. destruct (q x) eqn:Eq; cbn [omap list_omap]; destruct (g x) as [b|] eqn:Eg; cbn [List.filter].
  - rewrite (H x b (elem_of_list_here _ _) Eg), Eq. rewrite IH'. reflexivity.
  - exact IH'.
  - rewrite (H x b (elem_of_list_here _ _) Eg), Eq. exact IH'.
  - exact IH'.
Qed.
Lemma In_omap {A B} (g : A → option B) (l : list A) b : In b (omap g l) → ∃ x, x ∈ l ∧ g x = Some b.
Proof. intros H. apply elem_of_list_In in H. apply elem_of_list_omap in H. exact H. Qed.

(* ---- rows of a join: which operand decides a column ---- *)
Lemma merge_restrict_l tc (x r : row) :
  dom x = tc → (∀ k, k ∈ dom x → k ∈ dom r → x !! k = r !! k) → restrict tc (merge_rows x r) = x.
Proof.
  intros Hd Hc. unfold merge_rows. apply map_eq. intros k. rewrite restrict_lookup, lookup_union.
  destruct (decide (k ∈ tc)) as [Hk|Hk].
  - destruct (r !! k) as [v|] eqn:Er.
    + assert (Hx : x !! k = r !! k) by (apply Hc; [rewrite Hd; exact Hk|apply elem_of_dom; rewrite Er; eauto]).
      rewrite Hx, Er. reflexivity.
    + destruct (x !! k); reflexivity.
  - symmetry. apply not_elem_of_dom. rewrite Hd. exact Hk.
Qed.
Lemma merge_restrict_r tc (f0 x : row) : dom x = tc → restrict tc (merge_rows f0 x) = x.
Proof.
  intros Hd. unfold merge_rows. apply map_eq. intros k. rewrite restrict_lookup, lookup_union.
  destruct (decide (k ∈ tc)) as [Hk|Hk].
  - destruct (x !! k) as [v|] eqn:Ex; [destruct (f0 !! k); reflexivity|].
    exfalso. apply not_elem_of_dom in Ex. apply Ex. rewrite Hd. exact Hk.
  - symmetry. apply not_elem_of_dom. rewrite Hd. exact Hk.
Qed.

(* the documented ColumnTag contract: rows that match on the common columns agree on every other column they share *)
Definition consistent (c : gset tag) (L R : rows) : Prop :=
  ∀ x r, x ∈ L → r ∈ R → agree_on c x r = true → ∀ k, k ∈ dom x → k ∈ dom r → x !! k = r !! k.

Definition jblock (c : gset tag) (p : pred) (R : rows) (x : row) : rows :=
  omap (λ r, if agree_on c x r && holds p (merge_rows x r) then Some (merge_rows x r) else None) R.
Lemma sem_join_blocks c p L R : sem_join c p L R = flat_map (jblock c p R) L.
Proof. reflexivity. Qed.

Lemma jblock_restrict c p tc (L R : rows) x b :
  rows_dom tc L → consistent c L R → x ∈ L → In b (jblock c p R x) → restrict tc b = x.
Proof.
  intros HL Hc Hx Hb. apply In_omap in Hb as (r & Hr & Hg).
  destruct (agree_on c x r) eqn:Ea; cbn [andb] in Hg; [|discriminate].
  destruct (holds p (merge_rows x r)); [|discriminate]. injection Hg as <-.
  apply merge_restrict_l.
  - unfold rows_dom in HL. rewrite Forall_forall in HL. apply HL. exact Hx.
  - apply (Hc x r Hx Hr Ea).
Qed.

Lemma rows_dom_elem tc (l : rows) x : rows_dom tc l → x ∈ l → dom x = tc.
Proof. unfold rows_dom. rewrite Forall_forall. intros H Hx. apply H. exact Hx. Qed.

(* ---- the fixed operand on the right: J(l) = l ⋈ F, one block of F-matches per row of l ---- *)
Section FixedRight.
  Context (c : gset tag) (p : pred) (tc cf : gset tag) (l F : rows).
  Hypothesis HL : rows_dom tc l.
  Hypothesis HF : rows_dom cf F.
  Hypothesis Hcons : consistent c l F.

  Lemma joinR_sel q : cols_p q ⊆ tc → sem_join c p (sem_sel q l) F = sem_sel q (sem_join c p l F).
  Proof.
    intros Hq. rewrite !sem_join_blocks. unfold sem_sel. apply flat_map_filter.
    intros x Hx b Hb. apply elem_of_list_In in Hx.
    rewrite <- (holds_restrict q tc b Hq). rewrite (jblock_restrict c p tc l F x b HL Hcons Hx Hb). reflexivity.
  Qed.

  Lemma joinR_sort ts : op_required (Sort ts) ⊆ tc → sem_join c p (sem_sort ts l) F = sem_sort ts (sem_join c p l F).
  Proof.
    intros Hts. rewrite !sem_join_blocks. unfold sem_sort. symmetry.
    apply (isort_flat_map (leb_terms ts) (leb_terms ts) (jblock c p F) (λ x, x ∈ l) (leb_terms_total ts) (leb_terms_trans ts)).
    - intros x y Hx Hy b d Hb Hd.
      rewrite <- (leb_terms_ext ts (restrict tc) b d).
      + rewrite (jblock_restrict c p tc l F x b HL Hcons Hx Hb), (jblock_restrict c p tc l F y d HL Hcons Hy Hd). reflexivity.
      + intros e asc Hin r. apply ev_restrict. etransitivity; [apply (sort_terms_cols ts e asc Hin)|exact Hts].
    - rewrite List.Forall_forall. intros x Hx. apply elem_of_list_In. exact Hx.
  Qed.

  Lemma joinR_calc t e : cols_e e ⊆ tc → t ∉ cf → t ∉ cols_p p → t ∉ c →
    sem_join c p (sem_calc t e l) F = sem_calc t e (sem_join c p l F).
  Proof.
    intros He Ht2 Htp Htc. rewrite !sem_join_blocks. unfold sem_calc. apply flat_map_map_blocks.
    intros x Hx. apply elem_of_list_In in Hx. unfold jblock. apply omap_fmap_ext. intros r Hr.
    assert (Hdr : dom r = cf) by (apply (rows_dom_elem cf F r HF Hr)).
    assert (Hrt : r !! t = None) by (apply not_elem_of_dom; rewrite Hdr; exact Ht2).
    assert (Ea : agree_on c (calc1 t e x) r = agree_on c x r).
    { unfold agree_on, calc1. rewrite restrict_insert_notin by exact Htc. reflexivity. }
    assert (Em : merge_rows (calc1 t e x) r = <[t := ev e x]> (merge_rows x r)).
    { unfold merge_rows, calc1. symmetry. apply insert_union_r. exact Hrt. }
    rewrite Ea, Em. rewrite holds_insert_notin by exact Htp.
    destruct (agree_on c x r) eqn:Eag; cbn [andb]; [|reflexivity].
    destruct (holds p (merge_rows x r)); cbn [fmap option_fmap option_map]; [|reflexivity].
    f_equal. unfold calc1. f_equal.
    rewrite <- (ev_restrict e tc (merge_rows x r) He). rewrite merge_restrict_l; [reflexivity| |].
    - apply (rows_dom_elem tc l x HL Hx).
    - apply (Hcons x r Hx Hr Eag).
  Qed.

  Lemma joinR_proj cs : c ⊆ cs → cols_p p ⊆ cs ∪ cf →
    sem_join c p (sem_proj cs l) F = sem_proj (cs ∪ cf) (sem_join c p l F).
  Proof.
    intros Hc Hp. rewrite !sem_join_blocks. unfold sem_proj. apply flat_map_map_blocks.
    intros x Hx. unfold jblock. apply omap_fmap_ext. intros r Hr.
    assert (Hdr : dom r = cf) by (apply (rows_dom_elem cf F r HF Hr)).
    assert (Ea : agree_on c (restrict cs x) r = agree_on c x r).
    { unfold agree_on. rewrite restrict_restrict by exact Hc. reflexivity. }
    assert (Em : merge_rows (restrict cs x) r = restrict (cs ∪ cf) (merge_rows x r)).
    { rewrite (restrict_merge cs cf x r).
      - rewrite (restrict_id cf r) by (rewrite Hdr; reflexivity). reflexivity.
      - rewrite Hdr. reflexivity.
      - rewrite Hdr. set_solver. }
    rewrite Ea, Em. rewrite holds_restrict by exact Hp.
    destruct (agree_on c x r && holds p (merge_rows x r)); reflexivity.
  Qed.
End FixedRight.

(* ---- the fixed operand on the left: J(l) = F ⋈ l, one block of l-matches per row of F ---- *)
Definition gL (c : gset tag) (p : pred) (f0 x : row) : option row :=
  if agree_on c f0 x && holds p (merge_rows f0 x) then Some (merge_rows f0 x) else None.
Lemma sem_join_left c p (F l : rows) : sem_join c p F l = flat_map (λ f0, omap (gL c p f0) l) F.
Proof. reflexivity. Qed.

Lemma restrict_merge_left cs tc cf (f0 x : row) :
  dom f0 = cf → dom x = tc → (tc ∖ cs) ∩ cf = ∅ →
  restrict (cs ∪ cf) (merge_rows f0 x) = merge_rows f0 (restrict cs x).
Proof.
  intros Hf Hx Hh. unfold merge_rows. apply map_eq. intros k.
  rewrite restrict_lookup, !lookup_union, restrict_lookup.
  destruct (decide (k ∈ cs)) as [Hk|Hk].
  - destruct (decide (k ∈ cs ∪ cf)); [reflexivity|set_solver].
  - destruct (decide (k ∈ cs ∪ cf)) as [Hk2|Hk2].
    + assert (Hxk : x !! k = None). { apply not_elem_of_dom. rewrite Hx. set_solver. }
      rewrite Hxk. reflexivity.
    + assert (Hfk : f0 !! k = None). { apply not_elem_of_dom. rewrite Hf. set_solver. }
      rewrite Hfk. reflexivity.
Qed.

Section FixedLeft.
  Context (c : gset tag) (p : pred) (tc cf : gset tag) (l F : rows).
  Hypothesis HL : rows_dom tc l.
  Hypothesis HF : rows_dom cf F.

  Lemma joinL_sel q : cols_p q ⊆ tc → sem_join c p F (sem_sel q l) = sem_sel q (sem_join c p F l).
  Proof.
    intros Hq. rewrite !sem_join_left. unfold sem_sel. rewrite filter_flat_map. apply flat_map_ext_in. intros f0 _.
    apply omap_filter_comm. intros x b Hx Hg. unfold gL in Hg.
    destruct (agree_on c f0 x && holds p (merge_rows f0 x)); [|discriminate]. injection Hg as <-.
    rewrite <- (holds_restrict q tc _ Hq). rewrite merge_restrict_r; [reflexivity|].
    apply (rows_dom_elem tc l x HL Hx).
  Qed.

  Lemma joinL_calc t e : cols_e e ⊆ tc → t ∉ cols_p p → t ∉ c →
    sem_join c p F (sem_calc t e l) = sem_calc t e (sem_join c p F l).
  Proof.
    intros He Htp Htc. rewrite !sem_join_left. unfold sem_calc. rewrite map_flat_map'. apply flat_map_ext_in. intros f0 _.
    apply omap_map_comm. intros x Hx. unfold gL.
    assert (Ea : agree_on c f0 (calc1 t e x) = agree_on c f0 x).
    { unfold agree_on, calc1. rewrite restrict_insert_notin by exact Htc. reflexivity. }
    assert (Em : merge_rows f0 (calc1 t e x) = <[t := ev e x]> (merge_rows f0 x)).
    { unfold merge_rows, calc1. symmetry. apply insert_union_l. }
    rewrite Ea, Em. rewrite holds_insert_notin by exact Htp.
    destruct (agree_on c f0 x && holds p (merge_rows f0 x)); cbn [fmap option_fmap option_map]; [|reflexivity].
    f_equal. unfold calc1. f_equal.
    rewrite <- (ev_restrict e tc (merge_rows f0 x) He). rewrite merge_restrict_r; [reflexivity|].
    apply (rows_dom_elem tc l x HL Hx).
  Qed.

  Lemma joinL_proj cs : c ⊆ cs → cols_p p ⊆ cs ∪ cf → (tc ∖ cs) ∩ cf = ∅ →
    sem_join c p F (sem_proj cs l) = sem_proj (cs ∪ cf) (sem_join c p F l).
  Proof.
    intros Hc Hp Hh. rewrite !sem_join_left. unfold sem_proj. rewrite map_flat_map'. apply flat_map_ext_in. intros f0 Hf0.
    apply elem_of_list_In in Hf0.
    apply omap_map_comm. intros x Hx. unfold gL.
    assert (Ea : agree_on c f0 (restrict cs x) = agree_on c f0 x).
    { unfold agree_on. rewrite restrict_restrict by exact Hc. reflexivity. }
    assert (Em : merge_rows f0 (restrict cs x) = restrict (cs ∪ cf) (merge_rows f0 x)).
    { symmetry. apply (restrict_merge_left cs tc cf); [apply (rows_dom_elem cf F f0 HF Hf0)|apply (rows_dom_elem tc l x HL Hx)|exact Hh]. }
    rewrite Ea, Em. rewrite holds_restrict by exact Hp.
    destruct (agree_on c f0 x && holds p (merge_rows f0 x)); reflexivity.
  Qed.

  Lemma joinL_sort ts : Permutation (sem_sort ts (sem_join c p F l)) (sem_join c p F (sem_sort ts l)).
  Proof.
    unfold sem_sort. etransitivity; [symmetry; apply isort_perm|].
    rewrite !sem_join_left. apply flat_map_perm. intros f0 _.
    apply omap_Permutation. apply isort_perm.
  Qed.
End FixedLeft.

(* ---- the statement of C04 for a PartialJoin request ---- *)
Definition commutator_sound_upto (R : rows → rows → Prop)
    (env : lenv) (new : req) (cur : uop) (tcols : gset tag) (c : commutator) (l : rows) : Prop :=
  match c_first c with
  | None => c_second c = cur ∧ c_done c = false
  | Some f =>
      req_wf env f tcols ∧
      (c_second c = Ident ∨ op_wf (c_second c) (req_columns f tcols)) ∧
      (let l2 := sem_op (c_second c) (sem_req env f l) in
       R (if c_done c then l2 else sem_req env new l2) (sem_req env new (sem_op cur l)))
  end.

Lemma commutator_sound_upto_eq env new cur tcols c l :
  commutator_sound_upto eq env new cur tcols c l ↔ commutator_sound env new cur tcols c l.
Proof. reflexivity. Qed.

Lemma subset_union_diff (a b cset : gset tag) : a ∖ b ⊆ cset → a ⊆ cset ∪ b.
Proof. intros H k Hk. destruct (decide (k ∈ b)); set_solver. Qed.

Theorem commute_sound_join env j f lhs cur tcols l :
  rows_dom tcols l → op_wf cur tcols → req_wf env (RJoin j f lhs) (op_columns cur tcols) →
  consistent (j_min j) l (sem_tree env f) →
  commutator_sound_upto (if lhs && is_reordering cur then Permutation else eq)
    env (RJoin j f lhs) cur tcols (commute (RJoin j f lhs) cur tcols) l.
Proof.
  intros Hd Hcur (Hmax & Hreqd & Hmin & Hp & Wf & Ef) Hcons.
  pose proof (sem_tree_dom env f Wf Ef) as HF.
  assert (Hfail : commutator_sound_upto (if lhs && is_reordering cur then Permutation else eq)
                    env (RJoin j f lhs) cur tcols (comm_fail cur) l) by (unfold commutator_sound_upto, comm_fail; simpl; auto).
  destruct cur as [t e| |cs|q|a b|ts|]; cbn [commute]; try exact Hfail.
  - (* Calculation *)
    destruct Hcur as (C1 & C2 & C3). cbn [op_columns] in *.
    destruct (bool_decide (t ∈ columns f)) eqn:Etf; [exact Hfail|]. apply bool_decide_eq_false in Etf.
    destruct (bool_decide (pjoin_required j f ⊆ tcols)) eqn:Er; cbn [negb]; [|exact Hfail]. apply bool_decide_eq_true in Er.
    cbn [is_count_dependent].
    assert (Hp' : cols_p (j_pred j) ⊆ tcols ∪ columns f) by (apply subset_union_diff; unfold pjoin_required in Er; set_solver).
    assert (Htp : t ∉ cols_p (j_pred j)) by set_solver.
    assert (Htc : t ∉ j_min j) by set_solver.
    unfold commutator_sound_upto; cbn [c_first c_second c_done req_wf req_columns op_wf sem_req sem_op is_reordering].
    rewrite andb_false_r.
    split; [repeat split; auto|]. split; [right; repeat split; auto; set_solver|].
    destruct lhs.
    + symmetry. apply (joinL_calc (j_min j) (j_pred j) tcols l (sem_tree env f) Hd t e C1 Htp Htc).
    + symmetry. apply (joinR_calc (j_min j) (j_pred j) tcols (columns f) l (sem_tree env f) Hd HF Hcons t e C1 Etf Htp Htc).
  - (* Projection *)
    cbn [op_columns op_wf] in *.
    destruct (bool_decide ((tcols ∖ cs) ∩ columns f = ∅)) eqn:Eh; cbn [negb]; [|exact Hfail]. apply bool_decide_eq_true in Eh.
    assert (Hc : j_min j ⊆ cs) by (unfold pjoin_required in Hreqd; set_solver).
    unfold commutator_sound_upto; cbn [c_first c_second c_done req_wf req_columns op_wf sem_req sem_op is_reordering].
    rewrite andb_false_r.
    split; [repeat split; auto; set_solver|]. split; [right; set_solver|].
    destruct lhs.
    + symmetry. apply (joinL_proj (j_min j) (j_pred j) tcols (columns f) l (sem_tree env f) Hd HF cs Hc Hp Eh).
    + symmetry. apply (joinR_proj (j_min j) (j_pred j) tcols (columns f) l (sem_tree env f) Hd HF Hcons cs Hc Hp).
  - (* Selection *)
    cbn [op_columns op_wf] in *.
    destruct (bool_decide (pjoin_required j f ⊆ tcols)) eqn:Er; cbn [negb]; [|exact Hfail]. apply bool_decide_eq_true in Er.
    cbn [is_count_dependent].
    unfold commutator_sound_upto; cbn [c_first c_second c_done req_wf req_columns op_wf sem_req sem_op is_reordering].
    rewrite andb_false_r.
    split; [repeat split; auto|]. split; [right; set_solver|].
    destruct lhs.
    + symmetry. apply (joinL_sel (j_min j) (j_pred j) tcols l (sem_tree env f) Hd q Hcur).
    + symmetry. apply (joinR_sel (j_min j) (j_pred j) tcols l (sem_tree env f) Hd Hcons q Hcur).
  - (* Slice: count dependent, never moved *)
    destruct (bool_decide (pjoin_required j f ⊆ tcols)); cbn [negb is_count_dependent]; exact Hfail.
  - (* Sort *)
    cbn [op_columns] in *.
    destruct (bool_decide (pjoin_required j f ⊆ tcols)) eqn:Er; cbn [negb]; [|exact Hfail]. apply bool_decide_eq_true in Er.
    cbn [is_count_dependent].
    unfold commutator_sound_upto; cbn [c_first c_second c_done req_wf req_columns sem_req sem_op is_reordering].
    rewrite andb_true_r.
    split; [repeat split; auto|]. split; [right; simpl in *; set_solver|].
    destruct lhs.
    + apply (joinL_sort (j_min j) (j_pred j) l (sem_tree env f) ts).
    + symmetry. apply (joinR_sort (j_min j) (j_pred j) tcols l (sem_tree env f) Hd Hcons ts Hcur).
  - destruct Hcur.
Qed.

(* a decidable form of the contract, for concrete tables *)
Definition consistentb (c : gset tag) (L R : rows) : bool :=
  forallb (λ x : row, forallb (λ r : row,
    negb (agree_on c x r) || bool_decide (restrict (dom r) x = restrict (dom x) r)) R) L.

Lemma consistentb_spec c L R : consistentb c L R = true → consistent c L R.
Proof.
  unfold consistentb, consistent. intros H x r Hx Hr Ha k Hkx Hkr.
  rewrite forallb_forall in H. specialize (H x (proj1 (elem_of_list_In _ _) Hx)).
  rewrite forallb_forall in H. specialize (H r (proj1 (elem_of_list_In _ _) Hr)).
  rewrite Ha in H. cbn [negb orb] in H. apply bool_decide_eq_true in H.
  assert (E : restrict (dom r) x !! k = restrict (dom x) r !! k) by (rewrite H; reflexivity).
  rewrite !restrict_lookup in E.
  destruct (decide (k ∈ dom r)); [|contradiction]. destruct (decide (k ∈ dom x)); [|contradiction]. exact E.
Qed.
