(* C19: generated names are pairwise distinct under every interleaving, and carry their prefix. *)
From DR Require Import Model.Names.
From Coq Require Import Lia Permutation.
Import ListNotations.
Local Open Scope list_scope.

Lemma app_suffix_inj {A} (a b h1 h2 : list A) : length h1 = length h2 -> a ++ h1 = b ++ h2 -> h1 = h2.
Proof.
  revert b. induction a as [|x a IH]; intros b Hl H.
  - destruct b as [|y b]; simpl in H; auto.
    assert (length h1 = length (y :: b ++ h2)) by (rewrite H; reflexivity).
    simpl in H0. rewrite app_length in H0. lia.
  - destruct b as [|y b]; simpl in H.
    + assert (length (x :: a ++ h1) = length h2) by (rewrite H; reflexivity).
      simpl in H0. rewrite app_length in H0. lia.
    + injection H as _ H. eapply IH; eauto.
Qed.

Lemma NoDup_remove_mid {A} (l1 l2 l3 : list A) : NoDup (l1 ++ l2 ++ l3) -> NoDup (l1 ++ l3).
Proof.
  induction l2 as [|x l2 IH]; simpl; auto. intros H. apply IH. eapply NoDup_remove_1; eauto.
Qed.
Lemma NoDup_app_l {A} (l1 l2 : list A) : NoDup (l1 ++ l2) -> NoDup l1.
Proof. intros H. rewrite <- (app_nil_r l1). apply (NoDup_remove_mid l1 l2 []). rewrite app_nil_r. exact H. Qed.

(* the generated f-string ends with the uuid's hex digits and starts with the prefix *)
Lemma render_shape prefix c u :
  exists mid, render name_parts prefix c u = prefix ++ mid ++ u.
Proof.
  exists (concat (map (render_part prefix c u) (removelast (tl name_parts)))).
  unfold render, name_parts. cbn [map concat render_part tl removelast].
  rewrite ?app_nil_r, <- ?app_assoc. reflexivity.
Qed.

Section Distinct.
  Variable uuid_hex : nat -> list ascii.
  Hypothesis hex_len : forall k, length (uuid_hex k) = 32.
  Hypothesis hex_inj : forall j k, uuid_hex j = uuid_hex k -> j = k.

  Definition name_ok (x : nat * list ascii) : Prop :=
    exists front, snd x = front ++ uuid_hex (fst x).

  (* names held by in-flight threads and names already handed out *)
  Definition pn (t : thread) : list (nat * list ascii) := match t_name t with Some x => [x] | None => [] end.
  Definition pending (l : list thread) : list (nat * list ascii) := flat_map pn l.
  Definition held (w : world) : list (nat * list ascii) := w_out w ++ pending (w_threads w).

  Definition inv (w : world) : Prop :=
    NoDup (map fst (held w)) /\ Forall (fun x => fst x < w_draws w) (held w) /\ Forall name_ok (held w).

  Lemma render_name_ok prefix c k : name_ok (k, render name_parts prefix c (uuid_hex k)).
  Proof. destruct (render_shape prefix c (uuid_hex k)) as [mid H]. exists (prefix ++ mid). simpl. rewrite H, app_assoc. reflexivity. Qed.

  Lemma names_distinct_of_inv w : inv w -> NoDup (names w).
  Proof.
    intros (Hnd & _ & Hok). unfold names.
    assert (Hnd' : NoDup (map fst (w_out w))).
    { unfold held in Hnd. rewrite map_app in Hnd. apply NoDup_app_l in Hnd. exact Hnd. }
    assert (Hok' : Forall name_ok (w_out w)).
    { unfold held in Hok. apply Forall_app in Hok. tauto. }
    clear Hnd Hok. induction (w_out w) as [|[k nm] l IH]; simpl; constructor.
    - apply NoDup_cons_iff in Hnd' as [Hk Hl]. simpl in Hk.
      pose proof (Forall_inv Hok') as [f Hf]. pose proof (Forall_inv_tail Hok') as Hfl. simpl in Hf.
      intros Hin. apply in_map_iff in Hin as [[k' nm'] [E Hin]]. simpl in E.
      rewrite Forall_forall in Hfl. destruct (Hfl _ Hin) as [f' Hf']. simpl in Hf'.
      assert (Hu : uuid_hex k' = uuid_hex k).
      { apply (app_suffix_inj f' f); [rewrite !hex_len; auto|congruence]. }
      apply hex_inj in Hu. subst k'. apply Hk. apply in_map_iff. exists (k, nm'). auto.
    - apply NoDup_cons_iff in Hnd' as [_ Hl]. apply IH; auto. eapply Forall_inv_tail; eauto.
  Qed.

  (* ---- the invariant is preserved by every micro-step of every thread ---- *)
  Lemma nth_error_split {A} (l : list A) i t :
    nth_error l i = Some t -> l = firstn i l ++ t :: skipn (S i) l /\ forall t', set_nth i t' l = firstn i l ++ t' :: skipn (S i) l.
  Proof.
    revert i. induction l as [|x l IH]; intros [|i] H; simpl in H; try discriminate.
    - injection H as ->. split; auto.
    - destruct (IH i H) as [E1 E2]. split.
      + simpl. f_equal. exact E1.
      + intros t'. unfold set_nth in *. simpl. f_equal. apply E2.
  Qed.

  Lemma pending_app a b : pending (a ++ b) = pending a ++ pending b.
  Proof. unfold pending. apply flat_map_app. Qed.

  Definition inv_list (d : nat) (h : list (nat * list ascii)) : Prop :=
    NoDup (map fst h) /\ Forall (fun x => fst x < d) h /\ Forall name_ok h.

  Lemma inv_list_perm d h h' : Permutation.Permutation h h' -> inv_list d h -> inv_list d h'.
  Proof.
    intros P (A & B & C). repeat split.
    - eapply Permutation.Permutation_NoDup; [apply Permutation.Permutation_map; exact P|exact A].
    - eapply Permutation.Permutation_Forall; eauto.
    - eapply Permutation.Permutation_Forall; eauto.
  Qed.

  Lemma inv_list_remove d a x b : inv_list d (a ++ x ++ b) -> inv_list d (a ++ b).
  Proof.
    intros (A & B & C). repeat split.
    - rewrite !map_app in *. apply NoDup_remove_mid with (l2 := map fst x). exact A.
    - apply Forall_app in B as [B1 B2]. apply Forall_app in B2 as [_ B2]. apply Forall_app; auto.
    - apply Forall_app in C as [C1 C2]. apply Forall_app in C2 as [_ C2]. apply Forall_app; auto.
  Qed.

  Lemma inv_list_weaken d d' h : d <= d' -> inv_list d h -> inv_list d' h.
  Proof.
    intros Hd (A & B & C). repeat split; auto. eapply Forall_impl; [|exact B]. simpl. intros; lia.
  Qed.

  Lemma inv_list_add_fresh d h x : inv_list d h -> fst x = d -> name_ok x -> inv_list (S d) (x :: h).
  Proof.
    intros (A & B & C) Hx Hok. repeat split.
    - simpl. constructor; auto. intros Hin. apply in_map_iff in Hin as [y [E Hy]].
      rewrite Forall_forall in B. specialize (B y Hy). lia.
    - constructor; [lia|]. eapply Forall_impl; [|exact B]. simpl. intros; lia.
    - constructor; auto.
  Qed.

  Lemma step_inv w i : inv w -> inv (step uuid_hex w i).
  Proof.
    unfold step. destruct (nth_error (w_threads w) i) as [t|] eqn:En; auto.
    destruct (nth_error_split _ _ _ En) as [Esplit Eset].
    intros Hinv. change (inv_list (w_draws w) (held w)) in Hinv.
    unfold step_thread. destruct (t_todo t) as [|m rest]; auto.
    set (A := firstn i (w_threads w)) in *. set (B := skipn (S i) (w_threads w)) in *.
    assert (Hh : held w = w_out w ++ pending A ++ pn t ++ pending B).
    { unfold held. rewrite Esplit at 1. rewrite pending_app. simpl. reflexivity. }
    rewrite Hh in Hinv.
    destruct m; unfold inv, held; cbn [w_out w_threads w_draws]; rewrite Eset, pending_app; cbn [pending flat_map];
      fold (pending B); unfold pn at 1; cbn [t_name].
    - (* build: the new uuid index is larger than every index held so far *)
      change (inv_list (S (w_draws w)) (w_out w ++ pending A ++ [(w_draws w, render name_parts (t_prefix t) (nth (t_eng t) (w_ctr w) 0) (uuid_hex (w_draws w)))] ++ pending B)).
      apply inv_list_perm with (h := (w_draws w, render name_parts (t_prefix t) (nth (t_eng t) (w_ctr w) 0) (uuid_hex (w_draws w))) :: (w_out w ++ pending A ++ pending B)).
      { rewrite (app_assoc (w_out w) (pending A) (pending B)), (app_assoc (w_out w) (pending A) (_ ++ pending B)).
        cbn [app]. apply Permutation.Permutation_middle. }
      apply inv_list_add_fresh; auto using render_name_ok.
      replace (w_out w ++ pending A ++ pending B) with ((w_out w ++ pending A) ++ pending B) by (rewrite app_assoc; auto).
      apply inv_list_remove with (x := pn t). rewrite <- app_assoc. exact Hinv.
    - exact Hinv.
    - exact Hinv.
    - (* return: the name moves from the thread to the output *)
      unfold pn in Hinv. destruct (t_name t) as [x|]; [|simpl in *; exact Hinv].
      change (inv_list (w_draws w) ((w_out w ++ [x]) ++ pending A ++ [] ++ pending B)).
      eapply inv_list_perm; [|exact Hinv]. simpl.
      rewrite <- !app_assoc. apply Permutation.Permutation_app_head. simpl.
      apply Permutation.Permutation_sym, Permutation.Permutation_middle.
  Qed.

  Lemma init_inv n reqs : inv (init n reqs).
  Proof.
    unfold inv, init, held. cbn [w_out w_threads w_draws]. simpl.
    assert (E : pending (map (fun r => Thread (fst r) (snd r) call_program None 0) reqs) = []).
    { induction reqs; simpl; auto. }
    rewrite E. simpl. repeat split; constructor.
  Qed.

  Theorem run_inv sched w : inv w -> inv (run uuid_hex sched w).
  Proof. revert w. induction sched as [|i sched IH]; simpl; intros w H; auto. apply IH, step_inv, H. Qed.

  (* names handed out are pairwise distinct, for every schedule and any number of threads/engines *)
  Theorem names_distinct n reqs sched : NoDup (names (run uuid_hex sched (init n reqs))).
  Proof. apply names_distinct_of_inv, run_inv, init_inv. Qed.
End Distinct.

Lemma render_has_prefix prefix c u : exists rest, render name_parts prefix c u = prefix ++ rest.
Proof. destruct (render_shape prefix c u) as [mid H]. exists (mid ++ u). exact H. Qed.
