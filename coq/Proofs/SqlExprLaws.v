(* C12: the SQL translation of column expressions and predicates evaluates, under SQLite's
   semantics, to the same value as direct evaluation. *)
From DR Require Import Model.SqlConv Proofs.PredLaws.
From Coq Require Import Lia.
Local Open Scope Z_scope.

Lemma truth_b2z b : truth (b2z b) = b.
Proof. destruct b; reflexivity. Qed.

Lemma to_sql_e_agrees e r : seval (to_sql_e e) r = eval e r.
Proof.
  induction e; simpl; auto.
  - rewrite IHe. reflexivity.
  - rewrite IHe1, IHe2. reflexivity.
  - rewrite IHe1, IHe2. reflexivity.
  - rewrite IHe1, IHe2. reflexivity.
Qed.

Lemma mod_eq_iff x a s : 0 < s -> ((x - a) mod s = 0 <-> x mod s = a mod s).
Proof.
  intros Hs. split; intros H.
  - apply Z.mod_divide in H; [|lia]. destruct H as [k Hk].
    replace x with (a + k * s) by lia. apply Z_mod_plus_full.
  - rewrite Zminus_mod, H, Z.sub_diag. apply Z.mod_0_l. lia.
Qed.

(* Python range semantics: a descending range has the members of an ascending one *)
Lemma in_range_desc_empty a b s x : s < 0 -> a <= b -> in_range a b s x = false.
Proof.
  intros Hs Hab. unfold in_range.
  destruct (Z.ltb_spec 0 s); [lia|]. destruct (Z.ltb_spec s 0); [|lia].
  destruct (Z.ltb_spec b x), (Z.leb_spec x a); simpl; auto. lia.
Qed.

Lemma in_range_desc_as_asc a b s x : s < 0 -> b < a ->
  in_range a b s x = in_range (a + ((a - b - 1) / (- s)) * s) (a + 1) (- s) x.
Proof.
  intros Hs Hab. unfold in_range.
  destruct (Z.ltb_spec 0 s); [lia|]. destruct (Z.ltb_spec s 0); [|lia].
  destruct (Z.ltb_spec 0 (- s)); [|lia].
  set (m := - s) in *. set (q := (a - b - 1) / m).
  assert (Hm : 0 < m) by lia.
  pose proof (Z.div_mod (a - b - 1) m ltac:(lia)) as Hdm. fold q in Hdm.
  pose proof (Z.mod_pos_bound (a - b - 1) m Hm) as Hb.
  set (rr := (a - b - 1) mod m) in *.
  replace (a + q * s) with (a - q * m) by (unfold m; lia).
  set (last := a - q * m).
  assert (Hq : 0 <= q) by (apply Z.div_pos; lia).
  apply eq_iff_eq_true. rewrite !andb_true_iff, !Z.eqb_eq, !Z.leb_le, !Z.ltb_lt.
  split.
  - intros [[L1 L2] E]. apply Z.mod_divide in E; [|lia]. destruct E as [k Hk].
    assert (k <= q) by nia.
    split; [split; [unfold last; nia|lia]|].
    apply Z.mod_divide; [lia|]. exists (q - k). unfold last. nia.
  - intros [[L1 L2] E]. apply Z.mod_divide in E; [|lia]. destruct E as [k Hk].
    split; [split; [unfold last in *; nia|lia]|].
    apply Z.mod_divide; [lia|]. exists (q - k). unfold last in *. nia.
Qed.

(* evaluation of the "ascending" translation shapes, whatever tests the generated code makes *)
Ltac solve_asc x :=
  repeat match goal with
         | |- context [if ?c then _ else _] =>
             lazymatch c with
             | context [seval] => fail
             | context [x] => fail
             | _ => destruct c eqn:?
             end
         end;
  cbn [seval mbind option_bind];
  repeat match goal with
         | H : (_ =? _) = true |- _ => apply Z.eqb_eq in H
         | H : (_ =? _) = false |- _ => apply Z.eqb_neq in H
         | H : (_ <? _) = true |- _ => apply Z.ltb_lt in H
         | H : (_ <? _) = false |- _ => apply Z.ltb_ge in H
         | H : negb _ = true |- _ => apply negb_true_iff in H
         | H : negb _ = false |- _ => apply negb_false_iff in H
         end.

Lemma asc_mod_eq x a s : 0 < s -> 0 <= a -> a <= x ->
  (Z.rem x s = a mod s) <-> ((x - a) mod s = 0).
Proof. intros. rewrite Z.rem_mod_nonneg by lia. symmetry. apply mod_eq_iff; auto. Qed.

(* the range-literal arm, as generated from the current source *)
Lemma range_to_sql_agrees s a b st r x :
  range_ok a b st = true -> seval s r = Some x ->
  seval (range_to_sql s a b st) r = Some (b2z (in_range a b st x)).
Proof.
  unfold range_ok. intros Hok Es. apply negb_true_iff, Z.eqb_neq in Hok.
  assert (ASC : forall A B S, 0 < S ->
            (A = B - 1 -> b2z (cmpb CEq x A) = b2z (in_range A B S x)) /\
            (A <> B - 1 -> S = 1 -> b2z ((A <=? x) && (x <=? B - 1)) = b2z (in_range A B S x)) /\
            (A <> B - 1 -> S <> 1 -> 0 <= A ->
               b2z ((A <=? x) && (x <=? B - 1) && (Z.rem x S =? A mod S)) = b2z (in_range A B S x)) /\
            (A <> B - 1 -> S <> 1 ->
               b2z ((A <=? x) && (x <=? B - 1) && (Z.rem (x - A) S =? 0)) = b2z (in_range A B S x))).
  { intros A B S HS. unfold in_range, cmpb. destruct (Z.ltb_spec 0 S); [|lia].
    repeat split; intros; f_equal; apply eq_iff_eq_true;
      rewrite ?andb_true_iff, ?Z.eqb_eq, ?Z.leb_le, ?Z.ltb_lt.
    - split; [intros ->; replace (A - A) with 0 by lia; rewrite Z.mod_0_l by lia; lia|lia].
    - subst S. rewrite Z.mod_1_r. lia.
    - split; intros [[L1 L2] E]; (split; [lia|]); apply (asc_mod_eq x A S); auto; lia.
    - split; intros [[L1 L2] E]; (split; [lia|]); rewrite Z.rem_mod_nonneg in *; auto; lia. }
  unfold range_to_sql.
  destruct (Z.ltb_spec st 0) as [Hneg|Hpos].
  - destruct (Z.leb_spec a b) as [Hab|Hab].
    + cbn [seval]. rewrite in_range_desc_empty by lia. reflexivity.
    + cbv zeta. rewrite (in_range_desc_as_asc a b st x) by lia.
      set (A := a + (a - b - 1) / - st * st). set (B := a + 1). set (S := - st).
      destruct (ASC A B S ltac:(unfold S; lia)) as (C1 & C2 & C3 & C4).
      assert (Hz : S <> 0) by (unfold S; lia).
      solve_asc x; rewrite ?Es; cbn [mbind option_bind];
        try (destruct (Z.eqb_spec S 0) as [?|_]; [contradiction|]); cbn [mbind option_bind];
        rewrite ?truth_b2z; unfold cmpb in *; change (truth 1) with true; rewrite ?andb_true_r, ?truth_b2z;
        f_equal; first [apply C1; lia | apply C2; lia | apply C3; lia | apply C4; lia].
  - cbv zeta.
    destruct (ASC a b st ltac:(lia)) as (C1 & C2 & C3 & C4).
    solve_asc x; rewrite ?Es; cbn [mbind option_bind];
      try (destruct (Z.eqb_spec st 0) as [?|_]; [contradiction|]); cbn [mbind option_bind];
      rewrite ?truth_b2z; unfold cmpb in *; change (truth 1) with true; rewrite ?andb_true_r, ?truth_b2z;
      f_equal; first [apply C1; lia | apply C2; lia | apply C3; lia | apply C4; lia].
Qed.

Definition seval_and (r : row) := fix go (l : list sexpr) : option Z :=
  match l with [] => Some 1 | a :: l' => x ← seval a r; y ← go l'; Some (b2z (truth x && truth y)) end.
Definition seval_or (r : row) := fix go (l : list sexpr) : option Z :=
  match l with [] => Some 0 | a :: l' => x ← seval a r; y ← go l'; Some (b2z (truth x || truth y)) end.
Definition to_sql_ps := fix go (l : list pred) : list sexpr :=
  match l with [] => [] | q :: l' => to_sql_p q :: go l' end.
Definition ranges_ok_ps := fix go (l : list pred) : bool :=
  match l with [] => true | q :: l' => pred_ranges_ok q && go l' end.

Definition sp_ok (r : row) (q : pred) : Prop :=
  pred_ranges_ok q = true -> forall b, evalp q r = Some b -> sholds (to_sql_p q) r = Some b.

Lemma sand_agrees r ps : Forall (sp_ok r) ps -> ranges_ok_ps ps = true ->
  forall b, evalp_and r ps = Some b -> option_map truth (seval_and r (to_sql_ps ps)) = Some b.
Proof.
  induction 1 as [|q ps Hq Hps IH]; simpl; intros Hok b He; auto.
  apply andb_true_iff in Hok as [Ho1 Ho2].
  destruct (evalp q r) as [x|] eqn:Eq; [|discriminate]. cbn [mbind option_bind] in He.
  destruct (evalp_and r ps) as [y|] eqn:Ey; [|discriminate]. injection He as <-.
  specialize (Hq Ho1 x Eq). specialize (IH Ho2 y eq_refl). unfold sholds in Hq.
  destruct (seval (to_sql_p q) r) as [vx|]; [|discriminate]. injection Hq as <-.
  destruct (seval_and r (to_sql_ps ps)) as [vy|]; [|discriminate]. injection IH as <-.
  simpl. rewrite truth_b2z. reflexivity.
Qed.

Lemma sor_agrees r ps : Forall (sp_ok r) ps -> ranges_ok_ps ps = true ->
  forall b, evalp_or r ps = Some b -> option_map truth (seval_or r (to_sql_ps ps)) = Some b.
Proof.
  induction 1 as [|q ps Hq Hps IH]; simpl; intros Hok b He; auto.
  apply andb_true_iff in Hok as [Ho1 Ho2].
  destruct (evalp q r) as [x|] eqn:Eq; [|discriminate]. cbn [mbind option_bind] in He.
  destruct (evalp_or r ps) as [y|] eqn:Ey; [|discriminate]. injection He as <-.
  specialize (Hq Ho1 x Eq). specialize (IH Ho2 y eq_refl). unfold sholds in Hq.
  destruct (seval (to_sql_p q) r) as [vx|]; [|discriminate]. injection Hq as <-.
  destruct (seval_or r (to_sql_ps ps)) as [vy|]; [|discriminate]. injection IH as <-.
  simpl. rewrite truth_b2z. reflexivity.
Qed.

Lemma sin_agrees r x items :
  option_map truth ((fix go l := match l with [] => Some 0 | a :: l' => y ← seval a r; z ← go l'; Some (b2z ((x =? y) || truth z)) end)
                    (map to_sql_e items))
  = xs ← eval_items items r; Some (mem_z x xs).
Proof.
  induction items as [|e items IH]; [reflexivity|].
  cbn [map eval_items]. rewrite to_sql_e_agrees. destruct (eval e r) as [y|]; cbn [mbind option_bind]; auto.
  match type of IH with option_map truth ?t = _ => destruct t as [z|] end;
    destruct (eval_items items r) as [xs|]; simpl in IH; try discriminate; cbn [mbind option_bind option_map]; auto.
  injection IH as IH. rewrite truth_b2z, IH. reflexivity.
Qed.

(* on every row that has the predicate's columns (direct evaluation succeeds), the database's
   verdict on the translation is the directly evaluated value *)
Theorem sql_pred_agrees p r : sp_ok r p.
Proof.
  unfold sp_ok. induction p using pred_ind2; intros Hok bb He; unfold sholds in *.
  - simpl in *. rewrite truth_b2z. congruence.
  - simpl in *. destruct (r !! t); simpl in *; [exact He|discriminate].
  - simpl in *. rewrite !to_sql_e_agrees. destruct (eval a r); simpl in *; [|discriminate].
    destruct (eval b r); simpl in *; [|discriminate]. rewrite truth_b2z. congruence.
  - simpl in *. destruct (evalp p r) as [x|]; [|discriminate]. injection He as <-.
    specialize (IHp Hok x eq_refl). destruct (seval (to_sql_p p) r) as [v|]; [|discriminate].
    injection IHp as <-. simpl. rewrite truth_b2z. reflexivity.
  - change (ranges_ok_ps ps = true) in Hok. rewrite evalp_PAnd in He.
    destruct ps as [|q [|q' ps]].
    + simpl in He. injection He as <-. reflexivity.
    + inversion H as [|? ? Hq _]; subst. simpl in Hok. rewrite andb_true_r in Hok.
      simpl in He. destruct (evalp q r) as [x|] eqn:Eq; [|discriminate]. simpl in He. injection He as <-.
      rewrite andb_true_r. exact (Hq Hok x eq_refl).
    + exact (sand_agrees r _ H Hok bb He).
  - change (ranges_ok_ps ps = true) in Hok. rewrite evalp_POr in He.
    destruct ps as [|q [|q' ps]].
    + simpl in He. injection He as <-. reflexivity.
    + inversion H as [|? ? Hq _]; subst. simpl in Hok. rewrite andb_true_r in Hok.
      simpl in He. destruct (evalp q r) as [x|] eqn:Eq; [|discriminate]. simpl in He. injection He as <-.
      rewrite orb_false_r. exact (Hq Hok x eq_refl).
    + exact (sor_agrees r _ H Hok bb He).
  - cbn [evalp] in He. destruct (eval e r) as [x|] eqn:Ee; [|discriminate]. cbn [mbind option_bind] in He.
    destruct c as [a b s|items]; cbn [to_sql_p eval_in] in *.
    + simpl in Hok. rewrite (range_to_sql_agrees _ a b s r x Hok) by (rewrite to_sql_e_agrees; auto).
      simpl. rewrite truth_b2z. congruence.
    + cbn [seval]. rewrite to_sql_e_agrees, Ee. cbn [mbind option_bind].
      rewrite sin_agrees. exact He.
Qed.

(* ---- the iteration engine's callables ---- *)
From DR Require Import Model.IterExpr.

Lemma iter_call_e_agrees e r : iter_call_e e r = eval e r.
Proof. induction e; simpl; auto; try rewrite IHe; try rewrite IHe1, IHe2; reflexivity. Qed.

Lemma iter_items_agrees items r :
  (fix go (l : list expr) : option (list Z) :=
     match l with [] => Some [] | i :: l' => v ← iter_call_e i r; vs ← go l'; Some (v :: vs) end) items
  = eval_items items r.
Proof. induction items as [|e items IH]; simpl; auto. rewrite iter_call_e_agrees, IH. reflexivity. Qed.

(* whenever direct evaluation succeeds (all required columns present) the callable returns the
   same value; short-circuiting can only make the callable succeed more often *)
Theorem iter_pred_agrees p r b : evalp p r = Some b -> iter_call_p p r = Some b.
Proof.
  revert b. induction p using pred_ind2; intros bb He; cbn [evalp iter_call_p] in *.
  - auto.
  - auto.
  - rewrite !iter_call_e_agrees. auto.
  - destruct (evalp p r) as [x|]; [|discriminate]. rewrite (IHp x eq_refl). auto.
  - revert bb He. induction H as [|q ps Hq Hps IH]; intros bb He; auto.
    destruct (evalp q r) as [x|] eqn:Eq; [|discriminate]. cbn [mbind option_bind] in He.
    match type of He with (?t ≫= _) = _ => destruct t as [y|] eqn:Ey end; [|discriminate].
    injection He as <-. rewrite (Hq x eq_refl). destruct x; simpl; auto.
  - revert bb He. induction H as [|q ps Hq Hps IH]; intros bb He; auto.
    destruct (evalp q r) as [x|] eqn:Eq; [|discriminate]. cbn [mbind option_bind] in He.
    match type of He with (?t ≫= _) = _ => destruct t as [y|] eqn:Ey end; [|discriminate].
    injection He as <-. rewrite (Hq x eq_refl). destruct x; simpl; auto.
  - rewrite iter_call_e_agrees. destruct (eval e r) as [x|]; [|discriminate]. cbn [mbind option_bind] in *.
    destruct c as [a b s|items]; cbn [eval_in] in *; auto.
    rewrite iter_items_agrees. destruct (eval_items items r); simpl in *; auto.
Qed.
