(* C05: merging / eliding adjacent operations preserves semantics. *)
From DR Require Import Model.WF Proofs.PredLaws Proofs.SliceLaws Proofs.SortLaws Proofs.SemLaws Proofs.Metadata.
From Coq Require Import Lia.
Local Open Scope Z_scope.

Lemma sem_slice_window a b (l : rows) : sem_slice a b l = window a b l.
Proof. reflexivity. Qed.

Lemma slice_ok_valid a b : slice_ok a b <-> slice_valid a b.
Proof. symmetry. apply slice_valid_iff. Qed.

Lemma sort_required_app a b : op_required (Sort (a ++ b)) = op_required (Sort a) ∪ op_required (Sort b).
Proof.
  simpl. induction a as [|[e asc] a IH]; simpl; [set_solver|]. rewrite IH. set_solver.
Qed.

Lemma sort_then_required self next :
  op_required (Sort (sort_then self next)) ⊆ op_required (Sort self) ∪ op_required (Sort next).
Proof.
  unfold sort_then. revert next. induction self as [|t self IH]; intros next; simpl fold_left.
  - set_solver.
  - destruct (existsb (term_eqb t) next).
    + etransitivity; [apply IH|]. destruct t; simpl; set_solver.
    + etransitivity; [apply IH|]. rewrite sort_required_app. destruct t; simpl; set_solver.
Qed.

(* what a no-op test promises *)
Lemma is_noop_sem o cs l :
  is_noop o cs = true → (o = Ident ∨ op_wf o cs) → rows_dom cs l →
  sem_op o l = l ∧ op_columns o cs = cs.
Proof.
  intros Hn Hwf Hl. destruct o; simpl in *; try discriminate.
  - apply bool_decide_eq_true in Hn. subst. split; auto. apply sem_proj_id; auto.
  - destruct (as_trivial p) as [[|]|] eqn:E; try discriminate. split; auto.
    destruct Hwf as [?|Hwf]; [discriminate|]. eapply sem_sel_true; eauto.
  - split; auto. destruct (slice_finish start stop) eqn:E; [|discriminate].
    apply slice_finish_begin in E. apply window_noop; auto.
  - destruct terms; [|discriminate]. split; auto. apply sem_sort_nil.
  - auto.
Qed.

Definition simplify_spec (new up : uop) (cs : gset tag) (l : rows) : Prop :=
  match simplify new up with
  | SNew m => sem_op m l = sem_op new (sem_op up l) ∧ op_wf m cs ∧
              op_columns m cs = op_columns new (op_columns up cs)
  | SUpstream => sem_op new (sem_op up l) = sem_op up l ∧ op_columns new (op_columns up cs) = op_columns up cs
  | SErr _ | SNone => True
  end.

(* merged operations denote the composition of the two operations, on every list of rows *)
Theorem simplify_sound new up cs l :
  op_wf up cs → op_wf new (op_columns up cs) → simplify_spec new up cs l.
Proof.
  unfold simplify_spec. intros Hup Hnew.
  destruct new as [t e| |ps|p|a b|ts|]; simpl; auto.
  - (* Projection *)
    destruct up as [t' e'| |ps'|p'|a' b'|ts'|]; simpl in *; auto.
    + destruct (bool_decide (t' ∈ ps)) eqn:E; auto.
      apply bool_decide_eq_false in E. split; [symmetry; apply sem_proj_calc; auto|]. split; [set_solver|auto].
    + split; [symmetry; apply sem_proj_proj; auto|]. split; [set_solver|auto].
  - (* Selection *)
    destruct up as [t' e'| |ps'|p'|a' b'|ts'|]; simpl in *; auto.
    split; [|split; auto].
    + rewrite sem_sel_sel. apply sem_sel_ext. intros r. apply selection_norm_holds.
    + etransitivity; [apply selection_norm_cols|]. simpl. set_solver.
  - (* Slice *)
    assert (G : match (match up with
                       | Slice ua ub => match slice_then ua ub a b with
                                        | Ok (na, nb) => SNew (Slice na nb) | Err e => SErr e end
                       | _ => SNone end) with
                | SNew m => sem_op m l = sem_slice a b (sem_op up l) ∧ op_wf m cs ∧
                            op_columns m cs = op_columns up cs
                | SUpstream => sem_slice a b (sem_op up l) = sem_op up l ∧ op_columns up cs = op_columns up cs
                | _ => True end).
    { destruct up as [t' e'| |ps'|p'|a' b'|ts'|]; simpl in *; auto.
      destruct (slice_then a' b' a b) as [[na nb]|] eqn:Et; auto.
      split; [|split; auto].
      * apply slice_then_sem; auto; apply slice_ok_valid; auto.
      * apply slice_ok_valid. eapply slice_then_valid; eauto. }
    destruct (slice_begin a b) eqn:Eb; try exact G.
    split; auto. apply window_noop; auto.
  - (* Sort *)
    destruct ts as [|t0 ts].
    + split; auto. apply sem_sort_nil.
    + destruct up as [t' e'| |ps'|p'|a' b'|ts'|]; simpl in *; auto.
      split; [apply sort_then_sem|]. split; auto.
      etransitivity; [apply (sort_then_required ts' (t0 :: ts))|]. simpl in *. set_solver.
Qed.

Theorem simplify_total new up cs e :
  op_wf up cs → op_wf new (op_columns up cs) → simplify new up ≠ SErr e.
Proof.
  intros Hup Hnew. destruct new as [t0 e0| |ps|p|a b|ts|]; simpl; try discriminate.
  - destruct up; try discriminate. destruct (bool_decide _); discriminate.
  - destruct up; discriminate.
  - destruct (slice_begin a b); try discriminate;
      (destruct up as [t' e'| |ps'|p'|a' b'|ts'|]; try discriminate; simpl in *;
       destruct (slice_then_total a' b' a b) as [[na nb] ->]; [apply slice_ok_valid; auto..|discriminate]).
  - destruct ts; [discriminate|]. destruct up; discriminate.
Qed.
