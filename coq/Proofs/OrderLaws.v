(* C11: order is part of the denotation; order loss is refused. *)
From DR Require Import Model.Reach Proofs.SemLaws Proofs.SqlRules.
Local Open Scope Z_scope.

Lemma slice_rule_exact env s a b s' :
  good_all env s → slice_ok a b → append_unary_sel (Slice a b) s = Ok s' →
  sem_tree env s' = sem_slice a b (sem_tree env s).
Proof.
  intros Hg Ho H. destruct (append_unary_sel_sound env s (Slice a b) s' Hg Ho H) as (_ & E & _). exact E.
Qed.

Lemma sort_rule_exact env s ts s' :
  good_all env s → op_required (Sort ts) ⊆ columns s → ts ≠ [] → append_unary_sel (Sort ts) s = Ok s' →
  sem_tree env s' = sem_sort ts (sem_tree env s).
Proof.
  intros Hg Ho _ H. destruct (append_unary_sel_sound env s (Sort ts) s' Hg Ho H) as (_ & E & _). exact E.
Qed.

Lemma binary_refuses_order_loss b l r :
  order_loss l = true ∨ order_loss r = true → append_binary_sel b l r = Err OrderLoss.
Proof.
  unfold append_binary_sel, append_binary_sel_with. intros [H|H].
  - rewrite H. reflexivity.
  - rewrite H. destruct (order_loss l); reflexivity.
Qed.

Lemma materialize_refuses_order_loss n t c :
  conform t = Ok c → order_loss c = true → sql_materialize n t = Err OrderLoss.
Proof. intros Hc Ho. unfold sql_materialize. rewrite Hc. cbn [rbind]. rewrite Ho. reflexivity. Qed.
