(* C02(a) / C17: the join rule of the SQL engine without the restriction to operands that have columns.  When one
   operand is the join identity, Join._finish_apply hands back the other operand with the predicate applied as a
   selection, which re-enters Engine.conform on a relation that is not a subterm of the call's arguments (a stripped
   skip target).  The invariant good_all / chains_good records that every SELECT marker inside a skip target is
   itself good, which is what makes that re-entry sound. *)
From DR Require Import Model.Reach Proofs.PredLaws Proofs.SliceLaws Proofs.SortLaws Proofs.SemLaws
  Proofs.Metadata Proofs.Simplify Proofs.FinishApply Proofs.CommuteLaws Proofs.SqlRules Proofs.BuildLaws
  Proofs.BacktrackLaws Proofs.SqlBinary.
From Coq Require Import Lia.
Local Open Scope Z_scope.

(* ---- joins with the one-row, zero-column relation ---- *)
Lemma omap_filter_some {A} (f : A → bool) (l : list A) :
  omap (fun x => if f x then Some x else None) l = List.filter f l.
Proof. induction l as [|x l IH]; [reflexivity|]. csimpl. destruct (f x); csimpl; rewrite IH; reflexivity. Qed.

Lemma omap_ext {A B} (f g : A → option B) (l : list A) : (∀ x, f x = g x) → omap f l = omap g l.
Proof. intros H. induction l as [|x l IH]; [reflexivity|]. csimpl. rewrite H, IH. reflexivity. Qed.

Lemma sem_join_identity_l p (R : rows) : sem_join ∅ p [∅] R = sem_sel p R.
Proof.
  unfold sem_join, sem_sel. simpl. rewrite app_nil_r. rewrite <- omap_filter_some.
  apply omap_ext. intros r. unfold agree_on, merge_rows. rewrite !restrict_empty.
  rewrite bool_decide_eq_true_2 by reflexivity. rewrite (right_id_L ∅ (∪) r). reflexivity.
Qed.

Lemma sem_join_identity_r p (L : rows) : sem_join ∅ p L [∅] = sem_sel p L.
Proof.
  unfold sem_join, sem_sel. induction L as [|l L IH]; [reflexivity|].
  cbn [flat_map List.filter]. rewrite IH. csimpl. unfold agree_on, merge_rows.
  rewrite !restrict_empty. rewrite bool_decide_eq_true_2 by reflexivity. rewrite (left_id_L ∅ (∪) l). simpl.
  destruct (holds p l); reflexivity.
Qed.

(* ---- the conformation function available at a re-entry ---- *)
Definition cf_ok (env : lenv) (cf : tree → result tree) : Prop :=
  ∀ t s, wf_tree t → env_ok env t → chains_good env t → cf t = Ok s →
    good_all env s ∧ sem_tree env s = sem_tree env t ∧ columns s = columns t ∧ engine_of s = engine_of t.

(* other.with_rows_satisfying(predicate) on the operand that survives; only the SQL engine re-enters conform, so the
   markers inside the operand have to be good only there *)
Lemma select_rows_sound' env cf p t s :
  cf_ok env cf → wf_tree t → env_ok env t → (ekind_of (engine_of t) = KSql → chains_good env t) → cols_p p ⊆ columns t →
  select_rows cf p t = Ok s →
  wf_tree s ∧ env_ok env s ∧ (chains_good env t → chains_good env s) ∧ sem_tree env s = sem_sel p (sem_tree env t) ∧
  columns s = columns t ∧ engine_of s = engine_of t ∧
  (ekind_of (engine_of t) = KSql → as_trivial p ≠ Some true → good_all env s).
Proof.
  intros Hcf W E C Hp H. unfold select_rows in H.
  pose proof (sem_tree_dom env t W E) as Hd.
  assert (Htriv : as_trivial p = Some true →
                  wf_tree t ∧ env_ok env t ∧ (chains_good env t → chains_good env t) ∧ sem_tree env t = sem_sel p (sem_tree env t) ∧
                  columns t = columns t ∧ engine_of t = engine_of t ∧
                  (ekind_of (engine_of t) = KSql → as_trivial p ≠ Some true → good_all env t)).
  { intros Ht. split; [exact W|]. split; [exact E|]. split; [auto|]. split; [symmetry; eapply sem_sel_true; eauto|].
    split; [reflexivity|]. split; [reflexivity|]. intros _ Hn. contradiction. }
  destruct (as_trivial p) as [[|]|] eqn:Et; [injection H as <-; apply Htriv; reflexivity| |].
  all: destruct (begin_apply (Sel (selection_norm p)) (columns t)) as [o|] eqn:Eb; cbn [rbind] in H; [|discriminate].
  all: assert (Hn : cols_p (selection_norm p) ⊆ columns t) by (etransitivity; [apply selection_norm_cols|exact Hp]).
  all: assert (Hsem : sem_sel (selection_norm p) (sem_tree env t) = sem_sel p (sem_tree env t))
         by (apply sem_sel_ext; intros r; apply selection_norm_holds).
  all: destruct (begin_apply_wf (Sel (selection_norm p)) (columns t) o I Eb) as [[-> Hid]|[-> Ho]].
  all: destruct (ekind_of (engine_of t)) eqn:Ek.
  all: try (destruct (Hid (sem_tree env t) Hd Hn) as [Hs _]; cbn [sem_op] in Hs).
  all: try (destruct (finish_apply_sem env t Ident s W E (or_introl eq_refl) H) as (F1 & F2 & F3 & F4 & F5);
            cbn [sem_op op_columns] in F1, F3;
            split; [exact F2|]; split; [exact F4|]; split; [intros Hc; eapply finish_apply_chains; eauto|];
            split; [rewrite F1, <- Hsem, Hs; reflexivity|]; split; [exact F3|]; split; [exact F5|]; intros Hk; discriminate).
  all: try (destruct (finish_apply_sem env t _ s W E (or_intror Ho) H) as (F1 & F2 & F3 & F4 & F5);
            cbn [sem_op op_columns] in F1, F3;
            split; [exact F2|]; split; [exact F4|]; split; [intros Hc; eapply finish_apply_chains; eauto|];
            split; [rewrite F1, Hsem; reflexivity|]; split; [exact F3|]; split; [exact F5|]; intros Hk; discriminate).
  all: destruct (cf t) as [c|] eqn:Ec; cbn [rbind] in H; [|discriminate].
  all: destruct (Hcf t c W E (C eq_refl) Ec) as (C1 & C2 & C3 & C4).
  all: try (pose proof (good_all_sel env c C1) as Hsel; destruct c as [| | | | |sl k tg]; try (destruct Hsel; fail);
            cbn [append_unary_sel] in H; injection H as <-;
            destruct (good_all_wf env _ C1) as [Wc Ec'];
            split; [exact Wc|]; split; [exact Ec'|]; split; [intros _; apply good_all_chains; exact C1|];
            split; [rewrite C2, <- Hsem, Hs; reflexivity|]; split; [exact C3|]; split; [exact C4|]; intros _ _; exact C1).
  all: assert (Ho' : op_wf (Sel (selection_norm p)) (columns c)) by (rewrite C3; exact Ho).
  all: destruct (append_unary_sel_sound env c _ s C1 Ho' H) as (S1 & S2 & S3 & S4).
  all: destruct (good_all_wf env _ S1) as [Ws Es].
  all: split; [exact Ws|]; split; [exact Es|]; split; [intros _; apply good_all_chains; exact S1|];
       split; [rewrite S2, C2; cbn [sem_op]; exact Hsem|]; split; [rewrite S3, C3; reflexivity|];
       split; [rewrite S4, C4; reflexivity|]; intros _ _; exact S1.
Qed.

Lemma select_rows_sound env cf p t s :
  cf_ok env cf → wf_tree t → env_ok env t → chains_good env t → cols_p p ⊆ columns t →
  select_rows cf p t = Ok s →
  wf_tree s ∧ env_ok env s ∧ chains_good env s ∧ sem_tree env s = sem_sel p (sem_tree env t) ∧
  columns s = columns t ∧ engine_of s = engine_of t.
Proof.
  intros Hcf W E C Hp H.
  destruct (select_rows_sound' env cf p t s Hcf W E (fun _ => C) Hp H) as (A1 & A2 & A3 & A4 & A5 & A6 & _).
  repeat split; auto.
Qed.

(* ---- the join rule, for every pair of conformed operands ---- *)
Lemma identity_operand env orig x hp :
  operand_of env orig x hp → is_join_identity x = true →
  columns orig = ∅ ∧ sem_tree env orig = [∅] ∧ sem_tree env x = [∅].
Proof.
  intros (W & E & _ & Hc & Hs & _ & _) Hi.
  pose proof (join_identity_content env x W E Hi) as Hx.
  assert (Hcx : columns x = ∅).
  { unfold is_join_identity in Hi. apply andb_true_iff in Hi as [Hi _]. apply andb_true_iff in Hi as [Hi _].
    apply bool_decide_eq_true in Hi. exact Hi. }
  assert (Hco : columns orig = ∅) by set_solver.
  split; [exact Hco|]. split; [|exact Hx]. rewrite Hs, Hx, Hco. simpl. rewrite restrict_empty. reflexivity.
Qed.

Lemma append_join_sound_gen env cf p c l r s :
  cf_ok env cf →
  good_all env l → good_all env r → engine_of l = engine_of r →
  c ⊆ columns l → c ⊆ columns r → cols_p p ⊆ columns l ∪ columns r →
  append_binary_sel_with cf (BJoin p c) l r = Ok s →
  good_all env s ∧ sem_tree env s = sem_join c p (sem_tree env l) (sem_tree env r) ∧
  columns s = columns l ∪ columns r ∧ engine_of s = engine_of l.
Proof.
  intros Hcf Gl Gr He Hcl Hcr Hp H. unfold append_binary_sel_with in H.
  destruct (order_loss l); [discriminate|]. destruct (order_loss r); [discriminate|].
  destruct (strip l) as [nl0 lp0] eqn:Sl. destruct (strip r) as [nr0 rp0] eqn:Sr.
  pose proof (strip_sound env l nl0 lp0 Gl Sl) as Ol0. pose proof (strip_sound env r nr0 rp0 Gr Sr) as Or0.
  set (gl := bool_decide ((columns nl0 ∖ columns l) ∩ columns nr0 = ∅)) in *.
  assert (Hl : ∃ nl lp, (if gl then (nl0, lp0) else (l, false)) = (nl, lp) ∧ operand_of env l nl lp).
  { destruct gl; eexists _, _; (split; [reflexivity|]); auto. apply operand_self; auto. }
  destruct Hl as (nl & lp & El & Ol). rewrite El in H.
  set (gr := bool_decide ((columns nr0 ∖ columns r) ∩ columns nl = ∅)) in *.
  assert (Hr : ∃ nr rp, (if gr then (nr0, rp0) else (r, false)) = (nr, rp) ∧ operand_of env r nr rp ∧
                        (columns nr ∖ columns r) ∩ columns nl = ∅).
  { destruct gr eqn:Eg; eexists _, _; (split; [reflexivity|]).
    - split; auto. apply bool_decide_eq_true in Eg. exact Eg.
    - split; [apply operand_self; auto|]. set_solver. }
  destruct Hr as (nr & rp & Er & Or & Hh). rewrite Er in H.
  pose proof Ol as (L1 & L2 & L3 & L4 & L5 & L6 & L7). pose proof Or as (R1 & R2 & R3 & R4 & R5 & R6 & R7).
  set (X := if lp || rp then Some (columns l ∪ columns r) else None) in *.
  (* the relation the fresh marker is put around, in each of the three cases of Join._finish_apply *)
  assert (Hj : ∃ j, join_finish cf p c nl nr = Ok j ∧ wf_tree j ∧ env_ok env j ∧ chains_good env j ∧
                    columns l ∪ columns r ⊆ columns j ∧ engine_of j = engine_of l ∧
                    (lp || rp = false → columns j = columns l ∪ columns r) ∧
                    sem_join c p (sem_tree env l) (sem_tree env r) = sem_proj (columns l ∪ columns r) (sem_tree env j)).
  { destruct (join_finish cf p c nl nr) as [j|] eqn:Ej; cbn [rbind] in H; [|discriminate].
    exists j. split; [reflexivity|]. unfold join_finish in Ej.
    destruct (is_join_identity nl) eqn:Il.
    - (* the left operand is the join identity: the right one, with the predicate as a selection *)
      destruct (identity_operand env l nl lp Ol Il) as (Cl & Sl' & _).
      assert (Hc0 : c = ∅) by set_solver.
      assert (Hpr : cols_p p ⊆ columns nr) by set_solver.
      destruct (select_rows_sound env cf p nr j Hcf R1 R2 R7 Hpr Ej) as (J1 & J2 & J3 & J4 & J5 & J6).
      split; [exact J1|]. split; [exact J2|]. split; [exact J3|].
      split; [rewrite J5; set_solver|]. split; [congruence|].
      split; [intros Hf; apply orb_false_iff in Hf as [_ ->]; rewrite J5, (R6 eq_refl); set_solver|].
      rewrite Sl', Hc0, sem_join_identity_l, R5, J4, Cl.
      replace (∅ ∪ columns r) with (columns r) by set_solver.
      apply sel_proj_commute. set_solver.
    - destruct (is_join_identity nr) eqn:Ir.
      + destruct (identity_operand env r nr rp Or Ir) as (Cr & Sr' & _).
        assert (Hc0 : c = ∅) by set_solver.
        assert (Hpl : cols_p p ⊆ columns nl) by set_solver.
        destruct (select_rows_sound env cf p nl j Hcf L1 L2 L7 Hpl Ej) as (J1 & J2 & J3 & J4 & J5 & J6).
        split; [exact J1|]. split; [exact J2|]. split; [exact J3|].
        split; [rewrite J5; set_solver|]. split; [congruence|].
        split; [intros Hf; apply orb_false_iff in Hf as [-> _]; rewrite J5, (L6 eq_refl); set_solver|].
        rewrite Sr', Hc0, sem_join_identity_r, L5, J4, Cr.
        replace (columns l ∪ ∅) with (columns l) by set_solver.
        apply sel_proj_commute. set_solver.
      + destruct (negb (engine_eqb (engine_of nl) (engine_of nr))); [discriminate|].
        destruct (negb (supp_p (ekind_of (engine_of nl)) p)); [discriminate|]. injection Ej as <-.
        assert (Wj : wf_tree (Bin (Join p c) nl nr)) by (simpl; repeat split; auto; [set_solver|set_solver|set_solver|congruence]).
        assert (Ej : env_ok env (Bin (Join p c) nl nr)) by (simpl; auto).
        split; [exact Wj|]. split; [exact Ej|]. split; [simpl; split; [exact L7|exact R7]|].
        split; [simpl; set_solver|]. split; [simpl; exact L3|].
        split; [intros Hf; apply orb_false_iff in Hf as [-> ->]; simpl; rewrite (L6 eq_refl), (R6 eq_refl); reflexivity|].
        rewrite L5, R5. cbn [sem_tree sem_bop].
        apply (sem_join_proj c p (columns l) (columns r) (columns nl) (columns nr)); auto;
          [apply sem_tree_dom; auto|apply sem_tree_dom; auto|set_solver]. }
  destruct Hj as (j & Ej & Wj & Envj & Cj & Hsub & Hej & Hcolj & Hsem). rewrite Ej in H. cbn [rbind] in H.
  assert (Hsw : slots_wf (with_proj no_slots X) (columns j)).
  { unfold slots_wf, with_proj, no_slots. cbn [s_sort s_proj s_slice op_required fst snd]. split; [set_solver|].
    split; [|unfold slice_ok; lia]. unfold X. destruct (lp || rp); [exact Hsub|exact I]. }
  destruct (apply_skip_good env (with_proj no_slots X) j s Wj Envj Hsw H) as (G & Es & Ek).
  destruct s as [| | | | |sl k tg]; try (destruct G; fail). simpl in Es, Ek. subst sl k.
  split; [apply good_all_of_sel; [exact G|exact Cj]|].
  destruct G as (_ & _ & _ & _ & _ & Gc & Ge & Gs).
  pose proof (sem_tree_dom env j Wj Envj) as Dj.
  cbn [sem_tree columns engine_of]. rewrite Gs, Gc, Ge. unfold slots_sem, slots_cols, with_proj, no_slots.
  cbn [s_sort s_proj s_dedup s_slice fst snd]. rewrite sem_sort_nil.
  change (sem_slice 0 None ?x) with x.
  unfold X. destruct (lp || rp) eqn:Ehp.
  - split; [symmetry; exact Hsem|]. split; [reflexivity|exact Hej].
  - rewrite (Hcolj eq_refl) in *. split; [|split; [reflexivity|exact Hej]].
    rewrite Hsem. symmetry. apply sem_proj_id. exact Dj.
Qed.

(* ---- Engine.conform on any well-formed tree whose markers are good (no restriction on the operands of joins) ---- *)
Theorem conform_n_sound_gen env : ∀ n t s,
  wf_tree t → env_ok env t → chains_good env t → conform_n n t = Ok s →
  good_all env s ∧ sem_tree env s = sem_tree env t ∧ columns s = columns t ∧ engine_of s = engine_of t.
Proof.
  induction n as [|n IHn].
  - (* no re-entry left: the re-entry reports a gap of the model, never a result *)
    assert (Hcf0 : cf_ok env (cf_at 0)) by (intros t s _ _ _ H; discriminate).
    induction t as [nm e cs mn mx|o t IH|b l IHl r IHr|nm t _|d t _|sl sk _ t _]; intros s W E C H;
      rewrite conform_n_unfold in H.
    + apply (select_of_good env _ s W E I H).
    + destruct W as [Ho Wt]. simpl in E, C.
      destruct (conform_n 0 t) as [c|] eqn:Ec; cbn [rbind] in H; [|discriminate].
      destruct (IH c Wt E C eq_refl) as (C1 & C2 & C3 & C4).
      assert (Ho' : op_wf o (columns c)) by (rewrite C3; exact Ho).
      destruct (append_unary_sel_sound env c o s C1 Ho' H) as (S1 & S2 & S3 & S4).
      split; [exact S1|]. split; [rewrite S2, C2; reflexivity|]. split; [rewrite S3, C3; reflexivity|simpl; congruence].
    + destruct b as [|p c].
      * destruct W as (Hc & He & Wl & Wr). destruct E as [El Er]. destruct C as [Cl Cr].
        destruct (conform_n 0 l) as [cl|] eqn:Ecl; cbn [rbind] in H; [|discriminate].
        destruct (conform_n 0 r) as [cr|] eqn:Ecr; cbn [rbind] in H; [|discriminate].
        destruct (IHl cl Wl El (good_all_chains env l Cl) eq_refl) as (L1 & L2 & L3 & L4).
        destruct (IHr cr Wr Er (good_all_chains env r Cr) eq_refl) as (R1 & R2 & R3 & R4).
        destruct (append_chain_sound env (cf_at 0) cl cr s L1 R1) as (S1 & S2 & S3 & S4); auto; try congruence.
        split; [exact S1|]. split; [rewrite S2, L2, R2; reflexivity|]. split; [rewrite S3, L3; reflexivity|simpl; congruence].
      * destruct W as (H1 & H2 & H3 & He & Wl & Wr). destruct E as [El Er]. destruct C as [Cl Cr].
        destruct (conform_n 0 l) as [cl|] eqn:Ecl; cbn [rbind] in H; [|discriminate].
        destruct (conform_n 0 r) as [cr|] eqn:Ecr; cbn [rbind] in H; [|discriminate].
        destruct (IHl cl Wl El Cl eq_refl) as (L1 & L2 & L3 & L4). destruct (IHr cr Wr Er Cr eq_refl) as (R1 & R2 & R3 & R4).
        destruct (append_join_sound_gen env (cf_at 0) p c cl cr s Hcf0 L1 R1) as (S1 & S2 & S3 & S4); auto; try congruence;
          try (rewrite ?L3, ?R3; auto).
        split; [exact S1|]. split; [rewrite S2, L2, R2; reflexivity|]. split; [rewrite S3, L3, R3; reflexivity|simpl; congruence].
    + apply (select_of_good env _ s W E I H).
    + apply (select_of_good env _ s W E I H).
    + injection H as <-. simpl in C. auto.
  - assert (Hcf : cf_ok env (cf_at (S n))) by (intros t s W E C H; exact (IHn t s W E C H)).
    induction t as [nm e cs mn mx|o t IH|b l IHl r IHr|nm t _|d t _|sl sk _ t _]; intros s W E C H;
      rewrite conform_n_unfold in H.
    + apply (select_of_good env _ s W E I H).
    + destruct W as [Ho Wt]. simpl in E, C.
      destruct (conform_n (S n) t) as [c|] eqn:Ec; cbn [rbind] in H; [|discriminate].
      destruct (IH c Wt E C eq_refl) as (C1 & C2 & C3 & C4).
      assert (Ho' : op_wf o (columns c)) by (rewrite C3; exact Ho).
      destruct (append_unary_sel_sound env c o s C1 Ho' H) as (S1 & S2 & S3 & S4).
      split; [exact S1|]. split; [rewrite S2, C2; reflexivity|]. split; [rewrite S3, C3; reflexivity|simpl; congruence].
    + destruct b as [|p c].
      * destruct W as (Hc & He & Wl & Wr). destruct E as [El Er]. destruct C as [Cl Cr].
        destruct (conform_n (S n) l) as [cl|] eqn:Ecl; cbn [rbind] in H; [|discriminate].
        destruct (conform_n (S n) r) as [cr|] eqn:Ecr; cbn [rbind] in H; [|discriminate].
        destruct (IHl cl Wl El (good_all_chains env l Cl) eq_refl) as (L1 & L2 & L3 & L4).
        destruct (IHr cr Wr Er (good_all_chains env r Cr) eq_refl) as (R1 & R2 & R3 & R4).
        destruct (append_chain_sound env (cf_at (S n)) cl cr s L1 R1) as (S1 & S2 & S3 & S4); auto; try congruence.
        split; [exact S1|]. split; [rewrite S2, L2, R2; reflexivity|]. split; [rewrite S3, L3; reflexivity|simpl; congruence].
      * destruct W as (H1 & H2 & H3 & He & Wl & Wr). destruct E as [El Er]. destruct C as [Cl Cr].
        destruct (conform_n (S n) l) as [cl|] eqn:Ecl; cbn [rbind] in H; [|discriminate].
        destruct (conform_n (S n) r) as [cr|] eqn:Ecr; cbn [rbind] in H; [|discriminate].
        destruct (IHl cl Wl El Cl eq_refl) as (L1 & L2 & L3 & L4). destruct (IHr cr Wr Er Cr eq_refl) as (R1 & R2 & R3 & R4).
        destruct (append_join_sound_gen env (cf_at (S n)) p c cl cr s Hcf L1 R1) as (S1 & S2 & S3 & S4); auto; try congruence;
          try (rewrite ?L3, ?R3; auto).
        split; [exact S1|]. split; [rewrite S2, L2, R2; reflexivity|]. split; [rewrite S3, L3, R3; reflexivity|simpl; congruence].
    + apply (select_of_good env _ s W E I H).
    + apply (select_of_good env _ s W E I H).
    + injection H as <-. simpl in C. auto.
Qed.

Corollary conform_sound_gen env t s :
  wf_tree t → env_ok env t → chains_good env t → conform t = Ok s →
  good_all env s ∧ sem_tree env s = sem_tree env t ∧ columns s = columns t ∧ engine_of s = engine_of t.
Proof. apply conform_n_sound_gen. Qed.

(* the conformation function the engine's own binary rule re-enters with *)
Lemma engine_cf_ok env : cf_ok env (conform_n (Nat.pred reconform_depth)).
Proof. intros t s W E C H. exact (conform_n_sound_gen env _ t s W E C H). Qed.

Corollary engine_join_sound env p c l r s :
  good_all env l → good_all env r → engine_of l = engine_of r →
  c ⊆ columns l → c ⊆ columns r → cols_p p ⊆ columns l ∪ columns r →
  append_binary_sel (BJoin p c) l r = Ok s →
  good_all env s ∧ sem_tree env s = sem_join c p (sem_tree env l) (sem_tree env r) ∧
  columns s = columns l ∪ columns r ∧ engine_of s = engine_of l.
Proof. intros. eapply append_join_sound_gen; eauto. apply engine_cf_ok. Qed.
