(* C18: the iteration engine is lazy and single-pass where documented. *)
From DR Require Import Model.Lazy.
From Coq Require Import Lia.
Local Open Scope Z_scope.

(* l1 is a sub-multiset of l2 *)
Definition submset (l1 l2 : list positive) : Prop := ∃ rest, l1 ++ rest ≡ₚ l2.

Lemma submset_nil l : submset [] l.
Proof. exists l. reflexivity. Qed.
Lemma submset_refl l : submset l l.
Proof. exists []. rewrite app_nil_r. reflexivity. Qed.
Lemma submset_app a b c d : submset a c → submset b d → submset (a ++ b) (c ++ d).
Proof.
  intros [r1 H1] [r2 H2]. exists (r1 ++ r2). rewrite <- H1, <- H2.
  rewrite <- !app_assoc. apply Permutation_app_head. rewrite !app_assoc. apply Permutation_app_tail.
  apply Permutation_app_comm.
Qed.
Lemma submset_perm a a' b : a ≡ₚ a' → submset a b → submset a' b.
Proof. intros P [r H]. exists r. rewrite <- P. exact H. Qed.
Lemma submset_app_l a b c : submset (a ++ b) c → submset a c.
Proof. intros [r H]. exists (b ++ r). rewrite app_assoc. exact H. Qed.

(* trees made of calculation, projection, selection, slice and chain over leaves: execute()
   starts no iteration, one full iteration of the result starts at most one per leaf occurrence *)
Theorem lazy_ops_defer lk t : lazy_tree t = true →
  c_exec (cost_of lk t) = [] ∧ submset (c_iter (cost_of lk t)) (leaf_occ t).
Proof.
  induction t as [n e cs mn mx|o t IH|b l IHl r IHr|n t IH|d t IH|sl sk _ t IH]; intros Hl;
    cbn [cost_of];
    (destruct (bool_decide _); [split; [reflexivity|apply submset_nil]|]);
    (destruct (is_join_identity _); [split; [reflexivity|apply submset_nil]|]);
    try discriminate.
  - split; [reflexivity|apply submset_refl].
  - simpl in Hl. destruct o; try discriminate; destruct (IH Hl) as [E S]; simpl.
    + auto. + auto. + auto.
    + destruct (c_kind (cost_of lk t)); simpl; split; auto; apply submset_nil.
  - destruct b; try discriminate. simpl in Hl. apply andb_true_iff in Hl as [H1 H2].
    destruct (IHl H1) as [E1 S1], (IHr H2) as [E2 S2]. simpl. rewrite E1, E2. split; auto.
    apply submset_app; auto.
Qed.

(* every tree: all iterations started at execute time plus those of one full iteration of the
   result touch each leaf occurrence at most once — sort, deduplication and materialization consume
   their input once, at execute time, and the result never iterates it again *)
Theorem single_pass lk t :
  submset (c_exec (cost_of lk t) ++ c_iter (cost_of lk t)) (leaf_occ t).
Proof.
  induction t as [n e cs mn mx|o t IH|b l IHl r IHr|n t IH|d t IH|sl sk _ t IH];
    cbn [cost_of];
    (destruct (bool_decide _); [apply submset_nil|]);
    (destruct (is_join_identity _); [apply submset_nil|]).
  - apply submset_refl.
  - simpl. destruct o; simpl; auto.
    + destruct (kind_eqb_map _ _); simpl; auto. rewrite app_nil_r. exact IH.
    + destruct (c_kind (cost_of lk t)); simpl; auto. rewrite app_nil_r. eapply submset_app_l; eauto.
    + rewrite app_nil_r. exact IH.
  - destruct b; simpl; [|apply submset_nil].
    eapply submset_perm; [|apply submset_app; [exact IHl|exact IHr]].
    rewrite <- !app_assoc. apply Permutation_app_head. rewrite !app_assoc. apply Permutation_app_tail.
    apply Permutation_app_comm.
  - simpl. destruct (c_kind (cost_of lk t)); simpl; auto. rewrite app_nil_r. exact IH.
  - exact IH.
  - exact IH.
Qed.

(* after execute(), iterating the result again never touches what an eager operation consumed *)
Theorem eager_results_do_not_reiterate lk t o :
  (o = Dedup ∨ ∃ ts, o = Sort ts) → bool_decide (max_rows (Un o t) = Some 0) = false →
  is_join_identity (Un o t) = false →
  (∀ key, c_kind (cost_of lk t) ≠ KMap key) →
  c_iter (cost_of lk (Un o t)) = [].
Proof.
  intros Ho H1 H2 Hk. cbn [cost_of]. rewrite H1, H2. destruct Ho as [->|[ts ->]]; simpl; auto.
  destruct (c_kind (cost_of lk t)) eqn:E; simpl; auto. exfalso. eapply Hk; eauto.
Qed.
