(* C03 for joins: Relation.join with backtracking — a join whose fixed (right-hand) operand lives in another engine
   than the target is moved upstream through the target's unary operations to the transfer that left that engine
   (iteration.Engine.backtrack_unary with a PartialJoin), or the target is transferred, or the call is refused. *)
From DR Require Import Model.Reach Proofs.PredLaws Proofs.SliceLaws Proofs.SortLaws Proofs.SemLaws
  Proofs.Metadata Proofs.Simplify Proofs.FinishApply Proofs.CommuteLaws Proofs.SqlRules Proofs.BuildLaws
  Proofs.BacktrackLaws Proofs.SqlBinary Proofs.SqlJoinId Proofs.JoinCommute Proofs.EqbLaws Proofs.EqbRefl Proofs.ReachLaws.
From Coq Require Import Lia.
Local Open Scope Z_scope.

(* ---- what PartialJoin.commute reports ---- *)
Lemma commute_join_first j f lhs cur tcols r :
  c_first (commute (RJoin j f lhs) cur tcols) = Some r →
  r = RJoin j f lhs ∧ c_done (commute (RJoin j f lhs) cur tcols) = true.
Proof.
  cbn [commute]. unfold comm_fail.
  destruct cur; cbn [c_first c_done];
    repeat match goal with
           | |- context [if ?c then _ else _] => destruct c; cbn [c_first c_done]
           end; intros H; try discriminate; injection H as <-; auto.
Qed.

Lemma commute_join_columns j f lhs cur tcols r :
  c_first (commute (RJoin j f lhs) cur tcols) = Some r →
  op_columns (c_second (commute (RJoin j f lhs) cur tcols)) (tcols ∪ columns f) = op_columns cur tcols ∪ columns f.
Proof.
  cbn [commute]. unfold comm_fail.
  destruct cur; cbn [c_first c_second op_columns];
    repeat match goal with
           | |- context [if ?c then _ else _] => destruct c; cbn [c_first c_second op_columns]
           end; intros H; try discriminate; try reflexivity; set_solver.
Qed.

Lemma op_columns_nonempty_inv cur tcols : op_wf cur tcols → op_columns cur tcols ≠ ∅ → tcols ≠ ∅.
Proof. destruct cur; simpl; intros H Hn; try exact Hn; try (destruct H; fail); set_solver. Qed.

(* ---- Engine.append_unary with a PartialJoin whose operands are in one engine ---- *)
Lemma identity_facts env x : wf_tree x → env_ok env x → is_join_identity x = true → columns x = ∅ ∧ sem_tree env x = [∅].
Proof.
  intros W E Hi. split; [|apply join_identity_content; auto].
  unfold is_join_identity in Hi. apply andb_true_iff in Hi as [Hi _]. apply andb_true_iff in Hi as [Hi _].
  apply bool_decide_eq_true in Hi. exact Hi.
Qed.

Lemma conform_cf_ok env : cf_ok env conform.
Proof. intros t s W E C H. exact (conform_sound_gen env t s W E C H). Qed.

(* every pair of operands, those without columns included: a join with the join identity hands back the other operand,
   with the predicate applied as a selection unless it is trivially true *)
Lemma append_join_e_sound env j f t s :
  wf_tree t → env_ok env t → tree_ok env t → wf_tree f → env_ok env f → tree_ok env f →
  engine_of f = engine_of t →
  j_max j = Some (j_min j) → j_min j ⊆ columns t → j_min j ⊆ columns f →
  cols_p (j_pred j) ⊆ columns t ∪ columns f →
  append_unary_e (RJoin j f false) t = Ok s →
  sem_tree env s = sem_join (j_min j) (j_pred j) (sem_tree env t) (sem_tree env f) ∧
  columns s = columns t ∪ columns f ∧ wf_tree s ∧ env_ok env s ∧ tree_ok env s ∧ engine_of s = engine_of t.
Proof.
  intros Wt Et Ot Wf Ef Of He Hmax Hct Hcf Hp H.
  unfold append_unary_e in H. destruct (ekind_of (engine_of t)) eqn:Ek.
  - (* iteration engine: Join.apply *)
    assert (Ekf : ekind_of (engine_of f) = KIter) by (rewrite He; exact Ek).
    assert (Tok : ∀ x, engine_of x = engine_of t → tree_ok env x) by (intros x Hx; unfold tree_ok; rewrite Hx, Ek; exact I).
    unfold join_apply, join_begin in H.
    rewrite (bool_decide_eq_true_2 _ Hp) in H. cbn [negb] in H.
    unfold j_resolved in H. rewrite (bool_decide_eq_true_2 _ Hmax) in H.
    rewrite (bool_decide_eq_true_2 _ Hct), (bool_decide_eq_true_2 _ Hcf) in H. cbn [negb rbind] in H.
    (* what a join with the identity on either side denotes *)
    assert (IdL : is_join_identity t = true →
                  j_min j = ∅ ∧ cols_p (j_pred j) ⊆ columns f ∧ columns t ∪ columns f = columns f ∧
                  sem_join (j_min j) (j_pred j) (sem_tree env t) (sem_tree env f) = sem_sel (j_pred j) (sem_tree env f)).
    { intros Hi. destruct (identity_facts env t Wt Et Hi) as [Ct St].
      assert (Hc0 : j_min j = ∅) by set_solver.
      split; [exact Hc0|]. split; [set_solver|]. split; [set_solver|]. rewrite St, Hc0. apply sem_join_identity_l. }
    assert (IdR : is_join_identity f = true →
                  j_min j = ∅ ∧ cols_p (j_pred j) ⊆ columns t ∧ columns t ∪ columns f = columns t ∧
                  sem_join (j_min j) (j_pred j) (sem_tree env t) (sem_tree env f) = sem_sel (j_pred j) (sem_tree env t)).
    { intros Hi. destruct (identity_facts env f Wf Ef Hi) as [Cf Sf].
      assert (Hc0 : j_min j = ∅) by set_solver.
      split; [exact Hc0|]. split; [set_solver|]. split; [set_solver|]. rewrite Sf, Hc0. apply sem_join_identity_r. }
    assert (Sel : ∀ x, wf_tree x → env_ok env x → engine_of x = engine_of t → cols_p (j_pred j) ⊆ columns x →
                  select_rows conform (j_pred j) x = Ok s →
                  sem_tree env s = sem_sel (j_pred j) (sem_tree env x) ∧ columns s = columns x ∧ wf_tree s ∧ env_ok env s ∧
                  tree_ok env s ∧ engine_of s = engine_of t).
    { intros x Wx Ex Hx Hpx Hs.
      destruct (select_rows_sound' env conform (j_pred j) x s (conform_cf_ok env) Wx Ex) as (A1 & A2 & _ & A4 & A5 & A6 & _); auto.
      { rewrite Hx, Ek. discriminate. }
      repeat split; auto; [apply Tok|]; congruence. }
    destruct (bool_decide (as_trivial (j_pred j) = Some true)) eqn:Etr.
    + apply bool_decide_eq_true in Etr.
      destruct (is_join_identity t) eqn:It.
      * (* BIgnore: the other operand itself *)
        cbn [andb rbind] in H. unfold append_binary_e in H. rewrite Ek in H. injection H as <-.
        destruct (IdL eq_refl) as (_ & Hpf & Hcu & Hsj). rewrite Hsj, Hcu.
        split; [symmetry; eapply sem_sel_true; eauto; apply sem_tree_dom; auto|]. repeat split; auto.
      * destruct (is_join_identity f) eqn:If_.
        -- cbn [andb rbind] in H. unfold append_binary_e in H. rewrite Ek in H. injection H as <-.
           destruct (IdR eq_refl) as (_ & Hpt & Hcu & Hsj). rewrite Hsj, Hcu.
           split; [symmetry; eapply sem_sel_true; eauto; apply sem_tree_dom; auto|]. repeat split; auto.
        -- cbn [andb rbind] in H. unfold append_binary_e in H. rewrite Ek in H. unfold join_finish in H. rewrite It, If_ in H.
           destruct (negb (engine_eqb (engine_of t) (engine_of f))); [discriminate|].
           destruct (negb (supp_p (ekind_of (engine_of t)) (j_pred j))); [discriminate|].
           injection H as <-. cbn [sem_tree sem_bop columns wf_tree env_ok engine_of].
           repeat split; auto.
    + cbn [andb rbind] in H. unfold append_binary_e in H. rewrite Ek in H. unfold join_finish in H.
      destruct (is_join_identity t) eqn:It.
      * destruct (IdL eq_refl) as (_ & Hpf & Hcu & Hsj). rewrite Hsj, Hcu. apply Sel; auto.
      * destruct (is_join_identity f) eqn:If_.
        -- destruct (IdR eq_refl) as (_ & Hpt & Hcu & Hsj). rewrite Hsj, Hcu. apply Sel; auto.
        -- destruct (negb (engine_eqb (engine_of t) (engine_of f))); [discriminate|].
           destruct (negb (supp_p (ekind_of (engine_of t)) (j_pred j))); [discriminate|].
           injection H as <-. cbn [sem_tree sem_bop columns wf_tree env_ok engine_of].
           repeat split; auto.
  - (* SQL engine: both operands are conformed, then the join rule of _append_binary_to_select *)
    assert (Gt : good_all env t) by (unfold tree_ok in Ot; rewrite Ek in Ot; exact Ot).
    assert (Gf : good_all env f) by (unfold tree_ok in Of; rewrite He, Ek in Of; exact Of).
    rewrite (good_all_conform env t Gt), (good_all_conform env f Gf) in H. cbn [rbind] in H.
    destruct (engine_join_sound env (j_pred j) (j_min j) t f s Gt Gf (eq_sym He) Hct Hcf Hp H) as (G & S & C & E).
    destruct (good_all_wf env s G) as [W1 W2].
    repeat split; auto. unfold tree_ok. rewrite E, Ek. exact G.
Qed.

(* the documented ColumnTag contract, at every level the join may be moved to *)
Fixpoint spine_cons (env : lenv) (c : gset tag) (F : rows) (t : tree) : Prop :=
  consistent c (sem_tree env t) F ∧
  match t with Un _ t' | Xfer _ t' => spine_cons env c F t' | _ => True end.

Lemma spine_cons_head env c F t : spine_cons env c F t → consistent c (sem_tree env t) F.
Proof. destruct t; simpl; tauto. Qed.

Section JoinBacktrack.
  Variable env : lenv.
  Variables (j : joinspec) (f : tree).
  Hypothesis Wf : wf_tree f.
  Hypothesis Ef : env_ok env f.
  Hypothesis Of : tree_ok env f.
  Hypothesis Hmax : j_max j = Some (j_min j).
  Hypothesis Hcf : j_min j ⊆ columns f.
  Hypothesis Nf : columns f ≠ ∅.

  Definition btj_spec (t : tree) (out : tree * bool) : Prop :=
    let '(t', done) := out in
    wf_tree t' ∧ env_ok env t' ∧ engine_of t' = engine_of t ∧
    if done then sem_tree env t' = sem_join (j_min j) (j_pred j) (sem_tree env t) (sem_tree env f) ∧
                 columns t' = columns t ∪ columns f
    else t' = t.

  Lemma apply_join_same_engine bt t :
    pjoin_required j f ⊆ columns t → engine_of f = engine_of t →
    apply_with bt (RJoin j f false) t default_opts = append_unary_e (RJoin j f false) t.
  Proof.
    intros Hreq He. unfold apply_with, req_begin, common_columns, j_resolved.
    rewrite (bool_decide_eq_true_2 _ Hmax). cbn [rbind].
    assert (Ej : JSpec (j_pred j) (j_min j) (Some (j_min j)) = j) by (destruct j as [p c m]; simpl in *; subst m; reflexivity).
    rewrite Ej. rewrite (bool_decide_eq_true_2 _ Hreq). cbn [negb rbind default_opts o_pref default from_option id].
    rewrite He, engine_eqb_refl. reflexivity.
  Qed.

  Theorem backtrack_join_sound : ∀ t t' done,
    wf_tree t → env_ok env t → spine_ok env t →
    pjoin_required j f ⊆ columns t → cols_p (j_pred j) ⊆ columns t ∪ columns f → columns t ≠ ∅ →
    spine_cons env (j_min j) (sem_tree env f) t →
    backtrack (RJoin j f false) t (engine_of f) = Ok (t', done) → btj_spec t (t', done).
  Proof.
    induction t as [n e cs mn mx|cur t1 IH|b l _ r _|n t1 _|d t1 IH|sl sk _ t1 _];
      intros t' done Hwf Henv Hsp Hreq Hp Nt Hcons H; cbn [backtrack is_locked] in H.
    - injection H as <- <-. unfold btj_spec. auto.
    - (* unary node *)
      destruct Hwf as [Hcur Hwf1]. simpl in Henv, Hsp. cbn [spine_cons] in Hcons. destruct Hcons as [Hc0 Hc1]. cbn [columns] in Hreq, Hp, Nt.
      set (tcols := columns t1) in *. set (l := sem_tree env t1).
      assert (Hdom : rows_dom tcols l) by (apply sem_tree_dom; auto).
      set (c := commute (RJoin j f false) cur tcols) in *.
      destruct (c_first c) as [r1|] eqn:Efst.
      2: { injection H as <- Hd. destruct (commute_fail_shape _ _ _ Efst) as [_ E]. fold c in E. rewrite E in Hd. subst done.
           unfold btj_spec. simpl. auto. }
      destruct (commute_join_first j f false cur tcols r1 Efst) as [-> Hdone]. fold c in Hdone.
      assert (Hrw0 : req_wf env (RJoin j f false) (op_columns cur tcols)).
      { cbn [req_wf]. repeat split; auto. }
      assert (Hcons1 : consistent (j_min j) l (sem_tree env f)) by (apply (spine_cons_head env _ _ t1 Hc1)).
      pose proof (commute_sound_join env j f false cur tcols l Hdom Hcur Hrw0 Hcons1) as Hsound.
      cbn [andb] in Hsound. unfold commutator_sound_upto in Hsound. fold c in Hsound. rewrite Efst, Hdone in Hsound.
      destruct Hsound as ((_ & Hreq1 & _ & Hp1 & _ & _) & Hsw & Hsem). cbn [req_columns sem_req] in Hsw, Hsem.
      destruct (backtrack (RJoin j f false) t1 (engine_of f)) as [[up dd]|e] eqn:Eb; cbn [rbind] in H; [|discriminate].
      assert (IH1 : btj_spec t1 (up, dd)).
      { apply (IH up dd); auto. apply (op_columns_nonempty_inv cur tcols Hcur Nt). }
      destruct IH1 as (U1 & U2 & U3 & U4).
      match type of H with rbind ?x _ = _ => destruct x as [res|e] eqn:Eres end; cbn [rbind] in H; [|discriminate].
      injection H as <- <-. rewrite Hdone, andb_true_r.
      destruct dd.
      + destruct U4 as [Us Uc].
        assert (Hfa : fa_spec env (c_second c) up res).
        { destruct (tree_eqb up t1 && uop_eqb (c_second c) cur) eqn:Eq.
          - apply andb_true_iff in Eq as [E1 E2]. apply tree_eqb_eq in E1. apply uop_eqb_eq in E2.
            injection Eres as <-. subst up. rewrite E2. unfold fa_spec. simpl. tauto.
          - apply (finish_apply_sem env up (c_second c) res); auto. rewrite Uc. exact Hsw. }
        destruct Hfa as (S1 & S2 & S3 & S4 & S5).
        unfold btj_spec. split; [exact S2|]. split; [exact S4|]. split; [simpl; congruence|]. split.
        * rewrite S1, Us. cbn [sem_tree]. exact Hsem.
        * rewrite S3, Uc. cbn [columns]. apply (commute_join_columns j f false cur tcols _ Efst).
      + subst up. rewrite tree_eqb_refl in Eres. injection Eres as <-. unfold btj_spec. simpl. auto.
    - injection H as <- <-. unfold btj_spec. simpl in *. auto.
    - injection H as <- <-. unfold btj_spec. simpl in *. auto.
    - (* transfer *)
      destruct Hwf as [Hd Hwf1]. simpl in Henv. cbn [spine_cons] in Hcons. destruct Hcons as [Hc0 Hc1]. cbn [columns] in Hreq, Hp, Nt.
      destruct (engine_eqb (engine_of t1) (engine_of f)) eqn:Ee.
      + (* the target is in the fixed operand's engine: the join is applied there *)
        apply engine_eqb_eq in Ee.
        rewrite (apply_join_same_engine _ t1 Hreq (eq_sym Ee)) in H.
        destruct (append_unary_e (RJoin j f false) t1) as [a|e] eqn:Ea; cbn [rbind] in H; [|discriminate].
        injection H as <- <-.
        assert (Hct : j_min j ⊆ columns t1) by (unfold pjoin_required in Hreq; set_solver).
        destruct (append_join_e_sound env j f t1 a Hwf1 Henv (spine_tree_ok env d t1 Hsp) Wf Ef Of (eq_sym Ee) Hmax Hct Hcf Hp Ea)
          as (S1 & S2 & S3 & S4 & S5 & S6).
        unfold btj_spec. cbn [wf_tree env_ok engine_of sem_tree columns]. repeat split; auto. congruence.
      + destruct (ekind_of (engine_of t1)) eqn:Ek.
        * destruct (backtrack (RJoin j f false) t1 (engine_of f)) as [[up dd]|e] eqn:Eb; cbn [rbind] in H; [|discriminate].
          injection H as <- <-.
          assert (Hsp1 : spine_ok env t1) by (simpl in Hsp; rewrite Ek in Hsp; exact Hsp).
          destruct (IH up dd Hwf1 Henv Hsp1 Hreq Hp Nt Hc1 eq_refl) as (U1 & U2 & U3 & U4).
          unfold btj_spec. cbn [wf_tree env_ok engine_of sem_tree columns].
          split; [split; [congruence|exact U1]|]. split; [exact U2|]. split; [reflexivity|].
          destruct dd; [exact U4|]. subst up. reflexivity.
        * injection H as <- <-. unfold btj_spec. simpl. auto.
    - discriminate.
  Qed.
End JoinBacktrack.

(* ---- Relation.join(rhs, predicate, backtrack=, transfer=) ---- *)
Theorem apply_full_join_sound env p f t jb jt t1 :
  wf_tree t → env_ok env t → spine_ok env t → tree_ok env t →
  wf_tree f → env_ok env f → tree_ok env f → columns t ≠ ∅ → columns f ≠ ∅ →
  spine_cons env (natural_common (columns t) (columns f)) (sem_tree env f) t →
  (* without a transfer, a target in the SQL engine and an operand elsewhere is outside the model's scope *)
  (engine_of f = engine_of t ∨ jt = true ∨ ekind_of (engine_of t) = KIter) →
  (jt = true → ekind_of (engine_of f) = KSql →
     (jb = false ∨ ekind_of (engine_of t) = KSql) ∧ ∀ x, xfer_simplify (engine_of f) t = Some x → good_all env x) →
  apply_full (RJoin (JSpec p ∅ None) f false) t (Opts None jb jt false) = Ok t1 →
  sem_tree env t1 = sem_join (natural_common (columns t) (columns f)) p (sem_tree env t) (sem_tree env f) ∧
  columns t1 = columns t ∪ columns f ∧ wf_tree t1 ∧ env_ok env t1 ∧
  (engine_of t1 = engine_of t ∨ (jt = true ∧ engine_of t1 = engine_of f)).
Proof.
  intros Wt Et Hsp Ot Wf Ef Of Nt Nf Hcons Hscope0 Hscope H.
  set (c := natural_common (columns t) (columns f)) in *.
  unfold apply_full, apply_with, req_begin, common_columns, j_resolved in H. cbn [j_max j_min j_pred] in H.
  rewrite bool_decide_eq_false_2 in H by discriminate.
  assert (Ec : filter (λ k, is_key k = true) (columns f ∩ columns t) = c).
  { unfold c, natural_common. f_equal. set_solver. }
  rewrite Ec in H.
  rewrite (bool_decide_eq_true_2 (∅ ⊆ c)) in H by set_solver. cbn [rbind] in H.
  set (j := JSpec p c (Some c)) in *.
  destruct (bool_decide (pjoin_required j f ⊆ columns t)) eqn:Ereq; cbn [negb rbind] in H; [|discriminate].
  apply bool_decide_eq_true in Ereq.
  assert (Hmax : j_max j = Some (j_min j)) by reflexivity.
  assert (Hcf : j_min j ⊆ columns f) by (unfold j, c, natural_common; cbn [j_min]; intros k Hk; apply elem_of_filter in Hk; set_solver).
  assert (Hct : j_min j ⊆ columns t) by (unfold pjoin_required in Ereq; set_solver).
  assert (Hp : cols_p (j_pred j) ⊆ columns t ∪ columns f) by (apply subset_union_diff; unfold pjoin_required in Ereq; set_solver).
  cbn [o_pref default from_option id o_backtrack o_transfer o_require] in H.
  destruct (engine_eqb (engine_of f) (engine_of t)) eqn:Ee.
  { apply engine_eqb_eq in Ee.
    destruct (append_join_e_sound env j f t t1 Wt Et Ot Wf Ef Of Ee Hmax Hct Hcf Hp H) as (S1 & S2 & S3 & S4 & S5 & S6).
    repeat split; auto. }
  (* the backtracking attempt *)
  assert (Hbt : ∃ res done,
            (if jb then backtrack_e (RJoin j f false) t (engine_of f) else Ok (t, false)) = Ok (res, done) ∧
            btj_spec env j f t (res, done) ∧ (jb = false ∨ ekind_of (engine_of t) = KSql → done = false)).
  { destruct jb.
    - unfold backtrack_e in *. destruct (ekind_of (engine_of t)) eqn:Ek.
      + destruct (backtrack (RJoin j f false) t (engine_of f)) as [[res done]|e] eqn:Ebk; cbn [rbind] in H; [|discriminate].
        exists res, done. split; [reflexivity|]. split; [|intros [?|?]; discriminate].
        apply (backtrack_join_sound env j f Wf Ef Of Hmax Hcf Nf t res done); auto.
      + exists t, false. split; [reflexivity|]. split; [unfold btj_spec; auto|]. auto.
    - exists t, false. split; [reflexivity|]. split; [unfold btj_spec; auto|]. auto. }
  destruct Hbt as (res & done & Ebd & Hspec & Hsame). rewrite Ebd in H. cbn [rbind] in H.
  destruct Hspec as (R1 & R2 & R3 & R4).
  destruct done.
  { injection H as <-. destruct R4 as [R4 R5]. repeat split; auto. }
  subst res.
  destruct jt.
  - (* transfer the target to the operand's engine, then join there *)
    destruct (transfer_e (engine_of f) t) as [res2|e] eqn:Etr; cbn [rbind] in H; [|discriminate].
    assert (Hx : ekind_of (engine_of f) = KSql → ∀ x, xfer_simplify (engine_of f) t = Some x → good_all env x).
    { intros Hk. destruct (Hscope eq_refl Hk) as [_ Hg]. exact Hg. }
    destruct (transfer_e_sound env (engine_of f) t res2 Wt Et Ot Hx Etr) as (T1 & T2 & T3 & T4 & T5 & T6).
    assert (Hct2 : j_min j ⊆ columns res2) by (rewrite T2; exact Hct).
    assert (Hp2 : cols_p (j_pred j) ⊆ columns res2 ∪ columns f) by (rewrite T2; exact Hp).
    assert (Nt2 : columns res2 ≠ ∅) by (rewrite T2; exact Nt).
    destruct (append_join_e_sound env j f res2 t1 T3 T4 T5 Wf Ef Of (eq_sym T6) Hmax Hct2 Hcf Hp2 H) as (S1 & S2 & S3 & S4 & S5 & S6).
    split; [rewrite S1, T1; reflexivity|]. split; [rewrite S2, T2; reflexivity|]. split; [exact S3|]. split; [exact S4|].
    right. split; [reflexivity|congruence].
  - (* no transfer: operands in different engines are refused *)
    cbn [rbind] in H. exfalso.
    destruct Hscope0 as [He|[?|Hk]]; [rewrite He, engine_eqb_refl in Ee; discriminate|discriminate|].
    unfold append_unary_e in H. rewrite Hk in H. unfold join_apply, join_begin in H.
    rewrite (bool_decide_eq_true_2 _ Hp) in H. cbn [negb] in H.
    unfold j_resolved in H. rewrite (bool_decide_eq_true_2 _ Hmax) in H.
    rewrite (bool_decide_eq_true_2 _ Hct), (bool_decide_eq_true_2 _ Hcf) in H. cbn [negb rbind] in H.
    rewrite (not_identity_of_columns t Nt), (not_identity_of_columns f Nf), !andb_false_r in H. cbn [rbind] in H.
    unfold append_binary_e in H. rewrite Hk in H. unfold join_finish in H.
    rewrite (not_identity_of_columns t Nt), (not_identity_of_columns f Nf) in H.
    assert (Ee' : engine_eqb (engine_of t) (engine_of f) = false).
    { destruct (engine_eqb (engine_of t) (engine_of f)) eqn:E; [|reflexivity].
      apply engine_eqb_eq in E. rewrite E, engine_eqb_refl in Ee. discriminate. }
    rewrite Ee' in H. discriminate.
Qed.

(* Relation.join of two relations of one engine: no side condition beyond well-formedness — operands without columns
   (the join identity among them) included, in an iteration engine and in an SQL engine alike *)
Theorem apply_full_join_same_engine env p f t jb jt t1 :
  wf_tree t → env_ok env t → tree_ok env t → wf_tree f → env_ok env f → tree_ok env f →
  engine_of f = engine_of t →
  apply_full (RJoin (JSpec p ∅ None) f false) t (Opts None jb jt false) = Ok t1 →
  sem_tree env t1 = sem_join (natural_common (columns t) (columns f)) p (sem_tree env t) (sem_tree env f) ∧
  columns t1 = columns t ∪ columns f ∧ wf_tree t1 ∧ env_ok env t1 ∧ tree_ok env t1 ∧ engine_of t1 = engine_of t.
Proof.
  intros Wt Et Ot Wf Ef Of He H.
  set (c := natural_common (columns t) (columns f)) in *.
  unfold apply_full, apply_with, req_begin, common_columns, j_resolved in H. cbn [j_max j_min j_pred] in H.
  rewrite bool_decide_eq_false_2 in H by discriminate.
  assert (Ec : filter (λ k, is_key k = true) (columns f ∩ columns t) = c).
  { unfold c, natural_common. f_equal. set_solver. }
  rewrite Ec in H.
  rewrite (bool_decide_eq_true_2 (∅ ⊆ c)) in H by set_solver. cbn [rbind] in H.
  set (j := JSpec p c (Some c)) in *.
  destruct (bool_decide (pjoin_required j f ⊆ columns t)) eqn:Ereq; cbn [negb rbind] in H; [|discriminate].
  apply bool_decide_eq_true in Ereq.
  assert (Hmax : j_max j = Some (j_min j)) by reflexivity.
  assert (Hcf : j_min j ⊆ columns f) by (unfold j, c, natural_common; cbn [j_min]; intros k Hk; apply elem_of_filter in Hk; set_solver).
  assert (Hct : j_min j ⊆ columns t) by (unfold pjoin_required in Ereq; set_solver).
  assert (Hp : cols_p (j_pred j) ⊆ columns t ∪ columns f) by (apply subset_union_diff; unfold pjoin_required in Ereq; set_solver).
  cbn [o_pref default from_option id o_backtrack o_transfer o_require] in H.
  rewrite He, engine_eqb_refl in H.
  exact (append_join_e_sound env j f t t1 Wt Et Ot Wf Ef Of He Hmax Hct Hcf Hp H).
Qed.

(* PartialJoin._begin_apply always hands on a join whose common columns are resolved (minimum = maximum), whatever
   minimum / maximum the caller gave: they hold the minimum, lie within the maximum, and are columns of both operands *)
Theorem req_begin_join_resolved j f lhs t pref r' e :
  j_min j ⊆ columns f →
  req_begin (RJoin j f lhs) t pref = Ok (r', e) →
  ∃ c, r' = RJoin (JSpec (j_pred j) c (Some c)) f lhs ∧ j_resolved (JSpec (j_pred j) c (Some c)) = true ∧
       j_min j ⊆ c ∧ c ⊆ columns f ∧ c ⊆ columns t ∧ (∀ m, j_max j = Some m → c ⊆ m) ∧
       cols_p (j_pred j) ⊆ columns t ∪ columns f.
Proof.
  intros Hf H. cbn [req_begin] in H.
  destruct (common_columns j (columns f) (columns t)) as [c|] eqn:Ec; cbn [rbind] in H; [|discriminate].
  destruct (bool_decide (pjoin_required (JSpec (j_pred j) c (Some c)) f ⊆ columns t)) eqn:Er; cbn [negb] in H; [|discriminate].
  injection H as <- <-. apply bool_decide_eq_true in Er. unfold pjoin_required in Er. cbn [j_pred j_min] in Er.
  exists c. split; [reflexivity|]. split; [apply bool_decide_eq_true; reflexivity|].
  unfold common_columns in Ec. destruct (j_resolved j) eqn:Ej.
  - injection Ec as <-. unfold j_resolved in Ej. apply bool_decide_eq_true in Ej.
    split; [reflexivity|]. split; [exact Hf|]. split; [set_solver|]. split; [intros m Hm; rewrite Ej in Hm; injection Hm as <-; reflexivity|].
    apply subset_union_diff. set_solver.
  - destruct (bool_decide (j_min j ⊆ _)) eqn:Em; [|discriminate]. injection Ec as <-. apply bool_decide_eq_true in Em.
    split; [exact Em|].
    assert (Hk : ∀ k, k ∈ filter (λ x, is_key x = true) (columns f ∩ columns t) → k ∈ columns f ∧ k ∈ columns t).
    { intros k Hk. apply elem_of_filter in Hk as [_ Hk]. apply elem_of_intersection in Hk. exact Hk. }
    destruct (j_max j) as [m|].
    + split; [intros k Hk0; apply elem_of_intersection in Hk0 as [Hk0 _]; apply (Hk k Hk0)|].
      split; [intros k Hk0; apply elem_of_intersection in Hk0 as [Hk0 _]; apply (Hk k Hk0)|].
      split; [intros m' Hm; injection Hm as <-; set_solver|]. apply subset_union_diff. set_solver.
    + split; [intros k Hk0; apply (Hk k Hk0)|]. split; [intros k Hk0; apply (Hk k Hk0)|].
      split; [discriminate|]. apply subset_union_diff. set_solver.
Qed.
