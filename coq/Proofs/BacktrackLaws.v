(* C03: inserting an operation upstream by backtracking (iteration.Engine.backtrack_unary, with its
   commutators, partial projections, transfers into the preferred engine) and the option protocol of
   UnaryOperation.apply never change the content of the relation. *)
From DR Require Import Model.Backtrack Model.Reach Proofs.PredLaws Proofs.SliceLaws Proofs.SortLaws Proofs.SemLaws
  Proofs.Metadata Proofs.Simplify Proofs.FinishApply Proofs.CommuteLaws Proofs.EqbLaws Proofs.SqlRules
  Proofs.BuildLaws Proofs.ReachLaws.
From Coq Require Import Lia.
Local Open Scope Z_scope.

Definition is_proj (o : uop) : bool := match o with Proj _ => true | _ => false end.

(* ---- shapes of the commutators of unary requests ---- *)
Lemma commute_first_un o cur tcols f :
  c_first (commute (RUn o) cur tcols) = Some f →
  ∃ o1, f = RUn o1 ∧ is_proj o1 = is_proj o ∧ (is_proj o = false → o1 = o).
Proof.
  destruct o as [t e| |cs|p|a b|ts|]; cbn [commute]; unfold comm_fail;
    repeat match goal with
           | |- context [if ?c then _ else _] => destruct c
           | |- context [match ?x with _ => _ end] => destruct x
           end; simpl; intros H; try discriminate; injection H as <-;
    (eexists; split; [reflexivity|]; split; [reflexivity|]; simpl; intros; auto; discriminate).
Qed.

(* a unary request is reported as not completely commuted only for a partial projection *)
Lemma commute_partial_shape o cur tcols f :
  c_first (commute (RUn o) cur tcols) = Some f → c_done (commute (RUn o) cur tcols) = false →
  ∃ cs, o = Proj cs ∧ c_second (commute (RUn o) cur tcols) = cur ∧
        f = RUn (Proj ((match cur with Calc t _ => cs ∖ {[t]} | _ => cs end) ∪ op_required cur)) ∧
        (match cur with Calc t _ => t ∈ cs | Proj _ => False | _ => True end).
Proof.
  destruct o as [t e| |cs|p|a b|ts|]; cbn [commute]; unfold comm_fail;
    repeat match goal with
           | |- context [if ?c then _ else _] => destruct c eqn:?
           | |- context [match ?x with _ => _ end] => destruct x eqn:?
           end; simpl; intros H Hd; try discriminate; injection H as <-; exists cs; repeat split; auto;
    try (apply negb_false_iff in Heqb; apply bool_decide_eq_true in Heqb; exact Heqb).
Qed.

Ltac cdestruct :=
  repeat match goal with
         | |- context [if ?c then _ else _] => destruct c eqn:?
         | |- context [match ?x with _ => _ end] => destruct x eqn:?
         end.
Ltac bfacts :=
  repeat match goal with
         | H : negb _ = true |- _ => apply negb_true_iff in H
         | H : negb _ = false |- _ => apply negb_false_iff in H
         | H : bool_decide _ = true |- _ => apply bool_decide_eq_true in H
         | H : bool_decide _ = false |- _ => apply bool_decide_eq_false in H
         end.

(* columns after a completed commutation *)
Lemma commute_done_columns o cur tcols o1 :
  c_first (commute (RUn o) cur tcols) = Some (RUn o1) → c_done (commute (RUn o) cur tcols) = true →
  op_wf cur tcols → (o = Ident ∨ op_wf o (op_columns cur tcols)) →
  op_columns (c_second (commute (RUn o) cur tcols)) (op_columns o1 tcols) = op_columns o (op_columns cur tcols).
Proof.
  intros H1 H2 Hc Ho. destruct Ho as [->|Ho]; [simpl in *; injection H1 as <-; reflexivity|].
  destruct o as [t e| |cs|p|a b|ts|]; cbn [commute] in *; unfold comm_fail in *; revert H1 H2;
    cdestruct; simpl; intros H1 H2; try discriminate; injection H1 as <-; bfacts; subst; simpl in *; try reflexivity;
    try set_solver.
Qed.

Lemma commute_proj_first cs cur tcols X :
  c_first (commute (RUn (Proj cs)) cur tcols) = Some (RUn (Proj X)) → op_wf cur tcols → cs ⊆ op_columns cur tcols →
  X ⊆ tcols ∧ (∀ X', X ⊆ X' → cs ⊆ op_columns cur X') ∧ (match cur with Calc _ _ => True | _ => cs ⊆ X end).
Proof.
  cbn [commute]. cdestruct; simpl; intros H Hc Hs; try discriminate; injection H as <-; bfacts; subst; simpl in *;
    (split; [|split]); auto; try set_solver.
Qed.

(* every operation but deduplication commutes with a projection that keeps what it needs *)
Lemma op_proj_commute cur cs' tcols l :
  rows_dom tcols l → cs' ⊆ tcols → op_wf cur tcols → op_wf cur cs' → cur ≠ Dedup →
  sem_op cur (sem_proj cs' l) = sem_proj (op_columns cur cs') (sem_op cur l).
Proof.
  intros Hd Hs Hw Hw' Hn. destruct cur as [t e| |ps|p|a b|ts|]; simpl in *; try contradiction.
  - destruct Hw as (W1 & W2 & W3), Hw' as (V1 & V2 & V3). apply (calc_proj_commute t e cs' tcols l); auto.
  - rewrite (sem_proj_proj ps cs' l) by auto. rewrite (sem_proj_proj ps ps l) by set_solver. reflexivity.
  - apply sel_proj_commute; auto.
  - unfold sem_proj. apply sem_slice_map.
  - apply sort_proj_commute; auto.
Qed.

(* the original operation turned out to be a no-op on the narrower upstream relation *)
Lemma begin_ident_proj cur cs' tcols l :
  begin_apply cur cs' = Ok Ident → op_wf cur tcols → rows_dom tcols l → cs' ⊆ tcols →
  sem_proj cs' (sem_op cur l) = sem_proj cs' l ∧ cs' ⊆ op_columns cur tcols ∧ op_columns cur tcols ⊆ tcols.
Proof.
  intros Hb Hw Hd Hs. destruct cur as [t e| |ps|p|a b|ts|]; simpl in *; try contradiction.
  - revert Hb. cdestruct; discriminate.
  - discriminate.
  - revert Hb. cdestruct; intros; try discriminate. bfacts. subst. split; [|split; set_solver]. apply sem_proj_proj. set_solver.
  - revert Hb. cdestruct; intros; try discriminate; (split; [|split; set_solver]; f_equal; eapply sem_sel_true; eauto).
  - revert Hb. cdestruct; intros; try discriminate; (split; [|split; set_solver]; f_equal; apply window_noop; auto).
  - revert Hb. cdestruct; intros; try discriminate; subst; (split; [|split; set_solver]; f_equal; apply sem_sort_nil).
Qed.

(* ---- the trees backtracking walks through ---- *)
Fixpoint spine_ok (env : lenv) (t : tree) : Prop :=
  match t with
  | Un _ t' => spine_ok env t'
  | Xfer _ t' => match ekind_of (engine_of t') with KSql => good_all env t' | KIter => spine_ok env t' end
  | _ => True
  end.

(* finding F2 (Projection.commute past a Deduplication, pinned by the suite) is excluded *)
Fixpoint spine_no_dedup (t : tree) : Prop :=
  match t with
  | Un Dedup _ => False
  | Un _ t' => spine_no_dedup t'
  | Xfer _ t' => spine_no_dedup t'
  | _ => True
  end.

Definition tree_ok (env : lenv) (t : tree) : Prop :=
  match ekind_of (engine_of t) with KSql => good_all env t | KIter => True end.

Lemma good_all_wf env t : good_all env t → wf_tree t ∧ env_ok env t.
Proof.
  intros H. apply good_all_sel in H. destruct t as [| | | | |sl k tg]; try (destruct H; fail).
  destruct H as (_ & H1 & _ & H2 & _). simpl. auto.
Qed.

Lemma good_all_conform env t : good_all env t → conform t = Ok t.
Proof. intros H. apply good_all_sel in H. destruct t; try (destruct H; fail). reflexivity. Qed.

Lemma sem_op_ident l : sem_op Ident l = l.
Proof. reflexivity. Qed.

(* Engine.append_unary of either engine kind *)
Lemma append_unary_e_sound env o t t1 :
  tree_ok env t → wf_tree t → env_ok env t → (o = Ident ∨ op_wf o (columns t)) →
  append_unary_e (RUn o) t = Ok t1 → fa_spec env o t t1 ∧ tree_ok env t1.
Proof.
  unfold append_unary_e, tree_ok. intros Hok Hwf Henv Ho. destruct (ekind_of (engine_of t)) eqn:Ek.
  - intros H. pose proof (finish_apply_sem env t o t1 Hwf Henv Ho H) as Hs. split; auto.
    destruct Hs as (_ & _ & _ & _ & He). rewrite He, Ek. exact I.
  - rewrite (good_all_conform env t Hok). cbn [rbind]. intros H.
    destruct Ho as [->|Ho].
    + destruct t; try discriminate. injection H as <-. split.
      * unfold fa_spec. simpl. auto.
      * rewrite Ek. exact Hok.
    + destruct (append_unary_sel_sound env t o t1 Hok Ho H) as (S1 & S2 & S3 & S4).
      destruct (good_all_wf env t1 S1) as [W1 W2]. split.
      * unfold fa_spec. auto.
      * rewrite S4, Ek. exact S1.
Qed.

(* apply without preferred engine: _begin_apply then the engine's append_unary *)
Lemma apply_same_engine bt o t :
  apply_with bt (RUn o) t default_opts = (do o' <- begin_apply o (columns t); append_unary_e (RUn o') t).
Proof.
  unfold apply_with, req_begin. destruct (begin_apply o (columns t)) as [o'|e]; cbn [rbind]; [|reflexivity].
  destruct o'; cbn [rbind default_opts o_pref default]; rewrite engine_eqb_refl; reflexivity.
Qed.

Lemma begin_apply_sound o cs o' l :
  (o = Ident ∨ op_wf o cs) → rows_dom cs l → begin_apply o cs = Ok o' →
  (o' = Ident ∨ op_wf o' cs) ∧ sem_op o' l = sem_op o l ∧ op_columns o' cs = op_columns o cs.
Proof.
  intros [->|Ho] Hd Hb.
  - simpl in Hb. injection Hb as <-. auto.
  - assert (Hc : match o with Calc _ e => cols_e e ≠ ∅ | Slice a b => slice_ok a b | Ident => False | _ => True end).
    { destruct o; simpl in *; tauto. }
    destruct (begin_apply_wf o cs o' Hc Hb) as [[-> Hn]|[-> Hw]].
    + assert (Hp : match o with Sel p => cols_p p ⊆ cs | _ => True end) by (destruct o; simpl in *; auto).
      destruct (Hn l Hd Hp) as [E1 E2]. simpl. auto.
    + auto.
Qed.

Lemma op_columns_mono cur X Y : X ⊆ Y → op_columns cur X ⊆ op_columns cur Y.
Proof. destruct cur; simpl; set_solver. Qed.

Lemma commute_sound_any env o cur tcols l :
  rows_dom tcols l → op_wf cur tcols → (o = Ident ∨ op_wf o (op_columns cur tcols)) →
  ¬ (is_proj o = true ∧ cur = Dedup) →
  commutator_sound env (RUn o) cur tcols (commute (RUn o) cur tcols) l.
Proof.
  intros Hd Hc [->|Ho] Hn.
  - unfold commutator_sound. simpl. split; [left; reflexivity|]. split; [right; exact Hc|reflexivity].
  - apply commute_sound_unary; auto. intros (cs & -> & ->). apply Hn. auto.
Qed.

Section Backtrack.
  Variable env : lenv.

  (* what a not-completed backtracking attempt may have done to the tree: nothing, or (for a projection
     request) inserted a wider projection upstream, so that the result is a projection of the original
     that keeps at least the requested columns *)
  Definition partial_ok (o : uop) (t t' : tree) : Prop :=
    columns t' ⊆ columns t ∧ sem_tree env t' = sem_proj (columns t') (sem_tree env t) ∧
    (columns t' = columns t ∨ ∃ cs, o = Proj cs ∧ cs ⊆ columns t').

  Definition bt_spec (o : uop) (t : tree) (out : tree * bool) : Prop :=
    let '(t', done) := out in
    wf_tree t' ∧ env_ok env t' ∧ engine_of t' = engine_of t ∧
    if done then sem_tree env t' = sem_op o (sem_tree env t) ∧ columns t' = op_columns o (columns t)
    else partial_ok o t t'.

  Lemma partial_refl o t : wf_tree t → env_ok env t → partial_ok o t t.
  Proof.
    intros Hwf Henv. split; [reflexivity|]. split; [|left; reflexivity].
    symmetry. apply sem_proj_id. apply sem_tree_dom; auto.
  Qed.

  Lemma bt_unchanged o t : wf_tree t → env_ok env t → bt_spec o t (t, false).
  Proof. intros Hwf Henv. unfold bt_spec. repeat split; auto. apply partial_refl; auto. Qed.

  (* one unary level of backtrack_unary, given what the recursive call returned *)
  Lemma bt_un_step o o1 cur t1 up d res :
    let c := commute (RUn o) cur (columns t1) in
    wf_tree (Un cur t1) → env_ok env t1 → (o = Ident ∨ op_wf o (op_columns cur (columns t1))) →
    (is_proj o = true → cur ≠ Dedup) →
    c_first c = Some (RUn o1) →
    bt_spec o1 t1 (up, d) →
    (if (d : bool) then
       if tree_eqb up t1 && uop_eqb (c_second c) cur then Ok (Un cur t1) else finish_apply (c_second c) up
     else if tree_eqb up t1 then Ok (Un cur t1)
     else match apply_simple cur up with
          | Ok r => Ok r
          | Err ColumnError => Ok (Un cur t1)
          | Err e => Err e
          end) = Ok res →
    bt_spec o (Un cur t1) (res, d && c_done c).
  Proof.
    intros c [Hcur Hwf1] Henv1 Ho Hf2 Ef (U1 & U2 & U3 & U4) Hres.
    set (tcols := columns t1) in *. set (l := sem_tree env t1).
    assert (Hdom : rows_dom tcols l) by (apply sem_tree_dom; auto).
    assert (Hn : ¬ (is_proj o = true ∧ cur = Dedup)) by (intros [A B]; apply (Hf2 A B)).
    pose proof (commute_sound_any env o cur tcols l Hdom Hcur Ho Hn) as Hsound.
    unfold commutator_sound in Hsound. fold c in Hsound. rewrite Ef in Hsound.
    destruct Hsound as (Hrw & Hsw & Hsem). cbn [req_wf req_columns sem_req] in Hrw, Hsw, Hsem.
    assert (Hself : wf_tree (Un cur t1) ∧ env_ok env (Un cur t1)) by (simpl; auto).
    destruct d.
    - (* the first operation was inserted upstream *)
      destruct U4 as [Us Uc]. cbn [andb].
      assert (Hfa : fa_spec env (c_second c) up res).
      { destruct (tree_eqb up t1 && uop_eqb (c_second c) cur) eqn:Eq.
        - apply andb_true_iff in Eq as [E1 E2]. apply tree_eqb_eq in E1. apply uop_eqb_eq in E2.
          injection Hres as <-. subst up. rewrite E2. unfold fa_spec. simpl. tauto.
        - apply (finish_apply_sem env up (c_second c) res); auto. rewrite Uc. exact Hsw. }
      destruct Hfa as (S1 & S2 & S3 & S4 & S5).
      unfold bt_spec. split; [exact S2|]. split; [exact S4|]. split; [simpl; congruence|].
      destruct (c_done c) eqn:Ed.
      + split.
        * rewrite S1, Us. exact Hsem.
        * rewrite S3, Uc. simpl. apply commute_done_columns; auto.
      + (* a partial projection *)
        destruct (commute_partial_shape o cur tcols _ Ef Ed) as (cs & -> & Esec & Ef1 & Hside).
        fold c in Esec. injection Ef1 as ->.
        set (X := (match cur with Calc t _ => cs ∖ {[t]} | _ => cs end) ∪ op_required cur) in *.
        destruct (commute_proj_first cs cur tcols X Ef Hcur) as (P1 & P2 & P3).
        { destruct Ho as [Ho|Ho]; [discriminate|exact Ho]. }
        assert (HcurX : op_wf cur X).
        { rewrite Esec in Hsw. destruct Hsw as [->|Hw]; [destruct Hcur|exact Hw]. }
        assert (Hnd : cur ≠ Dedup) by (apply Hf2; reflexivity).
        simpl in Uc. rewrite Esec in S1, S3.
        unfold partial_ok. rewrite S3, Uc. cbn [columns]. fold tcols. split; [apply op_columns_mono; exact P1|].
        split.
        * rewrite S1, Us. cbn [sem_tree sem_op]. fold l. apply (op_proj_commute cur X tcols l); auto.
        * right. exists cs. split; [reflexivity|]. apply P2. set_solver.
    - (* nothing, or only part of it, was inserted upstream *)
      cbn [andb]. destruct (tree_eqb up t1) eqn:Et.
      { injection Hres as <-. apply bt_unchanged; tauto. }
      destruct U4 as (V1 & V2 & V3). fold tcols in V1. fold l in V2.
      unfold apply_simple in Hres.
      destruct (begin_apply cur (columns up)) as [o2|e] eqn:Eb; cbn [rbind] in Hres.
      2: { destruct e; try discriminate. injection Hres as <-. apply bt_unchanged; tauto. }
      destruct (finish_apply o2 up) as [r|e] eqn:Efa.
      2: { destruct e; try discriminate. injection Hres as <-. apply bt_unchanged; tauto. }
      injection Hres as ->.
      assert (Hc : match cur with Calc _ e => cols_e e ≠ ∅ | Slice a b => slice_ok a b | Ident => False | _ => True end).
      { destruct cur; simpl in *; tauto. }
      destruct (begin_apply_wf cur (columns up) o2 Hc Eb) as [[-> _]|[-> Hw2]].
      + (* the original operation is a no-op on the narrower relation *)
        rewrite finish_apply_ident in Efa. injection Efa as <-.
        destruct (begin_ident_proj cur (columns up) tcols l Eb Hcur Hdom V1) as (B1 & B2 & B3).
        unfold bt_spec. split; [exact U1|]. split; [exact U2|]. split; [simpl; exact U3|].
        unfold partial_ok. cbn [columns sem_tree]. fold tcols. fold l. split; [exact B2|]. split; [rewrite V2; symmetry; exact B1|].
        destruct V3 as [V3|(X & -> & V3)].
        * left. rewrite V3 in *. apply set_eq. intros k. split; intros Hk; [apply B2|apply B3]; exact Hk.
        * right. destruct o as [| |cs| | | |]; try (destruct (commute_first_un _ _ _ _ Ef) as (o1' & E1 & E2 & _); injection E1 as <-; discriminate).
          exists cs. split; auto.
          destruct (commute_proj_first cs cur tcols X Ef Hcur) as (P1 & P2 & P3).
          { destruct Ho as [Ho|Ho]; [discriminate|exact Ho]. }
          assert (cs ⊆ X). { destruct cur; auto. simpl in Eb. revert Eb. cdestruct; discriminate. }
          set_solver.
      + (* the original operation re-applied to the narrower relation *)
        destruct (finish_apply_sem env up cur res U1 U2 (or_intror Hw2) Efa) as (S1 & S2 & S3 & S4 & S5).
        unfold bt_spec. split; [exact S2|]. split; [exact S4|]. split; [simpl; congruence|].
        unfold partial_ok. rewrite S3. cbn [columns sem_tree]. fold tcols. fold l.
        split; [apply op_columns_mono; exact V1|].
        destruct V3 as [V3|(X & -> & V3)].
        * rewrite V3 in *. split; [|left; reflexivity].
          rewrite S1, V2. fold tcols. rewrite (sem_proj_id tcols l Hdom).
          symmetry. apply sem_proj_id. apply rows_dom_op; auto.
        * destruct o as [| |cs| | | |]; try (destruct (commute_first_un _ _ _ _ Ef) as (o1' & E1 & E2 & _); injection E1 as <-; discriminate).
          assert (Hnd : cur ≠ Dedup) by (apply Hf2; reflexivity).
          destruct (commute_proj_first cs cur tcols X Ef Hcur) as (P1 & P2 & P3).
          { destruct Ho as [Ho|Ho]; [discriminate|exact Ho]. }
          split.
          -- rewrite S1, V2. apply (op_proj_commute cur (columns up) tcols l); auto.
          -- right. exists cs. split; auto.
  Qed.

  Lemma spine_tree_ok d t1 : spine_ok env (Xfer d t1) → tree_ok env t1.
  Proof. unfold tree_ok. simpl. destruct (ekind_of (engine_of t1)); auto. Qed.

  (* iteration.Engine.backtrack_unary, for every tree it walks and every unary request *)
  Theorem backtrack_sound : ∀ t o pref t' done,
    wf_tree t → env_ok env t → spine_ok env t → (o = Ident ∨ op_wf o (columns t)) →
    (is_proj o = true → spine_no_dedup t) →
    backtrack (RUn o) t pref = Ok (t', done) → bt_spec o t (t', done).
  Proof.
    induction t as [n e cs mn mx|cur t1 IH|b l _ r _|n t1 _|d t1 IH|sl sk _ t1 _];
      intros o pref t' done Hwf Henv Hsp Ho Hnd H; cbn [backtrack is_locked] in H.
    - injection H as <- <-. apply bt_unchanged; auto.
    - (* unary node *)
      set (c := commute (RUn o) cur (columns t1)) in *.
      destruct (c_first c) as [f|] eqn:Ef.
      2: { injection H as <- Hd. destruct (commute_fail_shape _ _ _ Ef) as [_ E]. fold c in E. rewrite E in Hd. subst done.
           apply bt_unchanged; auto. }
      destruct (commute_first_un o cur (columns t1) f Ef) as (o1 & -> & Hp1 & Hp2).
      destruct Hwf as [Hcur Hwf1]. simpl in Henv, Hsp.
      assert (Hcd : is_proj o = true → cur ≠ Dedup ∧ spine_no_dedup t1).
      { intros Hp. specialize (Hnd Hp). simpl in Hnd. destruct cur; try tauto; split; auto; discriminate. }
      assert (Hn : ¬ (is_proj o = true ∧ cur = Dedup)) by (intros [A B]; destruct (Hcd A); auto).
      pose proof (commute_sound_any env o cur (columns t1) (sem_tree env t1) (sem_tree_dom env t1 Hwf1 Henv) Hcur Ho Hn) as Hsound.
      unfold commutator_sound in Hsound. fold c in Hsound. rewrite Ef in Hsound. destruct Hsound as (Hrw & _ & _).
      destruct (backtrack (RUn o1) t1 pref) as [[up dd]|e] eqn:Eb; cbn [rbind] in H; [|discriminate].
      assert (IH1 : bt_spec o1 t1 (up, dd)).
      { apply (IH o1 pref up dd); auto. rewrite Hp1. intros Hp. apply Hcd; auto. }
      match type of H with rbind ?x _ = _ => destruct x as [res|e] eqn:Eres end; cbn [rbind] in H; [|discriminate].
      injection H as <- <-.
      apply (bt_un_step o o1 cur t1 up dd res); simpl; auto; intros Hp; apply Hcd; auto.
    - injection H as <- <-. apply bt_unchanged; auto.
    - injection H as <- <-. apply bt_unchanged; auto.
    - (* transfer *)
      destruct Hwf as [Hd Hwf1]. simpl in Henv.
      destruct (engine_eqb (engine_of t1) pref) eqn:Ee.
      + (* the target is in the preferred engine: the operation is applied there *)
        rewrite apply_same_engine in H.
        destruct (begin_apply o (columns t1)) as [o'|e] eqn:Eb; cbn [rbind] in H; [|discriminate].
        destruct (append_unary_e (RUn o') t1) as [a|e] eqn:Ea; cbn [rbind] in H; [|discriminate].
        injection H as <- <-.
        destruct (begin_apply_sound o (columns t1) o' (sem_tree env t1) Ho (sem_tree_dom env t1 Hwf1 Henv) Eb) as (B1 & B2 & B3).
        destruct (append_unary_e_sound env o' t1 a (spine_tree_ok d t1 Hsp) Hwf1 Henv B1 Ea) as [(S1 & S2 & S3 & S4 & S5) _].
        unfold bt_spec. simpl. repeat split; auto; congruence.
      + destruct (ekind_of (engine_of t1)) eqn:Ek.
        * destruct (backtrack (RUn o) t1 pref) as [[up dd]|e] eqn:Eb; cbn [rbind] in H; [|discriminate].
          injection H as <- <-.
          assert (Hsp1 : spine_ok env t1) by (simpl in Hsp; rewrite Ek in Hsp; exact Hsp).
          destruct (IH o pref up dd Hwf1 Henv Hsp1 Ho Hnd Eb) as (U1 & U2 & U3 & U4).
          unfold bt_spec. simpl. split; [split; [congruence|exact U1]|]. split; [exact U2|]. split; [reflexivity|].
          destruct dd; auto.
        * injection H as <- <-. apply bt_unchanged; simpl; auto.
    - discriminate.
  Qed.
End Backtrack.

(* ---- transfers ---- *)
Lemma xfer_simplify_basic env dest : ∀ t x,
  xfer_simplify dest t = Some x → wf_tree t → env_ok env t →
  sem_tree env x = sem_tree env t ∧ columns x = columns t ∧ wf_tree x ∧ env_ok env x ∧ engine_of x = dest.
Proof.
  induction t as [n e cs mn mx|up t IH|b l _ r _|n t _|d' t IH|sl sk _ t IH]; simpl; intros x H Hwf Henv; try discriminate.
  - destruct Hwf as [Hne Hwf]. destruct (engine_eqb dest (engine_of t)) eqn:E.
    + injection H as <-. apply engine_eqb_eq in E. auto.
    + apply IH; auto.
  - apply IH; auto.
Qed.

Lemma select_of_good env t s :
  wf_tree t → env_ok env t → chains_good env t → select_of t = Ok s →
  good_all env s ∧ sem_tree env s = sem_tree env t ∧ columns s = columns t ∧ engine_of s = engine_of t.
Proof.
  intros Hwf Henv Hch H. unfold select_of in H.
  assert (Hsw : slots_wf no_slots (columns t)).
  { unfold slots_wf, no_slots. simpl. split; [set_solver|]. split; auto. unfold slice_ok. lia. }
  destruct (apply_skip_good env no_slots t s Hwf Henv Hsw H) as (G & Es & Ek).
  destruct s as [| | | | |sl k tg]; try (destruct G; fail). simpl in Es, Ek. subst sl k.
  split; [apply good_all_of_sel; auto|].
  destruct G as (_ & _ & _ & _ & _ & Gc & Ge & Gs). simpl.
  split; [|split; auto].
  rewrite Gs. unfold slots_sem, no_slots. simpl. rewrite sem_sort_nil. reflexivity.
Qed.

Lemma transfer_e_sound env dest t t2 :
  wf_tree t → env_ok env t → tree_ok env t →
  (ekind_of dest = KSql → ∀ x, xfer_simplify dest t = Some x → good_all env x) →
  transfer_e dest t = Ok t2 →
  sem_tree env t2 = sem_tree env t ∧ columns t2 = columns t ∧ wf_tree t2 ∧ env_ok env t2 ∧ tree_ok env t2 ∧
  engine_of t2 = dest.
Proof.
  intros Hwf Henv Hok Hx H.
  (* Engine.transfer of the generic engine *)
  assert (G : ∀ x, transfer_generic conform_e dest t = Ok x →
              sem_tree env x = sem_tree env t ∧ columns x = columns t ∧ wf_tree x ∧ env_ok env x ∧ engine_of x = dest ∧
              (ekind_of dest = KSql → good_all env x ∨ ∃ c, x = Xfer dest c)).
  { intros x Hg. unfold transfer_generic in Hg.
    destruct (engine_eqb (engine_of t) dest) eqn:Ee0.
    { injection Hg as <-. apply engine_eqb_eq in Ee0. repeat split; auto.
      intros Hk. left. unfold tree_ok in Hok. rewrite Ee0, Hk in Hok. exact Hok. }
    destruct (xfer_simplify dest t) as [y|] eqn:Es; cbn [default from_option id] in Hg.
    - destruct (xfer_simplify_basic env dest t y Es Hwf Henv) as (Y1 & Y2 & Y3 & Y4 & Y5).
      rewrite Y5, engine_eqb_refl in Hg. injection Hg as <-. repeat split; auto.
    - destruct (engine_eqb (engine_of t) dest) eqn:Ee.
      + injection Hg as <-. apply engine_eqb_eq in Ee. repeat split; auto.
        intros Hk. left. unfold tree_ok in Hok. rewrite Ee, Hk in Hok. exact Hok.
      + assert (Hc : conform_e t = Ok t).
        { unfold conform_e, tree_ok in *. destruct (ekind_of (engine_of t)); auto. eapply good_all_conform; eauto. }
        rewrite Hc in Hg. cbn [rbind] in Hg. injection Hg as <-. simpl. repeat split; auto.
        * intros ->. rewrite engine_eqb_refl in Ee. discriminate.
        * intros _. right. eauto. }
  unfold transfer_e in H. destruct (ekind_of dest) eqn:Ek.
  - destruct (G t2 H) as (G1 & G2 & G3 & G4 & G5 & _). repeat split; auto.
    unfold tree_ok. rewrite G5, Ek. exact I.
  - unfold sql_transfer in H. destruct (transfer_generic conform_e dest t) as [x|] eqn:Eg; cbn [rbind] in H; [|discriminate].
    destruct (G x eq_refl) as (G1 & G2 & G3 & G4 & G5 & G6).
    destruct (G6 eq_refl) as [Hg|[c ->]].
    + rewrite (good_all_conform env x Hg) in H. injection H as <-. repeat split; auto.
      unfold tree_ok. rewrite G5, Ek. exact Hg.
    + change (conform (Xfer dest c)) with (select_of (Xfer dest c)) in H.
      destruct (select_of_good env (Xfer dest c) t2 G3 G4 I H) as (S1 & S2 & S3 & S4).
      destruct (good_all_wf env t2 S1) as [W1 W2].
      repeat split; auto; try congruence.
      unfold tree_ok. rewrite S4. simpl. rewrite Ek. exact S1.
Qed.

(* ---- UnaryOperation.apply with its preferred-engine options ---- *)
Definition transfer_in_scope (env : lenv) (t : tree) (opts : opts) : Prop :=
  o_transfer opts = true → ∀ pref, o_pref opts = Some pref → ekind_of pref = KSql →
  (o_backtrack opts = false ∨ ekind_of (engine_of t) = KSql) ∧ ∀ x, xfer_simplify pref t = Some x → good_all env x.

Theorem apply_full_sound env o t opts t1 :
  wf_tree t → env_ok env t → spine_ok env t → tree_ok env t → op_wf o (columns t) →
  (is_proj o = true → spine_no_dedup t) → transfer_in_scope env t opts →
  apply_full (RUn o) t opts = Ok t1 →
  sem_tree env t1 = sem_op o (sem_tree env t) ∧ columns t1 = op_columns o (columns t) ∧ wf_tree t1 ∧ env_ok env t1 ∧
  (* where the result lives *)
  (engine_of t1 = engine_of t ∨ (o_transfer opts = true ∧ o_pref opts = Some (engine_of t1))) ∧
  (o_backtrack opts = false → o_transfer opts = true → begin_apply o (columns t) ≠ Ok Ident →
   ∀ pref, o_pref opts = Some pref → engine_of t1 = pref).
Proof.
  intros Hwf Henv Hsp Hok Ho Hnd Hscope H.
  pose proof (sem_tree_dom env t Hwf Henv) as Hdom.
  unfold apply_full, apply_with, req_begin in H.
  destruct (begin_apply o (columns t)) as [o'|e] eqn:Eb; cbn [rbind] in H; [|discriminate].
  destruct (begin_apply_sound o (columns t) o' (sem_tree env t) (or_intror Ho) Hdom Eb) as (B1 & B2 & B3).
  set (p := match o' with Ident => engine_of t | _ => default (engine_of t) (o_pref opts) end).
  assert (Em : (match o' with Ident => Ok (RUn Ident, engine_of t) | _ => Ok (RUn o', default (engine_of t) (o_pref opts)) end)
               = Ok (RUn o', p)) by (destruct o'; reflexivity).
  rewrite Em in H. cbn [rbind] in H. clear Em.
  destruct (engine_eqb p (engine_of t)) eqn:Ep.
  { destruct (append_unary_e_sound env o' t t1 Hok Hwf Henv B1 H) as [(S1 & S2 & S3 & S4 & S5) _].
    split; [congruence|]. split; [congruence|]. split; [exact S2|]. split; [exact S4|]. split; [left; exact S5|].
    intros _ _ Hni pref Hpref. rewrite S5. apply engine_eqb_eq in Ep. rewrite <- Ep. subst p.
    destruct o'; try (rewrite Hpref; reflexivity). contradiction. }
  assert (Hp : o_pref opts = Some p ∧ o' ≠ Ident).
  { subst p. destruct o'; try (rewrite engine_eqb_refl in Ep; discriminate);
      (destruct (o_pref opts) as [q|]; simpl in *; [split; [reflexivity|discriminate]|rewrite engine_eqb_refl in Ep; discriminate]). }
  destruct Hp as [Hpref Hni].
  assert (Hnd' : is_proj o' = true → spine_no_dedup t).
  { intros Hp. apply Hnd. destruct B1 as [->|_]; [discriminate|].
    destruct (begin_apply_wf o (columns t) o') as [[-> _]|[-> _]]; auto; try discriminate.
    destruct o; simpl in *; tauto. }
  (* the backtracking attempt *)
  assert (Hbt : ∃ res done,
            (if o_backtrack opts then backtrack_e (RUn o') t p else Ok (t, false)) = Ok (res, done) ∧
            bt_spec env o' t (res, done) ∧
            (o_backtrack opts = false ∨ ekind_of (engine_of t) = KSql → done = false ∧ res = t)).
  { destruct (o_backtrack opts) eqn:Ebt.
    - unfold backtrack_e in *. destruct (ekind_of (engine_of t)) eqn:Ek.
      + destruct (backtrack (RUn o') t p) as [[res done]|e] eqn:Ebk; cbn [rbind] in H; [|discriminate].
        exists res, done. split; [reflexivity|]. split; [apply (backtrack_sound env t o' p); auto|].
        intros [?|?]; discriminate.
      + exists t, false. split; [reflexivity|]. split; [apply bt_unchanged; auto|]. auto.
    - exists t, false. split; [reflexivity|]. split; [apply bt_unchanged; auto|]. auto. }
  destruct Hbt as (res & done & Ebd & Hspec & Hsame). rewrite Ebd in H. cbn [rbind] in H.
  destruct Hspec as (R1 & R2 & R3 & R4).
  destruct done.
  { injection H as <-. destruct R4 as [R4 R5].
    split; [congruence|]. split; [congruence|]. split; [exact R1|]. split; [exact R2|]. split; [left; exact R3|].
    intros Hb. destruct (Hsame (or_introl Hb)) as [? _]. discriminate. }
  (* not inserted upstream: transfer (or not), then append at the root *)
  destruct R4 as (P1 & P2 & P3).
  assert (Hres_ok : tree_ok env res).
  { unfold tree_ok. rewrite R3. destruct (ekind_of (engine_of t)) eqn:Ek; auto.
    destruct (Hsame (or_intror eq_refl)) as [_ ->]. unfold tree_ok in Hok. rewrite Ek in Hok. exact Hok. }
  assert (Htr : ∃ res2, (if o_transfer opts then transfer_e p res else if o_require opts then Err EngineError else Ok res) = Ok res2 ∧
                 sem_tree env res2 = sem_tree env res ∧ columns res2 = columns res ∧ wf_tree res2 ∧ env_ok env res2 ∧
                 tree_ok env res2 ∧ (if o_transfer opts then engine_of res2 = p else engine_of res2 = engine_of t)).
  { destruct (o_transfer opts) eqn:Etr.
    - destruct (transfer_e p res) as [res2|e] eqn:Et; cbn [rbind] in H; [|discriminate].
      exists res2. split; [reflexivity|].
      assert (Hx : ekind_of p = KSql → ∀ x, xfer_simplify p res = Some x → good_all env x).
      { intros Hk. destruct (Hscope Etr p Hpref Hk) as [Hc Hg]. destruct (Hsame Hc) as [_ ->]. exact Hg. }
      destruct (transfer_e_sound env p res res2 R1 R2 Hres_ok Hx Et) as (T1 & T2 & T3 & T4 & T5 & T6). auto 10.
    - destruct (o_require opts); cbn [rbind] in H; [discriminate|].
      exists res. auto 10. }
  destruct Htr as (res2 & Etr & T1 & T2 & T3 & T4 & T5 & T6). rewrite Etr in H. cbn [rbind] in H.
  assert (Ho2 : o' = Ident ∨ op_wf o' (columns res2)).
  { rewrite T2. destruct P3 as [->|(cs & -> & Hcs)]; [exact B1|right; exact Hcs]. }
  destruct (append_unary_e_sound env o' res2 t1 T5 T3 T4 Ho2 H) as [(S1 & S2 & S3 & S4 & S5) _].
  split; [|split; [|split; [exact S2|split; [exact S4|split]]]].
  - rewrite S1, T1, P2, <- B2. destruct P3 as [->|(cs & -> & Hcs)].
    + rewrite sem_proj_id; auto.
    + simpl. apply sem_proj_proj. exact Hcs.
  - rewrite S3, T2, <- B3. destruct P3 as [->|(cs & -> & Hcs)]; reflexivity.
  - rewrite S5. destruct (o_transfer opts); [right; split; [reflexivity|congruence]|left; exact T6].
  - intros _ Ht _ pref Hpref'. rewrite S5. rewrite Ht in T6. congruence.
Qed.

(* require_preferred_engine: when the operation cannot be placed in the preferred engine the call is refused *)
Lemma require_refuses bt r t o r' pref :
  req_begin r t (o_pref o) = Ok (r', pref) → engine_eqb pref (engine_of t) = false →
  o_require o = true → o_transfer o = false →
  (o_backtrack o = false ∨ ∃ res, bt r' t pref = Ok (res, false)) →
  apply_with bt r t o = Err EngineError.
Proof.
  intros Hb He Hr Ht Hbt. unfold apply_with. rewrite Hb. cbn [rbind]. rewrite He.
  destruct Hbt as [Hbt|[res Hbt]].
  - rewrite Hbt. cbn [rbind]. rewrite Ht, Hr. reflexivity.
  - destruct (o_backtrack o); [rewrite Hbt|]; cbn [rbind]; rewrite Ht, Hr; reflexivity.
Qed.
