(* The boolean structural equalities of Model/Eqb.v decide Leibniz equality. *)
From DR Require Import Model.Eqb.
Local Open Scope Z_scope.

Ltac btrue :=
  repeat match goal with
         | H : _ && _ = true |- _ => apply andb_true_iff in H; destruct H
         | H : Pos.eqb _ _ = true |- _ => apply Pos.eqb_eq in H
         | H : Z.eqb _ _ = true |- _ => apply Z.eqb_eq in H
         | H : Bool.eqb _ _ = true |- _ => apply Bool.eqb_prop in H
         | H : bool_decide _ = true |- _ => apply bool_decide_eq_true in H
         end.

Lemma list_eqb_eq {A} (eqb : A → A → bool) (l1 : list A) :
  Forall (fun x => ∀ y, eqb x y = true → x = y) l1 → ∀ l2, list_eqb eqb l1 l2 = true → l1 = l2.
Proof.
  induction 1 as [|x l1 Hx _ IH]; intros [|y l2] H; simpl in H; try discriminate; auto.
  btrue. f_equal; auto.
Qed.

Lemma expr_seqb_eq a : ∀ b, expr_seqb a b = true → a = b.
Proof.
  induction a as [t|z|a IH|a1 IH1 a2 IH2|a1 IH1 a2 IH2|a1 IH1 a2 IH2|i s a IH]; intros [] H; simpl in H;
    try discriminate; btrue; subst; f_equal; auto.
Qed.

Lemma exprs_eqb_eq l : ∀ l', list_eqb expr_seqb l l' = true → l = l'.
Proof. apply list_eqb_eq. apply Forall_forall. intros x _. apply expr_seqb_eq. Qed.

Lemma cmp_eqb_eq a b : cmp_eqb a b = true → a = b.
Proof. destruct a, b; simpl; intros; try discriminate; auto. Qed.

Lemma container_eqb_eq a b : container_eqb a b = true → a = b.
Proof.
  destruct a, b; simpl; intros H; try discriminate; btrue; subst; auto.
  f_equal. apply exprs_eqb_eq; auto.
Qed.

Lemma pred_eqb_eq p : ∀ q, pred_eqb p q = true → p = q.
Proof.
  induction p as [b|t|c a b|p IH|ps IH|ps IH|e c] using pred_ind2; intros [] H; simpl in H; try discriminate;
    btrue; subst; auto.
  - f_equal; auto using cmp_eqb_eq, expr_seqb_eq.
  - f_equal; auto.
  - f_equal. revert ps0 H. induction IH as [|x l Hx _ IHl]; intros [|y l'] H; try discriminate; auto.
    btrue. f_equal; auto.
  - f_equal. revert ps0 H. induction IH as [|x l Hx _ IHl]; intros [|y l'] H; try discriminate; auto.
    btrue. f_equal; auto.
  - f_equal; auto using container_eqb_eq, expr_seqb_eq.
Qed.

Lemma terms_eqb_eq a : ∀ b, terms_eqb a b = true → a = b.
Proof.
  unfold terms_eqb. apply list_eqb_eq. apply Forall_forall. intros [e s] _ [e' s'] H. simpl in H. btrue.
  f_equal; auto using expr_seqb_eq.
Qed.

Lemma uop_eqb_eq a b : uop_eqb a b = true → a = b.
Proof.
  destruct a, b; simpl; intros H; try discriminate; auto; unfold set_eqb, optz_eqb in *; btrue; subst; auto;
    f_equal; auto using expr_seqb_eq, pred_eqb_eq, terms_eqb_eq.
Qed.

Lemma bop_eqb_eq a b : bop_eqb a b = true → a = b.
Proof.
  destruct a, b; simpl; intros H; try discriminate; auto; unfold set_eqb in *; btrue; subst. f_equal; auto using pred_eqb_eq.
Qed.

Lemma slots_eqb_eq a b : slots_eqb a b = true → a = b.
Proof.
  destruct a as [s p d [x y]], b as [s' p' d' [x' y']]. unfold slots_eqb, optz_eqb. simpl. intros H. btrue. subst.
  f_equal. apply terms_eqb_eq; auto.
Qed.

Lemma engine_eqb_eq a b : engine_eqb a b = true → a = b.
Proof. unfold engine_eqb. intros H. btrue. auto. Qed.

Lemma tree_eqb_eq a : ∀ b, tree_eqb a b = true → a = b.
Proof.
  induction a as [n e cs mn mx|o t IH|o l IHl r IHr|n t IH|d t IH|sl k IHk t IHt]; intros [] H; simpl in H;
    try discriminate; unfold set_eqb, optz_eqb in *; btrue; subst;
    repeat match goal with H : engine_eqb _ _ = true |- _ => apply engine_eqb_eq in H end; subst;
    f_equal; auto using uop_eqb_eq, bop_eqb_eq, slots_eqb_eq.
Qed.
