(* _finish_apply with its simplification recursion denotes the applied operation (C05, C01). *)
From DR Require Import Model.WF Proofs.PredLaws Proofs.SliceLaws Proofs.SortLaws Proofs.SemLaws
  Proofs.Metadata Proofs.Simplify.
From Coq Require Import Lia.
Local Open Scope Z_scope.

Definition fa_spec env (o : uop) (t t' : tree) : Prop :=
  sem_tree env t' = sem_op o (sem_tree env t) ∧ wf_tree t' ∧
  columns t' = op_columns o (columns t) ∧ env_ok env t' ∧ engine_of t' = engine_of t.

Lemma finish_default_spec env o t t' :
  wf_tree t → env_ok env t → op_wf o (columns t) → finish_default o t = Ok t' → fa_spec env o t t'.
Proof.
  unfold finish_default, fa_spec. intros Hwf Henv Ho. destruct (op_supported _ o); [|discriminate].
  intros [= <-]. simpl. auto.
Qed.

Theorem finish_apply_sem env : ∀ t o t',
  wf_tree t → env_ok env t → (o = Ident ∨ op_wf o (columns t)) →
  finish_apply o t = Ok t' → fa_spec env o t t'.
Proof.
  induction t as [n e cs mn mx|up t IH|b l _ r _|n t _|d t _|sl sk _ t _]; intros o t' Hwf Henv Ho;
    cbn [finish_apply];
    (destruct (is_noop o (columns _)) eqn:En;
     [ intros [= <-];
       destruct (is_noop_sem o _ (sem_tree env _) En Ho (sem_tree_dom env _ Hwf Henv)) as [Hs Hc];
       unfold fa_spec; rewrite Hs, Hc; auto | ]);
    (destruct Ho as [->|Ho]; [simpl in En; discriminate|]);
    try (apply finish_default_spec; auto).
  (* unary node upstream: the simplification recursion *)
  destruct Hwf as [Hup Ht]. simpl in Henv.
  pose proof (simplify_sound o up (columns t) (sem_tree env t) Hup Ho) as Hs. unfold simplify_spec in Hs.
  destruct (simplify o up) as [| |m|err] eqn:Es.
  - apply finish_default_spec; simpl; auto.
  - intros [= <-]. destruct Hs as [Hs Hc]. unfold fa_spec. simpl. rewrite Hs, Hc. simpl; auto.
  - intros Hf. destruct Hs as (Hs & Hm & Hc).
    destruct (IH m t' Ht Henv (or_intror Hm) Hf) as (S1 & S2 & S3 & S4 & S5).
    unfold fa_spec. simpl. rewrite S1, Hs, S3, Hc. auto.
  - discriminate.
Qed.

(* apply without a preferred engine: _begin_apply then _finish_apply *)
Lemma begin_apply_wf o cs o' :
  (match o with Calc _ e => cols_e e ≠ ∅ | Slice a b => slice_ok a b | Ident => False | _ => True end) →
  begin_apply o cs = Ok o' →
  (o' = Ident ∧ ∀ l, rows_dom cs l → (match o with Sel p => cols_p p ⊆ cs | _ => True end) → sem_op o l = l ∧ op_columns o cs = cs)
  ∨ (o' = o ∧ op_wf o cs).
Proof.
  intros Hc. destruct o as [t e| |ps|p|a b|ts|]; simpl in *.
  - destruct (bool_decide (cols_e e ⊆ cs)) eqn:E1; simpl; [|discriminate].
    destruct (bool_decide (t ∈ cs)) eqn:E2; [discriminate|]. intros [= <-]. right.
    apply bool_decide_eq_true in E1. apply bool_decide_eq_false in E2. auto.
  - intros [= <-]. auto.
  - destruct (bool_decide (ps = cs)) eqn:E1.
    + intros [= <-]. left. split; auto. intros l Hl _. apply bool_decide_eq_true in E1. subst.
      split; auto. apply sem_proj_id; auto.
    + destruct (bool_decide (ps ⊆ cs)) eqn:E2; simpl; [|discriminate]. intros [= <-]. right.
      apply bool_decide_eq_true in E2. auto.
  - destruct (as_trivial p) as [[|]|] eqn:E.
    + intros [= <-]. left. split; auto. intros l Hl Hp. split; auto. eapply sem_sel_true; eauto.
    + destruct (bool_decide (cols_p p ⊆ cs)) eqn:E2; simpl; [|discriminate]. intros [= <-]. right.
      apply bool_decide_eq_true in E2. auto.
    + destruct (bool_decide (cols_p p ⊆ cs)) eqn:E2; simpl; [|discriminate]. intros [= <-]. right.
      apply bool_decide_eq_true in E2. auto.
  - destruct (slice_begin a b) eqn:E; intros [= <-]; auto.
    left. split; auto. intros l _ _. split; auto. apply window_noop; auto.
  - destruct ts as [|t0 ts].
    + intros [= <-]. left. split; auto. intros l _ _. split; auto. apply sem_sort_nil.
    + destruct (sort_cols_ok (t0 :: ts) cs) eqn:E; [|discriminate]. intros [= <-]. right. split; auto.
      unfold sort_cols_ok in E. rewrite forallb_forall in E.
      assert (G : ∀ l, (∀ x, In x l → bool_decide (cols_e x.1 ⊆ cs) = true) → op_required (Sort l) ⊆ cs).
      { induction l as [|[e asc] l IHl]; simpl; intros Hl; [set_solver|].
        pose proof (Hl (e, asc) (or_introl eq_refl)) as H1. apply bool_decide_eq_true in H1. simpl in H1.
        assert (H2 := IHl (fun x Hx => Hl x (or_intror Hx))). simpl in H2. set_solver. }
      exact (G (t0 :: ts) E).
  - tauto.
Qed.
