(* C04: soundness of the commutation reports — semantic commutation lemmas. *)
From DR Require Import Model.CommuteSpec Proofs.PredLaws Proofs.SliceLaws Proofs.SortLaws Proofs.SemLaws
  Proofs.Metadata Proofs.Simplify.
From Coq Require Import Lia.
Local Open Scope Z_scope.

(* ---- evaluation is insensitive to columns an expression does not read ---- *)
Lemma eval_insert_notin e t v (r : row) : t ∉ cols_e e → eval e (<[t:=v]> r) = eval e r.
Proof.
  induction e; simpl; intros H; auto.
  - rewrite lookup_insert_ne; auto. set_solver.
  - rewrite IHe; auto.
  - rewrite IHe1, IHe2 by set_solver. auto.
  - rewrite IHe1, IHe2 by set_solver. auto.
  - rewrite IHe1, IHe2 by set_solver. auto.
Qed.

Lemma eval_items_insert_notin items t v (r : row) :
  t ∉ cols_es items → eval_items items (<[t:=v]> r) = eval_items items r.
Proof.
  induction items as [|e items IH]; simpl; intros H; auto.
  rewrite eval_insert_notin by set_solver. rewrite IH by set_solver. reflexivity.
Qed.

Lemma evalp_insert_notin p t v (r : row) : t ∉ cols_p p → evalp p (<[t:=v]> r) = evalp p r.
Proof.
  induction p using pred_ind2; simpl; intros Hc; auto.
  - rewrite lookup_insert_ne; auto. set_solver.
  - rewrite !eval_insert_notin by set_solver. auto.
  - rewrite IHp; auto.
  - induction H as [|q ps Hq Hps IH]; auto. rewrite Hq by set_solver. rewrite IH by set_solver. auto.
  - induction H as [|q ps Hq Hps IH]; auto. rewrite Hq by set_solver. rewrite IH by set_solver. auto.
  - rewrite eval_insert_notin by set_solver. destruct c as [a b s|items]; simpl; auto.
    destruct (eval e r); simpl; auto. rewrite eval_items_insert_notin; auto. simpl in Hc. set_solver.
Qed.

Lemma ev_insert_notin e t v r : t ∉ cols_e e → ev e (<[t:=v]> r) = ev e r.
Proof. intros H. unfold ev. rewrite eval_insert_notin; auto. Qed.
Lemma holds_insert_notin p t v r : t ∉ cols_p p → holds p (<[t:=v]> r) = holds p r.
Proof. intros H. unfold holds. rewrite evalp_insert_notin; auto. Qed.
Lemma ev_restrict e cs r : cols_e e ⊆ cs → ev e (restrict cs r) = ev e r.
Proof. intros H. unfold ev. rewrite eval_restrict; auto. Qed.
Lemma holds_restrict p cs r : cols_p p ⊆ cs → holds p (restrict cs r) = holds p r.
Proof. intros H. unfold holds. rewrite evalp_restrict; auto. Qed.

Lemma sort_terms_cols ts e asc : In (e, asc) ts → cols_e e ⊆ op_required (Sort ts).
Proof.
  induction ts as [|[e' a'] ts IH]; simpl; [tauto|]. intros [[= -> ->]|H]; [set_solver|].
  specialize (IH H). simpl in IH. set_solver.
Qed.

Lemma leb_terms_ext ts (f : row → row) r1 r2 :
  (∀ e asc, In (e, asc) ts → ∀ r, ev e (f r) = ev e r) →
  leb_terms ts (f r1) (f r2) = leb_terms ts r1 r2.
Proof.
  induction ts as [|[e asc] ts IH]; simpl; intros H; auto.
  rewrite !(H e asc (or_introl eq_refl)). rewrite IH; auto. intros; eapply H; eauto.
Qed.

(* ---- generic list facts ---- *)
Lemma insert_map {A B} (leb : B → B → bool) (leb' : A → A → bool) (f : A → B) x l :
  (∀ a b, leb (f a) (f b) = leb' a b) → insert leb (f x) (map f l) = map f (insert leb' x l).
Proof.
  intros H. induction l as [|y l IH]; simpl; auto. rewrite H. destruct (leb' x y); simpl; auto. rewrite IH; auto.
Qed.
Lemma isort_map {A B} (leb : B → B → bool) (leb' : A → A → bool) (f : A → B) l :
  (∀ a b, leb (f a) (f b) = leb' a b) → isort leb (map f l) = map f (isort leb' l).
Proof.
  intros H. induction l as [|x l IH]; simpl; auto. rewrite IH. apply insert_map; auto.
Qed.

Section SortFilter.
  Context {A : Type} (leb : A → A → bool).
  Hypothesis leb_total : ∀ x y, leb x y = true ∨ leb y x = true.
  Hypothesis leb_trans : ∀ x y z, leb x y = true → leb y z = true → leb x z = true.

  Lemma insert_filter (p : A → bool) x l : sortedb leb l →
    List.filter p (insert leb x l) = if p x then insert leb x (List.filter p l) else List.filter p l.
  Proof.
    induction l as [|y l IH]; simpl; intros Hs.
    - destruct (p x); auto.
    - destruct Hs as [Hy Hl]. destruct (leb x y) eqn:E; simpl.
      + destruct (p x) eqn:Px; auto. destruct (p y) eqn:Py; simpl.
        * rewrite E. reflexivity.
        * (* y filtered out: x still goes before everything kept from l, all of which are >= y >= x *)
          assert (G : ∀ m, Forall (λ z, leb x z = true) m → insert leb x (List.filter p m) = x :: List.filter p m).
          { induction m as [|z m IHm]; simpl; auto. intros Hf. inversion Hf; subst.
            destruct (p z); simpl; auto. rewrite H1. reflexivity. }
          symmetry. apply G. eapply List.Forall_impl; [|exact Hy]. simpl. intros z Hz. eapply leb_trans; eauto.
      + rewrite IH by auto. destruct (p x) eqn:Px; destruct (p y) eqn:Py; simpl; auto. rewrite E. reflexivity.
  Qed.

  Lemma isort_filter (p : A → bool) l : List.filter p (isort leb l) = isort leb (List.filter p l).
  Proof.
    induction l as [|x l IH]; simpl; auto.
    rewrite insert_filter by (apply isort_sorted; auto). rewrite IH. destruct (p x); reflexivity.
  Qed.
End SortFilter.

(* ---- window (slice) vs. map ---- *)
Lemma sem_slice_map (f : row → row) a b l : sem_slice a b (map f l) = map f (sem_slice a b l).
Proof. unfold sem_slice. destruct b; rewrite ?skipn_map, ?firstn_map; rewrite ?skipn_map; reflexivity. Qed.

(* ---- deduplication ---- *)
Lemma sorted_first_occ (leb : row → row → bool) l : sortedb leb l → sortedb leb (first_occ row_eqb l).
Proof.
  induction l as [|x l IH]; simpl; auto. intros [Hx Hl]. split.
  - apply List.Forall_forall. intros y Hy. apply filter_In in Hy as [Hy _].
    apply (proj1 (first_occ_incl row_eqb row_eqb_spec l y)) in Hy. rewrite List.Forall_forall in Hx. auto.
  - apply sorted_filter. auto.
Qed.

Lemma dedup_sort_commute ts l : sem_dedup (sem_sort ts l) = sem_sort ts (sem_dedup l).
Proof.
  unfold sem_dedup, sem_sort.
  apply (stable_sorted_unique (leb_terms ts) (leb_terms_total ts)).
  - apply sorted_first_occ. apply isort_sorted; [apply leb_terms_total|apply leb_terms_trans].
  - apply isort_sorted; [apply leb_terms_total|apply leb_terms_trans].
  - intros z.
    rewrite <- (first_occ_filter row_eqb row_eqb_spec).
    rewrite !(isort_stable (leb_terms ts) (leb_terms_total ts) (leb_terms_trans ts)).
    apply (first_occ_filter row_eqb row_eqb_spec).
Qed.

Lemma calc1_inj t e (r1 r2 : row) : r1 !! t = None → r2 !! t = None → calc1 t e r1 = calc1 t e r2 → r1 = r2.
Proof.
  unfold calc1. intros H1 H2 H.
  rewrite <- (delete_insert r1 t (ev e r1)) by auto. rewrite <- (delete_insert r2 t (ev e r2)) by auto.
  rewrite H. reflexivity.
Qed.

Lemma dedup_calc_commute t e cs l : rows_dom cs l → t ∉ cs →
  sem_dedup (sem_calc t e l) = sem_calc t e (sem_dedup l).
Proof.
  intros Hd Ht. unfold sem_dedup, sem_calc.
  apply (first_occ_map_inj row_eqb row_eqb row_eqb_spec row_eqb_spec).
  intros x y Hx Hy. unfold rows_dom in Hd. rewrite Forall_forall in Hd.
  apply calc1_inj; apply not_elem_of_dom; [rewrite (Hd x)|rewrite (Hd y)]; auto; apply elem_of_list_In; auto.
Qed.

(* ---- calculation vs. the others ---- *)
Lemma calc_calc_commute t e t' e' cs l : rows_dom cs l → t ≠ t' → t ∉ cols_e e' → t' ∉ cols_e e →
  sem_calc t e (sem_calc t' e' l) = sem_calc t' e' (sem_calc t e l).
Proof.
  intros _ Hne H1 H2. unfold sem_calc. rewrite !map_map. apply map_ext. intros r. unfold calc1.
  rewrite !ev_insert_notin by auto. apply insert_commute. auto.
Qed.

Lemma sel_calc_commute p t e l : t ∉ cols_p p → sem_sel p (sem_calc t e l) = sem_calc t e (sem_sel p l).
Proof.
  intros H. unfold sem_sel, sem_calc. rewrite filter_map_comm. f_equal. apply filter_ext'.
  intros r. unfold calc1. apply holds_insert_notin. auto.
Qed.

Lemma sort_calc_commute ts t e l : t ∉ op_required (Sort ts) →
  sem_sort ts (sem_calc t e l) = sem_calc t e (sem_sort ts l).
Proof.
  intros H. unfold sem_sort, sem_calc. apply isort_map. intros a b.
  apply leb_terms_ext. intros e' asc Hin r. unfold calc1. apply ev_insert_notin.
  pose proof (sort_terms_cols ts e' asc Hin). set_solver.
Qed.

(* calculation moved upstream of a projection: Proj cs then Calc  =  Calc then Proj (cs ∪ {t}) *)
Lemma calc_proj_commute t e cs tc l : rows_dom tc l → cols_e e ⊆ cs → t ∉ tc →
  sem_calc t e (sem_proj cs l) = sem_proj (cs ∪ {[t]}) (sem_calc t e l).
Proof.
  intros Hd Hc Ht. unfold sem_calc, sem_proj. rewrite !map_map. apply map_ext_in. intros r Hr.
  unfold rows_dom in Hd. rewrite Forall_forall in Hd.
  assert (Hrt : r !! t = None) by (apply not_elem_of_dom; rewrite (Hd r); auto; apply elem_of_list_In; auto).
  unfold calc1. rewrite ev_restrict by auto.
  apply map_eq. intros k. rewrite restrict_lookup.
  destruct (decide (k = t)) as [->|Hk].
  - rewrite !lookup_insert. destruct (decide (t ∈ cs ∪ {[t]})); auto. set_solver.
  - rewrite !lookup_insert_ne by auto. rewrite restrict_lookup.
    destruct (decide (k ∈ cs)), (decide (k ∈ cs ∪ {[t]})); auto; set_solver.
Qed.

(* ---- projection vs. the others ---- *)
Lemma sel_proj_commute p cs l : cols_p p ⊆ cs → sem_sel p (sem_proj cs l) = sem_proj cs (sem_sel p l).
Proof.
  intros H. unfold sem_sel, sem_proj. rewrite filter_map_comm. f_equal. apply filter_ext'.
  intros r. apply holds_restrict. auto.
Qed.

Lemma sort_proj_commute ts cs l : op_required (Sort ts) ⊆ cs →
  sem_sort ts (sem_proj cs l) = sem_proj cs (sem_sort ts l).
Proof.
  intros H. unfold sem_sort, sem_proj. apply isort_map. intros a b.
  apply leb_terms_ext. intros e asc Hin r. apply ev_restrict.
  pose proof (sort_terms_cols ts e asc Hin). set_solver.
Qed.

(* Proj cs after Calc t (t ∈ cs), moved upstream as Proj (cs ∖ {t}) *)
Lemma proj_calc_commute t e cs tc l : rows_dom tc l → t ∈ cs → t ∉ tc → cols_e e ⊆ cs ∖ {[t]} →
  sem_calc t e (sem_proj (cs ∖ {[t]}) l) = sem_proj cs (sem_calc t e l).
Proof.
  intros Hd Hin Ht Hc. rewrite (calc_proj_commute t e (cs ∖ {[t]}) tc l) by auto.
  f_equal. apply set_eq. intros k. rewrite elem_of_union, elem_of_difference, elem_of_singleton.
  destruct (decide (k = t)); subst; tauto.
Qed.

(* partial moves: the original projection is re-applied at the end *)
Lemma proj_partial_sel p cs cs' l : cs ⊆ cs' → cols_p p ⊆ cs' →
  sem_proj cs (sem_sel p (sem_proj cs' l)) = sem_proj cs (sem_sel p l).
Proof. intros H1 H2. rewrite sel_proj_commute by auto. apply sem_proj_proj. auto. Qed.

Lemma proj_partial_sort ts cs cs' l : cs ⊆ cs' → op_required (Sort ts) ⊆ cs' →
  sem_proj cs (sem_sort ts (sem_proj cs' l)) = sem_proj cs (sem_sort ts l).
Proof. intros H1 H2. rewrite sort_proj_commute by auto. apply sem_proj_proj. auto. Qed.

Lemma proj_partial_calc t e cs cs' tc l : rows_dom tc l → t ∉ tc → t ∈ cs → cs ∖ {[t]} ⊆ cs' → cols_e e ⊆ cs' →
  sem_proj cs (sem_calc t e (sem_proj cs' l)) = sem_proj cs (sem_calc t e l).
Proof.
  intros Hd Ht Hin H1 H2. rewrite (calc_proj_commute t e cs' tc l) by auto. apply sem_proj_proj.
  intros k Hk. destruct (decide (k = t)) as [->|Hn].
  - apply elem_of_union_r, elem_of_singleton. reflexivity.
  - apply elem_of_union_l, H1, elem_of_difference. split; auto. rewrite elem_of_singleton. auto.
Qed.

(* ---- selection / sort vs. the rest ---- *)
Lemma sel_sel_commute p q l : sem_sel p (sem_sel q l) = sem_sel q (sem_sel p l).
Proof. unfold sem_sel. apply filter_comm. Qed.
Lemma sel_dedup_commute p l : sem_sel p (sem_dedup l) = sem_dedup (sem_sel p l).
Proof. unfold sem_sel, sem_dedup. symmetry. apply (first_occ_filter row_eqb row_eqb_spec). Qed.
Lemma sel_sort_commute p ts l : sem_sel p (sem_sort ts l) = sem_sort ts (sem_sel p l).
Proof. unfold sem_sel, sem_sort. apply isort_filter; [apply leb_terms_total|apply leb_terms_trans]. Qed.

(* ---- the statement of C04 ---- *)
Definition req_wf (env : lenv) (r : req) (cs : gset tag) : Prop :=
  match r with
  | RUn o => o = Ident ∨ op_wf o cs
  | RJoin j f _ => j_max j = Some (j_min j) ∧ pjoin_required j f ⊆ cs ∧ j_min j ⊆ columns f ∧
                   cols_p (j_pred j) ⊆ cs ∪ columns f ∧ wf_tree f ∧ env_ok env f
  end.

Definition commutator_sound (env : lenv) (new : req) (cur : uop) (tcols : gset tag) (c : commutator) (l : rows) : Prop :=
  match c_first c with
  | None => c_second c = cur ∧ c_done c = false
  | Some f =>
      req_wf env f tcols ∧
      (c_second c = Ident ∨ op_wf (c_second c) (req_columns f tcols)) ∧
      (let l2 := sem_op (c_second c) (sem_req env f l) in
       (if c_done c then l2 else sem_req env new l2) = sem_req env new (sem_op cur l))
  end.

Ltac cfail := unfold comm_fail, commutator_sound; simpl; auto.
Ltac bdec :=
  repeat match goal with
         | |- context [bool_decide ?P] => destruct (bool_decide P) eqn:?
         end;
  repeat match goal with
         | H : bool_decide _ = true |- _ => apply bool_decide_eq_true in H
         | H : bool_decide _ = false |- _ => apply bool_decide_eq_false in H
         end.

Ltac wf_side := first [ left; reflexivity | right; simpl in *; first [ assumption | tauto | (repeat split; auto; set_solver) ] ].
Tactic Notation "ap" constr(L) := first [ apply L | symmetry; apply L ].
Ltac csplit := unfold commutator_sound;
  cbn [c_first c_second c_done sem_req sem_op req_columns req_wf op_columns];
  refine (conj _ (conj _ _)); [wf_side | wf_side | ].

(* every unary pair, every parameter, every target.  (Projection past Deduplication is the one
   report of the pinned tree that is unsound — finding F2, pinned by the test-suite — and is
   excluded by the last hypothesis.) *)
Theorem commute_sound_unary env new cur tcols l :
  rows_dom tcols l → op_wf cur tcols → op_wf new (op_columns cur tcols) →
  ¬ (∃ cs, new = Proj cs ∧ cur = Dedup) →
  commutator_sound env (RUn new) cur tcols (commute (RUn new) cur tcols) l.
Proof.
  intros Hd Hcur Hnew Hf2.
  destruct new as [t e| |cs|p|a b|ts|]; cbn [commute].
  - (* Calculation *)
    destruct Hnew as (Hn1 & Hn2 & Hn3).
    bdec; simpl; try solve [cfail].
    destruct cur as [t' e'| |cs'|p'|a' b'|ts'|]; simpl in *; try (destruct Hcur; fail); csplit.
    + destruct Hcur as (C1 & C2 & C3). ap (calc_calc_commute t e t' e' tcols); auto; set_solver.
    + ap (dedup_calc_commute t e tcols); auto.
    + ap (calc_proj_commute t e cs' tcols); auto.
    + ap sel_calc_commute. set_solver.
    + unfold sem_calc. ap sem_slice_map.
    + ap sort_calc_commute. simpl. set_solver.
  - (* Deduplication *)
    bdec; simpl; try solve [cfail].
    destruct (is_count_dependent cur) eqn:Ecd; try solve [cfail].
    destruct cur as [t' e'| |cs'|p'|a' b'|ts'|]; simpl in *; try discriminate; try (destruct Hcur; fail); csplit.
    + destruct Hcur as (C1 & C2 & C3). ap (dedup_calc_commute t' e' tcols); auto.
    + reflexivity.
    + assert (cs' = tcols) by set_solver. subst.
      rewrite (sem_proj_id tcols l) by auto.
      apply sem_proj_id. apply (rows_dom_op Dedup tcols l I Hd).
    + ap sel_dedup_commute.
    + ap dedup_sort_commute.
  - (* Projection *)
    simpl in Hnew.
    destruct cur as [t' e'| |cs'|p'|a' b'|ts'|]; simpl in *; try (destruct Hcur; fail).
    + destruct Hcur as (C1 & C2 & C3).
      destruct (bool_decide (t' ∈ cs)) eqn:Et; simpl.
      * apply bool_decide_eq_true in Et.
        destruct (bool_decide (cols_e e' ⊆ cs ∖ {[t']})) eqn:Er; simpl.
        -- apply bool_decide_eq_true in Er. csplit. ap (proj_calc_commute t' e' cs tcols); auto.
        -- csplit. ap (proj_partial_calc t' e' cs (cs ∖ {[t']} ∪ cols_e e') tcols); auto; set_solver.
      * apply bool_decide_eq_false in Et. csplit. ap sem_proj_calc. auto.
    + exfalso. apply Hf2. eauto.
    + csplit. ap sem_proj_proj. auto.
    + destruct (bool_decide (cols_p p' ⊆ cs)) eqn:Er; simpl.
      * apply bool_decide_eq_true in Er. csplit. ap sel_proj_commute. auto.
      * csplit. ap proj_partial_sel; set_solver.
    + replace (bool_decide (∅ ⊆ cs)) with true by (symmetry; apply bool_decide_eq_true; set_solver).
      cbn [negb]. csplit. unfold sem_proj. ap sem_slice_map.
    + match goal with |- context [bool_decide ?P] => destruct (bool_decide P) eqn:Er end; simpl.
      * apply bool_decide_eq_true in Er. csplit. ap sort_proj_commute. auto.
      * csplit. ap proj_partial_sort; simpl; set_solver.
  - (* Selection *)
    simpl in Hnew. bdec; simpl; try solve [cfail].
    destruct (is_count_dependent cur) eqn:Ecd; try solve [cfail].
    destruct cur as [t' e'| |cs'|p'|a' b'|ts'|]; simpl in *; try discriminate; try (destruct Hcur; fail); csplit.
    + destruct Hcur as (C1 & C2 & C3). ap sel_calc_commute. set_solver.
    + ap sel_dedup_commute.
    + ap sel_proj_commute. auto.
    + ap sel_sel_commute.
    + ap sel_sort_commute.
  - (* Slice *)
    destruct cur as [t' e'| |cs'|p'|a' b'|ts'|]; simpl in *; try solve [cfail]; try (destruct Hcur; fail); csplit.
    + unfold sem_calc. ap sem_slice_map.
    + unfold sem_proj. ap sem_slice_map.
  - (* Sort *)
    bdec; simpl; try solve [cfail].
    destruct (is_order_dependent cur || is_reordering cur) eqn:Eod; try solve [cfail].
    destruct cur as [t' e'| |cs'|p'|a' b'|ts'|]; simpl in *; try discriminate; try (destruct Hcur; fail); csplit.
    + destruct Hcur as (C1 & C2 & C3). ap sort_calc_commute. simpl. set_solver.
    + ap dedup_sort_commute.
    + ap sort_proj_commute. auto.
    + ap sel_sort_commute.
  - destruct Hnew.
Qed.

Lemma commute_fail_shape new cur tcols :
  c_first (commute new cur tcols) = None →
  c_second (commute new cur tcols) = cur ∧ c_done (commute new cur tcols) = false.
Proof.
  destruct new as [[t e| |cs|p|a b|ts|]|j f lhs]; cbn [commute]; unfold comm_fail;
    repeat match goal with
           | |- context [if ?c then _ else _] => destruct c
           | |- context [match ?x with _ => _ end] => destruct x
           end; simpl; intros H; try discriminate; auto.
Qed.
