(* C07: the Processor evaluates multi-engine trees faithfully and only annotates payloads. *)
From DR Require Import Model.Proc Proofs.PredLaws Proofs.SliceLaws Proofs.SortLaws Proofs.SemLaws Proofs.Metadata.
From Coq Require Import Lia.
Local Open Scope Z_scope.

(* materialization names identify nodes within the processed tree *)
Definition names_unique (root : tree) : Prop :=
  ∀ n a b, In (n, a) (mats root) → In (n, b) (mats root) → a = b.

Section Sound.
  Variable env : lenv.
  Variable root : tree.
  Hypothesis Huniq : names_unique root.

  (* every payload in the store is the content of the materialization it belongs to *)
  Definition store_inv (st : gmap positive rows) : Prop :=
    ∀ n p, st !! n = Some p → ∀ t', In (n, Mat n t') (mats root) → p = sem_tree env t'.

  (* a hook is invoked with the content of its node, and never for a node that is statically
     empty or a join identity *)
  Definition hook_fine (h : hook) : Prop :=
    let '(node, c) := match h with HTransfer nd _ c => (nd, c) | HMaterialize nd c => (nd, c) end in
    c = sem_tree env node ∧ is_join_identity node = false ∧ max_rows node ≠ Some 0.

  Definition proc_spec (t : tree) (s : pstate) (out : rows * bool * pstate) : Prop :=
    let '(r, _, s') := out in
    r = sem_tree env t ∧ store_inv (ps_store s') ∧
    (∀ n p, ps_store s !! n = Some p → ps_store s' !! n = Some p) ∧
    (∀ n, is_Some (ps_store s' !! n) → is_Some (ps_store s !! n) ∨ In n (mat_names t)) ∧
    (∃ new, ps_log s' = ps_log s ++ new ∧ Forall hook_fine new).

  Theorem process_sound : ∀ t mat_as s,
    wf_tree t → env_ok env t → incl (mats t) (mats root) → store_inv (ps_store s) →
    proc_spec t s (process env t mat_as s).
  Proof.
    induction t as [n e cs mn mx|o t IH|b l IHl r IHr|n t IH|d t IH|sl sk _ t IH]; intros mat_as s Hwf Henv Hin Hinv;
      cbn [process].
    - (* leaf *)
      unfold proc_spec. repeat split; auto. exists []. rewrite app_nil_r. split; [reflexivity|constructor].
    - (* unary *)
      destruct Hwf as [Ho Ht]. specialize (IH None s Ht Henv Hin Hinv).
      destruct (process env t None s) as [[r p] s1]. destruct IH as (I1 & I2 & I3 & I4 & I5).
      unfold proc_spec. simpl. rewrite I1. auto.
    - (* binary *)
      assert (Hwl : wf_tree l ∧ wf_tree r) by (destruct b; simpl in Hwf; tauto).
      destruct Hwl as [Hl Hr]. destruct Henv as [El Er].
      assert (Hinl : incl (mats l) (mats root)) by (intros x Hx; apply Hin; simpl; apply in_app_iff; auto).
      assert (Hinr : incl (mats r) (mats root)) by (intros x Hx; apply Hin; simpl; apply in_app_iff; auto).
      specialize (IHl None s Hl El Hinl Hinv).
      destruct (process env l None s) as [[rl pl] s1]. destruct IHl as (L1 & L2 & L3 & L4 & [nl [L5 L6]]).
      specialize (IHr None s1 Hr Er Hinr L2).
      destruct (process env r None s1) as [[rr pr] s2]. destruct IHr as (R1 & R2 & R3 & R4 & [nr [R5 R6]]).
      assert (Frame : (∀ n p, ps_store s !! n = Some p → ps_store s2 !! n = Some p) ∧
                      (∀ n, is_Some (ps_store s2 !! n) → is_Some (ps_store s !! n) ∨ In n (mat_names (Bin b l r))) ∧
                      (∃ new, ps_log s2 = ps_log s ++ new ∧ Forall hook_fine new)).
      { split; [intros; apply R3, L3; auto|]. split.
        - intros n Hn. destruct (R4 n Hn) as [H|H]; [destruct (L4 n H) as [H'|H']|]; auto;
            right; simpl; apply in_app_iff; auto.
        - exists (nl ++ nr). rewrite R5, L5, app_assoc. split; [reflexivity|apply Forall_app; auto]. }
      destruct Frame as (F1 & F2 & F3).
      destruct b as [|p c].
      + destruct (bool_decide (max_rows l = Some 0)) eqn:Zl.
        * apply bool_decide_eq_true in Zl. unfold proc_spec. repeat split; auto.
          simpl. unfold sem_chain. rewrite (max_rows_zero_empty env l Hl El Zl). simpl. exact R1.
        * destruct (bool_decide (max_rows r = Some 0)) eqn:Zr.
          -- apply bool_decide_eq_true in Zr. unfold proc_spec. repeat split; auto.
             simpl. unfold sem_chain. rewrite (max_rows_zero_empty env r Hr Er Zr), app_nil_r. exact L1.
          -- unfold proc_spec. repeat split; auto. simpl. unfold sem_chain. congruence.
      + unfold proc_spec. repeat split; auto. simpl. congruence.
    - (* materialization *)
      simpl in Hwf, Henv.
      assert (Hself : In (n, Mat n t) (mats root)) by (apply Hin; simpl; auto).
      destruct (ps_store s !! n) as [p|] eqn:En.
      + unfold proc_spec. repeat split; auto.
        * simpl. apply (Hinv n p En t Hself).
        * exists []. rewrite app_nil_r. split; [reflexivity|constructor].
      + assert (Hint : incl (mats t) (mats root)) by (intros x Hx; apply Hin; simpl; auto).
        specialize (IH (Some n) s Hwf Henv Hint Hinv).
        destruct (process env t (Some n) s) as [[r persisted] s1]. destruct IH as (I1 & I2 & I3 & I4 & [nw [I5 I6]]).
        assert (Hpay : ∃ payload s2,
                  (if (persisted : bool) then (r, s1)
                   else if is_join_identity (Mat n t) then ([∅], s1)
                   else if bool_decide (max_rows (Mat n t) = Some 0) then ([], s1)
                   else (r, PS (ps_store s1) (ps_log s1 ++ [HMaterialize (Mat n t) r]))) = (payload, s2)
                  ∧ payload = sem_tree env t ∧ ps_store s2 = ps_store s1 ∧ ∃ nw2, ps_log s2 = ps_log s1 ++ nw2 ∧ Forall hook_fine nw2).
        { destruct persisted.
          - exists r, s1. repeat split; auto. exists []. rewrite app_nil_r. split; [reflexivity|constructor].
          - destruct (is_join_identity (Mat n t)) eqn:Ei.
            + exists [∅], s1. repeat split; auto.
              * symmetry. apply (join_identity_content env (Mat n t)); simpl; auto.
              * exists []. rewrite app_nil_r. split; [reflexivity|constructor].
            + destruct (bool_decide (max_rows (Mat n t) = Some 0)) eqn:Ez.
              * apply bool_decide_eq_true in Ez. exists [], s1. repeat split; auto.
                -- symmetry. apply (max_rows_zero_empty env (Mat n t)); simpl; auto.
                -- exists []. rewrite app_nil_r. split; [reflexivity|constructor].
              * apply bool_decide_eq_false in Ez. eexists _, _. split; [reflexivity|]. repeat split; auto.
                exists [HMaterialize (Mat n t) r]. split; [reflexivity|]. constructor; [|constructor].
                unfold hook_fine. simpl. repeat split; auto. }
        destruct Hpay as (payload & s2 & Epay & P1 & P2 & [nw2 [P3 P4]]). rewrite Epay.
        unfold proc_spec. cbn [ps_store ps_log]. repeat split.
        * simpl. exact P1.
        * intros m q Hm t'' Hin''. destruct (decide (m = n)) as [->|Hne].
          -- rewrite lookup_insert in Hm. injection Hm as <-.
             assert (Mat n t'' = Mat n t) by (eapply Huniq; eauto). congruence.
          -- rewrite lookup_insert_ne in Hm by auto. rewrite P2 in Hm. eapply I2; eauto.
        * intros m q Hm. destruct (decide (m = n)) as [->|Hne]; [congruence|].
          rewrite lookup_insert_ne by auto. rewrite P2. auto.
        * intros m Hm. destruct (decide (m = n)) as [->|Hne]; [right; simpl; auto|].
          rewrite lookup_insert_ne in Hm by auto. rewrite P2 in Hm. destruct (I4 m Hm); auto. right. simpl. auto.
        * exists (nw ++ nw2). rewrite P3, I5, app_assoc. split; [reflexivity|apply Forall_app; auto].
    - (* transfer *)
      destruct Hwf as [Hd Ht]. simpl in Henv.
      destruct (is_join_identity (Xfer d t)) eqn:Ei.
      { unfold proc_spec. repeat split; auto.
        - symmetry. apply (join_identity_content env (Xfer d t)); simpl; auto.
        - exists []. rewrite app_nil_r. split; [reflexivity|constructor]. }
      destruct (bool_decide (max_rows (Xfer d t) = Some 0)) eqn:Ez.
      { apply bool_decide_eq_true in Ez. unfold proc_spec. repeat split; auto.
        - symmetry. apply (max_rows_zero_empty env (Xfer d t)); simpl; auto.
        - exists []. rewrite app_nil_r. split; [reflexivity|constructor]. }
      assert (Hint : incl (mats t) (mats root)) by (intros x Hx; apply Hin; simpl; auto).
      specialize (IH None s Ht Henv Hint Hinv).
      destruct (process env t None s) as [[r p] s1]. destruct IH as (I1 & I2 & I3 & I4 & [nw [I5 I6]]).
      apply bool_decide_eq_false in Ez.
      unfold proc_spec. cbn [ps_store ps_log]. repeat split; auto.
      exists (nw ++ [HTransfer (Xfer d t) mat_as r]). rewrite I5, app_assoc. split; [reflexivity|].
      apply Forall_app. split; auto. constructor; [|constructor]. unfold hook_fine. simpl. repeat split; auto.
    - (* engine marker *)
      assert (Hint : incl (mats t) (mats root)) by (intros x Hx; apply Hin; simpl; apply in_app_iff; auto).
      specialize (IH mat_as s Hwf Henv Hint Hinv).
      destruct (process env t mat_as s) as [[r p] s1]. destruct IH as (I1 & I2 & I3 & I4 & I5).
      unfold proc_spec. repeat split; auto.
  Qed.
End Sound.

Fixpoint process_many (env : lenv) (t : tree) (k : nat) (s : pstate) : list rows * pstate :=
  match k with
  | O => ([], s)
  | S k' => let '(r, _, s1) := process env t None s in
            let '(rs, s2) := process_many env t k' s1 in (r :: rs, s2)
  end.

Theorem process_many_sound : ∀ env t, names_unique t → wf_tree t → env_ok env t →
  ∀ k s, store_inv env t (ps_store s) →
  Forall (fun r => r = sem_tree env t) (fst (process_many env t k s)).
Proof.
  intros env t Hu Hwf Henv. induction k as [|k IH]; intros s Hinv; cbn [process_many]; [constructor|].
  pose proof (process_sound env t Hu t None s Hwf Henv (incl_refl _) Hinv) as H.
  destruct (process env t None s) as [[r p] s1]. destruct H as (H1 & H2 & _).
  specialize (IH s1 H2). destruct (process_many env t k s1) as [rs s2]. simpl in *. constructor; auto.
Qed.
