(* The iteration engine's execute (model: Model/IterExec.v) yields exactly the denotation of the
   tree: dict-based deduplication = first-occurrence distinct under key-determinedness, the
   multi-pass sort = the single stable lexicographic sort, short-cuts keyed on row bounds sound. *)
From DR Require Import Model.IterExec Proofs.PredLaws Proofs.SliceLaws Proofs.SortLaws Proofs.SemLaws
  Proofs.Metadata.
From Coq Require Import Lia.
Local Open Scope Z_scope.

(* ---- multi-pass sort ---- *)
Lemma group_terms_concat ts : concat (group_terms ts) = ts.
Proof.
  induction ts as [|t ts IH]; simpl; auto.
  destruct (group_terms ts) as [|[|t' g] gs] eqn:E; simpl in *.
  - rewrite <- IH. reflexivity.
  - rewrite <- IH. reflexivity.
  - destruct (Bool.eqb t.2 t'.2); simpl; rewrite <- IH; reflexivity.
Qed.

Lemma multipass_groups gs (l : rows) :
  fold_left (fun acc g => isort (leb_terms g) acc) (rev gs) l = isort (leb_terms (concat gs)) l.
Proof.
  induction gs as [|g gs IH]; simpl.
  - symmetry. apply sem_sort_nil.
  - rewrite fold_left_app. simpl. rewrite IH.
    rewrite (isort_isort (leb_terms (concat gs)) (leb_terms g));
      [|apply leb_terms_total|apply leb_terms_total|apply leb_terms_trans|apply leb_terms_trans].
    apply isort_ext. intros a b. rewrite leb_terms_app. reflexivity.
Qed.

Theorem multipass_sort_eq ts l : multipass_sort ts l = sem_sort ts l.
Proof. unfold multipass_sort, sem_sort. rewrite multipass_groups, group_terms_concat. reflexivity. Qed.

(* ---- dict-based deduplication ---- *)
Definition kd_rows (key : list tag) (l : rows) : Prop :=
  forall r1 r2, In r1 l -> In r2 l -> keyof key r1 = keyof key r2 -> r1 = r2.

Lemma list_eqb_Z_spec a b : list_eqb Z.eqb a b = true <-> a = b.
Proof.
  revert b. induction a as [|x a IH]; intros [|y b]; simpl; split; try discriminate; auto.
  - intros H. apply andb_true_iff in H as [H1 H2]. apply Z.eqb_eq in H1. apply IH in H2. congruence.
  - intros [= -> ->]. rewrite Z.eqb_refl. apply IH. auto.
Qed.

Lemma dict_insert_absent k r d :
  (forall e, In e d -> fst e <> k) -> dict_insert k r d = d ++ [(k, r)].
Proof.
  induction d as [|[k' r'] d IH]; simpl; intros H; auto.
  destruct (list_eqb Z.eqb k k') eqn:E.
  - apply list_eqb_Z_spec in E. exfalso. apply (H (k', r')); auto.
  - rewrite IH; auto.
Qed.

Lemma dict_insert_present k r d :
  (exists e, In e d /\ fst e = k) -> (forall e, In e d -> fst e = k -> snd e = r) -> dict_insert k r d = d.
Proof.
  induction d as [|[k' r'] d IH]; simpl; intros [e [Hin Hk]] Hall.
  - destruct Hin.
  - destruct (list_eqb Z.eqb k k') eqn:E.
    + apply list_eqb_Z_spec in E. subst k'. pose proof (Hall (k, r') (or_introl eq_refl) eq_refl) as Hr. simpl in Hr. subst r'. reflexivity.
    + f_equal. apply IH.
      * destruct Hin as [<-|Hin]; [|eauto]. simpl in Hk. subst.
        assert (list_eqb Z.eqb k k = true) by (apply list_eqb_Z_spec; auto). congruence.
      * intros; apply Hall; auto.
Qed.

(* first_occ with an explicit "seen" accumulator *)
Fixpoint fo_acc (seen l : rows) : rows :=
  match l with
  | [] => []
  | x :: l' => if existsb (row_eqb x) seen then fo_acc seen l' else x :: fo_acc (x :: seen) l'
  end.

Lemma fo_acc_filter seen l :
  fo_acc seen l = List.filter (fun x => negb (existsb (row_eqb x) seen)) (first_occ row_eqb l).
Proof.
  revert seen. induction l as [|x l IH]; intros seen; simpl; auto.
  destruct (existsb (row_eqb x) seen) eqn:E; simpl.
  - rewrite IH. rewrite filter_filter. apply filter_ext_in. intros y Hy.
    unfold neqb. destruct (row_eqb y x) eqn:Ey; simpl; auto.
    apply row_eqb_spec in Ey. subst. rewrite E. reflexivity.
  - f_equal. rewrite IH. rewrite filter_filter. apply filter_ext'. intros y. simpl.
    unfold neqb. rewrite negb_orb. reflexivity.
Qed.

Lemma fo_acc_nil l : fo_acc [] l = first_occ row_eqb l.
Proof. rewrite fo_acc_filter. apply filter_true. auto. Qed.

Lemma existsb_row_In x seen : existsb (row_eqb x) seen = true <-> In x seen.
Proof.
  rewrite existsb_exists. split.
  - intros [y [Hy E]]. apply row_eqb_spec in E. subst. auto.
  - intros H. exists x. split; auto. apply row_eqb_spec. auto.
Qed.

Lemma dict_fold key l : forall d,
  (forall e, In e d -> fst e = keyof key (snd e)) ->
  kd_rows key (map snd d ++ l) ->
  fold_left (fun d r => dict_insert (keyof key r) r d) l d
  = d ++ map (fun r => (keyof key r, r)) (fo_acc (map snd d) l).
Proof.
  induction l as [|r l IH]; intros d Hd Hkd; simpl.
  - rewrite app_nil_r. reflexivity.
  - destruct (existsb (row_eqb r) (map snd d)) eqn:E.
    + apply existsb_row_In in E. rewrite dict_insert_present.
      * apply IH; auto. intros r1 r2 H1 H2. apply Hkd; rewrite in_app_iff in *; simpl; tauto.
      * apply in_map_iff in E as [e [He Hin]]. exists e. split; auto. rewrite (Hd e Hin), He. reflexivity.
      * intros e Hin Hk. apply Hkd.
        -- apply in_app_iff. left. apply in_map; auto.
        -- apply in_app_iff. right. left. auto.
        -- rewrite <- (Hd e Hin). auto.
    + rewrite dict_insert_absent.
      * rewrite IH.
        -- rewrite map_app. simpl. rewrite <- app_assoc. simpl.
           f_equal. f_equal.
           (* seen order is irrelevant *)
           assert (G : forall s1 s2 m, (forall x, In x s1 <-> In x s2) -> fo_acc s1 m = fo_acc s2 m).
           { clear. intros s1 s2 m. revert s1 s2. induction m as [|x m IHm]; intros s1 s2 H; simpl; auto.
             assert (existsb (row_eqb x) s1 = existsb (row_eqb x) s2).
             { apply eq_iff_eq_true. rewrite !existsb_row_In. auto. }
             rewrite H0. destruct (existsb (row_eqb x) s2); auto. f_equal. apply IHm.
             intros y. simpl. rewrite H. tauto. }
           f_equal. apply G. intros x. rewrite in_app_iff. simpl. tauto.
        -- intros e He. apply in_app_iff in He as [He|[<-|[]]]; auto.
        -- rewrite map_app. simpl. intros r1 r2 H1 H2. apply Hkd; rewrite !in_app_iff in *; simpl in *; tauto.
      * intros e Hin Hk. assert (snd e = r).
        { apply Hkd.
          - apply in_app_iff. left. apply in_map; auto.
          - apply in_app_iff. right. left. auto.
          - rewrite <- (Hd e Hin). auto. }
        assert (In r (map snd d)) by (subst; apply in_map; auto).
        apply existsb_row_In in H0. congruence.
Qed.

Theorem dict_dedup_eq key l : kd_rows key l -> dict_dedup key l = sem_dedup l.
Proof.
  intros H. unfold dict_dedup, sem_dedup. rewrite (dict_fold key l []); simpl; auto.
  - rewrite map_map. simpl. rewrite map_id. apply fo_acc_nil.
  - intros e [].
Qed.

(* ---- execute ---- *)
Fixpoint iter_ok (t : tree) : Prop :=
  match t with
  | Leaf _ _ _ _ _ => True
  | Un _ t' | Mat _ t' | SelM _ _ t' => iter_ok t'
  | Bin Chain l r => iter_ok l ∧ iter_ok r
  | Bin (Join _ _) _ _ => False
  | Xfer _ t' => ekind_of (engine_of t') = KIter ∧ iter_ok t'
  end.

Fixpoint kd_tree (env : lenv) (t : tree) : Prop :=
  match t with
  | Leaf _ _ _ _ _ => True
  | Un o t' => (match o with Dedup => kd_rows (key_columns (columns t')) (sem_tree env t') | _ => True end) ∧ kd_tree env t'
  | Bin _ l r => kd_tree env l ∧ kd_tree env r
  | Mat _ t' | Xfer _ t' | SelM _ _ t' => kd_tree env t'
  end.

Definition exec_body (env : lenv) (t : tree) : result rows :=
  match t with
  | Leaf n _ _ _ _ => Ok (env n)
  | Un o t' => do l <- iter_exec env t'; Ok (exec_op o (columns t) l)
  | Bin Chain l r => do a <- iter_exec env l; do b <- iter_exec env r; Ok (a ++ b)
  | Bin (Join _ _) _ _ => Err EngineError
  | Mat _ t' => iter_exec env t'
  | Xfer _ t' => match ekind_of (engine_of t') with KIter => iter_exec env t' | KSql => Err EngineError end
  | SelM _ _ t' => iter_exec env t'
  end.

Lemma iter_exec_unfold env t :
  iter_exec env t = if bool_decide (max_rows t = Some 0) then Ok []
                    else if is_join_identity t then Ok [∅] else exec_body env t.
Proof. destruct t; reflexivity. Qed.

Lemma exec_op_sem o cs (l : rows) :
  (match o with Dedup => kd_rows (key_columns cs) l | _ => True end) ->
  exec_op o cs l = sem_op o l.
Proof.
  destruct o; simpl; auto.
  - intros H. apply dict_dedup_eq; auto.
  - intros _. apply multipass_sort_eq.
Qed.

Theorem iter_exec_sound env t :
  wf_tree t -> env_ok env t -> iter_ok t -> kd_tree env t -> iter_exec env t = Ok (sem_tree env t).
Proof.
  induction t as [n e cs mn mx|o t IH|b l IHl r IHr|n t IH|d t IH|sl sk _ t IH]; intros Hwf Henv Hit Hkd;
    rewrite iter_exec_unfold;
    (destruct (bool_decide _) eqn:Ez;
     [apply bool_decide_eq_true in Ez; rewrite (max_rows_zero_empty env _ Hwf Henv Ez); reflexivity|]);
    (destruct (is_join_identity _) eqn:Ej;
     [rewrite (join_identity_content env _ Hwf Henv Ej); reflexivity|]);
    cbn [exec_body sem_tree].
  - reflexivity.
  - destruct Hwf as [Ho Ht]. destruct Hkd as [Hk1 Hk2]. simpl in Henv, Hit.
    rewrite (IH Ht Henv Hit Hk2). cbn [rbind]. f_equal. apply exec_op_sem.
    destruct o; auto.
  - destruct b as [|p c].
    + destruct Hwf as (Hc & _ & Hl & Hr). destruct Henv as [El Er]. destruct Hit as [Il Ir]. destruct Hkd as [Kl Kr].
      rewrite (IHl Hl El Il Kl), (IHr Hr Er Ir Kr). reflexivity.
    + destruct Hit.
  - apply IH; auto.
  - destruct Hwf as [Hd Ht]. destruct Hit as [Hk Hit]. rewrite Hk. apply IH; auto.
  - apply IH; auto.
Qed.
