(* Laws of the specification semantics on rows with known domains. *)
From DR Require Import Model.WF Proofs.PredLaws Proofs.SliceLaws Proofs.SortLaws.
From Coq Require Import Lia.
Local Open Scope Z_scope.

Definition rows_dom (cs : gset tag) (l : rows) : Prop := Forall (fun r : row => dom r = cs) l.

Definition rows_domb (cs : gset tag) (l : rows) : bool := forallb (fun r : row => bool_decide (dom r = cs)) l.
Lemma rows_domb_spec cs l : rows_domb cs l = true -> rows_dom cs l.
Proof.
  unfold rows_domb, rows_dom. rewrite forallb_forall. intros H. apply Forall_forall. intros r Hr.
  apply elem_of_list_In in Hr. apply H in Hr. apply bool_decide_eq_true in Hr. exact Hr.
Qed.

Lemma restrict_id cs (r : row) : dom r ⊆ cs → restrict cs r = r.
Proof.
  intros H. apply map_eq. intros t. rewrite restrict_lookup.
  destruct (decide (t ∈ cs)); auto. symmetry. apply not_elem_of_dom. set_solver.
Qed.

Lemma restrict_restrict cs cs' (r : row) : cs ⊆ cs' → restrict cs (restrict cs' r) = restrict cs r.
Proof.
  intros H. apply map_eq. intros t. rewrite !restrict_lookup.
  destruct (decide (t ∈ cs)); auto. destruct (decide (t ∈ cs')); auto. set_solver.
Qed.

Lemma restrict_insert_notin cs t v (r : row) : t ∉ cs → restrict cs (<[t:=v]> r) = restrict cs r.
Proof.
  intros H. apply map_eq. intros k. rewrite !restrict_lookup.
  destruct (decide (k ∈ cs)); auto. rewrite lookup_insert_ne; auto. congruence.
Qed.

Lemma sem_proj_id cs l : rows_dom cs l → sem_proj cs l = l.
Proof.
  unfold sem_proj. induction 1 as [|r l Hr Hl IH]; simpl; auto.
  rewrite restrict_id by set_solver. rewrite IH. reflexivity.
Qed.

Lemma sem_proj_proj cs cs' l : cs ⊆ cs' → sem_proj cs (sem_proj cs' l) = sem_proj cs l.
Proof.
  intros H. unfold sem_proj. rewrite map_map. apply map_ext. intros r. apply restrict_restrict; auto.
Qed.

Lemma sem_proj_calc cs t e l : t ∉ cs → sem_proj cs (sem_calc t e l) = sem_proj cs l.
Proof.
  intros H. unfold sem_proj, sem_calc. rewrite map_map. apply map_ext. intros r.
  unfold calc1. apply restrict_insert_notin; auto.
Qed.

Lemma sem_sel_sel q p l : sem_sel p (sem_sel q l) = sem_sel (PAnd [q; p]) l.
Proof.
  unfold sem_sel. rewrite filter_filter. apply filter_ext'. intros r. symmetry. apply holds_and2.
Qed.

Lemma sem_sel_ext p q l : (forall r, holds p r = holds q r) → sem_sel p l = sem_sel q l.
Proof. intros H. unfold sem_sel. apply filter_ext'. auto. Qed.

Lemma sem_sel_true p cs l : as_trivial p = Some true → cols_p p ⊆ cs → rows_dom cs l → sem_sel p l = l.
Proof.
  intros Ht Hc Hl. unfold sem_sel. apply filter_true. intros r Hr.
  apply as_trivial_true_holds; auto. unfold rows_dom in Hl. rewrite Forall_forall in Hl. rewrite (Hl r); auto.
  apply elem_of_list_In; auto.
Qed.

(* domains of results *)
Lemma rows_dom_op o cs l : op_wf o cs → rows_dom cs l → rows_dom (op_columns o cs) (sem_op o l).
Proof.
  unfold rows_dom. intros Hwf Hl. destruct o; simpl in *.
  - unfold sem_calc. apply Forall_map. eapply Forall_impl; [exact Hl|]. simpl. intros r Hr.
    unfold calc1. rewrite dom_insert_L. set_solver.
  - unfold sem_dedup. apply Forall_forall. intros r Hr. rewrite Forall_forall in Hl. apply Hl.
    apply elem_of_list_In. apply elem_of_list_In in Hr. apply (proj1 (first_occ_incl row_eqb row_eqb_spec l r)) in Hr. auto.
  - unfold sem_proj. apply Forall_map. eapply Forall_impl; [exact Hl|]. simpl. intros r Hr.
    rewrite dom_restrict. set_solver.
  - unfold sem_sel. apply Forall_forall. intros r Hr. rewrite Forall_forall in Hl. apply Hl.
    apply elem_of_list_In. apply elem_of_list_In in Hr. apply filter_In in Hr. tauto.
  - unfold sem_slice. destruct stop.
    + apply Forall_forall. intros r Hr. rewrite Forall_forall in Hl. apply Hl.
      apply elem_of_list_In. apply elem_of_list_In in Hr.
      apply (In_skipn (Z.to_nat start)), (In_firstn (Z.to_nat (z - start))); auto.
    + apply Forall_forall. intros r Hr. rewrite Forall_forall in Hl. apply Hl.
      apply elem_of_list_In. apply elem_of_list_In in Hr. eapply In_skipn; eauto.
  - unfold sem_sort. apply Forall_forall. intros r Hr. rewrite Forall_forall in Hl. apply Hl.
    apply elem_of_list_In. apply elem_of_list_In in Hr.
    apply (Permutation.Permutation_in r (Permutation.Permutation_sym (isort_perm (leb_terms terms) l))). auto.
  - auto.
Qed.
