(* C15: locked nodes are never rewritten. *)
From DR Require Import Model.Reach.
Local Open Scope Z_scope.

Lemma xfer_simplify_content env d : ∀ t t1,
  xfer_simplify d t = Some t1 → sem_tree env t1 = sem_tree env t ∧ columns t1 = columns t.
Proof.
  induction t as [n e cs mn mx|up t IH|b l _ r _|n t _|d' t IH|sl sk _ t IH]; simpl; intros t1 H; try discriminate.
  - destruct (engine_eqb d (engine_of t)); [injection H as <-; auto|]. apply IH; auto.
  - apply IH; auto.
Qed.

Lemma materialize_locked_noop n t : is_locked t = true → materialize_generic n t = t.
Proof. destruct t; simpl; try discriminate; reflexivity. Qed.

Lemma backtrack_locked r t pref : is_locked t = true → backtrack r t pref = Ok (t, false).
Proof. destruct t; simpl; try discriminate; reflexivity. Qed.

Lemma finish_apply_locked o t t' : is_locked t = true → finish_apply o t = Ok t' → t' = t ∨ t' = Un o t.
Proof.
  destruct t; simpl; try discriminate; intros _;
    (destruct (is_noop o _); [intros [= <-]; auto|]);
    unfold finish_default; destruct (op_supported _ o); intros H; try discriminate; injection H as <-; auto.
Qed.
