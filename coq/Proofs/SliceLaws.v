(* Laws of Slice: proved about the definitions GENERATED from _operations/_slice.py. *)
From DR Require Import Model.Ops.
From Coq Require Import Lia.
Local Open Scope Z_scope.

Definition slice_valid (a : Z) (b : option Z) : Prop := slice_post_init a b = Ok tt.

Lemma slice_valid_iff a b :
  slice_valid a b <-> 0 <= a /\ match b with Some e => a <= e | None => True end.
Proof.
  unfold slice_valid, slice_post_init.
  destruct (Z.ltb_spec a 0); [split; [discriminate|lia]|].
  destruct b as [e|]; [|split; auto].
  destruct (Z.ltb_spec e a); split; try discriminate; try lia; auto.
Qed.

Lemma mk_slice_ok a b r : mk_slice a b = Ok r -> r = (a, b) /\ slice_valid a b.
Proof.
  unfold mk_slice, slice_valid. destruct (slice_post_init a b) as [[]|] eqn:E; [|discriminate].
  intros [= <-]. auto.
Qed.

Lemma slice_then_valid a1 b1 a2 b2 a3 b3 :
  slice_then a1 b1 a2 b2 = Ok (a3, b3) -> slice_valid a3 b3.
Proof.
  unfold slice_then. intros H.
  destruct b1 as [e1|], b2 as [e2|]; cbv beta iota zeta in H;
    repeat match type of H with
           | context [if ?c then _ else _] => destruct c eqn:?
           end;
    apply mk_slice_ok in H; destruct H as [E V3]; injection E as -> ->; exact V3.
Qed.

Section Sem.
  Context {A : Type}.
  Definition window (a : Z) (b : option Z) (l : list A) : list A :=
    let l' := skipn (Z.to_nat a) l in
    match b with None => l' | Some e => firstn (Z.to_nat (e - a)) l' end.

  (* slice-after-slice merge: whenever Slice.then returns, the merged slice denotes the composition *)
  Theorem slice_then_sem a1 b1 a2 b2 a3 b3 (l : list A) :
    slice_valid a1 b1 -> slice_valid a2 b2 ->
    slice_then a1 b1 a2 b2 = Ok (a3, b3) ->
    window a3 b3 l = window a2 b2 (window a1 b1 l).
  Proof.
    rewrite !slice_valid_iff. intros [V1 V1'] [V2 V2'] H.
    unfold slice_then in H.
    (* robust against harmless rewrites of the source: split on every test the generated
       definition makes, whatever they are, then compare canonical windows arithmetically *)
    destruct b1 as [e1|], b2 as [e2|]; cbv beta iota zeta in H;
      repeat match type of H with
             | context [if ?c then _ else _] => destruct c eqn:?
             end;
      apply mk_slice_ok in H; destruct H as [E V3]; injection E as -> ->;
      apply slice_valid_iff in V3; destruct V3 as [V3 V3'];
      rewrite ?Z.ltb_lt, ?Z.ltb_ge, ?Z.leb_le, ?Z.leb_gt in *;
      unfold window;
      rewrite ?window_compose, ?skipn_firstn_comm, ?skipn_skipn;
      first [ reflexivity | f_equal; [lia | f_equal; lia] | f_equal; lia ].
  Qed.

  Lemma window_noop (l : list A) a b : slice_begin a b = BIdentity -> window a b l = l.
  Proof.
    unfold slice_begin. destruct (Z.eqb_spec a 0); simpl; [|discriminate].
    destruct b; [discriminate|]. intros _. subst. reflexivity.
  Qed.

  Lemma slice_finish_begin a b : slice_finish a b = FTarget <-> slice_begin a b = BIdentity.
  Proof.
    unfold slice_finish, slice_begin. destruct (negb (a =? 0)); [split; discriminate|].
    destruct b; split; auto; discriminate.
  Qed.

  Lemma window_length (l : list A) a b :
    slice_valid a b ->
    Z.of_nat (length (window a b l)) =
      match b with
      | Some e => Z.max (Z.min e (Z.of_nat (length l)) - a) 0
      | None => Z.max (Z.of_nat (length l) - a) 0
      end.
  Proof.
    rewrite slice_valid_iff. intros [V V']. unfold window. destruct b as [e|].
    - rewrite firstn_length, skipn_length. lia.
    - rewrite skipn_length. lia.
  Qed.
End Sem.

(* When does Slice.then raise?  Exactly when the second window starts beyond the end of the
   first one.  (Finding F1 on the pinned tree; the statement below is what the CURRENT source
   satisfies — it is re-proved against the regenerated definition on every run.) *)
Definition then_total_statement : Prop :=
  forall a1 b1 a2 b2, slice_valid a1 b1 -> slice_valid a2 b2 ->
    exists r, slice_then a1 b1 a2 b2 = Ok r.

(* Merging never raises for two individually valid slices. *)
Theorem slice_then_total a1 b1 a2 b2 :
  slice_valid a1 b1 -> slice_valid a2 b2 -> exists r, slice_then a1 b1 a2 b2 = Ok r.
Proof.
  rewrite !slice_valid_iff. intros [V1 V1'] [V2 V2'].
  assert (G : forall a b, 0 <= a /\ match b with Some e => a <= e | None => True end ->
                          exists r, mk_slice a b = Ok r).
  { intros a b H. apply slice_valid_iff in H. unfold mk_slice. unfold slice_valid in H. rewrite H. eauto. }
  unfold slice_then. destruct b1 as [e1|], b2 as [e2|]; cbv beta iota zeta;
    repeat match goal with
           | |- context [if ?c then _ else _] => destruct c eqn:?
           end; apply G; rewrite ?Z.ltb_lt, ?Z.ltb_ge, ?Z.leb_le, ?Z.leb_gt in *; lia.
Qed.
