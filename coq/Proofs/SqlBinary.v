(* C02(a) / C17: the SQL engine's binary rules (_append_binary_to_select: chains, joins with marker
   stripping, join-identity elision) and Engine.conform preserve the denotation — list equality. *)
From DR Require Import Model.Reach Proofs.PredLaws Proofs.SliceLaws Proofs.SortLaws Proofs.SemLaws
  Proofs.Metadata Proofs.Simplify Proofs.FinishApply Proofs.CommuteLaws Proofs.SqlRules Proofs.BuildLaws
  Proofs.BacktrackLaws.
From Coq Require Import Lia.
Local Open Scope Z_scope.

(* ---- projections commute with joins when hidden columns do not collide ---- *)
Lemma restrict_merge cl cr (l r : row) :
  cr ⊆ dom r → (dom r ∖ cr) ∩ cl = ∅ →
  restrict (cl ∪ cr) (merge_rows l r) = merge_rows (restrict cl l) (restrict cr r).
Proof.
  intros Hr Hh. unfold merge_rows. apply map_eq. intros k.
  rewrite restrict_lookup. rewrite !lookup_union, !restrict_lookup.
  destruct (decide (k ∈ cl ∪ cr)) as [Hk|Hk].
  - destruct (decide (k ∈ cr)) as [Hkr|Hkr].
    + assert (Hin : is_Some (r !! k)) by (apply elem_of_dom; set_solver).
      destruct Hin as [v Hv]. rewrite Hv. destruct (decide (k ∈ cl)); destruct (l !! k); reflexivity.
    + assert (Hkl : k ∈ cl) by set_solver. destruct (decide (k ∈ cl)); [|contradiction].
      assert (Hnd : r !! k = None). { apply not_elem_of_dom. intros Hd. set_solver. }
      rewrite Hnd. reflexivity.
  - destruct (decide (k ∈ cr)); [set_solver|]. destruct (decide (k ∈ cl)); [set_solver|]. reflexivity.
Qed.

Lemma agree_on_restrict c cl cr (l r : row) : c ⊆ cl → c ⊆ cr →
  agree_on c (restrict cl l) (restrict cr r) = agree_on c l r.
Proof.
  intros H1 H2. unfold agree_on. rewrite !restrict_restrict by auto. reflexivity.
Qed.

Lemma omap_map_comm {A B C D} (f : A → option B) (f' : C → option D) (g : A → C) (h : B → D) (l : list A) :
  (∀ x, x ∈ l → f' (g x) = h <$> f x) → omap f' (map g l) = map h (omap f l).
Proof.
  induction l as [|x l IH]; intros H; [reflexivity|].
  assert (IH' : omap f' (map g l) = map h (omap f l)) by (apply IH; intros y Hy; apply H; apply elem_of_list_further; auto).
  pose proof (H x (elem_of_list_here _ _)) as Hx.
  cbn [map omap list_omap]. rewrite Hx. destruct (f x); cbn [fmap option_fmap option_map map]; rewrite IH'; reflexivity.
Qed.

Lemma sem_join_proj c p cl cr dl dr (L R : rows) :
  rows_dom dl L → rows_dom dr R → cl ⊆ dl → cr ⊆ dr → c ⊆ cl → c ⊆ cr → cols_p p ⊆ cl ∪ cr →
  (dr ∖ cr) ∩ cl = ∅ →
  sem_join c p (sem_proj cl L) (sem_proj cr R) = sem_proj (cl ∪ cr) (sem_join c p L R).
Proof.
  intros HL HR Hl Hr Hc1 Hc2 Hp Hh. unfold sem_join, sem_proj, rows_dom in *.
  rewrite Forall_forall in HL, HR.
  induction L as [|l L IH]; simpl; auto.
  rewrite map_app. rewrite <- IH by (intros x Hx; apply HL; apply elem_of_list_further; auto). f_equal.
  apply omap_map_comm. intros r Hr'.
  assert (Hdr : dom r = dr) by (apply HR; auto).
  rewrite agree_on_restrict by auto.
  assert (Em : merge_rows (restrict cl l) (restrict cr r) = restrict (cl ∪ cr) (merge_rows l r)).
  { symmetry. apply restrict_merge; rewrite Hdr; auto. }
  rewrite Em. rewrite holds_restrict by auto.
  destruct (agree_on c l r && holds p (merge_rows l r)); reflexivity.
Qed.

(* joins with the join identity *)
Lemma omap_filter {A} (P : A → bool) (g : A → A) (l : list A) :
  (∀ x, g x = x) → omap (fun x => if P x then Some (g x) else None) l = List.filter P l.
Proof.
  intros Hg. induction l as [|x l IH]; [reflexivity|].
  cbn [omap list_omap List.filter]. rewrite Hg. destruct (P x); rewrite IH; reflexivity.
Qed.

Lemma agree_on_empty (l r : row) : agree_on ∅ l r = true.
Proof.
  unfold agree_on. apply bool_decide_eq_true. apply map_eq. intros k. rewrite !restrict_lookup.
  destruct (decide (k ∈ (∅ : gset tag))); [set_solver|reflexivity].
Qed.

Lemma omap_ext' {A B} (f g : A → option B) (l : list A) : (∀ x, f x = g x) → omap f l = omap g l.
Proof.
  intros H. induction l as [|x l IH]; [reflexivity|]. cbn [omap list_omap]. rewrite H, IH. reflexivity.
Qed.

Lemma merge_empty_l (r : row) : merge_rows ∅ r = r.
Proof. unfold merge_rows. apply (right_id_L ∅ (∪)). Qed.
Lemma merge_empty_r (l : row) : merge_rows l ∅ = l.
Proof. unfold merge_rows. apply (left_id_L ∅ (∪)). Qed.

Lemma sem_join_identity_l p (R : rows) : sem_join ∅ p [∅] R = sem_sel p R.
Proof.
  unfold sem_join, sem_sel. cbn [flat_map]. rewrite app_nil_r.
  rewrite <- (omap_filter (holds p) (fun r => r)) by auto.
  apply omap_ext'. intros r. rewrite agree_on_empty, merge_empty_l. reflexivity.
Qed.

Lemma sem_join_identity_r p (L : rows) : sem_join ∅ p L [∅] = sem_sel p L.
Proof.
  unfold sem_join, sem_sel. rewrite <- (omap_filter (holds p) (fun r => r)) by auto.
  induction L as [|l L IH]; [reflexivity|].
  cbn [flat_map]. rewrite IH. cbn [omap list_omap]. rewrite agree_on_empty, merge_empty_r. cbn [andb].
  destruct (holds p l); reflexivity.
Qed.

(* ---- Select.strip ---- *)
Lemma has_sort_false sl : has_sort sl = false → s_sort sl = [].
Proof. unfold has_sort. destruct (s_sort sl); [auto|discriminate]. Qed.

(* what the join rule knows about an operand it uses in place of the conformed relation `orig` *)
Definition operand_of (env : lenv) (orig x : tree) (hidden : bool) : Prop :=
  wf_tree x ∧ env_ok env x ∧ engine_of x = engine_of orig ∧ columns orig ⊆ columns x ∧
  sem_tree env orig = sem_proj (columns orig) (sem_tree env x) ∧ (hidden = false → columns x = columns orig) ∧
  chains_good env x.

(* a good marker, seen as (part of) a skip target *)
Lemma good_all_chains env s : good_all env s → chains_good env s.
Proof.
  intros H. pose proof (good_all_sel env s H) as X. destruct s; try (destruct X; fail). exact H.
Qed.

Lemma operand_self env s : good_all env s → operand_of env s s false.
Proof.
  intros H. destruct (good_all_wf env s H) as [W E]. unfold operand_of. repeat split; auto.
  - symmetry. apply sem_proj_id. apply sem_tree_dom; auto.
  - apply good_all_chains; exact H.
Qed.

Lemma strip_sound env s n hp : good_all env s → strip s = (n, hp) → operand_of env s n hp.
Proof.
  intros Hg Hs. unfold strip in Hs.
  destruct (negb (has_dedup (sel_slots s)) && negb (has_sort (sel_slots s)) && negb (has_slice (sel_slots s))
            && negb (sel_compound s)) eqn:Ec.
  2: { injection Hs as <- <-. apply operand_self; auto. }
  injection Hs as <- <-.
  apply andb_true_iff in Ec as [Ec E4]. apply andb_true_iff in Ec as [Ec E3]. apply andb_true_iff in Ec as [E1 E2].
  apply negb_true_iff in E1, E2, E3.
  pose proof (good_all_sel env s Hg) as Hsel.
  destruct s as [| | | | |sl skip tgt]; try (destruct Hsel; fail).
  pose proof (proj2 (proj1 (good_all_unfold env sl skip tgt) Hg)) as Hch.
  destruct Hsel as (G1 & G2 & G3 & G4 & (W1 & W2 & W3) & G6 & G7 & G8).
  cbn [sel_slots sel_skip] in *.
  assert (Hsem : sem_tree env tgt = match s_proj sl with Some cs => sem_proj cs (sem_tree env skip) | None => sem_tree env skip end).
  { rewrite G8. unfold slots_sem. rewrite (has_sort_false sl E2), sem_sort_nil.
    unfold has_dedup in E1. rewrite E1. unfold has_slice in E3. rewrite (sem_slice_trivial _ _ E3). reflexivity. }
  pose proof (sem_tree_dom env skip G1 G3) as Hd.
  unfold operand_of. cbn [columns sem_tree engine_of]. rewrite G6. unfold slots_cols, has_proj.
  destruct (s_proj sl) as [cs|]; (split; [exact G1|split; [exact G3|split; [symmetry; exact G7|]]]).
  - split; [exact W2|]. split; [rewrite Hsem; reflexivity|]. split; [discriminate|exact Hch].
  - split; [reflexivity|]. split; [rewrite Hsem; symmetry; apply sem_proj_id; exact Hd|]. split; [reflexivity|exact Hch].
Qed.

Lemma rows_dom_join env p c l r :
  wf_tree (Bin (Join p c) l r) → env_ok env (Bin (Join p c) l r) →
  rows_dom (columns l ∪ columns r) (sem_join c p (sem_tree env l) (sem_tree env r)).
Proof. intros W E. exact (sem_tree_dom env (Bin (Join p c) l r) W E). Qed.

(* ---- chains ---- *)
Lemma append_chain_sound env cf l r s :
  good_all env l → good_all env r → columns l = columns r → engine_of l = engine_of r →
  append_binary_sel_with cf BChain l r = Ok s →
  good_all env s ∧ sem_tree env s = sem_tree env l ++ sem_tree env r ∧ columns s = columns l ∧ engine_of s = engine_of l.
Proof.
  intros Gl Gr Hc He H. unfold append_binary_sel_with in H.
  destruct (order_loss l); [discriminate|]. destruct (order_loss r); [discriminate|].
  destruct (good_all_wf env l Gl) as [Wl El]. destruct (good_all_wf env r Gr) as [Wr Er].
  assert (Cl : chains_good env l) by (apply good_all_chains; exact Gl).
  assert (Cr : chains_good env r) by (apply good_all_chains; exact Gr).
  assert (Hl : ∃ l', (if has_slice (sel_slots l) then select_of l else Ok l) = Ok l' ∧ good_all env l' ∧
                     sem_tree env l' = sem_tree env l ∧ columns l' = columns l ∧ engine_of l' = engine_of l).
  { destruct (has_slice (sel_slots l)).
    - destruct (select_of l) as [l'|] eqn:E; cbn [rbind] in H; [|discriminate].
      exists l'. split; [reflexivity|]. apply (select_of_good env l l'); auto.
    - exists l. auto. }
  destruct Hl as (l' & El' & L1 & L2 & L3 & L4). rewrite El' in H. cbn [rbind] in H.
  assert (Hr : ∃ r', (if has_slice (sel_slots r) then select_of r else Ok r) = Ok r' ∧ good_all env r' ∧
                     sem_tree env r' = sem_tree env r ∧ columns r' = columns r ∧ engine_of r' = engine_of r).
  { destruct (has_slice (sel_slots r)).
    - destruct (select_of r) as [r'|] eqn:E; cbn [rbind] in H; [|discriminate].
      exists r'. split; [reflexivity|]. apply (select_of_good env r r'); auto.
    - exists r. auto. }
  destruct Hr as (r' & Er' & R1 & R2 & R3 & R4). rewrite Er' in H. cbn [rbind] in H.
  destruct (good_all_wf env l' L1) as [Wl' El2]. destruct (good_all_wf env r' R1) as [Wr' Er2].
  assert (Wc : wf_tree (Bin Chain l' r')) by (simpl; repeat split; auto; congruence).
  assert (Ec : env_ok env (Bin Chain l' r')) by (simpl; auto).
  destruct (select_of_good env (Bin Chain l' r') s Wc Ec (conj L1 R1) H) as (S1 & S2 & S3 & S4).
  split; [exact S1|]. split; [rewrite S2; simpl; unfold sem_chain; congruence|]. split; [rewrite S3; simpl; exact L3|].
  rewrite S4. simpl. exact L4.
Qed.

(* ---- joins (operands with at least one column: the join-identity elision is not covered here) ---- *)
Lemma not_identity_of_columns t : columns t ≠ ∅ → is_join_identity t = false.
Proof.
  intros H. unfold is_join_identity. destruct (bool_decide (columns t = ∅)) eqn:E; [|reflexivity].
  apply bool_decide_eq_true in E. contradiction.
Qed.

Lemma append_join_sound env cf p c l r s :
  good_all env l → good_all env r → engine_of l = engine_of r →
  c ⊆ columns l → c ⊆ columns r → cols_p p ⊆ columns l ∪ columns r →
  columns l ≠ ∅ → columns r ≠ ∅ →
  append_binary_sel_with cf (BJoin p c) l r = Ok s →
  good_all env s ∧ sem_tree env s = sem_join c p (sem_tree env l) (sem_tree env r) ∧
  columns s = columns l ∪ columns r ∧ engine_of s = engine_of l.
Proof.
  intros Gl Gr He Hcl Hcr Hp Nl Nr H. unfold append_binary_sel_with in H.
  destruct (order_loss l); [discriminate|]. destruct (order_loss r); [discriminate|].
  destruct (strip l) as [nl0 lp0] eqn:Sl. destruct (strip r) as [nr0 rp0] eqn:Sr.
  pose proof (strip_sound env l nl0 lp0 Gl Sl) as Ol0. pose proof (strip_sound env r nr0 rp0 Gr Sr) as Or0.
  (* the operands actually joined, after the hidden-column guards *)
  set (gl := bool_decide ((columns nl0 ∖ columns l) ∩ columns nr0 = ∅)) in *.
  assert (Hl : ∃ nl lp, (if gl then (nl0, lp0) else (l, false)) = (nl, lp) ∧ operand_of env l nl lp).
  { destruct gl; eexists _, _; (split; [reflexivity|]); auto. apply operand_self; auto. }
  destruct Hl as (nl & lp & El & Ol). rewrite El in H.
  set (gr := bool_decide ((columns nr0 ∖ columns r) ∩ columns nl = ∅)) in *.
  assert (Hr : ∃ nr rp, (if gr then (nr0, rp0) else (r, false)) = (nr, rp) ∧ operand_of env r nr rp ∧
                        (columns nr ∖ columns r) ∩ columns nl = ∅).
  { destruct gr eqn:Eg; eexists _, _; (split; [reflexivity|]).
    - split; auto. apply bool_decide_eq_true in Eg. exact Eg.
    - split; [apply operand_self; auto|]. set_solver. }
  destruct Hr as (nr & rp & Er & Or & Hh). rewrite Er in H.
  destruct Ol as (L1 & L2 & L3 & L4 & L5 & L6 & L7). destruct Or as (R1 & R2 & R3 & R4 & R5 & R6 & R7).
  (* Join._finish_apply: no identity operand *)
  unfold join_finish in H.
  rewrite (not_identity_of_columns nl) in H by set_solver.
  rewrite (not_identity_of_columns nr) in H by set_solver.
  destruct (negb (engine_eqb (engine_of nl) (engine_of nr))); [discriminate|].
  destruct (negb (supp_p (ekind_of (engine_of nl)) p)); [discriminate|]. cbn [rbind] in H.
  set (j := Bin (Join p c) nl nr) in *.
  assert (Wj : wf_tree j) by (simpl; repeat split; auto; [set_solver|set_solver|set_solver|congruence]).
  assert (Ej : env_ok env j) by (simpl; auto).
  set (X := if lp || rp then Some (columns l ∪ columns r) else None) in *.
  assert (Hsw : slots_wf (with_proj no_slots X) (columns j)).
  { unfold slots_wf, with_proj, no_slots. cbn [s_sort s_proj s_slice op_required fst snd columns]. split; [set_solver|].
    split; [|unfold slice_ok; lia]. unfold X. destruct (lp || rp); [set_solver|exact I]. }
  destruct (apply_skip_good env (with_proj no_slots X) j s Wj Ej Hsw H) as (G & Es & Ek).
  destruct s as [| | | | |sl k tg]; try (destruct G; fail). simpl in Es, Ek. subst sl k.
  split; [apply good_all_of_sel; [exact G|simpl; split; [exact L7|exact R7]]|].
  destruct G as (_ & _ & _ & _ & _ & Gc & Ge & Gs).
  pose proof (sem_tree_dom env j Wj Ej) as Dj. unfold j in Dj. cbn [columns sem_tree sem_bop] in Dj.
  assert (Hjoin : sem_join c p (sem_tree env l) (sem_tree env r) =
                  sem_proj (columns l ∪ columns r) (sem_join c p (sem_tree env nl) (sem_tree env nr))).
  { rewrite L5, R5.
    apply (sem_join_proj c p (columns l) (columns r) (columns nl) (columns nr)); auto;
      [apply sem_tree_dom; auto|apply sem_tree_dom; auto|set_solver]. }
  cbn [sem_tree columns engine_of]. rewrite Gs, Gc, Ge. unfold slots_sem, slots_cols, with_proj, no_slots.
  cbn [s_sort s_proj s_dedup s_slice fst snd]. rewrite sem_sort_nil.
  change (sem_slice 0 None ?x) with x. cbn [sem_tree sem_bop columns engine_of j].
  unfold X. destruct (lp || rp) eqn:Ehp.
  - split; [symmetry; exact Hjoin|]. split; [reflexivity|congruence].
  - apply orb_false_iff in Ehp as [-> ->]. rewrite (L6 eq_refl), (R6 eq_refl) in *.
    split; [|split; [reflexivity|congruence]].
    rewrite Hjoin. symmetry. apply sem_proj_id. exact Dj.
Qed.

(* ---- Engine.conform on raw trees (assembled without the engine's help) ---- *)
Fixpoint raw_ok (env : lenv) (t : tree) : Prop :=
  match t with
  | SelM _ _ _ => good_all env t
  | Un o t' => op_wf o (columns t') ∧ raw_ok env t'
  | Bin Chain l r => columns l = columns r ∧ engine_of l = engine_of r ∧ raw_ok env l ∧ raw_ok env r
  | Bin (Join p c) l r =>
      c ⊆ columns l ∧ c ⊆ columns r ∧ cols_p p ⊆ columns l ∪ columns r ∧ engine_of l = engine_of r ∧
      columns l ≠ ∅ ∧ columns r ≠ ∅ ∧ raw_ok env l ∧ raw_ok env r
  | Leaf _ _ _ _ _ | Xfer _ _ | Mat _ _ => wf_tree t ∧ env_ok env t
  end.

Definition cf_at (n : nat) : tree → result tree :=
  match n with O => (fun _ => Err ModelGap) | S n' => conform_n n' end.

Lemma conform_n_unfold n t :
  conform_n n t =
  match t with
  | SelM _ _ _ => Ok t
  | Un o t' => do c <- conform_n n t'; append_unary_sel o c
  | Bin Chain l r => do cl <- conform_n n l; do cr <- conform_n n r; append_binary_sel_with (cf_at n) BChain cl cr
  | Bin (Join p c) l r => do cl <- conform_n n l; do cr <- conform_n n r; append_binary_sel_with (cf_at n) (BJoin p c) cl cr
  | Xfer _ _ | Mat _ _ | Leaf _ _ _ _ _ => select_of t
  end.
Proof. destruct n; destruct t as [| |[|]| | |]; reflexivity. Qed.

Theorem conform_n_sound env n : ∀ t s,
  raw_ok env t → conform_n n t = Ok s →
  good_all env s ∧ sem_tree env s = sem_tree env t ∧ columns s = columns t ∧ engine_of s = engine_of t.
Proof.
  induction t as [nm e cs mn mx|o t IH|b l IHl r IHr|nm t _|d t _|sl sk _ t _]; intros s Hok H;
    rewrite conform_n_unfold in H.
  - destruct Hok as [W E]. apply (select_of_good env _ s W E I H).
  - destruct Hok as [Ho Ht].
    destruct (conform_n n t) as [c|] eqn:Ec; cbn [rbind] in H; [|discriminate].
    destruct (IH c Ht eq_refl) as (C1 & C2 & C3 & C4).
    assert (Ho' : op_wf o (columns c)) by (rewrite C3; exact Ho).
    destruct (append_unary_sel_sound env c o s C1 Ho' H) as (S1 & S2 & S3 & S4).
    split; [exact S1|]. split; [rewrite S2, C2; reflexivity|]. split; [rewrite S3, C3; reflexivity|simpl; congruence].
  - destruct b as [|p c].
    + destruct Hok as (Hc & He & Hl & Hr).
      destruct (conform_n n l) as [cl|] eqn:El; cbn [rbind] in H; [|discriminate].
      destruct (conform_n n r) as [cr|] eqn:Er; cbn [rbind] in H; [|discriminate].
      destruct (IHl cl Hl eq_refl) as (L1 & L2 & L3 & L4). destruct (IHr cr Hr eq_refl) as (R1 & R2 & R3 & R4).
      destruct (append_chain_sound env (cf_at n) cl cr s L1 R1) as (S1 & S2 & S3 & S4); auto; try congruence.
      split; [exact S1|]. split; [rewrite S2, L2, R2; reflexivity|]. split; [rewrite S3, L3; reflexivity|simpl; congruence].
    + destruct Hok as (H1 & H2 & H3 & He & N1 & N2 & Hl & Hr).
      destruct (conform_n n l) as [cl|] eqn:El; cbn [rbind] in H; [|discriminate].
      destruct (conform_n n r) as [cr|] eqn:Er; cbn [rbind] in H; [|discriminate].
      destruct (IHl cl Hl eq_refl) as (L1 & L2 & L3 & L4). destruct (IHr cr Hr eq_refl) as (R1 & R2 & R3 & R4).
      destruct (append_join_sound env (cf_at n) p c cl cr s L1 R1) as (S1 & S2 & S3 & S4); auto; try congruence;
        try (rewrite ?L3, ?R3; auto).
      split; [exact S1|]. split; [rewrite S2, L2, R2; reflexivity|]. split; [rewrite S3, L3, R3; reflexivity|simpl; congruence].
  - destruct Hok as [W E]. apply (select_of_good env _ s W E I H).
  - destruct Hok as [W E]. apply (select_of_good env _ s W E I H).
  - injection H as <-. auto.
Qed.

Corollary conform_sound env t s :
  raw_ok env t → conform t = Ok s →
  good_all env s ∧ sem_tree env s = sem_tree env t ∧ columns s = columns t ∧ engine_of s = engine_of t.
Proof. apply conform_n_sound. Qed.
