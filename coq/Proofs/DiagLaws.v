(* C16: Diagnostics never dooms a non-empty relation; with a truthful executor it is exact. *)
From DR Require Import Model.Diag Proofs.PredLaws Proofs.SliceLaws Proofs.SortLaws Proofs.SemLaws Proofs.Metadata.
From Coq Require Import Lia.
Local Open Scope Z_scope.

Definition truthful (env : lenv) (ex : tree -> bool) : Prop :=
  ∀ t, ex t = match sem_tree env t with [] => false | _ => true end.

Definition exec_ok (env : lenv) (exec : option (tree -> bool)) : Prop :=
  match exec with Some ex => truthful env ex | None => True end.

Lemma sem_op_nil o : sem_op o [] = [].
Proof.
  destruct o; try reflexivity. simpl. unfold sem_slice. rewrite skipn_nil. destruct stop; rewrite ?firstn_nil; reflexivity.
Qed.

Lemma sem_join_nil_l c p R : sem_join c p [] R = [].
Proof. reflexivity. Qed.
Lemma sem_join_nil_r c p L : sem_join c p L [] = [].
Proof. unfold sem_join. induction L; simpl; auto. Qed.

Lemma sem_join_false c p cs cs' L R :
  rows_dom cs L → rows_dom cs' R → cols_p p ⊆ cs ∪ cs' → as_trivial p = Some false → sem_join c p L R = [].
Proof.
  intros HL HR Hc Ht. unfold sem_join, rows_dom in *. rewrite Forall_forall in HL, HR.
  induction L as [|l L IH]; simpl; auto.
  rewrite IH by (intros x Hx; apply HL; right; auto). rewrite app_nil_r.
  assert (Hl : dom l = cs) by (apply HL; left).
  clear IH. induction R as [|r R IHR]; simpl; auto.
  assert (Hr : dom r = cs') by (apply HR; left).
  assert (E : holds p (merge_rows l r) = false).
  { unfold holds. rewrite (as_trivial_sound_total p false (merge_rows l r)); auto.
    unfold merge_rows. rewrite dom_union_L, Hl, Hr. set_solver. }
  rewrite E, andb_false_r. apply IHR. intros x Hx. apply HR. right; auto.
Qed.

Lemma window_zero_limit {A} a b (l : list A) : slice_limit a b = Some 0 → window a b l = [].
Proof.
  unfold slice_limit, window. destruct b as [e|]; [|discriminate]. intros [= H]. rewrite H. reflexivity.
Qed.

Lemma sem_sel_false p cs l : as_trivial p = Some false → cols_p p ⊆ cs → rows_dom cs l → sem_sel p l = [].
Proof.
  intros Ht Hc Hd. unfold sem_sel, rows_dom in *. rewrite Forall_forall in Hd.
  induction l as [|r l IH]; simpl; auto.
  assert (E : holds p r = false).
  { unfold holds. rewrite (as_trivial_sound_total p false r); auto. rewrite (Hd r); auto. left. }
  rewrite E. apply IH. intros x Hx. apply Hd. right; auto.
Qed.

(* operations that cannot empty a relation *)
Lemma empty_invariant_nonempty o l : is_empty_invariant o = true → sem_op o l = [] → l = [].
Proof.
  destruct o; simpl; try discriminate; intros _ H.
  - unfold sem_calc in H. destruct l; [auto|discriminate].
  - unfold sem_dedup in H. destruct l; [auto|discriminate].
  - unfold sem_proj in H. destruct l; [auto|discriminate].
  - unfold sem_sort in H. destruct l as [|x l]; auto.
    assert (length (isort (leb_terms terms) (x :: l)) = length (x :: l)) by apply isort_length.
    rewrite H in H0. discriminate.
  - auto.
Qed.

Theorem diag_correct env lmsgs exec : ∀ t,
  wf_tree t → env_ok env t → exec_ok env exec →
  let '(d, m) := diag_run lmsgs exec t in
  (d = true → sem_tree env t = []) ∧
  (d = true → (1 <= m)%nat) ∧
  (match exec with Some _ => sem_tree env t = [] → d = true | None => True end).
Proof.
  induction t as [n e cs mn mx|o t IH|b l IHl r IHr|n t IH|d t IH|sl sk _ t IH]; intros Hwf Henv Hex.
  - (* leaf *)
    cbn [diag_run]. destruct (bool_decide (mx = Some 0)) eqn:Ez.
    + apply bool_decide_eq_true in Ez. subst. simpl in Henv. destruct Henv as (_ & _ & H).
      split; [|split]; try (intros; apply Nat.le_max_r).
      * intros _. simpl. destruct (env n); simpl in *; [auto|lia].
      * destruct exec; auto.
    + destruct exec as [ex|]; [|repeat split; try discriminate; auto].
      simpl in Hex. rewrite (Hex (Leaf n e cs mn mx)). simpl.
      destruct (env n) eqn:En; simpl; repeat split; try discriminate; auto; intros; try apply Nat.le_max_r; try lia; try discriminate.
  - (* unary *)
    destruct Hwf as [Ho Ht]. simpl in Henv. specialize (IH Ht Henv Hex).
    cbn [diag_run]. destruct (diag_run lmsgs exec t) as [d m]. destruct IH as (I1 & I2 & I3).
    pose proof (sem_tree_dom env t Ht Henv) as Hdom.
    destruct d.
    + simpl. rewrite (I1 eq_refl). repeat split; auto using sem_op_nil. destruct exec; auto.
    + assert (Hstat : match o with
                      | Slice a b => bool_decide (slice_limit a b = Some 0)
                      | Sel p => bool_decide (as_trivial p = Some false)
                      | _ => false end = true → sem_tree env (Un o t) = []).
      { destruct o; try discriminate; intros Hb; apply bool_decide_eq_true in Hb; simpl.
        - eapply sem_sel_false; eauto.
        - apply window_zero_limit; auto. }
      match goal with |- context [if ?c then _ else _] => destruct c eqn:Es end.
      * repeat split; auto; try (intros; lia). destruct exec; auto.
      * destruct exec as [ex|]; [|repeat split; try discriminate; auto].
        simpl in Hex. rewrite (Hex (Un o t)).
        destruct (is_empty_invariant o) eqn:Ei; simpl.
        -- repeat split; try discriminate. intros He. simpl in He.
           apply (empty_invariant_nonempty o _ Ei) in He. apply I3 in He. discriminate.
        -- cbn [sem_tree] in *. destruct (sem_op o (sem_tree env t)) eqn:Es'; simpl; repeat split; try discriminate; auto; intros; try apply Nat.le_max_r; try lia; try discriminate.
  - (* binary *)
    cbn [diag_run].
    destruct b as [|p c].
    + destruct Hwf as (Hc & _ & Hl & Hr). destruct Henv as [El Er].
      specialize (IHl Hl El Hex). specialize (IHr Hr Er Hex).
      destruct (diag_run lmsgs exec l) as [dl ml], (diag_run lmsgs exec r) as [dr' mr].
      destruct IHl as (L1 & L2 & L3), IHr as (R1 & R2 & R3). simpl.
      repeat split.
      * intros H. apply andb_true_iff in H as [-> ->]. unfold sem_chain. rewrite L1, R1; auto.
      * intros H. apply andb_true_iff in H as [-> ->]. specialize (L2 eq_refl). lia.
      * destruct exec; auto. unfold sem_chain. intros H. apply app_eq_nil in H as [H1 H2].
        rewrite L3, R3; auto.
    + destruct Hwf as (Hcl & Hcr & Hp & _ & Hl & Hr). destruct Henv as [El Er].
      specialize (IHl Hl El Hex). specialize (IHr Hr Er Hex).
      destruct (diag_run lmsgs exec l) as [dl ml], (diag_run lmsgs exec r) as [dr' mr].
      destruct IHl as (L1 & L2 & L3), IHr as (R1 & R2 & R3).
      destruct (dl || dr') eqn:Ed.
      * repeat split; [| |destruct exec; auto].
        -- intros _. simpl. apply orb_true_iff in Ed as [->| ->].
           ++ rewrite L1; auto.
           ++ rewrite R1; auto. apply sem_join_nil_r.
        -- intros _. apply orb_true_iff in Ed as [->| ->]; [specialize (L2 eq_refl)|specialize (R2 eq_refl)]; lia.
      * destruct (bool_decide (as_trivial p = Some false)) eqn:Et.
        -- apply bool_decide_eq_true in Et. repeat split; try (intros; lia); [|destruct exec; auto].
           intros _. simpl. eapply sem_join_false; eauto using sem_tree_dom.
        -- destruct exec as [ex|]; [|repeat split; try discriminate; auto].
           simpl in Hex. rewrite (Hex (Bin (Join p c) l r)).
           cbn [sem_tree sem_bop] in *. destruct (sem_join c p (sem_tree env l) (sem_tree env r)) eqn:Es'; simpl; repeat split; try discriminate; auto; intros; try apply Nat.le_max_r; try lia; try discriminate.
  - cbn [diag_run]. apply IH; auto.
  - cbn [diag_run]. destruct Hwf. apply IH; auto.
  - cbn [diag_run]. apply IH; auto.
Qed.
