(* C03 / C01, program level: programs over SEVERAL iteration engines, with transfers and with every
   combination of preferred-engine options on their unary calls, build trees that denote the
   specification of the program (as lists) — backtracking, transfers and simplifications included. *)
From DR Require Import Model.Reach Proofs.PredLaws Proofs.SliceLaws Proofs.SortLaws Proofs.SemLaws
  Proofs.Metadata Proofs.Simplify Proofs.FinishApply Proofs.CommuteLaws Proofs.SqlRules Proofs.BuildLaws
  Proofs.ReachLaws Proofs.EqbLaws Proofs.BacktrackLaws Proofs.SqlBinary Proofs.SqlBuild.
From Coq Require Import Lia.
Local Open Scope Z_scope.

(* every engine in the tree is an iteration engine *)
Fixpoint all_iter (t : tree) : Prop :=
  match t with
  | Leaf _ e _ _ _ => ekind_of e = KIter
  | Un _ t' | Mat _ t' | SelM _ _ t' => all_iter t'
  | Bin _ l r => all_iter l ∧ all_iter r
  | Xfer d t' => ekind_of d = KIter ∧ all_iter t'
  end.

Lemma all_iter_engine t : all_iter t → ekind_of (engine_of t) = KIter.
Proof. induction t as [| | b l IHl r _| | |]; simpl; try tauto; destruct b; tauto. Qed.

Lemma all_iter_spine env t : all_iter t → spine_ok env t.
Proof.
  induction t as [| o t IH | | |d t IH|]; simpl; auto.
  intros [_ H]. rewrite (all_iter_engine t H). auto.
Qed.

Lemma all_iter_tree_ok env t : all_iter t → tree_ok env t.
Proof. intros H. unfold tree_ok. rewrite (all_iter_engine t H). exact I. Qed.

Lemma finish_apply_all_iter : ∀ t o t', all_iter t → finish_apply o t = Ok t' → all_iter t'.
Proof.
  induction t as [| up t IH | | | |]; intros o t' Hi H; cbn [finish_apply] in H;
    (destruct (is_noop o _); [injection H as <-; exact Hi|]);
    try (unfold finish_default in H; destruct (op_supported _ _); [injection H as <-; exact Hi|discriminate]).
  destruct (simplify o up); try (unfold finish_default in H; destruct (op_supported _ _); [injection H as <-; exact Hi|discriminate]).
  - injection H as <-. exact Hi.
  - eapply IH; eauto.
  - discriminate.
Qed.

Lemma append_unary_e_all_iter o t t' : all_iter t → append_unary_e (RUn o) t = Ok t' → all_iter t'.
Proof.
  intros Hi H. unfold append_unary_e in H. rewrite (all_iter_engine t Hi) in H. eapply finish_apply_all_iter; eauto.
Qed.

Lemma apply_simple_all_iter o t t' : all_iter t → apply_simple o t = Ok t' → all_iter t'.
Proof.
  intros Hi H. unfold apply_simple in H. destruct (begin_apply o (columns t)); cbn [rbind] in H; [|discriminate].
  eapply finish_apply_all_iter; eauto.
Qed.

Lemma backtrack_all_iter : ∀ t o pref t' d, all_iter t → backtrack (RUn o) t pref = Ok (t', d) → all_iter t'.
Proof.
  induction t as [n e cs mn mx|cur t1 IH|b l _ r _|n t1 _|dd t1 IH|sl sk _ t1 _];
    intros o pref t' d Hi H; cbn [backtrack is_locked] in H.
  - injection H as <- _. exact Hi.
  - set (c := commute (RUn o) cur (columns t1)) in *.
    destruct (c_first c) as [f|] eqn:Ef; [|injection H as <- _; exact Hi].
    destruct (commute_first_un o cur (columns t1) f Ef) as (o1 & -> & _).
    destruct (backtrack (RUn o1) t1 pref) as [[up d1]|] eqn:Eb; cbn [rbind] in H; [|discriminate].
    pose proof (IH o1 pref up d1 Hi Eb) as Hup.
    match type of H with rbind ?x _ = _ => destruct x as [res|] eqn:Er end; cbn [rbind] in H; [|discriminate].
    injection H as <- _.
    destruct d1.
    + destruct (tree_eqb up t1 && uop_eqb (c_second c) cur); [injection Er as <-; exact Hi|].
      eapply finish_apply_all_iter; eauto.
    + destruct (tree_eqb up t1); [injection Er as <-; exact Hi|].
      destruct (apply_simple cur up) as [r0|e0] eqn:Ea.
      * injection Er as <-. eapply apply_simple_all_iter; eauto.
      * destruct e0; try discriminate. injection Er as <-. exact Hi.
  - injection H as <- _. exact Hi.
  - injection H as <- _. exact Hi.
  - destruct Hi as [Hd Hi].
    destruct (engine_eqb (engine_of t1) pref).
    + rewrite apply_same_engine in H.
      destruct (begin_apply o (columns t1)) as [o'|]; cbn [rbind] in H; [|discriminate].
      destruct (append_unary_e (RUn o') t1) as [a|] eqn:Ea; cbn [rbind] in H; [|discriminate].
      injection H as <- _. simpl. split; auto. eapply append_unary_e_all_iter; eauto.
    + rewrite (all_iter_engine t1 Hi) in H.
      destruct (backtrack (RUn o) t1 pref) as [[up d1]|] eqn:Eb; cbn [rbind] in H; [|discriminate].
      injection H as <- _. simpl. split; auto. eapply IH; eauto.
  - discriminate.
Qed.

Lemma xfer_simplify_all_iter dest : ∀ t x, xfer_simplify dest t = Some x → all_iter t → all_iter x.
Proof.
  induction t as [| | | |d t IH|sl sk _ t IH]; simpl; intros x H Hi; try discriminate.
  - destruct Hi as [_ Hi]. destruct (engine_eqb dest (engine_of t)); [injection H as <-; exact Hi|]. apply IH; auto.
  - apply IH; auto.
Qed.

Lemma transfer_e_all_iter dest t t' : ekind_of dest = KIter → all_iter t → transfer_e dest t = Ok t' → all_iter t'.
Proof.
  intros Hk Hi H. unfold transfer_e in H. rewrite Hk in H. unfold transfer_generic in H.
  destruct (engine_eqb (engine_of t) dest); [injection H as <-; exact Hi|].
  set (t1 := default t (xfer_simplify dest t)) in *.
  assert (H1 : all_iter t1).
  { unfold t1. destruct (xfer_simplify dest t) as [x|] eqn:E; cbn [default from_option id]; auto.
    eapply xfer_simplify_all_iter; eauto. }
  destruct (engine_eqb (engine_of t1) dest); [injection H as <-; exact H1|].
  unfold conform_e in H. rewrite (all_iter_engine t1 H1) in H. cbn [rbind] in H. injection H as <-. simpl. auto.
Qed.

Lemma apply_full_all_iter o t op t1 :
  all_iter t → (∀ pr, o_pref op = Some pr → ekind_of pr = KIter) →
  apply_full (RUn o) t op = Ok t1 → all_iter t1.
Proof.
  intros Hi Hp H. unfold apply_full, apply_with, req_begin in H.
  destruct (begin_apply o (columns t)) as [o'|]; cbn [rbind] in H; [|discriminate].
  set (p := match o' with Ident => engine_of t | _ => default (engine_of t) (o_pref op) end).
  assert (Em : (match o' with Ident => Ok (RUn Ident, engine_of t) | _ => Ok (RUn o', default (engine_of t) (o_pref op)) end)
               = Ok (RUn o', p)) by (destruct o'; reflexivity).
  rewrite Em in H. cbn [rbind] in H. clear Em.
  assert (Hpk : ekind_of p = KIter).
  { subst p. destruct o'; try (apply all_iter_engine; exact Hi);
      (destruct (o_pref op) as [q|] eqn:E; simpl; [apply Hp; reflexivity|apply all_iter_engine; exact Hi]). }
  destruct (engine_eqb p (engine_of t)); [eapply append_unary_e_all_iter; eauto|].
  assert (Hb : ∃ res dn, (if o_backtrack op then backtrack_e (RUn o') t p else Ok (t, false)) = Ok (res, dn) ∧ all_iter res).
  { destruct (o_backtrack op).
    - unfold backtrack_e in *. rewrite (all_iter_engine t Hi) in *.
      destruct (backtrack (RUn o') t p) as [[res dn]|] eqn:Eb; cbn [rbind] in H; [|discriminate].
      exists res, dn. split; auto. eapply backtrack_all_iter; eauto.
    - exists t, false. auto. }
  destruct Hb as (res & dn & Eb & Hres). rewrite Eb in H. cbn [rbind] in H.
  destruct dn; [injection H as <-; exact Hres|].
  destruct (o_transfer op).
  - destruct (transfer_e p res) as [res2|] eqn:Et; cbn [rbind] in H; [|discriminate].
    eapply append_unary_e_all_iter; [|exact H]. eapply transfer_e_all_iter; eauto.
  - destruct (o_require op); cbn [rbind] in H; [discriminate|]. eapply append_unary_e_all_iter; eauto.
Qed.

Lemma construct_is_proj o o' : construct o = Ok o' → is_proj o' = is_proj o.
Proof.
  destruct o; simpl; intros H; try (injection H as <-; reflexivity).
  - destruct (bool_decide (cols_e e = ∅)); [discriminate|]. injection H as <-. reflexivity.
  - destruct (mk_slice start stop); [|discriminate]. injection H as <-. reflexivity.
Qed.

Section IterPrograms.
  Variable env : lenv.

  Definition ibuilt (p : mprog) (t : tree) : Prop :=
    sem_tree env t = spec_mprog env p ∧ wf_tree t ∧ env_ok env t ∧ columns t = mprog_cols p ∧ all_iter t.

  (* programs over iteration engines: any options on unary calls, except that a projection carries no
     preferred engine (finding F2 lives there; backtrack_sound covers projections under its own hypothesis) *)
  Fixpoint iterprog_ok (p : mprog) : Prop :=
    match p with
    | MpLeaf n e cs mn mx =>
        ekind_of e = KIter ∧ rows_dom cs (env n) ∧ 0 <= mn ∧ mn <= Z.of_nat (length (env n)) ∧
        match mx with Some m => Z.of_nat (length (env n)) <= m | None => True end
    | MpUn o op p' =>
        (match o with Sel q => cols_p q ⊆ mprog_cols p' | Ident => False | _ => True end) ∧
        (match o_pref op with None => True | Some pr => ekind_of pr = KIter ∧ is_proj o = false end) ∧
        iterprog_ok p'
    | MpItem _ _ _ p' | MpMat _ p' => iterprog_ok p'
    | MpChain l r => iterprog_ok l ∧ iterprog_ok r
    | MpJoin _ _ _ _ _ => False           (* the iteration engine does not execute joins *)
    | MpXfer d p' => ekind_of d = KIter ∧ iterprog_ok p'
    end.

  Lemma api_iter t : all_iter t → api_relation t.
  Proof. intros H. left. apply all_iter_engine; auto. Qed.

  (* one unary factory call with arbitrary options *)
  Lemma iter_unary_step o o' op t t1 :
    wf_tree t → env_ok env t → all_iter t →
    (match o with Sel q => cols_p q ⊆ columns t | Ident => False | _ => True end) →
    (match o_pref op with None => True | Some pr => ekind_of pr = KIter ∧ is_proj o = false end) →
    construct o = Ok o' → apply_full (RUn o') t op = Ok t1 →
    sem_tree env t1 = sem_op o (sem_tree env t) ∧ wf_tree t1 ∧ env_ok env t1 ∧
    columns t1 = op_columns o (columns t) ∧ all_iter t1.
  Proof.
    intros W E Hi Hsel Hpref Hc Ha.
    pose proof (sem_tree_dom env t W E) as Hdom.
    destruct (construct_sound o o' (columns t) (sem_tree env t) Hsel Hc) as (S1 & S2 & S3 & S4).
    assert (Hi1 : all_iter t1).
    { eapply apply_full_all_iter; [exact Hi| |exact Ha]. intros pr Hpr. rewrite Hpr in Hpref. tauto. }
    destruct (begin_apply o' (columns t)) as [o2|e] eqn:Eb.
    2: { unfold apply_full, apply_with, req_begin in Ha. rewrite Eb in Ha. discriminate. }
    destruct (begin_apply_wf o' (columns t) o2 S3 Eb) as [[-> Hid]|[-> Hw]].
    - (* a no-op: the relation itself is returned, whatever the options *)
      rewrite (apply_noop o' t op (api_iter t Hi) Eb) in Ha. injection Ha as <-.
      destruct (Hid _ Hdom S4) as [I1 I2]. rewrite <- S1, <- S2, I1, I2. auto.
    - destruct (o_pref op) as [pr|] eqn:Epr.
      + (* a preferred engine: backtracking, transfer, require *)
        destruct Hpref as [Hk Hnp].
        assert (Hnd : is_proj o' = true → spine_no_dedup t).
        { intros Hp. rewrite (construct_is_proj o o' Hc) in Hp. congruence. }
        assert (Hscope : transfer_in_scope env t op).
        { intros _ pref Hpref' Hsql. rewrite Epr in Hpref'. injection Hpref' as <-. congruence. }
        destruct (apply_full_sound env o' t op t1 W E (all_iter_spine env t Hi) (all_iter_tree_ok env t Hi) Hw Hnd Hscope Ha)
          as (A1 & A2 & A3 & A4 & _).
        rewrite <- S1, <- S2. auto.
      + (* no preferred engine: appended at the root *)
        rewrite apply_full_nopref in Ha by auto. rewrite Eb in Ha. cbn [rbind] in Ha.
        destruct (append_unary_e_sound env o' t t1 (all_iter_tree_ok env t Hi) W E (or_intror Hw) Ha) as [(F1 & F2 & F3 & F4 & F5) _].
        rewrite <- S1, <- S2. auto.
  Qed.

  Theorem build_multi_iter_built : ∀ p t, iterprog_ok p → build_multi p = Ok t → ibuilt p t.
  Proof.
    induction p as [n e cs mn mx|o op p IH|a b st p IH|l IHl r IHr|pr jb jt l IHl r IHr|n p IH|d p IH];
      intros t Hok H; cbn [build_multi] in H.
    - destruct Hok as (Hk & Hd & H0 & H1 & H2). unfold leaf_make in H.
      assert (Hl : (match mx with Some m => if m <? mn then Err ValueError else Ok (Leaf n e cs mn mx)
                                | None => Ok (Leaf n e cs mn mx) end) = Ok (Leaf n e cs mn mx)).
      { destruct mx as [m|]; [destruct (m <? mn) eqn:E|]; try (exfalso; apply Z.ltb_lt in E; lia); eauto. }
      rewrite Hl in H. cbn [rbind] in H. rewrite Hk in H. injection H as <-.
      unfold ibuilt. simpl. repeat split; auto. destruct mx; auto. lia.
    - destruct Hok as (Hsel & Hpref & Hok).
      destruct (build_multi p) as [t0|] eqn:Eb; cbn [rbind] in H; [|discriminate].
      destruct (IH t0 Hok eq_refl) as (S & W & E & C & A).
      destruct (construct o) as [o'|] eqn:Ec; cbn [rbind] in H; [|discriminate].
      assert (Hsel' : match o with Sel q => cols_p q ⊆ columns t0 | Ident => False | _ => True end) by (rewrite C; exact Hsel).
      destruct (iter_unary_step o o' op t0 t W E A Hsel' Hpref Ec H) as (S1 & W1 & E1 & C1 & A1).
      unfold ibuilt. simpl. rewrite S1, S, C1, C. auto.
    - destruct (build_multi p) as [t0|] eqn:Eb; cbn [rbind] in H; [|discriminate].
      destruct (IH t0 Hok eq_refl) as (S & W & E & C & A).
      destruct (negb (bool_decide (st = None) || bool_decide (st = Some 1))); [discriminate|].
      destruct (construct (Slice (default 0 a) b)) as [o'|] eqn:Ec; cbn [rbind] in H; [|discriminate].
      destruct (iter_unary_step (Slice (default 0 a) b) o' default_opts t0 t W E A I I Ec H) as (S1 & W1 & E1 & C1 & A1).
      unfold ibuilt. simpl. rewrite S1, S, C1, C. auto.
    - destruct Hok as [Hl Hr].
      destruct (build_multi l) as [tl|] eqn:El; cbn [rbind] in H; [|discriminate].
      destruct (build_multi r) as [tr|] eqn:Er; cbn [rbind] in H; [|discriminate].
      destruct (IHl tl Hl eq_refl) as (Sl & Wl & El0 & Cl & Al). destruct (IHr tr Hr eq_refl) as (Sr & Wr & Er0 & Cr & Ar).
      unfold chain_apply_e in H.
      destruct (engine_eqb (engine_of tl) (engine_of tr)) eqn:Ee; cbn [negb] in H; [|discriminate].
      destruct (bool_decide (columns tl = columns tr)) eqn:Ecs; cbn [negb] in H; [|discriminate].
      apply bool_decide_eq_true in Ecs. apply engine_eqb_eq in Ee.
      unfold append_binary_e in H. rewrite (all_iter_engine tl Al) in H. injection H as <-.
      unfold ibuilt. simpl. unfold sem_chain. rewrite Sl, Sr. repeat split; auto.
    - destruct Hok.
    - destruct (build_multi p) as [t0|] eqn:Eb; cbn [rbind] in H; [|discriminate].
      destruct (IH t0 Hok eq_refl) as (S & W & E & C & A).
      unfold materialize_e in H. rewrite (all_iter_engine t0 A) in H. injection H as <-.
      unfold materialize_generic. destruct (mat_simplify t0); unfold ibuilt; simpl; auto.
    - destruct Hok as [Hk Hok].
      destruct (build_multi p) as [t0|] eqn:Eb; cbn [rbind] in H; [|discriminate].
      destruct (IH t0 Hok eq_refl) as (S & W & E & C & A).
      assert (Hx : ekind_of d = KSql → ∀ x, xfer_simplify d t0 = Some x → good_all env x) by (intros Hq; congruence).
      destruct (transfer_e_sound env d t0 t W E (all_iter_tree_ok env t0 A) Hx H) as (T1 & T2 & T3 & T4 & _).
      unfold ibuilt. simpl. rewrite T1, T2. repeat split; auto. eapply transfer_e_all_iter; eauto.
  Qed.
End IterPrograms.
