(* C06, columns half: every row of a well-formed tree over truthful leaves has exactly the
   tree's columns as its domain. *)
From DR Require Import Model.WF Proofs.PredLaws Proofs.SliceLaws Proofs.SortLaws Proofs.SemLaws.
From Coq Require Import Lia.
Local Open Scope Z_scope.

Lemma rows_dom_join c p cl cr L R :
  rows_dom cl L → rows_dom cr R → rows_dom (cl ∪ cr) (sem_join c p L R).
Proof.
  unfold rows_dom, sem_join. intros HL HR. apply Forall_forall. intros x Hx.
  apply elem_of_list_In, in_flat_map in Hx as [l [Hl Hx]].
  apply elem_of_list_In, elem_of_list_omap in Hx as [r [Hr Hx]].
  destruct (agree_on c l r && holds p (merge_rows l r)); [|discriminate]. injection Hx as <-.
  unfold merge_rows. rewrite dom_union_L.
  rewrite Forall_forall in HL, HR. rewrite (HL l), (HR r); auto; [set_solver|apply elem_of_list_In; auto].
Qed.

Theorem sem_tree_dom env t : wf_tree t → env_ok env t → rows_dom (columns t) (sem_tree env t).
Proof.
  induction t as [n e cs mn mx|o t IH|b l IHl r IHr|n t IH|d t IH|sl sk _ t IH]; simpl; intros Hwf Henv.
  - tauto.
  - destruct Hwf as [Ho Ht]. apply rows_dom_op; auto.
  - destruct b as [|p c].
    + destruct Hwf as (Hc & _ & Hl & Hr). destruct Henv as [El Er].
      unfold sem_chain, rows_dom. apply Forall_app. split; [apply IHl; auto|].
      rewrite Hc. apply IHr; auto.
    + destruct Hwf as (_ & _ & _ & _ & Hl & Hr). destruct Henv as [El Er].
      apply rows_dom_join; auto.
  - auto.
  - destruct Hwf; auto.
  - auto.
Qed.
