(* C06, columns half: every row of a well-formed tree over truthful leaves has exactly the
   tree's columns as its domain. *)
From DR Require Import Model.WF Proofs.PredLaws Proofs.SliceLaws Proofs.SortLaws Proofs.SemLaws.
From Coq Require Import Lia.
Lemma slice_ok_valid' a b : slice_ok a b -> slice_valid a b.
Proof. intros H. apply slice_valid_iff. exact H. Qed.
Local Open Scope Z_scope.

Lemma rows_dom_join c p cl cr L R :
  rows_dom cl L → rows_dom cr R → rows_dom (cl ∪ cr) (sem_join c p L R).
Proof.
  unfold rows_dom, sem_join. intros HL HR. apply Forall_forall. intros x Hx.
  apply elem_of_list_In, in_flat_map in Hx as [l [Hl Hx]].
  apply elem_of_list_In, elem_of_list_omap in Hx as [r [Hr Hx]].
  destruct (agree_on c l r && holds p (merge_rows l r)); [|discriminate]. injection Hx as <-.
  unfold merge_rows. rewrite dom_union_L.
  rewrite Forall_forall in HL, HR. rewrite (HL l), (HR r); auto; [set_solver|apply elem_of_list_In; auto].
Qed.

Theorem sem_tree_dom env t : wf_tree t → env_ok env t → rows_dom (columns t) (sem_tree env t).
Proof.
  induction t as [n e cs mn mx|o t IH|b l IHl r IHr|n t IH|d t IH|sl sk _ t IH]; simpl; intros Hwf Henv.
  - tauto.
  - destruct Hwf as [Ho Ht]. apply rows_dom_op; auto.
  - destruct b as [|p c].
    + destruct Hwf as (Hc & _ & Hl & Hr). destruct Henv as [El Er].
      unfold sem_chain, rows_dom. apply Forall_app. split; [apply IHl; auto|].
      rewrite Hc. apply IHr; auto.
    + destruct Hwf as (_ & _ & _ & _ & Hl & Hr). destruct Henv as [El Er].
      apply rows_dom_join; auto.
  - auto.
  - destruct Hwf; auto.
  - auto.
Qed.

(* ---- C06, row-count half ---- *)
Definition len_ok (mn : Z) (mx : option Z) (l : rows) : Prop :=
  mn <= Z.of_nat (length l) ∧ match mx with Some m => Z.of_nat (length l) <= m | None => True end.

Lemma isort_length {A} (leb : A -> A -> bool) l : length (isort leb l) = length l.
Proof. symmetry. apply Permutation.Permutation_length, isort_perm. Qed.

Lemma filter_none {A} (p : A -> bool) l : (forall x, In x l -> p x = false) -> List.filter p l = [].
Proof.
  induction l as [|a l IH]; simpl; intros H; auto.
  rewrite (H a) by auto. apply IH. intros; apply H; auto.
Qed.

Lemma first_occ_all_equal (l : rows) : (forall r, In r l -> r = ∅) -> (length (first_occ row_eqb l) <= 1)%nat.
Proof.
  destruct l as [|x l]; simpl; intros H; [lia|].
  rewrite filter_none; [simpl; lia|].
  intros y Hy. apply (proj1 (first_occ_incl row_eqb row_eqb_spec l y)) in Hy.
  unfold neqb. rewrite (H x) by (left; auto). rewrite (H y) by (right; auto).
  unfold row_eqb. rewrite bool_decide_eq_true_2; auto.
Qed.

Lemma omap_length {A B} (f : A -> option B) l : (length (omap f l) <= length l)%nat.
Proof. induction l as [|a l IH]; simpl; [lia|]. unfold omap in IH. destruct (f a); simpl; lia. Qed.

Lemma sem_join_length c p L R : (length (sem_join c p L R) <= length L * length R)%nat.
Proof.
  unfold sem_join. induction L as [|l L IH]; simpl; auto.
  rewrite app_length. pose proof (omap_length (fun r => if agree_on c l r && holds p (merge_rows l r) then Some (merge_rows l r) else None) R). lia.
Qed.

Theorem metadata_truthful env t :
  wf_tree t → env_ok env t → len_ok (min_rows t) (max_rows t) (sem_tree env t).
Proof.
  unfold len_ok.
  induction t as [n e cs mn mx|o t IH|b l IHl r IHr|n t IH|d t IH|sl sk _ t IH]; simpl; intros Hwf Henv.
  - tauto.
  - destruct Hwf as [Ho Ht]. specialize (IH Ht Henv). destruct IH as [I1 I2].
    pose proof (sem_tree_dom env t Ht Henv) as Hdom.
    set (l' := sem_tree env t) in *.
    destruct o as [tg e| |ps|p|a b|ts|]; simpl.
    + unfold sem_calc. rewrite map_length. auto.
    + (* Deduplication *)
      unfold sem_dedup. split.
      * unfold dedup_min_rows. destruct (Z.leb_spec 1 (min_rows t)); [|lia].
        assert (l' <> []) by (destruct l'; simpl in *; [lia|discriminate]).
        pose proof (first_occ_nonempty row_eqb l' H0). destruct (first_occ row_eqb l'); simpl; [congruence|lia].
      * unfold dedup_max_rows. destruct (bool_decide (columns t = ∅)) eqn:Ec.
        -- apply bool_decide_eq_true in Ec.
           assert (Hle : (length (first_occ row_eqb l') <= 1)%nat).
           { apply first_occ_all_equal. intros r Hr. unfold rows_dom in Hdom. rewrite Forall_forall in Hdom.
             apply dom_empty_inv_L. rewrite (Hdom r); auto. apply elem_of_list_In; auto. }
           destruct (max_rows t) as [m|]; [|lia].
           destruct (Z.leb_spec 1 m); [lia|].
           pose proof (first_occ_length row_eqb l'). lia.
        -- pose proof (first_occ_length row_eqb l'). destruct (max_rows t); auto. lia.
    + unfold sem_proj. rewrite map_length. auto.
    + unfold sem_sel. pose proof (filter_length_le (holds p) l'). split; [lia|]. destruct (max_rows t); auto. lia.
    + (* Slice: the generated bound formulas *)
      simpl in Ho. apply slice_ok_valid' in Ho.
      change (sem_slice a b l') with (window a b l').
      rewrite (window_length l' a b Ho). unfold slice_min_rows, slice_max_rows.
      destruct b as [e'|], (max_rows t) as [m|]; split; auto; lia.
    + unfold sem_sort. rewrite isort_length. auto.
    + destruct Ho.
  - destruct b as [|p c].
    + destruct Hwf as (Hc & _ & Hl & Hr). destruct Henv as [El Er].
      destruct (IHl Hl El) as [L1 L2], (IHr Hr Er) as [R1 R2].
      cbn [sem_bop min_rows max_rows]. unfold sem_chain. rewrite app_length. split; [lia|].
      unfold chain_max_rows. destruct (max_rows l), (max_rows r); auto. lia.
    + destruct Hwf as (_ & _ & _ & _ & Hl & Hr). destruct Henv as [El Er].
      destruct (IHl Hl El) as [L1 L2], (IHr Hr Er) as [R1 R2].
      pose proof (sem_join_length c p (sem_tree env l) (sem_tree env r)) as HJ.
      cbn [sem_bop min_rows max_rows]. split; [lia|]. unfold join_max_rows.
      destruct (bool_decide (max_rows l = Some 0)) eqn:E1; simpl.
      { apply bool_decide_eq_true in E1. rewrite E1 in L2. nia. }
      destruct (bool_decide (max_rows r = Some 0)) eqn:E2; simpl.
      { apply bool_decide_eq_true in E2. rewrite E2 in R2. nia. }
      destruct (max_rows l), (max_rows r); auto. nia.
  - auto.
  - destruct Hwf; auto.
  - auto.
Qed.

(* consequences used by the short-cuts keyed on the flags *)
Corollary max_rows_zero_empty env t : wf_tree t → env_ok env t → max_rows t = Some 0 → sem_tree env t = [].
Proof.
  intros Hwf Henv Hm. destruct (metadata_truthful env t Hwf Henv) as [_ H]. rewrite Hm in H.
  destruct (sem_tree env t); simpl in *; [auto|lia].
Qed.

Corollary join_identity_content env t :
  wf_tree t → env_ok env t → is_join_identity t = true → sem_tree env t = [∅].
Proof.
  unfold is_join_identity. intros Hwf Henv H.
  apply andb_true_iff in H as [H H3]. apply andb_true_iff in H as [H1 H2].
  apply bool_decide_eq_true in H1, H2. apply Z.eqb_eq in H3.
  destruct (metadata_truthful env t Hwf Henv) as [L1 L2]. rewrite H2 in L2. rewrite H3 in L1.
  pose proof (sem_tree_dom env t Hwf Henv) as Hd. unfold rows_dom in Hd. rewrite H1 in Hd.
  destruct (sem_tree env t) as [|x [|y l]]; simpl in *; try lia.
  f_equal. apply dom_empty_inv_L. inversion Hd; auto.
Qed.

Lemma restrict_empty (r : row) : restrict ∅ r = ∅.
Proof.
  apply map_eq. intros k. rewrite restrict_lookup, lookup_empty.
  destruct (decide (k ∈ (∅ : gset positive))); auto. set_solver.
Qed.

Lemma join_identity_elision c (L : rows) cs :
  rows_dom cs L → c = ∅ → sem_join c (PLit true) L [∅] = L ∧ sem_join c (PLit true) [∅] L = L.
Proof.
  intros _ ->.
  assert (A : forall l r : row, agree_on ∅ l r && holds (PLit true) (merge_rows l r) = true).
  { intros l r. unfold agree_on. rewrite !restrict_empty. rewrite bool_decide_eq_true_2 by auto. reflexivity. }
  unfold sem_join. split.
  - induction L as [|l L IH]; [reflexivity|]. cbn [flat_map]. rewrite IH. cbn [omap list_omap]. rewrite A.
    simpl. f_equal. unfold merge_rows. apply (left_id_L ∅ (∪)).
  - cbn [flat_map]. rewrite app_nil_r. induction L as [|l L IH]; [reflexivity|].
    cbn [omap list_omap] in *. rewrite A. rewrite IH. f_equal. unfold merge_rows. apply (right_id_L ∅ (∪)).
Qed.
