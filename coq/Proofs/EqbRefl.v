(* The boolean structural equalities are reflexive (so `tree_eqb up t = true` whenever up = t). *)
From DR Require Import Model.Eqb Proofs.EqbLaws.
Local Open Scope Z_scope.

Lemma expr_seqb_refl a : expr_seqb a a = true.
Proof.
  induction a as [t|z|a IH|a1 IH1 a2 IH2|a1 IH1 a2 IH2|a1 IH1 a2 IH2|i s a IH]; simpl;
    rewrite ?Pos.eqb_refl, ?Z.eqb_refl, ?Bool.eqb_reflx, ?IH, ?IH1, ?IH2; reflexivity.
Qed.
Lemma list_eqb_refl {A} (eqb : A → A → bool) l : (∀ x, eqb x x = true) → list_eqb eqb l l = true.
Proof. intros H. induction l as [|x l IH]; simpl; [reflexivity|]. rewrite H, IH. reflexivity. Qed.
Lemma cmp_eqb_refl a : cmp_eqb a a = true.
Proof. destruct a; reflexivity. Qed.
Lemma container_eqb_refl a : container_eqb a a = true.
Proof. destruct a; simpl; rewrite ?Z.eqb_refl; [reflexivity|]. apply list_eqb_refl. apply expr_seqb_refl. Qed.
Lemma pred_eqb_refl p : pred_eqb p p = true.
Proof.
  induction p as [b|t|c a b|p IH|ps IH|ps IH|e c] using pred_ind2; simpl.
  - apply Bool.eqb_reflx.
  - apply Pos.eqb_refl.
  - rewrite cmp_eqb_refl, !expr_seqb_refl. reflexivity.
  - exact IH.
  - induction IH as [|x l Hx _ IHl]; [reflexivity|]. rewrite Hx. exact IHl.
  - induction IH as [|x l Hx _ IHl]; [reflexivity|]. rewrite Hx. exact IHl.
  - rewrite expr_seqb_refl, container_eqb_refl. reflexivity.
Qed.
Lemma terms_eqb_refl a : terms_eqb a a = true.
Proof. unfold terms_eqb. apply list_eqb_refl. intros [e s]. simpl. rewrite expr_seqb_refl, Bool.eqb_reflx. reflexivity. Qed.
Lemma uop_eqb_refl a : uop_eqb a a = true.
Proof.
  destruct a; simpl; unfold set_eqb, optz_eqb;
    rewrite ?Pos.eqb_refl, ?Z.eqb_refl, ?expr_seqb_refl, ?pred_eqb_refl, ?terms_eqb_refl, ?bool_decide_eq_true_2 by reflexivity;
    reflexivity.
Qed.
Lemma bop_eqb_refl a : bop_eqb a a = true.
Proof. destruct a; simpl; unfold set_eqb; rewrite ?pred_eqb_refl, ?bool_decide_eq_true_2 by reflexivity; reflexivity. Qed.
Lemma slots_eqb_refl a : slots_eqb a a = true.
Proof.
  unfold slots_eqb, optz_eqb. rewrite terms_eqb_refl, Bool.eqb_reflx, Z.eqb_refl, !bool_decide_eq_true_2 by reflexivity. reflexivity.
Qed.
Lemma engine_eqb_refl' a : engine_eqb a a = true.
Proof. unfold engine_eqb. apply bool_decide_eq_true_2. reflexivity. Qed.
Lemma tree_eqb_refl a : tree_eqb a a = true.
Proof.
  induction a as [n e cs mn mx|o t IH|o l IHl r IHr|n t IH|d t IH|sl k IHk t IHt]; simpl; unfold set_eqb, optz_eqb;
    rewrite ?Pos.eqb_refl, ?Z.eqb_refl, ?engine_eqb_refl', ?uop_eqb_refl, ?bop_eqb_refl, ?slots_eqb_refl, ?IH, ?IHl, ?IHr, ?IHk, ?IHt,
      ?bool_decide_eq_true_2 by reflexivity; reflexivity.
Qed.
