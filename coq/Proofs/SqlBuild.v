(* C02(a), program level: every SQL-engine relation built through the factory calls is a conformed
   relation whose denotation (as a list) is the specification of the program that built it. *)
From DR Require Import Model.Reach Proofs.PredLaws Proofs.SliceLaws Proofs.SortLaws Proofs.SemLaws
  Proofs.Metadata Proofs.Simplify Proofs.FinishApply Proofs.CommuteLaws Proofs.SqlRules Proofs.BuildLaws
  Proofs.ReachLaws Proofs.BacktrackLaws Proofs.SqlBinary Proofs.SqlJoinId.
From Coq Require Import Lia.
Local Open Scope Z_scope.

(* what the constructor (dataclass __post_init__) did to the operation *)
Lemma construct_sound o o' cs (l : rows) :
  (match o with Sel q => cols_p q ⊆ cs | Ident => False | _ => True end) → construct o = Ok o' →
  sem_op o' l = sem_op o l ∧ op_columns o' cs = op_columns o cs ∧
  (match o' with Calc _ e => cols_e e ≠ ∅ | Slice a b => slice_ok a b | Ident => False | _ => True end) ∧
  (match o' with Sel p => cols_p p ⊆ cs | _ => True end).
Proof.
  intros Hsel Hc. destruct o; simpl in Hc.
  - destruct (bool_decide (cols_e e = ∅)) eqn:E; [discriminate|]. injection Hc as <-.
    apply bool_decide_eq_false in E. repeat split; auto.
  - injection Hc as <-. repeat split; auto.
  - injection Hc as <-. repeat split; auto.
  - injection Hc as <-. repeat split; auto.
    + apply sem_sel_ext. intros r. apply selection_norm_holds.
    + etransitivity; [apply selection_norm_cols|auto].
  - destruct (mk_slice start stop) as [[]|] eqn:E; [|discriminate]. injection Hc as <-.
    apply mk_slice_ok in E as [_ V]. apply slice_valid_iff in V. destruct V as [V1 V2]. repeat split; auto.
  - injection Hc as <-. repeat split; auto.
  - destruct Hsel.
Qed.

(* apply with no preferred engine: _begin_apply, then the engine's append_unary *)
Lemma apply_full_nopref o t op :
  o_pref op = None →
  apply_full (RUn o) t op = (do o' <- begin_apply o (columns t); append_unary_e (RUn o') t).
Proof.
  intros Hp. unfold apply_full, apply_with, req_begin. rewrite Hp.
  destruct (begin_apply o (columns t)) as [o'|e]; cbn [rbind]; [|reflexivity].
  destruct o'; cbn [rbind default]; rewrite engine_eqb_refl; reflexivity.
Qed.

Section SqlPrograms.
  Variable env : lenv.
  Variable e0 : engine.
  Hypothesis Hsql : ekind_of e0 = KSql.

  Definition sbuilt (p : mprog) (t : tree) : Prop :=
    good_all env t ∧ sem_tree env t = spec_mprog env p ∧ columns t = mprog_cols p ∧ engine_of t = e0.

  Lemma tree_ok_good t : engine_of t = e0 → good_all env t → tree_ok env t.
  Proof. intros He Hg. unfold tree_ok. rewrite He, Hsql. exact Hg. Qed.

  (* one unary factory call without a preferred engine *)
  Lemma sql_unary_step o o' op t t1 :
    good_all env t → engine_of t = e0 → o_pref op = None →
    (match o with Sel q => cols_p q ⊆ columns t | Ident => False | _ => True end) →
    construct o = Ok o' → apply_full (RUn o') t op = Ok t1 →
    good_all env t1 ∧ sem_tree env t1 = sem_op o (sem_tree env t) ∧ columns t1 = op_columns o (columns t) ∧ engine_of t1 = e0.
  Proof.
    intros Hg He Hp Hsel Hc Ha. destruct (good_all_wf env t Hg) as [W E].
    pose proof (sem_tree_dom env t W E) as Hdom.
    destruct (construct_sound o o' (columns t) (sem_tree env t) Hsel Hc) as (S1 & S2 & S3 & S4).
    rewrite apply_full_nopref in Ha by auto.
    destruct (begin_apply o' (columns t)) as [o2|] eqn:Eb; cbn [rbind] in Ha; [|discriminate].
    destruct (begin_apply_wf o' (columns t) o2 S3 Eb) as [[-> Hid]|[-> Hw]].
    - rewrite append_ident in Ha.
      + injection Ha as <-. destruct (Hid _ Hdom S4) as [I1 I2]. rewrite <- S1, <- S2, I1, I2. auto.
      + right. apply good_all_sel in Hg. destruct t; try (destruct Hg; fail). reflexivity.
    - destruct (append_unary_e_sound env o' t t1 (tree_ok_good t He Hg) W E (or_intror Hw) Ha) as [(F1 & F2 & F3 & F4 & F5) Hok].
      unfold tree_ok in Hok. rewrite F5, He, Hsql in Hok.
      rewrite <- S1, <- S2. repeat split; auto. congruence.
  Qed.

  Fixpoint sqlprog_ok (p : mprog) : Prop :=
    match p with
    | MpLeaf n e cs mn mx =>
        e = e0 ∧ rows_dom cs (env n) ∧ 0 <= mn ∧ mn <= Z.of_nat (length (env n)) ∧
        match mx with Some m => Z.of_nat (length (env n)) <= m | None => True end
    | MpUn o op p' =>
        o_pref op = None ∧ (match o with Sel q => cols_p q ⊆ mprog_cols p' | Ident => False | _ => True end) ∧ sqlprog_ok p'
    | MpItem _ _ _ p' | MpMat _ p' => sqlprog_ok p'
    | MpChain l r => sqlprog_ok l ∧ sqlprog_ok r
    | MpJoin _ _ _ l r => sqlprog_ok l ∧ sqlprog_ok r
    | MpXfer _ _ => False            (* single-engine programs; transfers are C07's *)
    end.

  Theorem build_sql_built : ∀ p t, sqlprog_ok p → build_multi p = Ok t → sbuilt p t.
  Proof.
    induction p as [n e cs mn mx|o op p IH|a b st p IH|l IHl r IHr|pr jb jt l IHl r IHr|n p IH|d p IH];
      intros t Hok H; cbn [build_multi] in H.
    - (* leaf: make_leaf wraps it in a SELECT marker *)
      destruct Hok as (-> & Hd & H0 & H1 & H2).
      unfold leaf_make in H.
      assert (Hl : ∃ lf, (match mx with Some m => if m <? mn then Err ValueError else Ok (Leaf n e0 cs mn mx)
                                      | None => Ok (Leaf n e0 cs mn mx) end) = Ok lf ∧ lf = Leaf n e0 cs mn mx).
      { destruct mx as [m|]; [destruct (m <? mn) eqn:E|]; try (exfalso; apply Z.ltb_lt in E; lia); eauto. }
      destruct Hl as (lf & El & ->). rewrite El in H. cbn [rbind] in H. rewrite Hsql in H.
      assert (W : wf_tree (Leaf n e0 cs mn mx)) by (simpl; destruct mx; split; auto; lia).
      assert (E : env_ok env (Leaf n e0 cs mn mx)) by (simpl; auto).
      destruct (select_of_good env _ t W E I H) as (S1 & S2 & S3 & S4). unfold sbuilt. auto.
    - (* unary factory call *)
      destruct Hok as (Hp & Hsel & Hok).
      destruct (build_multi p) as [t0|] eqn:Eb; cbn [rbind] in H; [|discriminate].
      destruct (IH t0 Hok eq_refl) as (G & S & C & E).
      destruct (construct o) as [o'|] eqn:Ec; cbn [rbind] in H; [|discriminate].
      assert (Hsel' : match o with Sel q => cols_p q ⊆ columns t0 | Ident => False | _ => True end)
        by (rewrite C; exact Hsel).
      destruct (sql_unary_step o o' op t0 t G E Hp Hsel' Ec H) as (G1 & S1 & C1 & E1).
      unfold sbuilt. simpl. rewrite S1, S, C1, C. auto.
    - (* __getitem__ *)
      destruct (build_multi p) as [t0|] eqn:Eb; cbn [rbind] in H; [|discriminate].
      destruct (IH t0 Hok eq_refl) as (G & S & C & E).
      destruct (negb (bool_decide (st = None) || bool_decide (st = Some 1))); [discriminate|].
      destruct (construct (Slice (default 0 a) b)) as [o'|] eqn:Ec; cbn [rbind] in H; [|discriminate].
      destruct (sql_unary_step (Slice (default 0 a) b) o' default_opts t0 t G E eq_refl I Ec H) as (G1 & S1 & C1 & E1).
      unfold sbuilt. simpl. rewrite S1, S, C1, C. auto.
    - (* chain *)
      destruct Hok as [Hl Hr].
      destruct (build_multi l) as [tl|] eqn:El; cbn [rbind] in H; [|discriminate].
      destruct (build_multi r) as [tr|] eqn:Er; cbn [rbind] in H; [|discriminate].
      destruct (IHl tl Hl eq_refl) as (Gl & Sl & Cl & El0). destruct (IHr tr Hr eq_refl) as (Gr & Sr & Cr & Er0).
      unfold chain_apply_e in H.
      destruct (negb (engine_eqb (engine_of tl) (engine_of tr))); [discriminate|].
      destruct (bool_decide (columns tl = columns tr)) eqn:Ecs; cbn [negb] in H; [|discriminate].
      apply bool_decide_eq_true in Ecs.
      unfold append_binary_e in H. rewrite El0, Hsql in H.
      rewrite (good_all_conform env tl Gl), (good_all_conform env tr Gr) in H. cbn [rbind] in H.
      unfold append_binary_sel in H.
      destruct (append_chain_sound env (conform_n (Nat.pred reconform_depth)) tl tr t Gl Gr Ecs) as (G & S & C & E); [congruence|exact H|].
      unfold sbuilt. simpl. rewrite S, Sl, Sr, C, Cl. split; auto. split; auto. split; auto. congruence.
    - (* join *)
      destruct Hok as (Hl & Hr).
      destruct (build_multi l) as [tl|] eqn:El; cbn [rbind] in H; [|discriminate].
      destruct (build_multi r) as [tr|] eqn:Er; cbn [rbind] in H; [|discriminate].
      destruct (IHl tl Hl eq_refl) as (Gl & Sl & Cl & El0). destruct (IHr tr Hr eq_refl) as (Gr & Sr & Cr & Er0).
      unfold apply_full, apply_with, req_begin, common_columns in H.
      assert (Hres : ∀ q, j_resolved (JSpec q ∅ None) = false)
        by (intros q; unfold j_resolved; apply bool_decide_eq_false; simpl; discriminate).
      rewrite Hres in H.
      cbn [j_max j_min j_pred o_pref o_backtrack o_transfer o_require default] in H.
      set (c := filter (fun t => is_key t = true) (columns tr ∩ columns tl)) in *.
      assert (Hsub : bool_decide ((∅ : gset tag) ⊆ c) = true) by (apply bool_decide_eq_true; set_solver).
      rewrite Hsub in H. cbn [rbind] in H.
      match type of H with context [negb (bool_decide ?P)] => destruct (bool_decide P) eqn:Ereq end;
        cbn [negb rbind] in H; [|discriminate].
      apply bool_decide_eq_true in Ereq. unfold pjoin_required in Ereq. cbn [j_pred j_min] in Ereq.
      rewrite Er0, <- El0, engine_eqb_refl in H.
      unfold append_unary_e in H. rewrite El0, Hsql in H.
      rewrite (good_all_conform env tl Gl) in H. cbn [rbind] in H.
      rewrite (good_all_conform env tr Gr) in H. cbn [rbind j_pred j_min] in H.
      assert (Hc1 : c ⊆ columns tl).
      { intros k Hk. unfold c in Hk. apply elem_of_filter in Hk as [_ Hk]. apply elem_of_intersection in Hk. tauto. }
      assert (Hc2 : c ⊆ columns tr).
      { intros k Hk. unfold c in Hk. apply elem_of_filter in Hk as [_ Hk]. apply elem_of_intersection in Hk. tauto. }
      assert (Hpc : cols_p (default (PLit true) pr) ⊆ columns tl ∪ columns tr).
      { intros k Hk. destruct (decide (k ∈ columns tr)) as [Hin|Hnin]; [apply elem_of_union; auto|].
        apply elem_of_union. left. apply Ereq. apply elem_of_union. left. apply elem_of_difference. auto. }
      destruct (engine_join_sound env (default (PLit true) pr) c tl tr t Gl Gr) as (G & S & C & E); auto;
        try congruence.
      unfold sbuilt. simpl. rewrite S, Sl, Sr, C, Cl, Cr. split; auto. split; [|split; [reflexivity|congruence]].
      f_equal. unfold natural_common, c. rewrite Cl, Cr. f_equal. apply (comm_L (∩)).
    - (* materialization *)
      destruct (build_multi p) as [t0|] eqn:Eb; cbn [rbind] in H; [|discriminate].
      destruct (IH t0 Hok eq_refl) as (G & S & C & E).
      unfold materialize_e, sql_materialize in H. rewrite E, Hsql in H.
      rewrite (good_all_conform env t0 G) in H. cbn [rbind] in H.
      destruct (order_loss t0); [discriminate|].
      destruct (good_all_wf env t0 G) as [W0 E0].
      unfold materialize_generic in H. destruct (mat_simplify t0).
      + rewrite (good_all_conform env t0 G) in H. injection H as <-. unfold sbuilt. simpl. auto.
      + change (conform (Mat n t0)) with (select_of (Mat n t0)) in H.
        destruct (select_of_good env (Mat n t0) t W0 E0 I H) as (S1 & S2 & S3 & S4).
        unfold sbuilt. simpl. rewrite S2, S3, S4. simpl. auto.
    - destruct Hok.
  Qed.
End SqlPrograms.
