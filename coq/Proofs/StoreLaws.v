(* C10: payloads are write-once; a materialization's upstream is evaluated at most once. *)
From DR Require Import Model.Store.
From Coq Require Import Lia.
Local Open Scope Z_scope.

Definition store_le (a b : store) : Prop := ∀ n p, a !! n = Some p → b !! n = Some p.

(* evaluations recorded during a step are of nodes that had no payload before and have one after *)
Definition step_ok (s s' : xstate) : Prop :=
  store_le (xs_store s) (xs_store s') ∧
  ∃ new, xs_evals s' = xs_evals s ++ new ∧ NoDup new ∧
         ∀ n, n ∈ new → xs_store s !! n = None ∧ is_Some (xs_store s' !! n).

Lemma step_ok_refl s : step_ok s s.
Proof.
  split; [intros n p H; auto|]. exists []. rewrite app_nil_r. repeat split.
  - apply NoDup_nil_2.
  - apply elem_of_nil in H. destruct H.
  - apply elem_of_nil in H. destruct H.
Qed.

Lemma step_ok_trans s1 s2 s3 : step_ok s1 s2 → step_ok s2 s3 → step_ok s1 s3.
Proof.
  intros [L1 (n1 & E1 & D1 & H1)] [L2 (n2 & E2 & D2 & H2)]. split.
  - intros n p H. apply L2, L1, H.
  - exists (n1 ++ n2). rewrite E2, E1, app_assoc. split; auto. split.
    + apply NoDup_app. split; auto. split; auto. intros x Hx1 Hx2.
      destruct (H1 x Hx1) as [_ [p Hp]]. destruct (H2 x Hx2) as [Hn _]. congruence.
    + intros n Hin. apply elem_of_app in Hin as [Hin|Hin].
      * destruct (H1 n Hin) as [A [p B]]. split; auto. exists p. apply L2. auto.
      * destruct (H2 n Hin) as [A B]. split; auto.
        destruct (xs_store s1 !! n) eqn:E; auto. apply L1 in E. congruence.
Qed.

Lemma exec_s_ok env k : ∀ t s, step_ok s (snd (exec_s env k t s)).
Proof.
  induction t as [n e cs mn mx|o t IH|b l IHl r IHr|n t IH|d t IH|sl sk _ t IH]; intros s;
    cbn [exec_s];
    (destruct (bool_decide _); [apply step_ok_refl|]);
    (destruct (is_join_identity _); [apply step_ok_refl|]).
  - apply step_ok_refl.
  - specialize (IH s). destruct (exec_s env k t s) as [r s1]. exact IH.
  - destruct b as [|p c]; [|apply step_ok_refl].
    specialize (IHl s). destruct (exec_s env k l s) as [a s1]. destruct a as [la|e]; [|exact IHl].
    specialize (IHr s1). destruct (exec_s env k r s1) as [b s2]. simpl in *. eapply step_ok_trans; eauto.
  - destruct (xs_store s !! n) as [p|] eqn:En; [apply step_ok_refl|].
    specialize (IH s). destruct (exec_s env k t s) as [r s1]. destruct r as [l|e]; [|exact IH].
    destruct (xs_store s1 !! n) as [q|] eqn:En1; [exact IH|].
    cbn [snd] in *. eapply step_ok_trans; [exact IH|].
    split; cbn [xs_store xs_evals].
    + intros m p H. destruct (decide (m = n)) as [->|Hne]; [congruence|]. apply lookup_insert_Some. right. split; auto.
    + exists [n]. simpl. repeat split; auto.
      * apply NoDup_singleton.
      * apply elem_of_list_singleton in H. subst. auto.
      * apply elem_of_list_singleton in H. subst. exists (k, l). apply lookup_insert_Some. left. auto.
  - destruct (ekind_of _); [apply IH|apply step_ok_refl].
  - apply IH.
Qed.

Lemma attach_ok t c k s : step_ok s (snd (attach t c k s)).
Proof.
  destruct t; simpl; try apply step_ok_refl.
  destruct (xs_store s !! name) eqn:E; simpl; [apply step_ok_refl|].
  split; simpl.
  - intros m p H. destruct (decide (m = name)) as [->|Hne]; [congruence|]. apply lookup_insert_Some. right. auto.
  - exists []. rewrite app_nil_r. repeat split; [apply NoDup_nil_2| |]; intros; apply elem_of_nil in H; destruct H.
Qed.

Lemma do_event_ok env k ev s : step_ok s (snd (do_event env k ev s)).
Proof.
  destruct ev; simpl.
  - pose proof (exec_s_ok env k t s). destruct (exec_s env k t s). exact H.
  - apply attach_ok.
Qed.

Theorem run_hist_ok env : ∀ h k s, step_ok s (snd (run_hist env k h s)).
Proof.
  induction h as [|ev h IH]; intros k s; simpl; [apply step_ok_refl|].
  pose proof (do_event_ok env k ev s) as H1. destruct (do_event env k ev s) as [o s1].
  specialize (IH (S k) s1). destruct (run_hist env (S k) h s1) as [os s2]. simpl in *.
  eapply step_ok_trans; eauto.
Qed.

(* once a payload is there, no sequence of attach / execute events replaces or clears it *)
Theorem write_once env h k s n p :
  xs_store s !! n = Some p → xs_store (snd (run_hist env k h s)) !! n = Some p.
Proof. intros H. destruct (run_hist_ok env h k s) as [L _]. apply L, H. Qed.

(* over any history, each materialization's upstream tree is evaluated at most once *)
Theorem evaluated_at_most_once env h : NoDup (xs_evals (snd (run_hist env 0 h (XS ∅ [])))).
Proof. destruct (run_hist_ok env h 0 (XS ∅ [])) as [_ (new & E & D & _)]. rewrite E. exact D. Qed.

(* later evaluations return the cached rows *)
Theorem cached_rows_returned env k n t s p :
  bool_decide (max_rows (Mat n t) = Some 0) = false → is_join_identity (Mat n t) = false →
  xs_store s !! n = Some p → exec_s env k (Mat n t) s = (Ok (snd p), s).
Proof. intros H1 H2 H3. cbn [exec_s]. rewrite H1, H2, H3. reflexivity. Qed.

(* attachment is rejected for a marker that already has a payload and for every non-marker *)
Theorem attach_second_rejected n t c k s p :
  xs_store s !! n = Some p → attach (Mat n t) c k s = (Raised TypeError, s).
Proof. intros H. simpl. rewrite H. reflexivity. Qed.

Theorem attach_non_marker_rejected t c k s :
  (match t with Mat _ _ | Xfer _ _ | SelM _ _ _ => False | _ => True end) → attach t c k s = (Raised TypeError, s).
Proof. destruct t; simpl; tauto. Qed.
