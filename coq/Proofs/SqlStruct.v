(* Structural facts about the SQL engine's conformation (C17): results are SELECT markers,
   conform is idempotent. *)
From DR Require Import Model.Reach.
Local Open Scope Z_scope.

Lemma apply_skip_is_select sl k s : apply_skip sl k = Ok s → is_select s = true.
Proof.
  unfold apply_skip. intros H.
  repeat match type of H with
         | rbind ?x _ = _ => destruct x; cbn [rbind] in H; [|discriminate]
         end.
  injection H as <-. reflexivity.
Qed.

Lemma nest_unary_is_select o s s' : nest_unary o s = Ok s' → is_select s' = true.
Proof.
  unfold nest_unary, select_of. destruct (finish_default o s); cbn [rbind]; [|discriminate].
  apply apply_skip_is_select.
Qed.

Lemma append_unary_sel_is_select : ∀ s o s', append_unary_sel o s = Ok s' → is_select s' = true.
Proof.
  intros s o s' H. destruct s as [| | | | |sl skip tgt]; try discriminate.
  cbn [append_unary_sel] in H.
  destruct o as [tag e| |cs|p|a b|ts|].
  - destruct (is_chain skip || _); [eapply nest_unary_is_select; eassumption|].
    destruct (finish_apply _ skip); cbn [rbind] in H; [|discriminate].
    destruct (has_proj sl); eapply apply_skip_is_select; eassumption.
  - destruct (has_dedup sl); [injection H as <-; reflexivity|].
    destruct (has_slice sl); eapply apply_skip_is_select; eassumption.
  - destruct (has_sort sl && _ && _).
    { destruct (has_slice sl); [eapply apply_skip_is_select; eassumption|discriminate]. }
    destruct (has_dedup sl).
    + destruct (apply_skip _ skip); cbn [rbind] in H; [|discriminate]. eapply apply_skip_is_select; eassumption.
    + destruct skip as [| |[|] l r| | |]; try (eapply apply_skip_is_select; eassumption; fail).
      repeat match type of H with
             | rbind ?x _ = _ => destruct x; cbn [rbind] in H; [|discriminate]
             end.
      eapply apply_skip_is_select; eassumption.
  - destruct (has_slice sl); [eapply nest_unary_is_select; eassumption|].
    destruct (is_chain skip); [eapply nest_unary_is_select; eassumption|].
    destruct (finish_apply _ skip); cbn [rbind] in H; [|discriminate]. eapply apply_skip_is_select; eassumption.
  - destruct (slice_then _ _ _ _); cbn [rbind] in H; [|discriminate]. eapply apply_skip_is_select; eassumption.
  - destruct (has_slice sl); eapply apply_skip_is_select; eassumption.
  - injection H as <-. reflexivity.
Qed.

Lemma append_binary_sel_is_select b l r s :
  is_select l = true → is_select r = true → append_binary_sel b l r = Ok s → is_select s = true.
Proof.
  unfold append_binary_sel. intros Hl Hr H.
  destruct (order_loss l); [discriminate|]. destruct (order_loss r); [discriminate|].
  destruct b as [|p c|il].
  - repeat match type of H with
           | rbind ?x _ = _ => destruct x eqn:?; cbn [rbind] in H; [|discriminate]
           end.
    eapply apply_skip_is_select; eassumption.
  - destruct (strip l), (strip r).
    repeat match type of H with context [if ?c then _ else _] => destruct c end;
      (destruct (join_finish _ _ _ _); cbn [rbind] in H; [|discriminate]; eapply apply_skip_is_select; eassumption).
  - injection H as <-. destruct il; auto.
Qed.

Theorem conform_is_select : ∀ t c, conform t = Ok c → is_select c = true.
Proof.
  induction t as [n e cs mn mx|o t IH|b l IHl r IHr|n t IH|d t IH|sl sk _ t _]; intros c H; cbn [conform] in H;
    unfold select_of in H.
  - eapply apply_skip_is_select; eassumption.
  - destruct (conform t); cbn [rbind] in H; [|discriminate]. eapply append_unary_sel_is_select; eassumption.
  - destruct b; (destruct (conform l) as [cl|] eqn:El; cbn [rbind] in H; [|discriminate];
                 destruct (conform r) as [cr|] eqn:Er; cbn [rbind] in H; [|discriminate];
                 eapply append_binary_sel_is_select; [| |eassumption]; eauto).
  - eapply apply_skip_is_select; eassumption.
  - eapply apply_skip_is_select; eassumption.
  - injection H as <-. reflexivity.
Qed.

(* conforming an already conformed tree returns it unchanged *)
Theorem conform_idempotent t c : conform t = Ok c → conform c = Ok c.
Proof.
  intros H. apply conform_is_select in H. destruct c; try discriminate. reflexivity.
Qed.

(* the compound flag is, by construction, "skip target is a chain" *)
Theorem compound_iff_chain sl k t : sel_compound (SelM sl k t) = is_chain k.
Proof. reflexivity. Qed.
