(* Structural facts about the SQL engine's conformation (C17): results are SELECT markers,
   conform is idempotent. *)
From DR Require Import Model.Reach.
Local Open Scope Z_scope.

Lemma apply_skip_is_select sl k s : apply_skip sl k = Ok s → is_select s = true.
Proof.
  unfold apply_skip. intros H.
  repeat match type of H with
         | rbind ?x _ = _ => destruct x; cbn [rbind] in H; [|discriminate]
         end.
  injection H as <-. reflexivity.
Qed.

Lemma nest_unary_is_select o s s' : nest_unary o s = Ok s' → is_select s' = true.
Proof.
  unfold nest_unary, select_of. destruct (finish_default o s); cbn [rbind]; [|discriminate].
  apply apply_skip_is_select.
Qed.

Lemma nest_hoist_is_select o sl k s' : nest_hoist_sort o sl k = Ok s' → is_select s' = true.
Proof.
  unfold nest_hoist_sort. intros H.
  match type of H with (if ?c then _ else _) = _ => destruct c end; [discriminate|].
  destruct (apply_skip _ k); cbn [rbind] in H; [|discriminate].
  destruct (finish_default o _); cbn [rbind] in H; [|discriminate].
  eapply apply_skip_is_select; eassumption.
Qed.

Ltac sel_done H :=
  first [ discriminate H
        | eapply apply_skip_is_select; exact H
        | eapply nest_unary_is_select; exact H
        | eapply nest_hoist_is_select; exact H
        | (injection H as <-; reflexivity) ].

Lemma append_unary_sel_is_select : ∀ s o s', append_unary_sel o s = Ok s' → is_select s' = true.
Proof.
  intros s o s' H. destruct s as [| | | | |sl skip tgt]; try discriminate.
  cbn [append_unary_sel] in H.
  destruct o as [tag e| |cs|p|a b|ts|];
    repeat (first [ sel_done H
                  | match type of H with
                    | rbind ?x _ = _ => destruct x; cbn [rbind] in H
                    | (if ?c then _ else _) = _ => destruct c
                    | match ?x with _ => _ end = _ => destruct x
                    end ]).
Qed.

Lemma select_rows_is_select cf p t s :
  (∀ x c, cf x = Ok c → is_select c = true) → is_select t = true ∨ ekind_of (engine_of t) = KSql →
  select_rows cf p t = Ok s → is_select s = true ∨ (s = t) ∨ ekind_of (engine_of t) = KIter.
Proof.
  intros Hcf Ht H. unfold select_rows in H.
  destruct (as_trivial p) as [[|]|]; try (injection H as <-; auto);
    (destruct (begin_apply _ _); cbn [rbind] in H; [|discriminate];
     destruct (ekind_of (engine_of t)); [auto|];
     destruct (cf t); cbn [rbind] in H; [|discriminate];
     left; eapply append_unary_sel_is_select; eassumption).
Qed.

Lemma append_binary_sel_with_is_select cf b l r s :
  is_select l = true → is_select r = true → append_binary_sel_with cf b l r = Ok s → is_select s = true.
Proof.
  unfold append_binary_sel_with. intros Hl Hr H.
  destruct (order_loss l); [discriminate|]. destruct (order_loss r); [discriminate|].
  destruct b as [|p c|il].
  - repeat match type of H with
           | rbind ?x _ = _ => destruct x eqn:?; cbn [rbind] in H; [|discriminate]
           end.
    eapply apply_skip_is_select; eassumption.
  - destruct (strip l), (strip r).
    repeat match type of H with context [if ?c then _ else _] => destruct c end;
      (destruct (join_finish _ _ _ _ _); cbn [rbind] in H; [|discriminate]; eapply apply_skip_is_select; eassumption).
  - injection H as <-. destruct il; auto.
Qed.

Lemma append_binary_sel_is_select b l r s :
  is_select l = true → is_select r = true → append_binary_sel b l r = Ok s → is_select s = true.
Proof. apply append_binary_sel_with_is_select. Qed.

Theorem conform_n_is_select : ∀ n t c, conform_n n t = Ok c → is_select c = true.
Proof.
  intros n. destruct n as [|n]; cbn [conform_n].
  all: induction t as [nm e cs mn mx|o t IH|b l IHl r IHr|nm t IH|d t IH|sl sk _ t _]; intros c H; cbn in H;
    unfold select_of in H.
  all: try (eapply apply_skip_is_select; eassumption).
  all: try (injection H as <-; reflexivity).
  all: try (match type of H with rbind ?x _ = _ => destruct x eqn:Ex end; cbn [rbind] in H; [|discriminate];
            eapply append_unary_sel_is_select; eassumption).
  all: destruct b;
    (match type of H with rbind ?x _ = _ => destruct x as [cl|] eqn:El end; cbn [rbind] in H; [|discriminate];
     match type of H with rbind ?x _ = _ => destruct x as [cr|] eqn:Er end; cbn [rbind] in H; [|discriminate];
     eapply append_binary_sel_with_is_select; [| |eassumption]; eauto).
Qed.

Theorem conform_is_select : ∀ t c, conform t = Ok c → is_select c = true.
Proof. intros t c. apply conform_n_is_select. Qed.

(* conforming an already conformed tree returns it unchanged *)
Theorem conform_idempotent t c : conform t = Ok c → conform c = Ok c.
Proof.
  intros H. apply conform_is_select in H. destruct c; try discriminate. reflexivity.
Qed.

(* the compound flag is, by construction, "skip target is a chain" *)
Theorem compound_iff_chain sl k t : sel_compound (SelM sl k t) = is_chain k.
Proof. reflexivity. Qed.
