(* Programs over SEVERAL engines of BOTH kinds (iteration engines and SQL engines): every tree such a program of
   factory calls builds denotes the specification of the program, is well-formed, and has the shape the individual
   soundness theorems need of their inputs — so those theorems compose along the whole program. *)
From DR Require Import Model.Reach Proofs.PredLaws Proofs.SliceLaws Proofs.SortLaws Proofs.SemLaws
  Proofs.Metadata Proofs.Simplify Proofs.FinishApply Proofs.CommuteLaws Proofs.SqlRules Proofs.BuildLaws
  Proofs.ReachLaws Proofs.EqbLaws Proofs.EqbRefl Proofs.BacktrackLaws Proofs.SqlBinary Proofs.SqlBuild Proofs.MultiIter.
From Coq Require Import Lia.
Local Open Scope Z_scope.

Definition kiter (t : tree) : Prop := ekind_of (engine_of t) = KIter.

(* relations as the factories return them: in an SQL engine a conformed SELECT marker (good_all), in an iteration
   engine plain nodes whose operands are again of this shape; transfers into an iteration engine may come from either *)
Fixpoint shape_ok (env : lenv) (t : tree) : Prop :=
  match t with
  | SelM _ _ _ => ekind_of (engine_of t) = KSql ∧ good_all env t
  | Leaf _ e _ _ _ => ekind_of e = KIter
  | Un _ t' | Mat _ t' => kiter t' ∧ shape_ok env t'
  | Bin _ l r => kiter l ∧ kiter r ∧ shape_ok env l ∧ shape_ok env r
  | Xfer d t' => ekind_of d = KIter ∧ shape_ok env t'
  end.

Lemma shape_kind env t : shape_ok env t →
  match ekind_of (engine_of t) with KSql => good_all env t | KIter => True end.
Proof.
  destruct t as [n e cs mn mx|o t'|b l r|n t'|d t'|sl sk tg]; simpl.
  - intros ->. exact I.
  - intros [H _]. unfold kiter in H. rewrite H. exact I.
  - intros (H & _). unfold kiter in H. destruct b; simpl; rewrite H; exact I.
  - intros [H _]. unfold kiter in H. rewrite H. exact I.
  - intros [-> _]. exact I.
  - intros [-> H]. exact H.
Qed.

Lemma shape_tree_ok env t : shape_ok env t → tree_ok env t.
Proof. intros H. unfold tree_ok. apply shape_kind. exact H. Qed.

Lemma shape_spine env t : shape_ok env t → spine_ok env t.
Proof.
  induction t as [| o t IH | | |d t IH|]; simpl; auto.
  - intros [_ H]. auto.
  - intros [_ H]. pose proof (shape_kind env t H) as Hk. destruct (ekind_of (engine_of t)); auto.
Qed.

Lemma shape_of_good env t : ekind_of (engine_of t) = KSql → good_all env t → shape_ok env t.
Proof.
  intros Hk Hg. pose proof (good_all_sel env t Hg) as Hs.
  destruct t; try (destruct Hs; fail). simpl. auto.
Qed.

Lemma shape_iter_or_good env t : shape_ok env t → kiter t ∨ good_all env t.
Proof. intros H. pose proof (shape_kind env t H) as Hk. unfold kiter. destruct (ekind_of (engine_of t)); auto. Qed.

(* ---- preservation by the iteration engine's append ---- *)
Lemma finish_apply_shape env : ∀ t o t', kiter t → shape_ok env t → finish_apply o t = Ok t' → kiter t' ∧ shape_ok env t'.
Proof.
  induction t as [n e cs mn mx|up t IH|b l _ r _|n t _|d t _|sl sk _ t _]; intros o t' Hk Hs H; cbn [finish_apply] in H;
    (destruct (is_noop o _); [injection H as <-; auto|]);
    try (unfold finish_default in H; destruct (op_supported _ _); [injection H as <-; simpl; auto|discriminate]).
  destruct (simplify o up); try (unfold finish_default in H; destruct (op_supported _ _); [injection H as <-; simpl; auto|discriminate]).
  - injection H as <-. auto.
  - destruct Hs as [Hk' Hs']. eapply IH; eauto.
  - discriminate.
Qed.

Lemma apply_simple_shape env o t t' : kiter t → shape_ok env t → apply_simple o t = Ok t' → kiter t' ∧ shape_ok env t'.
Proof.
  intros Hk Hs H. unfold apply_simple in H. destruct (begin_apply o (columns t)); cbn [rbind] in H; [|discriminate].
  eapply finish_apply_shape; eauto.
Qed.

(* Engine.append_unary of either kind *)
Lemma append_unary_e_shape env o t t1 :
  shape_ok env t → wf_tree t → env_ok env t → (o = Ident ∨ op_wf o (columns t)) →
  append_unary_e (RUn o) t = Ok t1 → shape_ok env t1 ∧ engine_of t1 = engine_of t.
Proof.
  intros Hs Hwf Henv Ho H.
  destruct (append_unary_e_sound env o t t1 (shape_tree_ok env t Hs) Hwf Henv Ho H) as [(_ & _ & _ & _ & He) Hok].
  split; [|exact He].
  unfold append_unary_e in H. destruct (ekind_of (engine_of t)) eqn:Ek.
  - destruct (finish_apply_shape env t o t1 Ek Hs H) as [_ S]. exact S.
  - apply shape_of_good; [rewrite He; exact Ek|]. unfold tree_ok in Hok. rewrite He, Ek in Hok. exact Hok.
Qed.

(* ---- backtracking keeps the shape ---- *)
Lemma backtrack_shape env : ∀ t o pref t' d,
  wf_tree t → env_ok env t → shape_ok env t → kiter t → (o = Ident ∨ op_wf o (columns t)) →
  (is_proj o = true → spine_no_dedup t) →
  backtrack (RUn o) t pref = Ok (t', d) → kiter t' ∧ shape_ok env t'.
Proof.
  induction t as [n e cs mn mx|cur t1 IH|b l _ r _|n t1 _|dd t1 IH|sl sk _ t1 _];
    intros o pref t' d Hwf Henv Hs Hk Ho Hnd H; cbn [backtrack is_locked] in H.
  - injection H as <- _. auto.
  - set (c := commute (RUn o) cur (columns t1)) in *.
    destruct (c_first c) as [f|] eqn:Ef; [|injection H as <- _; auto].
    destruct (commute_first_un o cur (columns t1) f Ef) as (o1 & -> & Hp1 & Hp2).
    destruct Hwf as [Hcur Hwf1]. simpl in Henv. destruct Hs as [Hk1 Hs1].
    assert (Hcd : is_proj o = true → cur ≠ Dedup ∧ spine_no_dedup t1).
    { intros Hp. specialize (Hnd Hp). simpl in Hnd. destruct cur; try tauto; split; auto; discriminate. }
    assert (Hn : ¬ (is_proj o = true ∧ cur = Dedup)) by (intros [A B]; destruct (Hcd A); auto).
    pose proof (commute_sound_any env o cur (columns t1) (sem_tree env t1) (sem_tree_dom env t1 Hwf1 Henv) Hcur Ho Hn) as Hsound.
    unfold commutator_sound in Hsound. fold c in Hsound. rewrite Ef in Hsound. destruct Hsound as (Hrw & _ & _).
    cbn [req_wf] in Hrw.
    destruct (backtrack (RUn o1) t1 pref) as [[up d1]|] eqn:Eb; cbn [rbind] in H; [|discriminate].
    assert (Hup : kiter up ∧ shape_ok env up).
    { apply (IH o1 pref up d1); auto. rewrite Hp1. intros Hp. apply Hcd; auto. }
    destruct Hup as [Ku Su].
    match type of H with rbind ?x _ = _ => destruct x as [res|] eqn:Er end; cbn [rbind] in H; [|discriminate].
    injection H as <- _.
    assert (Hself : kiter (Un cur t1) ∧ shape_ok env (Un cur t1)) by (simpl; auto).
    destruct d1.
    + destruct (tree_eqb up t1 && uop_eqb (c_second c) cur); [injection Er as <-; exact Hself|].
      eapply finish_apply_shape; eauto.
    + destruct (tree_eqb up t1); [injection Er as <-; exact Hself|].
      destruct (apply_simple cur up) as [r0|e0] eqn:Ea.
      * injection Er as <-. eapply apply_simple_shape; eauto.
      * destruct e0; try discriminate. injection Er as <-. exact Hself.
  - injection H as <- _. auto.
  - injection H as <- _. auto.
  - destruct Hwf as [Hd Hwf1]. simpl in Henv. destruct Hs as [Hkd Hs1].
    destruct (engine_eqb (engine_of t1) pref).
    + rewrite apply_same_engine in H.
      destruct (begin_apply o (columns t1)) as [o'|] eqn:Eb; cbn [rbind] in H; [|discriminate].
      destruct (append_unary_e (RUn o') t1) as [a|] eqn:Ea; cbn [rbind] in H; [|discriminate].
      injection H as <- _.
      destruct (begin_apply_sound o (columns t1) o' (sem_tree env t1) Ho (sem_tree_dom env t1 Hwf1 Henv) Eb) as (B1 & _ & _).
      destruct (append_unary_e_shape env o' t1 a Hs1 Hwf1 Henv B1 Ea) as [Sa _].
      split; [exact Hkd|]. simpl. auto.
    + destruct (ekind_of (engine_of t1)) eqn:Ek.
      * destruct (backtrack (RUn o) t1 pref) as [[up d1]|] eqn:Eb; cbn [rbind] in H; [|discriminate].
        injection H as <- _.
        destruct (IH o pref up d1 Hwf1 Henv Hs1 Ek Ho Hnd Eb) as [Ku Su].
        split; [exact Hkd|]. simpl. auto.
      * injection H as <- _. split; [exact Hkd|]. simpl. auto.
  - discriminate.
Qed.

Lemma shape_api env t : shape_ok env t → api_relation t.
Proof.
  intros H. unfold api_relation. pose proof (shape_kind env t H) as Hk.
  destruct (ekind_of (engine_of t)) eqn:E; [left; reflexivity|right].
  apply good_all_sel in Hk. destruct t; try (destruct Hk; fail). reflexivity.
Qed.

(* ---- UnaryOperation.apply with a preferred engine and no transfer: shape and engine of the result ---- *)
Lemma apply_full_shape env o t op t1 :
  wf_tree t → env_ok env t → shape_ok env t → op_wf o (columns t) → (is_proj o = true → spine_no_dedup t) →
  o_transfer op = false →
  apply_full (RUn o) t op = Ok t1 → shape_ok env t1 ∧ engine_of t1 = engine_of t.
Proof.
  intros Hwf Henv Hs Ho Hnd Htr H.
  pose proof (sem_tree_dom env t Hwf Henv) as Hdom.
  unfold apply_full, apply_with, req_begin in H.
  destruct (begin_apply o (columns t)) as [o'|e] eqn:Eb; cbn [rbind] in H; [|discriminate].
  destruct (begin_apply_sound o (columns t) o' (sem_tree env t) (or_intror Ho) Hdom Eb) as (B1 & B2 & B3).
  set (p := match o' with Ident => engine_of t | _ => default (engine_of t) (o_pref op) end).
  assert (Em : (match o' with Ident => Ok (RUn Ident, engine_of t) | _ => Ok (RUn o', default (engine_of t) (o_pref op)) end)
               = Ok (RUn o', p)) by (destruct o'; reflexivity).
  rewrite Em in H. cbn [rbind] in H. clear Em.
  destruct (engine_eqb p (engine_of t)) eqn:Ep.
  { apply (append_unary_e_shape env o' t t1 Hs Hwf Henv B1 H). }
  assert (Hnd' : is_proj o' = true → spine_no_dedup t).
  { intros Hp. apply Hnd. destruct B1 as [->|_]; [discriminate|].
    destruct (begin_apply_wf o (columns t) o') as [[-> _]|[-> _]]; auto; try discriminate.
    destruct o; simpl in *; tauto. }
  assert (Hbt : ∃ res done,
            (if o_backtrack op then backtrack_e (RUn o') t p else Ok (t, false)) = Ok (res, done) ∧
            bt_spec env o' t (res, done) ∧ shape_ok env res).
  { destruct (o_backtrack op).
    - unfold backtrack_e in *. destruct (ekind_of (engine_of t)) eqn:Ek.
      + destruct (backtrack (RUn o') t p) as [[res done]|e] eqn:Ebk; cbn [rbind] in H; [|discriminate].
        exists res, done. split; [reflexivity|].
        split; [apply (backtrack_sound env t o' p); auto; apply shape_spine; auto|].
        apply (backtrack_shape env t o' p res done); auto.
      + exists t, false. split; [reflexivity|]. split; [apply bt_unchanged; auto|exact Hs].
    - exists t, false. split; [reflexivity|]. split; [apply bt_unchanged; auto|exact Hs]. }
  destruct Hbt as (res & done & Ebd & Hspec & Hsr). rewrite Ebd in H. cbn [rbind] in H.
  destruct Hspec as (R1 & R2 & R3 & R4).
  destruct done.
  { injection H as <-. auto. }
  destruct R4 as (P1 & P2 & P3).
  rewrite Htr in H. destruct (o_require op); cbn [rbind] in H; [discriminate|].
  assert (Ho2 : o' = Ident ∨ op_wf o' (columns res)).
  { destruct P3 as [->|(cs & -> & Hcs)]; [exact B1|right; exact Hcs]. }
  destruct (append_unary_e_shape env o' res t1 Hsr R1 R2 Ho2 H) as [S E]. split; [exact S|congruence].
Qed.

(* ---- a backtracking attempt that does not complete leaves the tree as it was (anything but a projection) ---- *)
Lemma backtrack_unchanged : ∀ t o pref t',
  is_proj o = false → backtrack (RUn o) t pref = Ok (t', false) → t' = t.
Proof.
  induction t as [n e cs mn mx|cur t1 IH|b l _ r _|n t1 _|dd t1 IH|sl sk _ t1 _];
    intros o pref t' Hnp H; cbn [backtrack is_locked] in H.
  - injection H as <-. reflexivity.
  - set (c := commute (RUn o) cur (columns t1)) in *.
    destruct (c_first c) as [f|] eqn:Ef; [|injection H as <- _; reflexivity].
    destruct (commute_first_un o cur (columns t1) f Ef) as (o1 & -> & Hp1 & _).
    assert (Hdone : c_done c = true).
    { destruct (c_done c) eqn:Ed; [reflexivity|].
      destruct (commute_partial_shape o cur (columns t1) _ Ef Ed) as (cs & -> & _). discriminate. }
    destruct (backtrack (RUn o1) t1 pref) as [[up d1]|] eqn:Eb; cbn [rbind] in H; [|discriminate].
    match type of H with rbind ?x _ = _ => destruct x as [res|] eqn:Er end; cbn [rbind] in H; [|discriminate].
    injection H as <- Hd. rewrite Hdone, andb_true_r in Hd. subst d1.
    assert (up = t1) by (apply (IH o1 pref up); [congruence|exact Eb]). subst up.
    rewrite tree_eqb_refl in Er. injection Er as <-. reflexivity.
  - injection H as <-. reflexivity.
  - injection H as <-. reflexivity.
  - destruct (engine_eqb (engine_of t1) pref).
    + destruct (apply_with _ (RUn o) t1 default_opts); cbn [rbind] in H; discriminate.
    + destruct (ekind_of (engine_of t1)).
      * destruct (backtrack (RUn o) t1 pref) as [[up d1]|] eqn:Eb; cbn [rbind] in H; [|discriminate].
        injection H as <- ->. f_equal. apply (IH o pref up Hnp Eb).
      * injection H as <-. reflexivity.
  - discriminate.
Qed.

(* ---- UnaryOperation.apply with transfer=True (not a projection; the transfer undoes no earlier one) ---- *)
Lemma apply_full_shape_transfer env o t op pr t1 :
  wf_tree t → env_ok env t → shape_ok env t → op_wf o (columns t) → is_proj o = false →
  o_pref op = Some pr → o_transfer op = true → xfer_simplify pr t = None →
  (ekind_of pr = KSql → o_backtrack op = false ∨ ekind_of (engine_of t) = KSql) →
  apply_full (RUn o) t op = Ok t1 → shape_ok env t1.
Proof.
  intros Hwf Henv Hs Ho Hnp Hpref Htr Hx Hsc H.
  pose proof (sem_tree_dom env t Hwf Henv) as Hdom.
  unfold apply_full, apply_with, req_begin in H.
  destruct (begin_apply o (columns t)) as [o'|e] eqn:Eb; cbn [rbind] in H; [|discriminate].
  destruct (begin_apply_sound o (columns t) o' (sem_tree env t) (or_intror Ho) Hdom Eb) as (B1 & B2 & B3).
  assert (Hnp' : is_proj o' = false).
  { assert (Hc : match o with Calc _ e => cols_e e ≠ ∅ | Slice a b => slice_ok a b | Ident => False | _ => True end)
      by (destruct o; simpl in *; tauto).
    destruct (begin_apply_wf o (columns t) o' Hc Eb) as [[-> _]|[-> _]]; auto. }
  set (p := match o' with Ident => engine_of t | _ => default (engine_of t) (o_pref op) end).
  assert (Em : (match o' with Ident => Ok (RUn Ident, engine_of t) | _ => Ok (RUn o', default (engine_of t) (o_pref op)) end)
               = Ok (RUn o', p)) by (destruct o'; reflexivity).
  rewrite Em in H. cbn [rbind] in H. clear Em.
  destruct (engine_eqb p (engine_of t)) eqn:Ep.
  { apply (append_unary_e_shape env o' t t1 Hs Hwf Henv B1 H). }
  assert (Hp : p = pr).
  { subst p. rewrite Hpref. destruct o'; try reflexivity. rewrite engine_eqb_refl in Ep. discriminate. }
  assert (Hbt : ∃ res done,
            (if o_backtrack op then backtrack_e (RUn o') t p else Ok (t, false)) = Ok (res, done) ∧
            shape_ok env res ∧ (done = false → res = t)).
  { destruct (o_backtrack op).
    - unfold backtrack_e in *. destruct (ekind_of (engine_of t)) eqn:Ek.
      + destruct (backtrack (RUn o') t p) as [[res done]|e] eqn:Ebk; cbn [rbind] in H; [|discriminate].
        exists res, done. split; [reflexivity|].
        split; [apply (backtrack_shape env t o' p res done); auto; intros; congruence|].
        intros ->. apply (backtrack_unchanged t o' p res Hnp' Ebk).
      + exists t, false. auto.
    - exists t, false. auto. }
  destruct Hbt as (res & done & Ebd & Sr & Hsame). rewrite Ebd in H. cbn [rbind] in H.
  destruct done; [injection H as <-; exact Sr|].
  rewrite (Hsame eq_refl) in *. rewrite Htr in H.
  destruct (transfer_e p t) as [res2|e] eqn:Et; cbn [rbind] in H; [|discriminate].
  assert (Hxx : ekind_of p = KSql → ∀ x, xfer_simplify p t = Some x → good_all env x) by (rewrite Hp; intros _ x Hq; congruence).
  destruct (transfer_e_sound env p t res2 Hwf Henv (shape_tree_ok env t Hs) Hxx Et) as (T1 & T2 & T3 & T4 & T5 & T6).
  assert (S2 : shape_ok env res2).
  { destruct (ekind_of p) eqn:Ekp.
    - unfold transfer_e in Et. rewrite Ekp in Et. unfold transfer_generic in Et.
      assert (Ee : engine_eqb (engine_of t) p = false).
      { destruct (engine_eqb (engine_of t) p) eqn:E; [|reflexivity]. apply engine_eqb_eq in E. rewrite E, engine_eqb_refl in Ep. discriminate. }
      rewrite Ee in Et. rewrite Hp in Et. rewrite Hx in Et. cbn [default from_option id] in Et. rewrite <- Hp in Et. rewrite Ee in Et.
      assert (Hc : conform_e t = Ok t).
      { unfold conform_e. pose proof (shape_kind env t Hs) as G. destruct (ekind_of (engine_of t)); auto. eapply good_all_conform; eauto. }
      rewrite Hc in Et. cbn [rbind] in Et. injection Et as <-. simpl. auto.
    - apply shape_of_good; [rewrite T6; exact Ekp|]. unfold tree_ok in T5. rewrite T6, Ekp in T5. exact T5. }
  assert (Ho2 : o' = Ident ∨ op_wf o' (columns res2)) by (rewrite T2; exact B1).
  apply (append_unary_e_shape env o' res2 t1 S2 T3 T4 Ho2 H).
Qed.

(* ---- joins of two relations that live in one engine ---- *)
From DR Require Import Proofs.JoinCommute Proofs.JoinBacktrack.

Lemma append_join_e_iter j f t s :
  ekind_of (engine_of t) = KIter → engine_of f = engine_of t →
  j_max j = Some (j_min j) → j_min j ⊆ columns t → j_min j ⊆ columns f →
  cols_p (j_pred j) ⊆ columns t ∪ columns f → columns t ≠ ∅ → columns f ≠ ∅ →
  append_unary_e (RJoin j f false) t = Ok s → s = Bin (Join (j_pred j) (j_min j)) t f.
Proof.
  intros Ek He Hmax Hct Hcf Hp Nt Nf H.
  unfold append_unary_e in H. rewrite Ek in H.
  unfold join_apply, join_begin in H.
  rewrite (bool_decide_eq_true_2 _ Hp) in H. cbn [negb] in H.
  unfold j_resolved in H. rewrite (bool_decide_eq_true_2 _ Hmax) in H.
  rewrite (bool_decide_eq_true_2 _ Hct), (bool_decide_eq_true_2 _ Hcf) in H. cbn [negb rbind] in H.
  rewrite (not_identity_of_columns t Nt), (not_identity_of_columns f Nf), !andb_false_r in H. cbn [rbind] in H.
  unfold append_binary_e in H. rewrite Ek in H. unfold join_finish in H.
  rewrite (not_identity_of_columns t Nt), (not_identity_of_columns f Nf) in H.
  destruct (negb (engine_eqb (engine_of t) (engine_of f))); [discriminate|].
  destruct (negb (supp_p (ekind_of (engine_of t)) (j_pred j))); [discriminate|].
  injection H as <-. reflexivity.
Qed.

(* the shape of what the iteration engine returns for a join of two of its relations, whatever the operands: the join
   node, one of the operands (join identity on the other side), or that operand under a selection *)
Lemma select_rows_iter_shape env cf p x s :
  kiter x → shape_ok env x → select_rows cf p x = Ok s → kiter s ∧ shape_ok env s.
Proof.
  intros Hk Hs H. unfold select_rows in H. unfold kiter in Hk.
  destruct (as_trivial p) as [[|]|]; [injection H as <-; auto| |].
  all: destruct (begin_apply _ _) as [o|]; cbn [rbind] in H; [|discriminate].
  all: rewrite Hk in H; eapply finish_apply_shape; eauto.
Qed.

Lemma append_join_e_iter_shape env j f t s :
  ekind_of (engine_of t) = KIter → engine_of f = engine_of t → shape_ok env t → shape_ok env f →
  j_max j = Some (j_min j) → j_min j ⊆ columns t → j_min j ⊆ columns f →
  cols_p (j_pred j) ⊆ columns t ∪ columns f →
  append_unary_e (RJoin j f false) t = Ok s → kiter s ∧ shape_ok env s.
Proof.
  intros Ek He St Sf Hmax Hct Hcf Hp H.
  assert (Kt : kiter t) by exact Ek. assert (Kf : kiter f) by (unfold kiter; rewrite He; exact Ek).
  unfold append_unary_e in H. rewrite Ek in H.
  unfold join_apply, join_begin in H.
  rewrite (bool_decide_eq_true_2 _ Hp) in H. cbn [negb] in H.
  unfold j_resolved in H. rewrite (bool_decide_eq_true_2 _ Hmax) in H.
  rewrite (bool_decide_eq_true_2 _ Hct), (bool_decide_eq_true_2 _ Hcf) in H. cbn [negb rbind] in H.
  destruct (bool_decide (as_trivial (j_pred j) = Some true) && is_join_identity t).
  { cbn [rbind] in H. unfold append_binary_e in H. rewrite Ek in H. injection H as <-. auto. }
  destruct (bool_decide (as_trivial (j_pred j) = Some true) && is_join_identity f).
  { cbn [rbind] in H. unfold append_binary_e in H. rewrite Ek in H. injection H as <-. auto. }
  cbn [rbind] in H. unfold append_binary_e in H. rewrite Ek in H. unfold join_finish in H.
  destruct (is_join_identity t); [exact (select_rows_iter_shape env conform (j_pred j) f s Kf Sf H)|].
  destruct (is_join_identity f); [exact (select_rows_iter_shape env conform (j_pred j) t s Kt St H)|].
  destruct (negb (engine_eqb (engine_of t) (engine_of f))); [discriminate|].
  destruct (negb (supp_p _ (j_pred j))); [discriminate|].
  injection H as <-. simpl. auto.
Qed.

Lemma same_engine_join env pr f t jb jt t1 :
  wf_tree t → env_ok env t → shape_ok env t → wf_tree f → env_ok env f → shape_ok env f →
  engine_of f = engine_of t →
  apply_full (RJoin (JSpec pr ∅ None) f false) t (Opts None jb jt false) = Ok t1 →
  sem_tree env t1 = sem_join (natural_common (columns t) (columns f)) pr (sem_tree env t) (sem_tree env f) ∧
  columns t1 = columns t ∪ columns f ∧ wf_tree t1 ∧ env_ok env t1 ∧ shape_ok env t1 ∧ engine_of t1 = engine_of t.
Proof.
  intros Wt Et St Wf Ef Sf He H.
  set (c := natural_common (columns t) (columns f)) in *.
  unfold apply_full, apply_with, req_begin, common_columns, j_resolved in H. cbn [j_max j_min j_pred] in H.
  rewrite bool_decide_eq_false_2 in H by discriminate.
  assert (Ec : filter (λ k, is_key k = true) (columns f ∩ columns t) = c).
  { unfold c, natural_common. f_equal. set_solver. }
  rewrite Ec in H.
  rewrite (bool_decide_eq_true_2 (∅ ⊆ c)) in H by set_solver. cbn [rbind] in H.
  set (j := JSpec pr c (Some c)) in *.
  destruct (bool_decide (pjoin_required j f ⊆ columns t)) eqn:Ereq; cbn [negb rbind] in H; [|discriminate].
  apply bool_decide_eq_true in Ereq.
  assert (Hmax : j_max j = Some (j_min j)) by reflexivity.
  assert (Hcf : j_min j ⊆ columns f) by (unfold j, c, natural_common; cbn [j_min]; intros k Hk; apply elem_of_filter in Hk; set_solver).
  assert (Hct : j_min j ⊆ columns t) by (unfold pjoin_required in Ereq; set_solver).
  assert (Hp : cols_p (j_pred j) ⊆ columns t ∪ columns f) by (apply subset_union_diff; unfold pjoin_required in Ereq; set_solver).
  cbn [o_pref default from_option id] in H.
  rewrite He, engine_eqb_refl in H.
  destruct (append_join_e_sound env j f t t1 Wt Et (shape_tree_ok env t St) Wf Ef (shape_tree_ok env f Sf) He Hmax Hct Hcf Hp H)
    as (S1 & S2 & S3 & S4 & S5 & S6).
  repeat split; auto.
  destruct (ekind_of (engine_of t)) eqn:Ek.
  - apply (append_join_e_iter_shape env j f t t1 Ek He St Sf Hmax Hct Hcf Hp H).
  - apply shape_of_good; [rewrite S6; exact Ek|]. unfold tree_ok in S5. rewrite S6, Ek in S5. exact S5.
Qed.

(* ---- joins across engines: the join is inserted upstream by backtracking, or the call is refused ---- *)
Lemma backtrack_join_shape env j f :
  wf_tree f → env_ok env f → shape_ok env f → j_max j = Some (j_min j) → j_min j ⊆ columns f → columns f ≠ ∅ →
  ∀ t t' done,
  wf_tree t → env_ok env t → shape_ok env t → kiter t →
  pjoin_required j f ⊆ columns t → cols_p (j_pred j) ⊆ columns t ∪ columns f → columns t ≠ ∅ →
  spine_cons env (j_min j) (sem_tree env f) t →
  backtrack (RJoin j f false) t (engine_of f) = Ok (t', done) → kiter t' ∧ shape_ok env t'.
Proof.
  intros Wf Ef Sf Hmax Hcf Nf.
  induction t as [n e cs mn mx|cur t1 IH|b l _ r _|n t1 _|d t1 IH|sl sk _ t1 _];
    intros t' done Hwf Henv Hs Hk Hreq Hp Nt Hcons H; cbn [backtrack is_locked] in H.
  - injection H as <- _. auto.
  - destruct Hwf as [Hcur Hwf1]. simpl in Henv. destruct Hs as [Hk1 Hs1]. cbn [spine_cons] in Hcons. destruct Hcons as [Hc0 Hc1].
    cbn [columns] in Hreq, Hp, Nt.
    set (tcols := columns t1) in *. set (l := sem_tree env t1).
    assert (Hdom : rows_dom tcols l) by (apply sem_tree_dom; auto).
    set (c := commute (RJoin j f false) cur tcols) in *.
    destruct (c_first c) as [r1|] eqn:Efst; [|injection H as <- _; simpl; auto].
    destruct (commute_join_first j f false cur tcols r1 Efst) as [-> Hdone].
    assert (Hrw0 : req_wf env (RJoin j f false) (op_columns cur tcols)) by (cbn [req_wf]; repeat split; auto).
    assert (Hcons1 : consistent (j_min j) l (sem_tree env f)) by (apply (spine_cons_head env _ _ t1 Hc1)).
    pose proof (commute_sound_join env j f false cur tcols l Hdom Hcur Hrw0 Hcons1) as Hsound.
    cbn [andb] in Hsound. unfold commutator_sound_upto in Hsound. fold c in Hsound. rewrite Efst in Hsound.
    destruct Hsound as ((_ & Hreq1 & _ & Hp1 & _ & _) & _ & _).
    destruct (backtrack (RJoin j f false) t1 (engine_of f)) as [[up dd]|] eqn:Eb; cbn [rbind] in H; [|discriminate].
    assert (Hup : kiter up ∧ shape_ok env up).
    { apply (IH up dd); auto. apply (op_columns_nonempty_inv cur tcols Hcur Nt). }
    destruct Hup as [Ku Su].
    match type of H with rbind ?x _ = _ => destruct x as [res|] eqn:Er end; cbn [rbind] in H; [|discriminate].
    injection H as <- _.
    assert (Hself : kiter (Un cur t1) ∧ shape_ok env (Un cur t1)) by (simpl; auto).
    destruct dd.
    + destruct (tree_eqb up t1 && uop_eqb (c_second c) cur); [injection Er as <-; exact Hself|].
      eapply finish_apply_shape; eauto.
    + destruct (tree_eqb up t1); [injection Er as <-; exact Hself|].
      destruct (apply_simple cur up) as [r0|e0] eqn:Ea.
      * injection Er as <-. eapply apply_simple_shape; eauto.
      * destruct e0; try discriminate. injection Er as <-. exact Hself.
  - injection H as <- _. auto.
  - injection H as <- _. auto.
  - destruct Hwf as [Hd Hwf1]. simpl in Henv. destruct Hs as [Hkd Hs1]. cbn [spine_cons] in Hcons. destruct Hcons as [Hc0 Hc1].
    cbn [columns] in Hreq, Hp, Nt.
    destruct (engine_eqb (engine_of t1) (engine_of f)) eqn:Ee.
    + apply engine_eqb_eq in Ee.
      rewrite (apply_join_same_engine j f Hmax Hcf _ t1 Hreq (eq_sym Ee)) in H.
      destruct (append_unary_e (RJoin j f false) t1) as [a|] eqn:Ea; cbn [rbind] in H; [|discriminate].
      injection H as <- _.
      assert (Hct : j_min j ⊆ columns t1) by (unfold pjoin_required in Hreq; set_solver).
      destruct (append_join_e_sound env j f t1 a Hwf1 Henv (shape_tree_ok env t1 Hs1) Wf Ef (shape_tree_ok env f Sf) (eq_sym Ee) Hmax Hct Hcf Hp Ea)
        as (_ & _ & _ & _ & S5 & S6).
      split; [exact Hkd|]. simpl. split; [exact Hkd|].
      destruct (ekind_of (engine_of t1)) eqn:Ek.
      * rewrite (append_join_e_iter j f t1 a Ek (eq_sym Ee) Hmax Hct Hcf Hp Nt Nf Ea). simpl. unfold kiter. rewrite <- Ee. auto.
      * apply shape_of_good; [rewrite S6; exact Ek|]. unfold tree_ok in S5. rewrite S6, Ek in S5. exact S5.
    + destruct (ekind_of (engine_of t1)) eqn:Ek.
      * destruct (backtrack (RJoin j f false) t1 (engine_of f)) as [[up dd]|] eqn:Eb; cbn [rbind] in H; [|discriminate].
        injection H as <- _.
        destruct (IH up dd Hwf1 Henv Hs1 Ek Hreq Hp Nt Hc1 eq_refl) as [Ku Su].
        split; [exact Hkd|]. simpl. auto.
      * injection H as <- _. split; [exact Hkd|]. simpl. auto.
  - discriminate.
Qed.

(* Relation.join across engines, without a transfer: the join is inserted upstream or the call is refused *)
Lemma cross_engine_join env pr f t jb t1 :
  wf_tree t → env_ok env t → shape_ok env t → kiter t → wf_tree f → env_ok env f → shape_ok env f →
  columns t ≠ ∅ → columns f ≠ ∅ →
  spine_cons env (natural_common (columns t) (columns f)) (sem_tree env f) t →
  apply_full (RJoin (JSpec pr ∅ None) f false) t (Opts None jb false false) = Ok t1 →
  sem_tree env t1 = sem_join (natural_common (columns t) (columns f)) pr (sem_tree env t) (sem_tree env f) ∧
  columns t1 = columns t ∪ columns f ∧ wf_tree t1 ∧ env_ok env t1 ∧ shape_ok env t1 ∧ engine_of t1 = engine_of t.
Proof.
  intros Wt Et St Kt Wf Ef Sf Nt Nf Hcons H.
  destruct (engine_eqb (engine_of f) (engine_of t)) eqn:Ee.
  { apply engine_eqb_eq in Ee. apply (same_engine_join env pr f t jb false t1); auto. }
  assert (Hscope : false = true → ekind_of (engine_of f) = KSql →
            (jb = false ∨ ekind_of (engine_of t) = KSql) ∧ ∀ x, xfer_simplify (engine_of f) t = Some x → good_all env x) by discriminate.
  destruct (apply_full_join_sound env pr f t jb false t1 Wt Et (shape_spine env t St) (shape_tree_ok env t St) Wf Ef (shape_tree_ok env f Sf)
              Nt Nf Hcons (or_intror (or_intror Kt)) Hscope H) as (A1 & A2 & A3 & A4 & A5).
  assert (A6 : engine_of t1 = engine_of t) by (destruct A5 as [A5|[A5 _]]; [exact A5|discriminate]).
  repeat split; auto.
  (* the shape: the only way to succeed is the backtracking insertion *)
  set (c := natural_common (columns t) (columns f)) in *.
  unfold apply_full, apply_with, req_begin, common_columns, j_resolved in H. cbn [j_max j_min j_pred] in H.
  rewrite bool_decide_eq_false_2 in H by discriminate.
  assert (Ec : filter (λ k, is_key k = true) (columns f ∩ columns t) = c).
  { unfold c, natural_common. f_equal. set_solver. }
  rewrite Ec in H.
  rewrite (bool_decide_eq_true_2 (∅ ⊆ c)) in H by set_solver. cbn [rbind] in H.
  set (j := JSpec pr c (Some c)) in *.
  destruct (bool_decide (pjoin_required j f ⊆ columns t)) eqn:Ereq; cbn [negb rbind] in H; [|discriminate].
  apply bool_decide_eq_true in Ereq.
  assert (Hmax : j_max j = Some (j_min j)) by reflexivity.
  assert (Hcf : j_min j ⊆ columns f) by (unfold j, c, natural_common; cbn [j_min]; intros k Hk; apply elem_of_filter in Hk; set_solver).
  assert (Hct : j_min j ⊆ columns t) by (unfold pjoin_required in Ereq; set_solver).
  assert (Hp : cols_p (j_pred j) ⊆ columns t ∪ columns f) by (apply subset_union_diff; unfold pjoin_required in Ereq; set_solver).
  cbn [o_pref default from_option id o_backtrack o_transfer o_require] in H. rewrite Ee in H.
  assert (Hbt : ∃ res done,
            (if jb then backtrack_e (RJoin j f false) t (engine_of f) else Ok (t, false)) = Ok (res, done) ∧
            shape_ok env res ∧ (done = false → res = t)).
  { destruct jb.
    - unfold backtrack_e in *. rewrite Kt in *.
      destruct (backtrack (RJoin j f false) t (engine_of f)) as [[res done]|e] eqn:Ebk; cbn [rbind] in H; [|discriminate].
      exists res, done. split; [reflexivity|].
      destruct (backtrack_join_shape env j f Wf Ef Sf Hmax Hcf Nf t res done Wt Et St Kt Ereq Hp Nt Hcons Ebk) as [_ Sr].
      split; [exact Sr|]. intros ->.
      destruct (backtrack_join_sound env j f Wf Ef (shape_tree_ok env f Sf) Hmax Hcf Nf t res false Wt Et (shape_spine env t St) Ereq Hp Nt Hcons Ebk)
        as (_ & _ & _ & R4). exact R4.
    - exists t, false. split; [reflexivity|]. split; [exact St|reflexivity]. }
  destruct Hbt as (res & done & Ebd & Sr & Hsame). rewrite Ebd in H. cbn [rbind] in H.
  destruct done; [injection H as <-; exact Sr|].
  rewrite (Hsame eq_refl) in H. cbn [rbind] in H. exfalso.
  unfold append_unary_e in H. rewrite Kt in H. unfold join_apply, join_begin in H.
  rewrite (bool_decide_eq_true_2 _ Hp) in H. cbn [negb] in H.
  unfold j_resolved in H. rewrite (bool_decide_eq_true_2 _ Hmax) in H.
  rewrite (bool_decide_eq_true_2 _ Hct), (bool_decide_eq_true_2 _ Hcf) in H. cbn [negb rbind] in H.
  rewrite (not_identity_of_columns t Nt), (not_identity_of_columns f Nf), !andb_false_r in H. cbn [rbind] in H.
  unfold append_binary_e in H. rewrite Kt in H. unfold join_finish in H.
  rewrite (not_identity_of_columns t Nt), (not_identity_of_columns f Nf) in H.
  assert (Ee' : engine_eqb (engine_of t) (engine_of f) = false).
  { destruct (engine_eqb (engine_of t) (engine_of f)) eqn:E; [|reflexivity].
    apply engine_eqb_eq in E. rewrite E, engine_eqb_refl in Ee. discriminate. }
  rewrite Ee' in H. discriminate.
Qed.

(* ---- whole programs ---- *)
Section MixedPrograms.
  Variable env : lenv.

  Definition mbuilt (p : mprog) (t : tree) : Prop :=
    sem_tree env t = spec_mprog env p ∧ wf_tree t ∧ env_ok env t ∧ columns t = mprog_cols p ∧ shape_ok env t.

  (* what a unary call with a preferred engine needs of the relation it is applied to *)
  Definition unary_scope (o : uop) (op : opts) (t0 : tree) : Prop :=
    match o_pref op with
    | None => True
    | Some pr =>
        if o_transfer op
        then (* transfer=True: not a projection, the transfer undoes no earlier one, and (SQL destination) either no
                backtracking is attempted or the relation is already in an SQL engine *)
             is_proj o = false ∧ xfer_simplify pr t0 = None ∧
             (ekind_of pr = KSql → o_backtrack op = false ∨ ekind_of (engine_of t0) = KSql)
        else (* finding F2: a projection is not moved past a deduplication *)
             is_proj o = true → spine_no_dedup t0
    end.

  (* what Relation.join needs of its operands *)
  Definition join_scope (jt : bool) (tl tr : tree) : Prop :=
    engine_of tr = engine_of tl ∨
    (jt = false ∧ kiter tl ∧ columns tl ≠ ∅ ∧ columns tr ≠ ∅ ∧
     spine_cons env (natural_common (columns tl) (columns tr)) (sem_tree env tr) tl).

  (* Programs over engines of both kinds.  The side conditions speak about the relation a call is applied to (the tree
     the sub-program builds); everything outside them is covered call by call by apply_full_sound /
     apply_full_join_sound / transfer_e_sound, whose preconditions this theorem establishes. *)
  Fixpoint mixprog_ok (p : mprog) : Prop :=
    match p with
    | MpLeaf n e cs mn mx =>
        rows_dom cs (env n) ∧ 0 <= mn ∧ mn <= Z.of_nat (length (env n)) ∧
        match mx with Some m => Z.of_nat (length (env n)) <= m | None => True end
    | MpUn o op p' =>
        (match o with Sel q => cols_p q ⊆ mprog_cols p' | Ident => False | _ => True end) ∧
        mixprog_ok p' ∧ ∀ t0, build_multi p' = Ok t0 → unary_scope o op t0
    | MpItem _ _ _ p' | MpMat _ p' => mixprog_ok p'
    | MpChain l r => mixprog_ok l ∧ mixprog_ok r
    | MpJoin _ _ jt l r =>
        mixprog_ok l ∧ mixprog_ok r ∧
        ∀ tl tr, build_multi l = Ok tl → build_multi r = Ok tr → join_scope jt tl tr
    | MpXfer d p' => mixprog_ok p' ∧ ∀ t0, build_multi p' = Ok t0 → xfer_simplify d t0 = None
    end.

  Lemma mixed_unary_step o o' op t t1 :
    wf_tree t → env_ok env t → shape_ok env t →
    (match o with Sel q => cols_p q ⊆ columns t | Ident => False | _ => True end) →
    unary_scope o op t →
    construct o = Ok o' → apply_full (RUn o') t op = Ok t1 →
    sem_tree env t1 = sem_op o (sem_tree env t) ∧ wf_tree t1 ∧ env_ok env t1 ∧
    columns t1 = op_columns o (columns t) ∧ shape_ok env t1.
  Proof.
    intros W E Hs Hsel Hpref Hc Ha.
    pose proof (sem_tree_dom env t W E) as Hdom.
    destruct (construct_sound o o' (columns t) (sem_tree env t) Hsel Hc) as (S1 & S2 & S3 & S4).
    destruct (begin_apply o' (columns t)) as [o2|e] eqn:Eb.
    2: { unfold apply_full, apply_with, req_begin in Ha. rewrite Eb in Ha. discriminate. }
    destruct (begin_apply_wf o' (columns t) o2 S3 Eb) as [[-> Hid]|[-> Hw]].
    - rewrite (apply_noop o' t op (shape_api env t Hs) Eb) in Ha. injection Ha as <-.
      destruct (Hid _ Hdom S4) as [I1 I2]. rewrite <- S1, <- S2, I1, I2. auto 10.
    - unfold unary_scope in Hpref. destruct (o_pref op) as [pr|] eqn:Epr.
      + destruct (o_transfer op) eqn:Etr.
        * destruct Hpref as (Hnp & Hx & Hsc).
          assert (Hnp' : is_proj o' = false) by (rewrite (construct_is_proj o o' Hc); exact Hnp).
          assert (Hnd : is_proj o' = true → spine_no_dedup t) by (intros Hp; congruence).
          assert (Hscope : transfer_in_scope env t op).
          { intros _ pref Hpref' Hsql. rewrite Epr in Hpref'. injection Hpref' as <-.
            split; [apply Hsc; exact Hsql|]. intros x Hxx. congruence. }
          destruct (apply_full_sound env o' t op t1 W E (shape_spine env t Hs) (shape_tree_ok env t Hs) Hw Hnd Hscope Ha)
            as (A1 & A2 & A3 & A4 & _).
          pose proof (apply_full_shape_transfer env o' t op pr t1 W E Hs Hw Hnp' Epr Etr Hx Hsc Ha) as A5.
          rewrite <- S1, <- S2. auto 10.
        * assert (Hnd : is_proj o' = true → spine_no_dedup t).
          { intros Hp. rewrite (construct_is_proj o o' Hc) in Hp. auto. }
          assert (Hscope : transfer_in_scope env t op) by (intros Ht; congruence).
          destruct (apply_full_sound env o' t op t1 W E (shape_spine env t Hs) (shape_tree_ok env t Hs) Hw Hnd Hscope Ha)
            as (A1 & A2 & A3 & A4 & _).
          destruct (apply_full_shape env o' t op t1 W E Hs Hw Hnd Etr Ha) as [A5 _].
          rewrite <- S1, <- S2. auto 10.
      + rewrite apply_full_nopref in Ha by auto. rewrite Eb in Ha. cbn [rbind] in Ha.
        destruct (append_unary_e_sound env o' t t1 (shape_tree_ok env t Hs) W E (or_intror Hw) Ha) as [(F1 & F2 & F3 & F4 & F5) _].
        destruct (append_unary_e_shape env o' t t1 Hs W E (or_intror Hw) Ha) as [F6 _].
        rewrite <- S1, <- S2. auto 10.
  Qed.

  Theorem build_multi_mixed_built : ∀ p t, mixprog_ok p → build_multi p = Ok t → mbuilt p t.
  Proof.
    induction p as [n e cs mn mx|o op p IH|a b st p IH|l IHl r IHr|pr jb jt l IHl r IHr|n p IH|d p IH];
      intros t Hok H; cbn [build_multi] in H.
    - (* leaf *)
      destruct Hok as (Hd & H0 & H1 & H2). unfold leaf_make in H.
      assert (Hl : (match mx with Some m => if m <? mn then Err ValueError else Ok (Leaf n e cs mn mx)
                                | None => Ok (Leaf n e cs mn mx) end) = Ok (Leaf n e cs mn mx)).
      { destruct mx as [m|]; [destruct (m <? mn) eqn:E|]; try (exfalso; apply Z.ltb_lt in E; lia); eauto. }
      rewrite Hl in H. cbn [rbind] in H.
      assert (W : wf_tree (Leaf n e cs mn mx)) by (simpl; destruct mx; split; auto; lia).
      assert (E : env_ok env (Leaf n e cs mn mx)) by (simpl; auto).
      destruct (ekind_of e) eqn:Ek.
      + injection H as <-. unfold mbuilt. simpl. auto 10.
      + destruct (select_of_good env _ t W E I H) as (S1 & S2 & S3 & S4).
        destruct (good_all_wf env t S1) as [W1 E1].
        unfold mbuilt. cbn [spec_mprog mprog_cols]. simpl in S2, S3, S4.
        repeat split; auto. apply shape_of_good; [rewrite S4; exact Ek|exact S1].
    - (* unary factory call *)
      destruct Hok as (Hsel & Hok & Hsc).
      destruct (build_multi p) as [t0|] eqn:Eb; cbn [rbind] in H; [|discriminate].
      destruct (IH t0 Hok eq_refl) as (S & W & E & C & Sh).
      destruct (construct o) as [o'|] eqn:Ec; cbn [rbind] in H; [|discriminate].
      assert (Hsel' : match o with Sel q => cols_p q ⊆ columns t0 | Ident => False | _ => True end) by (rewrite C; exact Hsel).
      destruct (mixed_unary_step o o' op t0 t W E Sh Hsel' (Hsc t0 eq_refl) Ec H) as (S1 & W1 & E1 & C1 & Sh1).
      unfold mbuilt. simpl. rewrite S1, S, C1, C. auto 10.
    - (* __getitem__ *)
      destruct (build_multi p) as [t0|] eqn:Eb; cbn [rbind] in H; [|discriminate].
      destruct (IH t0 Hok eq_refl) as (S & W & E & C & Sh).
      destruct (negb (bool_decide (st = None) || bool_decide (st = Some 1))); [discriminate|].
      destruct (construct (Slice (default 0 a) b)) as [o'|] eqn:Ec; cbn [rbind] in H; [|discriminate].
      destruct (mixed_unary_step (Slice (default 0 a) b) o' default_opts t0 t W E Sh I I Ec H) as (S1 & W1 & E1 & C1 & Sh1).
      unfold mbuilt. simpl. rewrite S1, S, C1, C. auto 10.
    - (* chain *)
      destruct Hok as [Hl Hr].
      destruct (build_multi l) as [tl|] eqn:El; cbn [rbind] in H; [|discriminate].
      destruct (build_multi r) as [tr|] eqn:Er; cbn [rbind] in H; [|discriminate].
      destruct (IHl tl Hl eq_refl) as (Sl & Wl & El0 & Cl & Shl). destruct (IHr tr Hr eq_refl) as (Sr & Wr & Er0 & Cr & Shr).
      unfold chain_apply_e in H.
      destruct (engine_eqb (engine_of tl) (engine_of tr)) eqn:Ee; cbn [negb] in H; [|discriminate].
      destruct (bool_decide (columns tl = columns tr)) eqn:Ecs; cbn [negb] in H; [|discriminate].
      apply bool_decide_eq_true in Ecs. apply engine_eqb_eq in Ee.
      unfold append_binary_e in H. destruct (ekind_of (engine_of tl)) eqn:Ek.
      + injection H as <-. unfold mbuilt. simpl. unfold sem_chain, kiter. rewrite Sl, Sr, <- Ee, Ek. auto 12.
      + pose proof (shape_kind env tl Shl) as Gl. rewrite Ek in Gl.
        pose proof (shape_kind env tr Shr) as Gr. rewrite <- Ee, Ek in Gr.
        rewrite (good_all_conform env tl Gl), (good_all_conform env tr Gr) in H. cbn [rbind] in H.
        unfold append_binary_sel in H.
        destruct (append_chain_sound env (conform_n (Nat.pred reconform_depth)) tl tr t Gl Gr Ecs) as (G & S & C & E); [exact Ee|exact H|].
        destruct (good_all_wf env t G) as [W1 E1].
        unfold mbuilt. simpl. rewrite S, Sl, Sr, C, Cl. repeat split; auto.
        apply shape_of_good; [rewrite E; exact Ek|exact G].
    - (* join *)
      destruct Hok as (Hl & Hr & Hjs).
      destruct (build_multi l) as [tl|] eqn:El; cbn [rbind] in H; [|discriminate].
      destruct (build_multi r) as [tr|] eqn:Er; cbn [rbind] in H; [|discriminate].
      destruct (IHl tl Hl eq_refl) as (Sl & Wl & El0 & Cl & Shl). destruct (IHr tr Hr eq_refl) as (Sr & Wr & Er0 & Cr & Shr).
      assert (Hres : sem_tree env t = sem_join (natural_common (columns tl) (columns tr)) (default (PLit true) pr) (sem_tree env tl) (sem_tree env tr) ∧
                     columns t = columns tl ∪ columns tr ∧ wf_tree t ∧ env_ok env t ∧ shape_ok env t ∧ engine_of t = engine_of tl).
      { destruct (Hjs tl tr eq_refl eq_refl) as [He|(-> & Hk & Ntl & Ntr & Hcons)].
        - apply (same_engine_join env (default (PLit true) pr) tr tl jb jt t); auto.
        - apply (cross_engine_join env (default (PLit true) pr) tr tl jb t); auto. }
      destruct Hres as (S1 & S2 & S3 & S4 & S5 & S6).
      unfold mbuilt. simpl. rewrite S1, S2, Sl, Sr, Cl, Cr. auto 10.
    - (* materialization *)
      destruct (build_multi p) as [t0|] eqn:Eb; cbn [rbind] in H; [|discriminate].
      destruct (IH t0 Hok eq_refl) as (S & W & E & C & Sh).
      unfold materialize_e in H. destruct (ekind_of (engine_of t0)) eqn:Ek.
      + injection H as <-. unfold materialize_generic. destruct (mat_simplify t0); unfold mbuilt, kiter; simpl; auto 10.
      + pose proof (shape_kind env t0 Sh) as G. rewrite Ek in G.
        unfold sql_materialize in H. rewrite (good_all_conform env t0 G) in H. cbn [rbind] in H.
        destruct (order_loss t0); [discriminate|].
        unfold materialize_generic in H. destruct (mat_simplify t0).
        * rewrite (good_all_conform env t0 G) in H. injection H as <-. unfold mbuilt. simpl. auto 10.
        * change (conform (Mat n t0)) with (select_of (Mat n t0)) in H.
          destruct (select_of_good env (Mat n t0) t W E I H) as (S1 & S2 & S3 & S4).
          destruct (good_all_wf env t S1) as [W1 E1]. simpl in S2, S3, S4.
          unfold mbuilt. simpl. rewrite S2, S3. repeat split; auto.
          apply shape_of_good; [rewrite S4; exact Ek|exact S1].
    - (* transfer *)
      destruct Hok as [Hok Hnr].
      destruct (build_multi p) as [t0|] eqn:Eb; cbn [rbind] in H; [|discriminate].
      destruct (IH t0 Hok eq_refl) as (S & W & E & C & Sh).
      pose proof (Hnr t0 eq_refl) as Hx0.
      assert (Hx : ekind_of d = KSql → ∀ x, xfer_simplify d t0 = Some x → good_all env x) by (intros _ x Hxx; congruence).
      destruct (transfer_e_sound env d t0 t W E (shape_tree_ok env t0 Sh) Hx H) as (T1 & T2 & T3 & T4 & T5 & T6).
      unfold mbuilt. simpl. rewrite T1, T2. repeat split; auto.
      destruct (ekind_of d) eqn:Ekd.
      + unfold transfer_e in H. rewrite Ekd in H. unfold transfer_generic in H.
        destruct (engine_eqb (engine_of t0) d); [injection H as <-; exact Sh|].
        rewrite Hx0 in H. cbn [default from_option id] in H.
        destruct (engine_eqb (engine_of t0) d); [injection H as <-; exact Sh|].
        assert (Hc : conform_e t0 = Ok t0).
        { unfold conform_e. pose proof (shape_kind env t0 Sh) as G. destruct (ekind_of (engine_of t0)); auto. eapply good_all_conform; eauto. }
        rewrite Hc in H. cbn [rbind] in H. injection H as <-. simpl. auto.
      + apply shape_of_good; [rewrite T6; exact Ekd|]. unfold tree_ok in T5. rewrite T6, Ekd in T5. exact T5.
  Qed.
End MixedPrograms.
