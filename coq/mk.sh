#!/bin/sh
# regenerate the Makefile from the files present and build (full .vo build)
cd "$(dirname "$0")"
coq_makefile -f _CoqProject $(find Lib Spec Gen Model Proofs Properties -name '*.v' | sort) -o Makefile >/dev/null 2>&1
exec timeout ${MK_TIMEOUT:-1500} make -k -j${MK_JOBS:-12} "$@"
