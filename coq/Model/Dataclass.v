(* CPython's dataclass hashing rules and the policy for write sites, applied to the tables
   generated from the package source (Gen/Dataclasses.v, Gen/WriteSites.v). *)
From DR Require Export Spec.StaticTables Gen.Dataclasses Gen.WriteSites.
From Coq Require Import String List Bool.
Import ListNotations.
Local Open Scope string_scope.

Definition find_class (n : string) : option dclass :=
  List.find (fun c => String.eqb (dc_name c) n) dataclass_table.

(* Does the class get a usable __hash__?  (dataclasses: eq and frozen -> generated from the compare
   fields; eq and not frozen -> __hash__ = None unless unsafe_hash or an explicit __hash__;
   eq=False -> inherited, identity-based unless a base says otherwise.) *)
Definition class_hash_defined (c : dclass) : bool :=
  dc_explicit_hash c || dc_unsafe_hash c || negb (dc_eq c) || dc_frozen c.

(* Is the value stored in a compare field hashable, as the factories construct it? *)
Definition field_hashable (cls : string) (f : dfield) : bool :=
  if negb (df_compare f) then true
  else match df_kind f with
       | TAtom | TTuple | TFrozenset => true
       | TSequence =>
           (* a declared Sequence: hashable iff every construction site in the package stores a tuple *)
           let sites := List.filter (fun s => String.eqb (fst (fst s)) cls && String.eqb (snd (fst s)) (df_name f)) sequence_sites in
           negb (Nat.eqb (List.length sites) 0) && forallb (fun s => snd s) sites
       | TMutable | TUnknown => false
       end.

Definition generated_hash (c : dclass) : bool := dc_eq c && dc_frozen c && negb (dc_explicit_hash c).

Definition class_hashable (c : dclass) : bool :=
  class_hash_defined c && (negb (generated_hash c) || forallb (field_hashable (dc_name c)) (dc_fields c)).

(* every class whose instances the factories put into relation trees *)
Definition tree_classes : list string :=
  ["LeafRelation"; "UnaryOperationRelation"; "BinaryOperationRelation"; "MarkerRelation"; "Materialization"; "Transfer"; "Select";
   "Calculation"; "Deduplication"; "Projection"; "Selection"; "Slice"; "Sort"; "SortTerm"; "Chain"; "Join";
   "ColumnLiteral"; "ColumnReference"; "ColumnFunction"; "PredicateFunction"; "PredicateLiteral"; "PredicateReference";
   "LogicalNot"; "LogicalAnd"; "LogicalOr"; "ColumnRangeLiteral"; "ColumnExpressionSequence"; "ColumnInContainer"].

Definition all_tree_classes_hashable : bool :=
  forallb (fun n => match find_class n with Some c => class_hashable c | None => false end) tree_classes.

(* ---- write sites ---- *)
Definition ends_with (suffix s : string) : bool :=
  let n := String.length s in let m := String.length suffix in
  Nat.leb m n && String.eqb (String.substring (n - m) m s) suffix.

Definition site_allowed (w : wsite) : bool :=
  match ws_prov w with
  | PFresh | PCopy | PFreshAttr | PImmutable => true      (* the object written to was created in this very call *)
  | PSelfAttr attr =>
      ends_with ".__init__" (ws_where w) || ends_with ".__post_init__" (ws_where w)
      || (ends_with "GenericConcreteEngine.get_relation_name" (ws_where w) && String.eqb attr "relation_name_counter")
  | PSetattr who attr =>
      String.eqb who "self" &&
      ((ends_with "MarkerRelation.attach_payload" (ws_where w) && String.eqb attr "payload")        (* the write-once slot (C10) *)
       || (ends_with "LeafRelation.__post_init__" (ws_where w) && String.eqb attr "name")
       || (ends_with "Selection.__post_init__" (ws_where w) && String.eqb attr "predicate"))
  | PParam => ends_with "Engine.handle_empty_columns" (ws_where w)     (* documented in-place helper on a caller-owned list *)
  | PUnknown _ => ends_with "::_copy_relation_docs" (ws_where w)       (* import-time docstring copy onto functions *)
  end.

Definition all_write_sites_confined : bool := forallb site_allowed write_sites.
