(* Payload store: materialization payloads are attributes of shared node objects.  The model keys
   them by the materialization's name and threads the store through execute(), so that a node
   shared by several trees (or occurring twice in one tree) is seen with the payload an earlier
   evaluation attached. *)
From DR Require Export Model.IterExec.
Local Open Scope Z_scope.

Definition payload := (nat * rows)%type.           (* (identity: index of the event that wrote it, content) *)
Definition store := gmap positive payload.

Record xstate := XS { xs_store : store; xs_evals : list positive }.   (* evals: upstream evaluations, in order *)

Section Exec.
  Variable env : lenv.
  Variable stamp : nat.          (* identity given to payloads written during this call *)

  Fixpoint exec_s (t : tree) (s : xstate) : result rows * xstate :=
    if bool_decide (max_rows t = Some 0) then (Ok [], s)
    else if is_join_identity t then (Ok [∅], s)
    else
    match t with
    | Leaf n _ _ _ _ => (Ok (env n), s)
    | Un o t' =>
        let '(r, s1) := exec_s t' s in
        (match r with Ok l => Ok (exec_op o (columns t) l) | Err e => Err e end, s1)
    | Bin Chain l r =>
        let '(a, s1) := exec_s l s in
        match a with
        | Err e => (Err e, s1)
        | Ok la => let '(b, s2) := exec_s r s1 in
                   (match b with Ok lb => Ok (la ++ lb) | Err e => Err e end, s2)
        end
    | Bin (Join _ _) _ _ => (Err EngineError, s)
    | Mat n t' =>
        match xs_store s !! n with
        | Some p => (Ok (snd p), s)                          (* cached rows: no evaluation *)
        | None =>
            let '(r, s1) := exec_s t' s in
            match r with
            | Ok l =>
                match xs_store s1 !! n with
                | None => (Ok l, XS (<[n := (stamp, l)]> (xs_store s1)) (xs_evals s1 ++ [n]))
                | Some _ => (Err TypeError, s1)      (* attach_payload on a node that got one meanwhile *)
                end
            | Err e => (Err e, s1)
            end
        end
    | Xfer _ t' => match ekind_of (engine_of t') with KIter => exec_s t' s | KSql => (Err EngineError, s) end
    | SelM _ _ t' => exec_s t' s
    end.
End Exec.

(* histories *)
Inductive event :=
| EvExec (t : tree)
| EvAttach (t : tree) (content : rows).     (* relation.attach_payload(...) on the root node of t *)

Inductive outcome := OkRows (l : rows) | OkUnit | Raised (e : err).

Definition attach (t : tree) (content : rows) (stamp : nat) (s : xstate) : outcome * xstate :=
  match t with
  | Mat n _ =>
      match xs_store s !! n with
      | None => (OkUnit, XS (<[n := (stamp, content)]> (xs_store s)) (xs_evals s))
      | Some _ => (Raised TypeError, s)
      end
  | _ => (Raised TypeError, s)           (* leaves, operation relations: BaseRelation.attach_payload *)
  end.

Definition do_event (env : lenv) (k : nat) (ev : event) (s : xstate) : outcome * xstate :=
  match ev with
  | EvExec t => let '(r, s') := exec_s env k t s in (match r with Ok l => OkRows l | Err e => Raised e end, s')
  | EvAttach t c => attach t c k s
  end.

Fixpoint run_hist (env : lenv) (k : nat) (h : list event) (s : xstate) : list outcome * xstate :=
  match h with
  | [] => ([], s)
  | ev :: h' => let '(o, s1) := do_event env k ev s in
                let '(os, s2) := run_hist env (S k) h' s1 in (o :: os, s2)
  end.
