(* Checker for C19: a sequential history of name requests on several engines with known uuid
   values: the model's names equal the real ones (bit 1); the real names are pairwise distinct
   and carry their prefix (bit 4). *)
From DR Require Export Model.Names.
From Coq Require Import NArith Bool.
Import ListNotations.
Local Open Scope list_scope.
Local Open Scope bool_scope.

Record name_case := NCase {
  nc_engines : nat;
  nc_reqs : list (nat * string);           (* (engine, prefix) in call order *)
  nc_uuids : list string;                  (* hex of the k-th uuid4() *)
  nc_names : list string }.                (* names the library returned *)

Definition list_ascii_eqb (a b : list ascii) : bool :=
  if list_eq_dec ascii_dec a b then true else false.

Fixpoint nodupb (l : list (list ascii)) : bool :=
  match l with [] => true | x :: r => negb (existsb (list_ascii_eqb x) r) && nodupb r end.

Fixpoint is_prefix (p l : list ascii) : bool :=
  match p, l with
  | [], _ => true
  | a :: p', b :: l' => (if ascii_dec a b then true else false) && is_prefix p' l'
  | _, _ => false
  end.

Definition check_names (c : name_case) : N :=
  let u := fun k => chars (nth k (nc_uuids c) ""%string) in
  let reqs := map (fun r => (fst r, chars (snd r))) (nc_reqs c) in
  (* sequential schedule: each request runs to completion *)
  let sched := concat (map (fun i => repeat i (length call_program)) (seq 0 (length reqs))) in
  let w := run u sched (init (nc_engines c) reqs) in
  let real := map chars (nc_names c) in
  let c1 := if Nat.eqb (length real) (length (names w)) && forallb (fun ab => list_ascii_eqb (fst ab) (snd ab)) (combine (names w) real) then 0%N else 1%N in
  let c4 := if nodupb real && forallb (fun pr => is_prefix (snd (fst pr)) (snd pr)) (combine reqs real) then 0%N else 4%N in
  (c1 + c4)%N.
