(* Programs = sequences/trees of public factory calls, and the trees the library builds for
   them (engines that use the default append_unary/append_binary, i.e. the iteration engine). *)
From DR Require Export Spec.Prog Model.WF Model.Eqb.
Local Open Scope Z_scope.

(* Materialization.simplify *)
Fixpoint mat_simplify (t : tree) : bool :=
  match t with
  | Mat _ _ | Leaf _ _ _ _ _ => true
  | Xfer d t' => if engine_eqb d (engine_of t') then mat_simplify t' else false
  | SelM _ _ t' => mat_simplify t'
  | _ => false
  end.

(* Transfer.simplify *)
Fixpoint xfer_simplify (dest : engine) (t : tree) : option tree :=
  match t with
  | Xfer _ t' => if engine_eqb dest (engine_of t') then Some t' else xfer_simplify dest t'
  | SelM _ _ t' => xfer_simplify dest t'
  | _ => None
  end.

Definition materialize_generic (name : positive) (t : tree) : tree :=
  if mat_simplify t then t else Mat name t.

Definition transfer_generic (conform : tree -> result tree) (dest : engine) (t : tree) : result tree :=
  (* a relation already in the destination engine is returned as it is (before any there-and-back simplification) *)
  if engine_eqb (engine_of t) dest then Ok t else
  let t1 := default t (xfer_simplify dest t) in
  if engine_eqb (engine_of t1) dest then Ok t1
  else do c <- conform t1; Ok (Xfer dest c).

Definition chain_apply (l r : tree) : result tree :=
  if negb (engine_eqb (engine_of l) (engine_of r)) then Err EngineError
  else if negb (bool_decide (columns l = columns r)) then Err ColumnError
  else Ok (Bin Chain l r).

Definition leaf_make (name : positive) (eng : engine) (cols : gset tag) (mn : Z) (mx : option Z) : result tree :=
  match mx with
  | Some m => if m <? mn then Err ValueError else Ok (Leaf name eng cols mn mx)
  | None => Ok (Leaf name eng cols mn mx)
  end.

Fixpoint build_iter (p : prog) : result tree :=
  match p with
  | PLeaf n e cs mn mx => leaf_make n e cs mn mx
  | PUn o p' => do t <- build_iter p'; do o' <- construct o; apply_simple o' t
  | PItem a b s p' => do t <- build_iter p'; getitem a b s t
  | PChain l r => do tl <- build_iter l; do tr <- build_iter r; chain_apply tl tr
  | PMat n p' => do t <- build_iter p'; Ok (materialize_generic n t)
  | PXfer d p' => do t <- build_iter p'; transfer_generic Ok d t
  end.

