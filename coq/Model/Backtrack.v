(* Model of UnaryOperation.apply with its preferred-engine options, iteration.Engine.backtrack_unary,
   Join/PartialJoin application, and the engines' append_unary/append_binary dispatch. *)
From DR Require Export Spec.MProg Model.Commute.
Local Open Scope Z_scope.


(* ---- Join._begin_apply ---- *)
Definition common_columns (j : joinspec) (lcols rcols : gset tag) : result (gset tag) :=
  if j_resolved j then Ok (j_min j)
  else
    let c0 := filter (fun t => is_key t = true) (lcols ∩ rcols) in
    let c := match j_max j with Some m => c0 ∩ m | None => c0 end in
    if bool_decide (j_min j ⊆ c) then Ok c else Err ColumnError.

Definition join_begin (j : joinspec) (l r : tree) : result bop' :=
  if negb (bool_decide (cols_p (j_pred j) ⊆ columns l ∪ columns r)) then Err ColumnError
  else
    do c <- (if j_resolved j then
               if negb (bool_decide (j_min j ⊆ columns l)) then Err ColumnError
               else if negb (bool_decide (j_min j ⊆ columns r)) then Err ColumnError
               else Ok (j_min j)
             else common_columns j (columns l) (columns r));
    if bool_decide (as_trivial (j_pred j) = Some true) && is_join_identity l then Ok (BIgnore true)
    else if bool_decide (as_trivial (j_pred j) = Some true) && is_join_identity r then Ok (BIgnore false)
    else Ok (BJoin (j_pred j) c).

(* engines *)
Definition conform_e (t : tree) : result tree :=
  match ekind_of (engine_of t) with KSql => conform t | KIter => Ok t end.

Definition append_binary_e (b : bop') (l r : tree) : result tree :=
  match ekind_of (engine_of l) with
  | KIter =>
      match b with
      | BChain => Ok (Bin Chain l r)
      | BJoin p c => join_finish conform p c l r
      | BIgnore il => Ok (if il then r else l)
      end
  | KSql => do cl <- conform l; do cr <- conform r; append_binary_sel b cl cr
  end.

(* Join.apply(lhs, rhs) *)
Definition join_apply (j : joinspec) (l r : tree) : result tree :=
  do b <- join_begin j l r; append_binary_e b l r.

Definition chain_apply_e (l r : tree) : result tree :=
  if negb (engine_eqb (engine_of l) (engine_of r)) then Err EngineError
  else if negb (bool_decide (columns l = columns r)) then Err ColumnError
  else append_binary_e BChain l r.

(* Engine.append_unary *)
Definition append_unary_e (r : req) (t : tree) : result tree :=
  match ekind_of (engine_of t) with
  | KIter =>
      match r with
      | RUn o => finish_apply o t
      | RJoin j f lhs => if lhs then join_apply j f t else join_apply j t f
      end
  | KSql =>
      do c <- conform t;
      match r with
      | RUn o => append_unary_sel o c
      | RJoin j f lhs =>
          do cf <- conform f;
          if lhs then append_binary_sel (BJoin (j_pred j) (j_min j)) cf c
          else append_binary_sel (BJoin (j_pred j) (j_min j)) c cf
      end
  end.

(* _begin_apply of the request: the operation actually applied and the engine actually preferred *)
Definition req_begin (r : req) (t : tree) (pref : option engine) : result (req * engine) :=
  match r with
  | RUn o =>
      do o' <- begin_apply o (columns t);
      match o' with
      | Ident => Ok (RUn Ident, engine_of t)
      | _ => Ok (RUn o', default (engine_of t) pref)
      end
  | RJoin j f lhs =>
      do c <- common_columns j (columns f) (columns t);
      let j' := JSpec (j_pred j) c (Some c) in
      if negb (bool_decide (pjoin_required j' f ⊆ columns t)) then Err ColumnError
      else Ok (RJoin j' f lhs, default (engine_of f) pref)
  end.

(* Engine.transfer of the destination engine *)
Definition transfer_e (dest : engine) (t : tree) : result tree :=
  match ekind_of dest with
  | KIter => transfer_generic conform_e dest t
  | KSql => sql_transfer conform_e dest t
  end.

Definition materialize_e (name : positive) (t : tree) : result tree :=
  match ekind_of (engine_of t) with
  | KIter => Ok (materialize_generic name t)
  | KSql => sql_materialize name t
  end.

(* the tail of apply, given the engine's backtracking function *)
Definition apply_with (bt : req -> tree -> engine -> result (tree * bool))
    (r : req) (t : tree) (o : opts) : result tree :=
  do rp <- req_begin r t (o_pref o);
  let '(r', pref) := rp in
  if engine_eqb pref (engine_of t) then append_unary_e r' t
  else
    do bd <- (if o_backtrack o then bt r' t pref else Ok (t, false));
    let '(res, done) := bd in
    if (done : bool) then Ok res
    else
      do res2 <- (if o_transfer o then transfer_e pref res
                  else if o_require o then Err EngineError else Ok res);
      append_unary_e r' res2.

(* iteration.Engine.backtrack_unary (the base Engine's version just reports failure) *)
Fixpoint backtrack (r : req) (t : tree) (pref : engine) {struct t} : result (tree * bool) :=
  if is_locked t then Ok (t, false) else
  match t with
  | Un cur t' =>
      let c := commute r cur (columns t') in
      match c_first c with
      | None => Ok (t, c_done c)
      | Some r1 =>
          do ud <- backtrack r1 t' pref;
          let '(up, done) := ud in
          do res <- (if done then
                       if tree_eqb up t' && uop_eqb (c_second c) cur then Ok t else finish_apply (c_second c) up
                     else if tree_eqb up t' then Ok t
                     else
                       (* only part of the first operation was inserted upstream: the original operation is
                          re-applied to it if it still can be, otherwise the partial insertion is dropped *)
                       match apply_simple cur up with
                       | Ok res => Ok res
                       | Err ColumnError => Ok t
                       | Err e => Err e
                       end);
          Ok (res, done && c_done c)
      end
  | Bin _ _ _ => Ok (t, false)
  | Xfer d t' =>
      if engine_eqb (engine_of t') pref then
        (* transfer.reapply(operation.apply(target)) *)
        do a <- apply_with (fun r2 t2 p2 =>
                   match ekind_of (engine_of t') with
                   | KIter => backtrack r2 t' p2
                   | KSql => Ok (t2, false)
                   end) r t' default_opts;
        Ok (Xfer d a, true)
      else
        match ekind_of (engine_of t') with
        | KIter => do ud <- backtrack r t' pref; let '(up, done) := ud in Ok (Xfer d up, done)
        | KSql => Ok (t, false)
        end
  | _ => Err NotImplemented
  end.

Definition backtrack_e (r : req) (t : tree) (pref : engine) : result (tree * bool) :=
  match ekind_of (engine_of t) with
  | KIter => backtrack r t pref
  | KSql => Ok (t, false)
  end.

Definition apply_full (r : req) (t : tree) (o : opts) : result tree := apply_with backtrack_e r t o.

(* ---- building the tree of a multi-engine program ---- *)
Fixpoint build_multi (p : mprog) : result tree :=
  match p with
  | MpLeaf n e cs mn mx =>
      do t <- leaf_make n e cs mn mx;
      match ekind_of e with KSql => select_of t | KIter => Ok t end
  | MpUn o op p' => do t <- build_multi p'; do o' <- construct o; apply_full (RUn o') t op
  | MpItem a b s p' =>
      do t <- build_multi p';
      if negb (bool_decide (s = None) || bool_decide (s = Some 1)) then Err TypeError
      else do o <- construct (Slice (default 0 a) b); apply_full (RUn o) t default_opts
  | MpChain l r => do tl <- build_multi l; do tr <- build_multi r; chain_apply_e tl tr
  | MpJoin pr jb jt l r =>
      do tl <- build_multi l; do tr' <- build_multi r;
      (* Join(predicate).partial(rhs).apply(self, backtrack=, transfer=) *)
      apply_full (RJoin (JSpec (default (PLit true) pr) ∅ None) tr' false) tl (Opts None jb jt false)
  | MpMat n p' => do t <- build_multi p'; materialize_e n t
  | MpXfer d p' => do t <- build_multi p'; transfer_e d t
  end.
