(* Boolean structural equality on model terms — used only by the correspondence checks to
   compare what the model builds with what the implementation built. *)
From DR Require Export Model.Tree.
Local Open Scope Z_scope.

Fixpoint list_eqb {A} (eqb : A -> A -> bool) (l1 l2 : list A) : bool :=
  match l1, l2 with
  | [], [] => true
  | x :: l1', y :: l2' => eqb x y && list_eqb eqb l1' l2'
  | _, _ => false
  end.

Fixpoint expr_seqb (a b : expr) : bool :=
  match a, b with
  | ERef s, ERef t => Pos.eqb s t
  | ELit x, ELit y => Z.eqb x y
  | ENeg a1, ENeg b1 => expr_seqb a1 b1
  | EAdd a1 a2, EAdd b1 b2 | ESub a1 a2, ESub b1 b2 | EMul a1 a2, EMul b1 b2 => expr_seqb a1 b1 && expr_seqb a2 b2
  | ESupp i s a1, ESupp i' s' b1 => Bool.eqb i i' && Bool.eqb s s' && expr_seqb a1 b1
  | _, _ => false
  end.

Definition cmp_eqb (a b : cmp) : bool :=
  match a, b with
  | CEq, CEq | CNe, CNe | CLt, CLt | CLe, CLe | CGt, CGt | CGe, CGe => true
  | _, _ => false
  end.

Definition container_eqb (a b : container) : bool :=
  match a, b with
  | CRange x y z, CRange x' y' z' => Z.eqb x x' && Z.eqb y y' && Z.eqb z z'
  | CSeq l, CSeq l' => list_eqb expr_seqb l l'
  | _, _ => false
  end.

Fixpoint pred_eqb (p q : pred) : bool :=
  match p, q with
  | PLit a, PLit b => Bool.eqb a b
  | PRef s, PRef t => Pos.eqb s t
  | PCmp c a b, PCmp c' a' b' => cmp_eqb c c' && expr_seqb a a' && expr_seqb b b'
  | PNot a, PNot b => pred_eqb a b
  | PAnd l, PAnd l' | POr l, POr l' =>
      (fix go (l l' : list pred) : bool :=
         match l, l' with
         | [], [] => true
         | x :: m, y :: m' => pred_eqb x y && go m m'
         | _, _ => false
         end) l l'
  | PIn e c, PIn e' c' => expr_seqb e e' && container_eqb c c'
  | _, _ => false
  end.

Definition optz_eqb (a b : option Z) : bool := bool_decide (a = b).
Definition set_eqb (a b : gset tag) : bool := bool_decide (a = b).
Definition terms_eqb (a b : list (expr * bool)) : bool :=
  list_eqb (fun x y => expr_seqb (fst x) (fst y) && Bool.eqb (snd x) (snd y)) a b.

Definition uop_eqb (a b : uop) : bool :=
  match a, b with
  | Calc t e, Calc t' e' => Pos.eqb t t' && expr_seqb e e'
  | Dedup, Dedup => true
  | Proj c, Proj c' => set_eqb c c'
  | Sel p, Sel q => pred_eqb p q
  | Slice x y, Slice x' y' => Z.eqb x x' && optz_eqb y y'
  | Sort l, Sort l' => terms_eqb l l'
  | Ident, Ident => true
  | _, _ => false
  end.

Definition bop_eqb (a b : bop) : bool :=
  match a, b with
  | Chain, Chain => true
  | Join p c, Join p' c' => pred_eqb p p' && set_eqb c c'
  | _, _ => false
  end.

Definition slots_eqb (a b : selslots) : bool :=
  terms_eqb (s_sort a) (s_sort b) && bool_decide (s_proj a = s_proj b) && Bool.eqb (s_dedup a) (s_dedup b)
  && Z.eqb (fst (s_slice a)) (fst (s_slice b)) && optz_eqb (snd (s_slice a)) (snd (s_slice b)).

Fixpoint tree_eqb (a b : tree) : bool :=
  match a, b with
  | Leaf n e c mn mx, Leaf n' e' c' mn' mx' =>
      Pos.eqb n n' && engine_eqb e e' && set_eqb c c' && Z.eqb mn mn' && optz_eqb mx mx'
  | Un o t, Un o' t' => uop_eqb o o' && tree_eqb t t'
  | Bin o l r, Bin o' l' r' => bop_eqb o o' && tree_eqb l l' && tree_eqb r r'
  | Mat n t, Mat n' t' => Pos.eqb n n' && tree_eqb t t'
  | Xfer d t, Xfer d' t' => engine_eqb d d' && tree_eqb t t'
  | SelM s k t, SelM s' k' t' => slots_eqb s s' && tree_eqb k k' && tree_eqb t t'
  | _, _ => false
  end.

Definition result_eqb {A} (eqb : A -> A -> bool) (x y : result A) : bool :=
  match x, y with
  | Ok a, Ok b => eqb a b
  | Err e, Err e' => bool_decide (e = e')
  | _, _ => false
  end.
