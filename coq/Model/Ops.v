(* Model of the unary operations' decision methods: flags, _begin_apply no-op tests,
   simplify/then.  Executable definitions only; Slice arithmetic comes from Gen (translated). *)
From DR Require Export Model.PredOps.
From DR Require Export Gen.Slice.
Local Open Scope Z_scope.

(* ---- flags ---- *)
Definition is_count_dependent (o : uop) : bool := match o with Slice _ _ => true | _ => false end.
Definition is_order_dependent (o : uop) : bool := match o with Slice _ _ => true | _ => false end.
Definition is_count_invariant (o : uop) : bool :=
  match o with Calc _ _ | Proj _ | Sort _ | Ident => true | _ => false end.
Definition is_empty_invariant (o : uop) : bool :=
  match o with Calc _ _ | Proj _ | Sort _ | Ident | Dedup => true | _ => false end.

Definition op_supported (k : ekind) (o : uop) : bool :=
  match o with
  | Calc _ e => supp_e k e
  | Sel p => supp_p k p
  | Sort ts => forallb (fun t => supp_e k (fst t)) ts
  | _ => true
  end.

(* ---- Sort.then ---- *)
Definition sort_then (self next : list (expr * bool)) : list (expr * bool) :=
  fold_left (fun acc t => if existsb (term_eqb t) acc then acc else acc ++ [t]) self next.

(* ---- simplify ---- *)
Inductive simp := SNone | SUpstream | SNew (o : uop) | SErr (e : err).

Definition simplify (self upstream : uop) : simp :=
  match self with
  | Slice a b =>
      match slice_begin a b with
      | BIdentity => SUpstream
      | _ => match upstream with
             | Slice ua ub => match slice_then ua ub a b with
                              | Ok (na, nb) => SNew (Slice na nb)
                              | Err e => SErr e
                              end
             | _ => SNone
             end
      end
  | Sort ts =>
      match ts with
      | [] => SUpstream
      | _ => match upstream with
             | Sort us => SNew (Sort (sort_then us ts))
             | _ => SNone
             end
      end
  | Sel p =>
      match upstream with
      | Sel q => SNew (Sel (selection_norm (logical_and [q; p])))
      | _ => SNone
      end
  | Proj cs =>
      match upstream with
      | Proj _ => SNew (Proj cs)
      | Calc t _ => if bool_decide (t ∈ cs) then SNone else SNew (Proj cs)
      | _ => SNone
      end
  | Ident => SUpstream
  | _ => SNone
  end.

(* the "does nothing" tests made by _begin_apply / _finish_apply *)
Definition is_noop (o : uop) (target_cols : gset tag) : bool :=
  match o with
  | Slice a b => match slice_finish a b with FTarget => true | FDefault => false end
  | Sort ts => match ts with [] => true | _ => false end
  | Sel p => match as_trivial p with Some true => true | _ => false end
  | Proj cs => bool_decide (cs = target_cols)
  | Ident => true
  | _ => false
  end.
