(* Checker for C16.  bit 1: tree differs from the model's; bit 2: the real Diagnostics verdict or
   message count differs from the model's; bit 4: the real verdict contradicts the specification
   (doomed with rows, doomed without message, or — with a truthful executor — empty but not doomed). *)
From DR Require Export Model.Diag.
Local Open Scope N_scope.

Record diag_case := DGCase {
  dg_prog : mprog;
  dg_env : list (positive * rows);
  dg_lmsgs : list (positive * nat);
  dg_tree : result tree;
  dg_static : bool * nat;          (* Diagnostics.run(relation) *)
  dg_exec : option (bool * nat) }. (* Diagnostics.run(relation, executor) with a truthful executor *)

Definition lookup_msgs (l : list (positive * nat)) (n : positive) : nat :=
  match List.find (fun kv => Pos.eqb (fst kv) n) l with Some kv => snd kv | None => 0%nat end.

Definition check_diag (c : diag_case) : N :=
  let env := mkenv (dg_env c) in
  let c1 := if result_eqb tree_eqb (build_multi (dg_prog c)) (dg_tree c) then 0 else 1 in
  match dg_tree c with
  | Ok t =>
      let lm := lookup_msgs (dg_lmsgs c) in
      let ex := fun s => match sem_tree env s with [] => false | _ => true end in
      let pair_eqb (a b : bool * nat) := Bool.eqb (fst a) (fst b) && Nat.eqb (snd a) (snd b) in
      let c2 := if pair_eqb (diag_run lm None t) (dg_static c)
                   && match dg_exec c with Some v => pair_eqb (diag_run lm (Some ex) t) v | None => true end
                then 0 else 2 in
      let empty := match spec_mprog env (dg_prog c) with [] => true | _ => false end in
      let c4 := if implb (fst (dg_static c)) empty && implb (fst (dg_static c)) (Nat.ltb 0 (snd (dg_static c)))
                   && match dg_exec c with
                      | Some (d, m) => Bool.eqb d empty && implb d (Nat.ltb 0 m)
                      | None => true
                      end
                then 0 else 4 in
      if kd_mprog env (dg_prog c) then c1 + c2 + c4 else 1000
  | Err _ => c1
  end.
