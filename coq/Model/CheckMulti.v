(* Checker for multi-engine build cases: bit 1 = the tree the library built (or the exception
   class it raised) differs from the model's. *)
From DR Require Export Model.Backtrack.
Local Open Scope N_scope.

Record build_case := BCase { bc_prog : mprog; bc_tree : result tree }.

Definition check_build (c : build_case) : N :=
  if result_eqb tree_eqb (build_multi (bc_prog c)) (bc_tree c) then 0 else 1.

(* rows obtained by processing + executing the built tree, against the specification.
   mode 0: exact list; 1: bag (an unordered SQL scan is involved); 2: row count only (a slice of
   unordered SQL rows is involved).  bit 1: tree differs from the model's; bit 4: rows contradict
   the specification; 1000: outside the key-determinedness domain. *)
Record mrow_case := MRCase {
  mr_prog : mprog;
  mr_env : list (positive * rows);
  mr_tree : result tree;
  mr_rows : result rows;
  mr_mode : N }.

Definition check_mrows (c : mrow_case) : N :=
  let env := mkenv (mr_env c) in
  let c1 := if result_eqb tree_eqb (build_multi (mr_prog c)) (mr_tree c) then 0 else 1 in
  match mr_tree c, mr_rows c with
  | Ok t, Ok l =>
      if negb (kd_mprog env (mr_prog c)) then 1000 else
      let s := spec_mprog env (mr_prog c) in
      let ok := match mr_mode c with
                | 0 => rows_eqb s l
                | 1 => bag_eqb s l
                | _ => Nat.eqb (length s) (length l)
                end in
      let colsok := forallb (fun r : row => bool_decide (dom r = columns t)) l in
      c1 + (if ok && colsok then 0 else 4)
  | _, _ => c1
  end.
