(* Checker for multi-engine build cases: bit 1 = the tree the library built (or the exception
   class it raised) differs from the model's. *)
From DR Require Export Model.Backtrack.
Local Open Scope N_scope.

Record build_case := BCase { bc_prog : mprog; bc_tree : result tree }.

Definition check_build (c : build_case) : N :=
  if result_eqb tree_eqb (build_multi (bc_prog c)) (bc_tree c) then 0 else 1.

(* rows obtained by processing + executing the built tree, against the specification.
   mode 0: exact list; 1: bag (an unordered SQL scan is involved); 2: row count only (a slice of
   unordered SQL rows is involved).  bit 1: tree differs from the model's; bit 4: rows contradict
   the specification; 1000: outside the key-determinedness domain. *)
Record mrow_case := MRCase {
  mr_prog : mprog;
  mr_env : list (positive * rows);
  mr_tree : result tree;
  mr_rows : result rows;
  mr_mode : N }.

Definition check_mrows (c : mrow_case) : N :=
  let env := mkenv (mr_env c) in
  let c1 := if result_eqb tree_eqb (build_multi (mr_prog c)) (mr_tree c) then 0 else 1 in
  match mr_tree c, mr_rows c with
  | Ok t, Ok l =>
      if negb (kd_mprog env (mr_prog c)) then 1000 else
      let s := spec_mprog env (mr_prog c) in
      let ok := match mr_mode c with
                | 0 => rows_eqb s l
                | 1 => bag_eqb s l
                | _ => Nat.eqb (length s) (length l)
                end in
      let colsok := forallb (fun r : row => bool_decide (dom r = columns t)) l in
      c1 + (if ok && colsok then 0 else 4)
  | _, _ => c1
  end.

(* C02/C11: rows returned by the database under both scan orders.  mode 0: the outermost level
   ends with a total sort (+ slices): exact list; mode 1: bag.  bit 1: tree differs; bit 4: the
   multiset (or list) of rows contradicts the specification, or a row has wrong columns. *)
Record sql_case := SQCase {
  sq_prog : mprog;
  sq_env : list (positive * rows);
  sq_tree : result tree;
  sq_rows_a : rows;
  sq_rows_b : rows;
  sq_mode : N }.

Definition check_sql (c : sql_case) : N :=
  let env := mkenv (sq_env c) in
  let c1 := if result_eqb tree_eqb (build_multi (sq_prog c)) (sq_tree c) then 0 else 1 in
  match sq_tree c with
  | Ok t =>
      if negb (kd_mprog env (sq_prog c)) then 1000 else
      let s := spec_mprog env (sq_prog c) in
      let ok l := match sq_mode c with 0 => rows_eqb s l | _ => bag_eqb s l end in
      let colsok l := forallb (fun r : row => bool_decide (dom r = columns t)) l in
      c1 + (if ok (sq_rows_a c) && ok (sq_rows_b c) && colsok (sq_rows_a c) && colsok (sq_rows_b c) then 0 else 4)
  | Err _ => c1
  end.

(* C17: a raw tree (assembled without the engine's help) conformed by the engine and executed on the
   database under both scan orders, judged against the specification of the program only (no model tree).
   mode 0: exact list; 1: bag.  bit 4: rows contradict the specification or have wrong columns. *)
Record raw_case := RAWCase {
  rw_prog : mprog;
  rw_env : list (positive * rows);
  rw_rows_a : rows;
  rw_rows_b : rows;
  rw_mode : N }.

Definition check_raw (c : raw_case) : N :=
  let env := mkenv (rw_env c) in
  if negb (kd_mprog env (rw_prog c)) then 1000 else
  let s := spec_mprog env (rw_prog c) in
  let ok l := match rw_mode c with 0 => rows_eqb s l | _ => bag_eqb s l end in
  let colsok l := forallb (fun r : row => bool_decide (dom r = mprog_cols (rw_prog c))) l in
  if ok (rw_rows_a c) && ok (rw_rows_b c) && colsok (rw_rows_a c) && colsok (rw_rows_b c) then 0 else 4.
