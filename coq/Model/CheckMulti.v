(* Checker for multi-engine build cases: bit 1 = the tree the library built (or the exception
   class it raised) differs from the model's. *)
From DR Require Export Model.Backtrack.
Local Open Scope N_scope.

Record build_case := BCase { bc_prog : mprog; bc_tree : result tree }.

Definition check_build (c : build_case) : N :=
  if result_eqb tree_eqb (build_multi (bc_prog c)) (bc_tree c) then 0 else 1.
