(* Checker for predicate/expression cases (C13, C12).  Codes: bit 1 = the library's folding /
   flattening / stored selection predicate / required columns differ from the model's;
   bit 4 = a value computed by the real library contradicts the specification. *)
From DR Require Export Model.Eqb Model.PredOps.
Local Open Scope N_scope.

Record pred_case := PCase {
  pc_pred : pred;
  pc_rows : list row;
  pc_triv : option bool;             (* Predicate.as_trivial() *)
  pc_flat : option (list pred);      (* flatten_logical_and(); None = False *)
  pc_sel : pred;                     (* Selection(p).predicate *)
  pc_cols : gset tag;                (* columns_required *)
  (* per row: iteration-engine callable on p, on the AND of the flattened conjuncts (None if flatten is
     False), on the stored selection predicate, and on p over the row restricted to cols *)
  pc_evals : list (option bool * option bool * option bool * option bool) }.

Definition optb_eqb (a b : option bool) : bool := bool_decide (a = b).

Definition check_pred (c : pred_case) : N :=
  let p := pc_pred c in
  let c1 :=
    if optb_eqb (as_trivial p) (pc_triv c)
       && match flatten_and p, pc_flat c with
          | Some l, Some l' => list_eqb pred_eqb l l'
          | None, None => true
          | _, _ => false
          end
       && pred_eqb (selection_norm p) (pc_sel c)
       && set_eqb (cols_p p) (pc_cols c)
    then 0 else 1 in
  let ok_row (rv : row * (option bool * option bool * option bool * option bool)) : bool :=
    let '(r, (e1, e2, e3, e4)) := rv in
    let v := evalp p r in
    if bool_decide (cols_p p ⊆ dom r) then
      optb_eqb e1 v
      && match pc_flat c with Some _ => optb_eqb e2 v | None => optb_eqb v (Some false) end
      && optb_eqb e3 v && optb_eqb e4 v
      && match pc_triv c with Some b => optb_eqb e1 (Some b) | None => true end
    else true in
  let c4 := if Nat.eqb (length (pc_rows c)) (length (pc_evals c))
               && forallb ok_row (combine (pc_rows c) (pc_evals c)) then 0 else 4 in
  c1 + c4.
