(* Model of sql.Engine.convert_column_expression / convert_predicate.  The range-literal arm is
   GENERATED from the source (Gen/SqlRange.v). *)
From DR Require Export Spec.SqlExpr Gen.SqlRange.
Local Open Scope Z_scope.

Fixpoint to_sql_e (e : expr) : sexpr :=
  match e with
  | ERef t => SCol t
  | ELit z => SLit z
  | ENeg a => SNeg (to_sql_e a)
  | EAdd a b => SAdd (to_sql_e a) (to_sql_e b)
  | ESub a b => SSub (to_sql_e a) (to_sql_e b)
  | EMul a b => SMul (to_sql_e a) (to_sql_e b)
  | ESupp _ _ a => to_sql_e a
  end.

Fixpoint to_sql_p (p : pred) : sexpr :=
  match p with
  | PLit b => SBool b
  | PRef t => SCol t
  | PCmp c a b => SCmp c (to_sql_e a) (to_sql_e b)
  | PNot q => SNot (to_sql_p q)
  | PAnd ps => match ps with
               | [] => SBool true
               | [q] => to_sql_p q
               | _ => SAnd ((fix go l := match l with [] => [] | q :: l' => to_sql_p q :: go l' end) ps)
               end
  | POr ps => match ps with
              | [] => SBool false
              | [q] => to_sql_p q
              | _ => SOr ((fix go l := match l with [] => [] | q :: l' => to_sql_p q :: go l' end) ps)
              end
  | PIn e (CRange a b s) => range_to_sql (to_sql_e e) a b s
  | PIn e (CSeq items) => SIn (to_sql_e e) (map to_sql_e items)
  end.

(* the ranges on which the translation of the CURRENT source is claimed correct
   (re-established by the proof on every run; see Proofs/SqlExprLaws.v) *)
Definition range_ok (a b s : Z) : bool := negb (s =? 0).   (* Python's range() rejects step 0 *)
Fixpoint pred_ranges_ok (p : pred) : bool :=
  match p with
  | PNot q => pred_ranges_ok q
  | PAnd ps | POr ps => (fix go l := match l with [] => true | q :: l' => pred_ranges_ok q && go l' end) ps
  | PIn _ (CRange a b s) => range_ok a b s
  | _ => true
  end.
