(* Checker for C12 cases.  bit 2: SQLite's answer differs from the model's evaluation of the
   model's translation (model ≍ implementation+database); bit 4: the iteration callable or the
   database contradicts direct evaluation (the specification). *)
From DR Require Export Model.Eqb Model.SqlConv Model.IterExpr.
Local Open Scope N_scope.

Record epred_case := EPCase {
  ep_pred : pred;
  ep_rows : list row;
  ep_iter : list (option bool);     (* iteration-engine callable, per row *)
  ep_sql : list (option bool) }.    (* row returned by SELECT ... WHERE <translation>, per row *)

Definition optb_eq (a b : option bool) : bool := bool_decide (a = b).
Definition optz_eq (a b : option Z) : bool := bool_decide (a = b).

Definition check_epred (c : epred_case) : N :=
  let p := ep_pred c in
  let n := length (ep_rows c) in
  if negb (Nat.eqb n (length (ep_iter c)) && Nat.eqb n (length (ep_sql c))) then 4 else
  let c2 := if forallb (fun rv => optb_eq (sholds (to_sql_p p) (fst rv)) (snd rv)) (combine (ep_rows c) (ep_sql c))
            then 0 else 2 in
  let c4 := if forallb (fun rv => optb_eq (evalp p (fst rv)) (snd rv)) (combine (ep_rows c) (ep_iter c))
               && forallb (fun rv => optb_eq (evalp p (fst rv)) (snd rv)) (combine (ep_rows c) (ep_sql c))
            then 0 else 4 in
  c2 + c4.

Record eexpr_case := EECase {
  ee_expr : expr;
  ee_rows : list row;
  ee_iter : list (option Z);
  ee_sql : list (option Z) }.

Definition check_eexpr (c : eexpr_case) : N :=
  let e := ee_expr c in
  let n := length (ee_rows c) in
  if negb (Nat.eqb n (length (ee_iter c)) && Nat.eqb n (length (ee_sql c))) then 4 else
  let c2 := if forallb (fun rv => optz_eq (seval (to_sql_e e) (fst rv)) (snd rv)) (combine (ee_rows c) (ee_sql c))
            then 0 else 2 in
  let c4 := if forallb (fun rv => optz_eq (eval e (fst rv)) (snd rv)) (combine (ee_rows c) (ee_iter c))
               && forallb (fun rv => optz_eq (eval e (fst rv)) (snd rv)) (combine (ee_rows c) (ee_sql c))
            then 0 else 4 in
  c2 + c4.
