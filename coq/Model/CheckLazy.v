(* Checker for C18.  The harness counts, per leaf name, iterations started during execute() and
   during each of two full iterations of the result.  bit 1: tree differs; bit 2: counts exceed
   the cost model's (an upper bound); bit 4: the documented laziness is violated (a lazy tree iterated a leaf at
   execute time, a leaf occurrence was iterated more than once in execute + one iteration, or the
   two iterations gave different rows / different costs, or a leaf below a sort / deduplication /
   materialization was read again after execute()). *)
From DR Require Export Model.Lazy.
Local Open Scope N_scope.

Record lazy_case := LZCase {
  lz_prog : prog;
  lz_tree : result tree;
  lz_exec : list (positive * nat);      (* per leaf: iterations started during execute() *)
  lz_iter1 : list (positive * nat);     (* ... during the first full iteration of the result *)
  lz_iter2 : list (positive * nat);     (* ... during the second *)
  lz_same_rows : bool }.

Definition count (n : positive) (l : list positive) : nat := length (List.filter (Pos.eqb n) l).
(* the cost model is an upper bound: early termination (a slice) may leave later leaves untouched *)
Definition counts_eqb (names : list positive) (model : list positive) (real : list (positive * nat)) : bool :=
  forallb (fun n => Nat.leb
                            (match List.find (fun kv => Pos.eqb (fst kv) n) real with Some kv => snd kv | None => 0%nat end)
                            (count n model)) names.
Definition get (real : list (positive * nat)) (n : positive) : nat :=
  match List.find (fun kv => Pos.eqb (fst kv) n) real with Some kv => snd kv | None => 0%nat end.

(* a materialization directly over a leaf payload (through transfers / materializations only) caches that very payload
   object: iterating the result iterates the leaf's own sequence, which is not a re-evaluation *)
Fixpoint direct_payload (t : tree) : bool :=
  match t with
  | Leaf _ _ _ _ _ => true
  | Xfer _ t' | Mat _ t' => direct_payload t'
  | _ => false
  end.

(* leaf occurrences with a flag: does an eager operation (sort, deduplication, materialization) sit above it? *)
Fixpoint leaves_under (eager : bool) (t : tree) : list (positive * bool) :=
  match t with
  | Leaf n _ _ _ _ => [(n, eager)]
  | Un o t' => leaves_under (eager || match o with Sort _ | Dedup => true | _ => false end) t'
  | Bin _ l r => leaves_under eager l ++ leaves_under eager r
  | Mat _ t' => leaves_under (eager || negb (direct_payload t')) t'
  | Xfer _ t' | SelM _ _ t' => leaves_under eager t'
  end.
(* leaves all of whose occurrences are consumed by an eager operation: never touched again after execute() *)
Definition consumed_only (t : tree) (n : positive) : bool :=
  forallb (fun kv => negb (Pos.eqb (fst kv) n) || snd kv) (leaves_under false t).

Definition check_lazy (c : lazy_case) : N :=
  let mt := build_iter (lz_prog c) in
  let c1 := if result_eqb tree_eqb mt (lz_tree c) then 0 else 1 in
  match mt with
  | Ok t =>
      let cst := cost_of (fun _ => KSeq) t in
      let names := leaf_occ t in
      let c2 := if counts_eqb names (c_exec cst) (lz_exec c) && counts_eqb names (c_iter cst) (lz_iter1 c)
                   && counts_eqb names (c_iter cst) (lz_iter2 c) then 0 else 2 in
      let c4 := if implb (lazy_tree t) (forallb (fun n => Nat.eqb (get (lz_exec c) n) 0) names)
                   && forallb (fun n => Nat.leb (get (lz_exec c) n + get (lz_iter1 c) n) (count n names)) names
                   && forallb (fun n => Nat.eqb (get (lz_iter1 c) n) (get (lz_iter2 c) n)) names
                   && forallb (fun n => negb (consumed_only t n)
                                        || (Nat.eqb (get (lz_iter1 c) n) 0 && Nat.eqb (get (lz_iter2 c) n) 0)) names
                   && lz_same_rows c then 0 else 4 in
      c1 + c2 + c4
  | Err _ => c1
  end.
