(* Node-local well-formedness of operations and trees, and truthfulness of leaf declarations. *)
From DR Require Export Model.Apply.
Local Open Scope Z_scope.

Definition slice_ok (a : Z) (b : option Z) : Prop :=
  0 <= a /\ match b with Some e => a <= e | None => True end.

(* an operation is well-formed on a relation with columns cs *)
Definition op_wf (o : uop) (cs : gset tag) : Prop :=
  match o with
  | Calc t e => cols_e e ⊆ cs ∧ t ∉ cs ∧ cols_e e ≠ ∅
  | Proj ps => ps ⊆ cs
  | Sel p => cols_p p ⊆ cs
  | Slice a b => slice_ok a b
  | Sort ts => op_required (Sort ts) ⊆ cs
  | Dedup => True
  | Ident => False          (* placeholders never appear as nodes *)
  end.

Fixpoint wf_tree (t : tree) : Prop :=
  match t with
  | Leaf _ _ _ mn mx => 0 <= mn ∧ match mx with Some m => mn <= m | None => True end
  | Un o t' => op_wf o (columns t') ∧ wf_tree t'
  | Bin Chain l r => columns l = columns r ∧ engine_of l = engine_of r ∧ wf_tree l ∧ wf_tree r
  | Bin (Join p c) l r =>
      c ⊆ columns l ∧ c ⊆ columns r ∧ cols_p p ⊆ columns l ∪ columns r ∧
      engine_of l = engine_of r ∧ wf_tree l ∧ wf_tree r
  | Mat _ t' => wf_tree t'
  | Xfer d t' => d ≠ engine_of t' ∧ wf_tree t'
  | SelM _ _ t' => wf_tree t'
  end.

(* the environment gives every leaf rows that match its declaration *)
Fixpoint env_ok (env : lenv) (t : tree) : Prop :=
  match t with
  | Leaf n _ cs mn mx =>
      Forall (fun r : row => dom r = cs) (env n) ∧
      mn <= Z.of_nat (length (env n)) ∧
      match mx with Some m => Z.of_nat (length (env n)) <= m | None => True end
  | Un _ t' | Mat _ t' | Xfer _ t' | SelM _ _ t' => env_ok env t'
  | Bin _ l r => env_ok env l ∧ env_ok env r
  end.
