(* What a commutation report must satisfy (C04), as executable functions over concrete rows. *)
From DR Require Export Model.Backtrack.
Local Open Scope Z_scope.

Definition sem_req (env : lenv) (r : req) (l : rows) : rows :=
  match r with
  | RUn o => sem_op o l
  | RJoin j f lhs =>
      if lhs then sem_join (j_min j) (j_pred j) (sem_tree env f) l
      else sem_join (j_min j) (j_pred j) l (sem_tree env f)
  end.

Definition req_columns (r : req) (cs : gset tag) : gset tag :=
  match r with RUn o => op_columns o cs | RJoin _ f _ => cs ∪ columns f end.

(* boolean well-formedness of an operation on a relation with columns cs (Ident allowed) *)
Definition op_wfb (o : uop) (cs : gset tag) : bool :=
  match o with
  | Calc t e => bool_decide (cols_e e ⊆ cs) && negb (bool_decide (t ∈ cs)) && negb (bool_decide (cols_e e = ∅))
  | Proj ps => bool_decide (ps ⊆ cs)
  | Sel p => bool_decide (cols_p p ⊆ cs)
  | Slice a b => (0 <=? a) && match b with Some e => a <=? e | None => true end
  | Sort ts => bool_decide (op_required (Sort ts) ⊆ cs)
  | Dedup | Ident => true
  end.
Definition req_wfb (r : req) (cs : gset tag) : bool :=
  match r with
  | RUn o => op_wfb o cs
  | RJoin j f _ => j_resolved j && bool_decide (pjoin_required j f ⊆ cs) && bool_decide (j_min j ⊆ columns f)
                   && bool_decide (cols_p (j_pred j) ⊆ cs ∪ columns f)
  end.

(* the equation a commutator must satisfy on the rows l of current.target *)
Definition commutator_ok (env : lenv) (new : req) (cur : uop) (tcols : gset tag) (c : commutator) (l : rows) : bool :=
  match c_first c with
  | None => uop_eqb (c_second c) cur && negb (c_done c)
  | Some f =>
      let l2 := sem_op (c_second c) (sem_req env f l) in
      (* a join lists its left operand's rows in the outer loop: with the FIXED operand on the left no operation on the
         other operand can restore that order, so such requests are judged as multisets *)
      let same := match new with RJoin _ _ true => bag_eqb | _ => rows_eqb end in
      req_wfb f tcols && op_wfb (c_second c) (req_columns f tcols)
      && same (if c_done c then l2 else sem_req env new l2) (sem_req env new (sem_op cur l))
  end.
