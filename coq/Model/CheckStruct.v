(* Checker for the structural properties of reachable trees (C14, C17).  bit 1: tree differs from
   the model's; bit 4: a node is not well-formed / engines inconsistent (C14); bit 8: a SELECT
   marker is not coherent with the nodes between it and its skip target (C17); bit 16: a
   SQL-engine result is not a SELECT marker (C17). *)
From DR Require Export Model.Reach.
Local Open Scope N_scope.

Record struct_case := STCase { st_prog : mprog; st_tree : result tree }.

Definition check_struct (c : struct_case) : N :=
  let c1 := if result_eqb tree_eqb (build_multi (st_prog c)) (st_tree c) then 0 else 1 in
  match st_tree c with
  | Ok t => c1 + (if wf_reach t then 0 else 4) + (if coherent_all t then 0 else 8) + (if conformed_root t then 0 else 16)
  | Err _ => c1
  end.

(* C15: a factory call on `input` (possibly with a second operand) returning `output` *)
Record locked_case := LKCase { lk_inputs : list tree; lk_output : tree }.
Definition check_locked (c : locked_case) : N :=
  if forallb (fun i => locked_preserved i (lk_output c)) (lk_inputs c) then 0 else 4.

(* per-property projections of the structural verdict *)
Definition check_struct_c14 (c : struct_case) : N :=
  let v := check_struct c in (if N.testbit v 0 then 1 else 0) + (if N.testbit v 2 then 4 else 0).
Definition check_struct_c17 (c : struct_case) : N :=
  let v := check_struct c in (if N.testbit v 0 then 1 else 0) + (if N.testbit v 3 then 8 else 0) + (if N.testbit v 4 then 16 else 0).

(* C20: an ill-formed last call must be rejected with the documented exception class *)
Record ill_case := ILCase { il_prog : mprog; il_impl : result tree; il_expected : list err }.
Definition check_ill (c : ill_case) : N :=
  let c1 := if result_eqb tree_eqb (build_multi (il_prog c)) (il_impl c) then 0 else 1 in
  let c4 := match il_impl c with
            | Err e => if existsb (fun x => bool_decide (x = e)) (il_expected c) then 0 else 4
            | Ok _ => 4
            end in
  c1 + c4.

(* C20, expressions restricted to some engine kinds, issued with preferred-engine options: the call may legitimately
   succeed when the operation ends up in an engine that supports it (backtracking or a transfer); otherwise it must be
   refused with EngineError.  bit 4: it returned a tree in which some operation sits in an engine that does not
   support its expressions (or is otherwise ill-formed), or raised another class. *)
Record supp_case := SUPCase { su_prog : mprog; su_impl : result tree }.
Definition check_supp (c : supp_case) : N :=
  let c1 := if result_eqb tree_eqb (build_multi (su_prog c)) (su_impl c) then 0 else 1 in
  let c4 := match su_impl c with
            | Ok t => if wf_reach t then 0 else 4
            | Err EngineError => 0
            | Err OrderLoss => 0       (* ill-formed twice over: an expression sort that would also bury an unsliced sort *)
            | Err _ => 4
            end in
  c1 + c4.
