(* Model of _columns/_predicate.py: constant folding, conjunction flattening, logical_and/or.
   Executable definitions only. *)
From DR Require Export Spec.Sem.

(* Predicate.as_trivial: Some b = "always b"; None = unknown *)
Fixpoint as_trivial (p : pred) : option bool :=
  match p with
  | PLit b => Some b
  | PRef _ | PCmp _ _ _ | PIn _ _ => None
  | PNot q => match as_trivial q with None => None | Some b => Some (negb b) end
  | PAnd ps =>
      (* result starts True; an operand False returns False at once; an operand None makes it None *)
      (fix go (ps : list pred) (acc : option bool) : option bool :=
         match ps with
         | [] => acc
         | q :: ps' => match as_trivial q with
                       | Some false => Some false
                       | None => go ps' None
                       | Some true => go ps' acc
                       end
         end) ps (Some true)
  | POr ps =>
      (fix go (ps : list pred) (acc : option bool) : option bool :=
         match ps with
         | [] => acc
         | q :: ps' => match as_trivial q with
                       | Some true => Some true
                       | None => go ps' None
                       | Some false => go ps' acc
                       end
         end) ps (Some false)
  end.

(* flatten_logical_and: None = the literal False of the Python function *)
Fixpoint flatten_and (p : pred) : option (list pred) :=
  match p with
  | PAnd ps =>
      (fix go (ps : list pred) : option (list pred) :=
         match ps with
         | [] => Some []
         | q :: ps' => match flatten_and q with
                       | None => None
                       | Some l => match go ps' with None => None | Some l' => Some (l ++ l') end
                       end
         end) ps
  | PLit true => Some []
  | PLit false => None
  | _ => Some [p]
  end.

Definition logical_and (ps : list pred) : pred :=
  match ps with [] => PLit true | [p] => p | _ => PAnd ps end.
Definition logical_or (ps : list pred) : pred :=
  match ps with [] => PLit false | [p] => p | _ => POr ps end.

(* Selection.__post_init__: the predicate a Selection stores *)
Definition selection_norm (p : pred) : pred :=
  match flatten_and p with Some qs => logical_and qs | None => p end.

(* engine support *)
Fixpoint supp_e (k : ekind) (e : expr) : bool :=
  match e with
  | ERef _ | ELit _ => true
  | ENeg a => supp_e k a
  | EAdd a b | ESub a b | EMul a b => supp_e k a && supp_e k b
  | ESupp it sql a => (match k with KIter => it | KSql => sql end) && supp_e k a
  end.
Definition supp_c (k : ekind) (c : container) : bool :=
  match c with CRange _ _ _ => true | CSeq items => forallb (supp_e k) items end.
Fixpoint supp_p (k : ekind) (p : pred) : bool :=
  match p with
  | PLit _ | PRef _ => true
  | PCmp _ a b => supp_e k a && supp_e k b
  | PNot q => supp_p k q
  | PAnd ps | POr ps => (fix go ps := match ps with [] => true | q :: ps' => supp_p k q && go ps' end) ps
  | PIn e c => supp_e k e && supp_c k c
  end.

(* dataclass equality of expressions: supporting_engine_types is compare=False *)
Fixpoint expr_eqb (a b : expr) : bool :=
  match a, b with
  | ERef s, ERef t => Pos.eqb s t
  | ELit x, ELit y => Z.eqb x y
  | ENeg a1, ENeg b1 => expr_eqb a1 b1
  | EAdd a1 a2, EAdd b1 b2 | ESub a1 a2, ESub b1 b2 | EMul a1 a2, EMul b1 b2 => expr_eqb a1 b1 && expr_eqb a2 b2
  | ESupp _ _ a1, ESupp _ _ b1 => expr_eqb a1 b1
  | _, _ => false
  end.
Definition term_eqb (a b : expr * bool) : bool := expr_eqb (fst a) (fst b) && Bool.eqb (snd a) (snd b).
