(* Model of Processor._process_recursive at the level of content and of the hook protocol:
   for every node, the rows that executing its processed version in its own engine yields; the
   hooks invoked (kind, engines, materialize_as, rows handed over); the materialization payloads
   attached to the ORIGINAL tree.  The structure of the rebuilt tree is not modelled. *)
From DR Require Export Model.Store Model.Reach.
Local Open Scope Z_scope.

(* the node (of the original tree) on whose behalf the hook is invoked, and the content handed over *)
Inductive hook :=
| HTransfer (node : tree) (mat_as : option positive) (content : rows)
| HMaterialize (node : tree) (content : rows).

Record pstate := PS { ps_store : gmap positive rows; ps_log : list hook }.

Definition has_payload (s : pstate) (t : tree) : option rows :=
  match t with
  | Leaf _ _ _ _ _ => None          (* leaves: handled by the environment *)
  | Mat n _ => ps_store s !! n
  | _ => None
  end.

Section Process.
  Variable env : lenv.

  (* -> (rows of the processed relation, persisted?, state) *)
  Fixpoint process (t : tree) (mat_as : option positive) (s : pstate) : rows * bool * pstate :=
    match t with
    | Leaf n _ _ _ _ => (env n, true, s)                       (* payload is not None: returned as is *)
    | Mat n t' =>
        match ps_store s !! n with
        | Some p => (p, true, s)
        | None =>
            let '(r, persisted, s1) := process t' (Some n) s in
            let '(payload, s2) :=
              if persisted then (r, s1)
              else if is_join_identity t then ([∅], s1)
              else if bool_decide (max_rows t = Some 0) then ([], s1)
              else (r, PS (ps_store s1) (ps_log s1 ++ [HMaterialize t r])) in
            (payload, true, PS (<[n := payload]> (ps_store s2)) (ps_log s2))
        end
    | Xfer d t' =>
        if is_join_identity t then ([∅], bool_decide (mat_as ≠ None), s)
        else if bool_decide (max_rows t = Some 0) then ([], bool_decide (mat_as ≠ None), s)
        else
          let '(r, _, s1) := process t' None s in
          (r, bool_decide (mat_as ≠ None), PS (ps_store s1) (ps_log s1 ++ [HTransfer t mat_as r]))
    | SelM _ _ t' => process t' mat_as s
    | Un o t' =>
        let '(r, _, s1) := process t' None s in (sem_op o r, false, s1)
    | Bin b l r =>
        let '(rl, pl, s1) := process l None s in
        let '(rr, pr, s2) := process r None s1 in
        match b with
        | Chain =>
            if bool_decide (max_rows l = Some 0) then (rr, pr, s2)
            else if bool_decide (max_rows r = Some 0) then (rl, pl, s2)
            else (rl ++ rr, false, s2)
        | Join p c => (sem_join c p rl rr, false, s2)
        end
    end.
End Process.

Fixpoint mat_names (t : tree) : list positive :=
  match t with
  | Leaf _ _ _ _ _ => []
  | Un _ t' | Xfer _ t' | SelM _ _ t' => mat_names t'
  | Bin _ l r => mat_names l ++ mat_names r
  | Mat n t' => n :: mat_names t'
  end.
