(* Model of the SQL engine's tree conformation: sql/_select.py (apply_skip, reapply_skip, strip)
   and sql/_engine.py (_append_unary_to_select, _append_binary_to_select, conform, materialize,
   transfer).  Executable definitions only. *)
From DR Require Export Model.Build.
Local Open Scope Z_scope.

(* ---- Select slots ---- *)
Definition no_slots : selslots := Slots [] None false (0, None).
Definition has_sort (sl : selslots) : bool := match s_sort sl with [] => false | _ => true end.
Definition has_proj (sl : selslots) : bool := match s_proj sl with Some _ => true | None => false end.
Definition has_dedup (sl : selslots) : bool := s_dedup sl.
Definition slice_nontrivial (s : Z * option Z) : bool :=
  negb (fst s =? 0) || match snd s with Some _ => true | None => false end.
Definition has_slice (sl : selslots) : bool := slice_nontrivial (s_slice sl).
Definition is_chain (t : tree) : bool := match t with Bin Chain _ _ => true | _ => false end.

(* Select.apply_skip: the managed operations are re-applied through _finish_apply *)
Definition apply_skip (sl : selslots) (skip : tree) : result tree :=
  do t1 <- (match s_sort sl with [] => Ok skip | ts => finish_apply (Sort ts) skip end);
  do t2 <- (match s_proj sl with Some cs => finish_apply (Proj cs) t1 | None => Ok t1 end);
  do t3 <- (if s_dedup sl then finish_apply Dedup t2 else Ok t2);
  do t4 <- (if slice_nontrivial (s_slice sl) then finish_apply (Slice (fst (s_slice sl)) (snd (s_slice sl))) t3 else Ok t3);
  Ok (SelM sl skip t4).

Definition select_of (skip : tree) : result tree := apply_skip no_slots skip.

(* accessors on a conformed relation (a SelM node) *)
Definition sel_slots (s : tree) : selslots := match s with SelM sl _ _ => sl | _ => no_slots end.
Definition sel_skip (s : tree) : tree := match s with SelM _ k _ => k | _ => s end.
Definition is_select (s : tree) : bool := match s with SelM _ _ _ => true | _ => false end.
Definition sel_compound (s : tree) : bool := is_chain (sel_skip s).

Definition with_sort (sl : selslots) v := Slots v (s_proj sl) (s_dedup sl) (s_slice sl).
Definition with_proj (sl : selslots) v := Slots (s_sort sl) v (s_dedup sl) (s_slice sl).
Definition with_dedup (sl : selslots) v := Slots (s_sort sl) (s_proj sl) v (s_slice sl).
Definition with_slice (sl : selslots) v := Slots (s_sort sl) (s_proj sl) (s_dedup sl) v.

(* Select.strip *)
Definition strip (s : tree) : tree * bool :=
  let sl := sel_slots s in
  if negb (has_dedup sl) && negb (has_sort sl) && negb (has_slice sl) && negb (sel_compound s)
  then (sel_skip s, has_proj sl) else (s, false).

(* operation._finish_apply(select): a Select is not a UnaryOperationRelation, so no simplification *)
Definition nest_unary (o : uop) (s : tree) : result tree :=
  do t <- finish_default o s; select_of t.

(* nest the select without its sort; the sort is re-applied outside (compound selects) *)
Definition nest_hoist_sort (o : uop) (sl : selslots) (skip : tree) : result tree :=
  if negb (bool_decide (op_required (Sort (s_sort sl)) ⊆ (match s_proj sl with Some ps => ps | None => columns skip end)))
  then Err OrderLoss else
  do sub <- apply_skip (with_sort sl []) skip;
  do t <- finish_default o sub;
  apply_skip (with_sort no_slots (s_sort sl)) t.

Definition is_colref (e : expr) : bool := match e with ERef _ => true | _ => false end.

(* _append_unary_to_select for the six unary operations (and Identity) *)
Fixpoint append_unary_sel (o : uop) (s : tree) {struct s} : result tree :=
  match s with
  | SelM sl skip tgt =>
      match o with
      | Calc tag e =>
          if is_chain skip || bool_decide (tag ∈ columns skip) then
            (if has_sort sl && negb (has_slice sl) then nest_hoist_sort o sl skip else nest_unary o s)
          else do k <- finish_apply o skip;
               if has_proj sl then apply_skip (with_proj sl (Some (columns s ∪ {[tag]}))) k
               else apply_skip sl k
      | Dedup =>
          if has_dedup sl then Ok s
          else if has_slice sl then apply_skip (with_dedup no_slots true) s
          else apply_skip (with_dedup sl true) skip
      | Proj cs =>
          (* the existing Sort needs a column this Projection drops and cannot stay with it in one SELECT: the operands
             of a UNION ALL get the Projection; under DISTINCT the Sort moves to the outer query with the Projection
             unless it needs a column the SELECT itself already hides *)
          if has_sort sl && negb (bool_decide (op_required (Sort (s_sort sl)) ⊆ cs)) &&
             (if has_dedup sl then negb (bool_decide (op_required (Sort (s_sort sl)) ⊆ columns s)) else is_chain skip)
          then (if has_slice sl then apply_skip (with_proj no_slots (Some cs)) s else Err OrderLoss)
          else
          if has_dedup sl then
            do sub <- apply_skip (with_slice (with_sort sl []) (0, None)) skip;
            apply_skip (Slots (s_sort sl) (Some cs) false (s_slice sl)) sub
          else
            match skip with
            | Bin Chain l r =>
                let branch (b : tree) : result tree :=
                  (* operation.apply(branch): _begin_apply, then the engine appends to the branch select *)
                  do o' <- begin_apply (Proj cs) (columns b);
                  match o' with Ident => Ok b | _ => append_unary_sel o' b end in
                do l' <- branch l; do r' <- branch r;
                apply_skip (with_proj sl None) (Bin Chain l' r')
            | _ => apply_skip (with_proj sl (Some cs)) skip
            end
      | Sel p =>
          if has_slice sl then nest_unary o s
          else if is_chain skip then nest_hoist_sort o sl skip
          else do k <- finish_apply o skip; apply_skip sl k
      | Slice a b =>
          do ns <- slice_then (fst (s_slice sl)) (snd (s_slice sl)) a b;
          apply_skip (with_slice sl ns) skip
      | Sort ts =>
          if is_chain skip && negb (forallb (fun t => is_colref (fst t)) ts) then
            (if has_sort sl && negb (has_slice sl) then Err OrderLoss else apply_skip (with_sort no_slots ts) s)
          else
          if has_slice sl then apply_skip (with_sort no_slots ts) s
          else apply_skip (with_sort sl (sort_then (s_sort sl) ts)) skip
      | Ident => Ok s
      end
  | _ => Err NotImplemented      (* callers always pass a conformed relation *)
  end.

(* binary operations as the engine receives them (after the operation's own _begin_apply) *)
Inductive bop' := BChain | BJoin (p : pred) (common : gset tag) | BIgnore (ignore_lhs : bool).

Definition order_loss (s : tree) : bool := has_sort (sel_slots s) && negb (has_slice (sel_slots s)).

(* other.with_rows_satisfying(predicate) as used by Join._finish_apply when one operand is the join
   identity and the predicate is not trivially true: _begin_apply, then the engine's append_unary.
   In the SQL engine the operand is conformed first; `cf` is the conformation function available
   at this nesting depth (see conform_n below). *)
Definition select_rows (cf : tree -> result tree) (p : pred) (t : tree) : result tree :=
  match as_trivial p with
  | Some true => Ok t
  | _ =>
      do o <- begin_apply (Sel (selection_norm p)) (columns t);
      match ekind_of (engine_of t) with
      | KIter => finish_apply o t
      | KSql => do c <- cf t; append_unary_sel o c
      end
  end.

Definition join_finish (cf : tree -> result tree) (p : pred) (c : gset tag) (l r : tree) : result tree :=
  if is_join_identity l then select_rows cf p r
  else if is_join_identity r then select_rows cf p l
  else if negb (engine_eqb (engine_of l) (engine_of r)) then Err EngineError
  else if negb (supp_p (ekind_of (engine_of l)) p) then Err EngineError
  else Ok (Bin (Join p c) l r).

Definition append_binary_sel_with (cf : tree -> result tree) (b : bop') (l r : tree) : result tree :=
  if order_loss l then Err OrderLoss
  else if order_loss r then Err OrderLoss
  else match b with
       | BChain =>
           do l' <- (if has_slice (sel_slots l) then select_of l else Ok l);
           do r' <- (if has_slice (sel_slots r) then select_of r else Ok r);
           select_of (Bin Chain l' r')
       | BJoin p c =>
           let '(nl0, lp0) := strip l in
           let '(nr0, rp0) := strip r in
           (* do not strip a projection that hides a column the other operand provides *)
           let '(nl, lp) := if bool_decide ((columns nl0 ∖ columns l) ∩ columns nr0 = ∅) then (nl0, lp0) else (l, false) in
           let '(nr, rp) := if bool_decide ((columns nr0 ∖ columns r) ∩ columns nl = ∅) then (nr0, rp0) else (r, false) in
           do j <- join_finish cf p c nl nr;
           apply_skip (with_proj no_slots (if lp || rp then Some (columns l ∪ columns r) else None)) j
       | BIgnore il => Ok (if il then r else l)
       end.

(* Engine.conform.  The identity-join path re-enters conform on a relation that is not a subterm;
   the model bounds the depth of such re-entries (exhaustion is reported as a gap of the model,
   never as a library result). *)
Fixpoint conform_n (n : nat) : tree -> result tree :=
  let cf := match n with O => (fun _ => Err ModelGap) | S n' => conform_n n' end in
  fix go (t : tree) : result tree :=
    match t with
    | SelM _ _ _ => Ok t
    | Un o t' => do c <- go t'; append_unary_sel o c
    | Bin Chain l r => do cl <- go l; do cr <- go r; append_binary_sel_with cf BChain cl cr
    | Bin (Join p c) l r => do cl <- go l; do cr <- go r; append_binary_sel_with cf (BJoin p c) cl cr
    | Xfer _ _ | Mat _ _ | Leaf _ _ _ _ _ => select_of t
    end.

Definition reconform_depth : nat := 6.
Definition conform (t : tree) : result tree := conform_n reconform_depth t.
Definition append_binary_sel (b : bop') (l r : tree) : result tree :=
  append_binary_sel_with (conform_n (Nat.pred reconform_depth)) b l r.

(* sql.Engine.materialize / transfer / leaves *)
Definition sql_materialize (name : positive) (t : tree) : result tree :=
  do c <- conform t;
  if order_loss c then Err OrderLoss else conform (materialize_generic name c).

Definition sql_transfer (conform_src : tree -> result tree) (dest : engine) (t : tree) : result tree :=
  do x <- transfer_generic conform_src dest t; conform x.
