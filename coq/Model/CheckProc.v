(* Checker for C07: the real Processor (hook log, payloads attached to the original tree, rows of the
   processed tree executed in its own engine; the same again for a second process() of the same
   tree) against the model `process` and against the specification.
   bit 1: built tree differs from the model's          bit 2: hooks / payload names differ from the model's
   bit 4: rows of the processed tree contradict the specification of the program
   bit 8: a hook was invoked with content that is not the content of its source, for a source the
          library itself reports as join identity / max_rows = 0, or for a source that still holds a
          transfer without payload (not evaluable by its own engine)
   bit 16: process() changed the original tree other than by attaching payloads to materializations,
           or the processed tree has other columns / another engine
   1000: outside the key-determinedness domain. *)
From DR Require Export Model.Proc Model.CheckMulti.
Local Open Scope N_scope.

Record hook_obs := HObs {
  ho_transfer : bool;
  ho_src : engine;
  ho_dest : option engine;
  ho_as : option positive;
  ho_tree : tree;            (* the source relation as handed to the hook, decoded *)
  ho_rows : rows;            (* what executing it yielded *)
  ho_mode : N;
  ho_trivial : bool }.       (* source.is_join_identity, source.max_rows == 0, or an upstream transfer lacks a payload *)

Record pass_obs := Pass { pa_hooks : list hook_obs; pa_rows : result rows; pa_named : list positive; pa_frame_ok : bool }.

Record proc_case := PCase {
  pc_prog : mprog;
  pc_env : list (positive * rows);
  pc_tree : result tree;
  pc_mode : N;
  pc_first : pass_obs;
  pc_second : pass_obs }.

Definition rows_cmp (mode : N) (a b : rows) : bool :=
  match mode with
  | 0 => rows_eqb a b
  | 1 => bag_eqb a b
  | 2 => Nat.eqb (length a) (length b)
  | _ => true
  end.

Definition opt_eqb {A} (f : A → A → bool) (a b : option A) : bool :=
  match a, b with Some x, Some y => f x y | None, None => true | _, _ => false end.

Definition hook_matches (h : hook) (o : hook_obs) : bool :=
  match h with
  | HTransfer (Xfer d t') mat_as c =>
      ho_transfer o && engine_eqb (engine_of t') (ho_src o) && opt_eqb engine_eqb (Some d) (ho_dest o)
      && opt_eqb Pos.eqb mat_as (ho_as o) && rows_cmp (ho_mode o) c (ho_rows o)
  | HMaterialize (Mat n t') c =>
      negb (ho_transfer o) && engine_eqb (engine_of t') (ho_src o) && opt_eqb Pos.eqb (Some n) (ho_as o)
      && rows_cmp (ho_mode o) c (ho_rows o)
  | _ => false
  end.

Fixpoint all2 {A B} (f : A → B → bool) (l : list A) (m : list B) : bool :=
  match l, m with
  | [], [] => true
  | x :: l', y :: m' => f x y && all2 f l' m'
  | _, _ => false
  end.

Definition hook_truthful (env : lenv) (o : hook_obs) : bool :=
  rows_cmp (ho_mode o) (sem_tree env (ho_tree o)) (ho_rows o) && negb (ho_trivial o).

Definition names_of (s : pstate) : list positive := map fst (map_to_list (ps_store s)).
Definition same_names (a b : list positive) : bool :=
  forallb (fun x => existsb (Pos.eqb x) b) a && forallb (fun x => existsb (Pos.eqb x) a) b.

Definition pass_bits (env : lenv) (p : mprog) (t : tree) (mode : N) (s : pstate) (o : pass_obs) : N * pstate :=
  let '(r, _, s') := process env t None (PS (ps_store s) []) in
  let b2 := if all2 hook_matches (ps_log s') (pa_hooks o) && same_names (names_of s') (pa_named o) then 0 else 2 in
  let b4 := match pa_rows o with
            | Ok l => if rows_cmp mode (spec_mprog env p) l && forallb (fun r : row => bool_decide (dom r = columns t)) l
                      then 0 else 4
            | Err _ => 4
            end in
  let b8 := if forallb (hook_truthful env) (pa_hooks o) then 0 else 8 in
  let b16 := if pa_frame_ok o then 0 else 16 in
  (b2 + b4 + b8 + b16, s').

Definition check_proc (c : proc_case) : N :=
  let env := mkenv (pc_env c) in
  let c1 := if result_eqb tree_eqb (build_multi (pc_prog c)) (pc_tree c) then 0 else 1 in
  match pc_tree c with
  | Ok t =>
      if negb (kd_mprog env (pc_prog c)) then 1000 else
      let '(b1, s1) := pass_bits env (pc_prog c) t (pc_mode c) (PS ∅ []) (pc_first c) in
      let '(b2, _) := pass_bits env (pc_prog c) t (pc_mode c) s1 (pc_second c) in
      c1 + N.lor b1 b2
  | Err _ => c1
  end.
