(* Checker for C03: an operation applied with preferred-engine options, against the model, the
   specification (options never change the denotation) and the placement clauses.
   bit 1: built tree (or exception class) differs from the model's
   bit 4: processed rows or columns contradict the specification of applying the operation at the root
   bit 8: rejected with ColumnError although the same call without a preferred engine is accepted
   bit 16: transfer=True but the result does not live in the preferred engine (with backtrack=True the
           documented alternative is accepted: backtracking completed, i.e. the operation was inserted
           upstream and nothing was added outside the preferred engine)
   bit 32: require_preferred_engine but an operation was added outside the preferred engine
   1000: outside the key-determinedness domain. *)
From DR Require Export Model.CheckMulti.
Local Open Scope N_scope.

Record back_case := BKCase {
  bk_prog : mprog;                 (* the program whose last call carries the options *)
  bk_env : list (positive * rows);
  bk_base : result tree;           (* the relation the last call is applied to, as the library built it *)
  bk_tree : result tree;           (* what the call returned *)
  bk_rows : result rows;           (* processed and executed *)
  bk_mode : N;
  bk_root_ok : bool }.             (* the same call with default options was accepted *)

(* operations (unary and binary nodes) that sit in an engine other than e *)
Fixpoint ops_outside (e : engine) (t : tree) : nat :=
  match t with
  | Leaf _ _ _ _ _ => 0
  | Un _ t' => (if engine_eqb (engine_of t') e then 0 else 1) + ops_outside e t'
  | Bin _ l r => (if engine_eqb (engine_of l) e then 0 else 1) + ops_outside e l + ops_outside e r
  | Mat _ t' | Xfer _ t' => ops_outside e t'
  | SelM _ _ t' => ops_outside e t'
  end%nat.

Definition last_opts (p : mprog) : option (opts * option engine) :=
  match p with
  | MpUn _ o _ => Some (o, o_pref o)
  | MpJoin _ jb jt _ r =>        (* lhs.join(rhs, ...): the preferred engine is the right operand's *)
      match build_multi r with
      | Ok tr => Some (Opts (Some (engine_of tr)) jb jt false, Some (engine_of tr))
      | Err _ => None
      end
  | _ => None
  end.

Definition check_back (c : back_case) : N :=
  let env := mkenv (bk_env c) in
  let c1 := if result_eqb tree_eqb (build_multi (bk_prog c)) (bk_tree c) then 0 else 1 in
  match bk_tree c, bk_base c with
  | Ok t, Ok base =>
      if negb (kd_mprog env (bk_prog c)) then 1000 else
      let s := spec_mprog env (bk_prog c) in
      let colsok := bool_decide (columns t = mprog_cols (bk_prog c)) in
      let b4 := match bk_rows c with
                | Ok l =>
                    let ok := match bk_mode c with
                              | 0 => rows_eqb s l
                              | 1 => bag_eqb s l
                              | 2 => Nat.eqb (length s) (length l)
                              | _ => true
                              end in
                    if ok && colsok && forallb (fun r : row => bool_decide (dom r = columns t)) l then 0 else 4
                | Err _ => 4
                end in
      let placement :=
        match last_opts (bk_prog c) with
        | Some (o, Some pref) =>
            let unchanged := tree_eqb t base in
            (if o_transfer o && negb unchanged && negb (engine_eqb (engine_of t) pref)
                && negb (o_backtrack o && (ops_outside pref t <=? ops_outside pref base)%nat) then 16 else 0) +
            (if o_require o && (ops_outside pref base <? ops_outside pref t)%nat then 32 else 0)
        | _ => 0
        end in
      c1 + b4 + placement
  | Err ColumnError, Ok _ => c1 + (if bk_root_ok c then 8 else 0)
  | _, _ => c1
  end.
