(* Model of UnaryOperation.apply without a preferred engine, for engines that use the default
   append_unary (the iteration engine): _begin_apply then _finish_apply with simplification. *)
From DR Require Export Model.Tree.
Local Open Scope Z_scope.

(* constructor-time checks (dataclass __post_init__) *)
Definition construct (o : uop) : result uop :=
  match o with
  | Calc t e => if bool_decide (cols_e e = ∅) then Err ColumnError else Ok o
  | Sel p => Ok (Sel (selection_norm p))
  | Slice a b => match mk_slice a b with Ok _ => Ok o | Err e => Err e end
  | _ => Ok o
  end.

Definition sort_cols_ok (ts : list (expr * bool)) (cs : gset tag) : bool :=
  forallb (fun t => bool_decide (cols_e (fst t) ⊆ cs)) ts.

Definition begin_apply (o : uop) (cs : gset tag) : result uop :=
  match o with
  | Calc t e =>
      if negb (bool_decide (cols_e e ⊆ cs)) then Err ColumnError
      else if bool_decide (t ∈ cs) then Err ColumnError else Ok o
  | Dedup => Ok o
  | Proj ps =>
      if bool_decide (ps = cs) then Ok Ident
      else if negb (bool_decide (ps ⊆ cs)) then Err ColumnError else Ok o
  | Sel p =>
      match as_trivial p with
      | Some true => Ok Ident
      | _ => if negb (bool_decide (cols_p p ⊆ cs)) then Err ColumnError else Ok o
      end
  | Slice a b => match slice_begin a b with BIdentity => Ok Ident | BKeep => Ok o | BErr e => Err e end
  | Sort ts =>
      match ts with
      | [] => Ok Ident
      | _ => if sort_cols_ok ts cs then Ok o else Err ColumnError
      end
  | Ident => Ok Ident
  end.

Definition finish_default (o : uop) (t : tree) : result tree :=
  if op_supported (ekind_of (engine_of t)) o then Ok (Un o t) else Err EngineError.

Fixpoint finish_apply (o : uop) (t : tree) : result tree :=
  if is_noop o (columns t) then Ok t else
  match t with
  | Un up t' =>
      match simplify o up with
      | SUpstream => Ok t
      | SNew m => finish_apply m t'
      | SErr e => Err e
      | SNone => finish_default o t
      end
  | _ => finish_default o t
  end.

Definition apply_simple (o : uop) (t : tree) : result tree :=
  do o' <- begin_apply o (columns t); finish_apply o' t.

(* Relation.__getitem__ *)
Definition getitem (start stop : option Z) (step : option Z) (t : tree) : result tree :=
  if negb (bool_decide (step = None) || bool_decide (step = Some 1)) then Err TypeError
  else do o <- construct (Slice (default 0 start) stop); apply_simple o t.
