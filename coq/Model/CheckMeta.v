(* Checker for C06 cases.  bit 1: built tree differs; bit 2: the library's columns / min_rows /
   max_rows / is_join_identity / is_trivial differ from the model's; bit 4: the executed rows
   contradict the metadata the library itself declares (wrong keys, count out of bounds, a flag
   that disagrees with the content); bit 8: executed rows differ from the specification. *)
From DR Require Export Model.IterExec.
Local Open Scope N_scope.

Record meta_case := MCase {
  mc_prog : prog;
  mc_env : list (positive * rows);
  mc_tree : result tree;
  mc_cols : gset tag;
  mc_min : Z;
  mc_max : option Z;
  mc_ident : bool;
  mc_trivial : bool;
  mc_rows : result rows }.

Definition check_meta (c : meta_case) : N :=
  let env := mkenv (mc_env c) in
  let mt := build_iter (mc_prog c) in
  let c1 := if result_eqb tree_eqb mt (mc_tree c) then 0 else 1 in
  match mt, mc_tree c with
  | Ok t, Ok _ =>
      let c2 := if set_eqb (columns t) (mc_cols c) && Z.eqb (min_rows t) (mc_min c)
                   && optz_eqb (max_rows t) (mc_max c) && Bool.eqb (is_join_identity t) (mc_ident c)
                   && Bool.eqb (is_trivial t) (mc_trivial c) then 0 else 2 in
      let c4 := match mc_rows c with
                | Ok l =>
                    let n := Z.of_nat (length l) in
                    if forallb (fun r : row => bool_decide (dom r = mc_cols c)) l
                       && Z.leb (mc_min c) n
                       && match mc_max c with Some m => Z.leb n m | None => true end
                       && implb (mc_ident c) (rows_eqb l [∅])
                       && implb (bool_decide (mc_max c = Some 0%Z)) (rows_eqb l [])
                    then 0 else 4
                | Err _ => 0
                end in
      let c8 := if negb (kd_prog env (mc_prog c)) then 0 else
                match mc_rows c with
                | Ok l => if rows_eqb (spec_prog env (mc_prog c)) l then 0 else 8
                | Err _ => 0
                end in
      c1 + c2 + c4 + c8
  | _, _ => c1
  end.

(* for the generic judge: a failure of the property itself (bits 4, 8) is reported as bit 4 *)
Definition check_meta_j (c : meta_case) : N :=
  let v := check_meta c in
  (if N.testbit v 0 then 1 else 0) + (if N.testbit v 1 then 2 else 0)
  + (if N.testbit v 2 || N.testbit v 3 then 4 else 0).

(* Multi-engine histories (a tree that was processed, then extended with preferred-engine options, then processed and
   executed again): only the library's own declaration against the rows it then yields.  bit 4 as above. *)
Record decl_case := DCase {
  dc_cols : gset tag; dc_min : Z; dc_max : option Z; dc_ident : bool; dc_rows : rows }.

Definition check_decl (c : decl_case) : N :=
  let l := dc_rows c in
  let n := Z.of_nat (length l) in
  if forallb (fun r : row => bool_decide (dom r = dc_cols c)) l
     && Z.leb (dc_min c) n
     && match dc_max c with Some m => Z.leb n m | None => true end
     && implb (dc_ident c) (rows_eqb l [∅])
     && implb (bool_decide (dc_max c = Some 0%Z)) (rows_eqb l [])
  then 0 else 4.
