(* Model of GenericConcreteEngine.get_relation_name under arbitrary thread interleavings.
   The name's f-string parts and the statement order come from Gen/Names.v (generated). *)
From Coq Require Export Ascii String List Arith Decimal DecimalString.
From DR Require Export Spec.NameParts Gen.Names.
Import ListNotations.
Local Open Scope list_scope.

Definition chars (s : string) : list ascii := list_ascii_of_string s.
Definition digits (n : nat) : list ascii := chars (NilZero.string_of_uint (Nat.to_uint n)).
Definition pad0 (w : nat) (l : list ascii) : list ascii := repeat "0"%char (w - length l) ++ l.

Definition render_part (prefix : list ascii) (c : nat) (uhex : list ascii) (p : npart) : list ascii :=
  match p with
  | NPrefix => prefix
  | NLit s => chars s
  | NCounter w => pad0 w (digits c)
  | NUuidHex => uhex
  end.
Definition render (parts : list npart) (prefix : list ascii) (c : nat) (uhex : list ascii) : list ascii :=
  concat (map (render_part prefix c uhex) parts).

(* micro-steps of one call, from the generated statement list *)
Inductive micro := MBuild | MReadCtr | MWriteCtr | MReturn.
Definition micro_of (s : nstep) : list micro :=
  match s with SBuildName => [MBuild] | SIncrCounter => [MReadCtr; MWriteCtr] | SReturn => [MReturn] end.
Definition call_program : list micro := concat (map micro_of name_steps).

Record thread := Thread {
  t_eng : nat; t_prefix : list ascii; t_todo : list micro;
  t_name : option (nat * list ascii);      (* (uuid draw index, name) once built *)
  t_tmp : nat }.
Record world := World {
  w_ctr : list nat;                         (* relation_name_counter of each engine *)
  w_draws : nat;                            (* uuid4() calls so far *)
  w_threads : list thread;
  w_out : list (nat * list ascii) }.        (* names handed out, with their draw index *)

Section Run.
  Variable uuid_hex : nat -> list ascii.    (* oracle: the k-th uuid4().hex *)

  Definition set_nth {A} (i : nat) (x : A) (l : list A) : list A :=
    firstn i l ++ match skipn i l with [] => [] | _ :: r => x :: r end.

  Definition step_thread (w : world) (i : nat) (t : thread) : world :=
    match t_todo t with
    | [] => w
    | m :: rest =>
        match m with
        | MBuild =>
            let c := nth (t_eng t) (w_ctr w) 0 in
            let nm := render name_parts (t_prefix t) c (uuid_hex (w_draws w)) in
            World (w_ctr w) (S (w_draws w))
                  (set_nth i (Thread (t_eng t) (t_prefix t) rest (Some (w_draws w, nm)) (t_tmp t)) (w_threads w)) (w_out w)
        | MReadCtr =>
            World (w_ctr w) (w_draws w)
                  (set_nth i (Thread (t_eng t) (t_prefix t) rest (t_name t) (nth (t_eng t) (w_ctr w) 0)) (w_threads w)) (w_out w)
        | MWriteCtr =>
            World (set_nth (t_eng t) (S (t_tmp t)) (w_ctr w)) (w_draws w)
                  (set_nth i (Thread (t_eng t) (t_prefix t) rest (t_name t) (t_tmp t)) (w_threads w)) (w_out w)
        | MReturn =>
            World (w_ctr w) (w_draws w)
                  (set_nth i (Thread (t_eng t) (t_prefix t) rest None (t_tmp t)) (w_threads w))
                  (match t_name t with Some x => w_out w ++ [x] | None => w_out w end)
        end
    end.

  Definition step (w : world) (i : nat) : world :=
    match nth_error (w_threads w) i with Some t => step_thread w i t | None => w end.

  Definition run (sched : list nat) (w : world) : world := fold_left step sched w.

  (* each request: (engine index, prefix) *)
  Definition init (n_engines : nat) (reqs : list (nat * list ascii)) : world :=
    World (repeat 0 n_engines) 0
          (map (fun r => Thread (fst r) (snd r) call_program None 0) reqs) [].

  Definition names (w : world) : list (list ascii) := map snd (w_out w).
End Run.
