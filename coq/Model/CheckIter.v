(* Checkers evaluated by the correspondence runs (vm_compute) for iteration-engine programs.
   Result code: 0 = agree; bit 1 = built tree differs from the model's (model ≍ implementation);
   bit 2 = executed rows differ from the model's execute; bit 4 = executed rows differ from the
   SPECIFICATION (a counterexample to the property on the real code); 1000 = outside the
   specification's domain (key-determinedness), not judged. *)
From DR Require Export Model.IterExec.
Local Open Scope N_scope.

Record iter_case := ICase {
  ic_prog : prog;
  ic_env : list (positive * rows);
  ic_tree : result tree;      (* what the library built (or the exception class) *)
  ic_rows : result rows }.    (* what execute() yielded *)

Definition check_iter (c : iter_case) : N :=
  let env := mkenv (ic_env c) in
  let mt := build_iter (ic_prog c) in
  let c1 := if result_eqb tree_eqb mt (ic_tree c) then 0 else 1 in
  match mt, ic_tree c with
  | Ok t, Ok _ =>
      if negb (kd_prog env (ic_prog c)) then 1000 else
      let c2 := if result_eqb rows_eqb (iter_exec env t) (ic_rows c) then 0 else 2 in
      let c4 := if result_eqb rows_eqb (Ok (spec_prog env (ic_prog c))) (ic_rows c) then 0 else 4 in
      c1 + c2 + c4
  | _, _ => c1
  end.
