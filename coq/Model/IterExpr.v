(* Model of iteration.Engine.convert_column_expression / convert_predicate: the Python callables,
   with all()/any() short-circuiting and set membership for sequences. *)
From DR Require Export Spec.Expr.
Local Open Scope Z_scope.

Fixpoint iter_call_e (e : expr) (r : row) : option Z :=
  match e with
  | ERef t => r !! t                                        (* itemgetter(tag): KeyError = None *)
  | ELit z => Some z
  | ENeg a => x ← iter_call_e a r; Some (Z.opp x)           (* operator.__neg__ *)
  | EAdd a b => x ← iter_call_e a r; y ← iter_call_e b r; Some (Z.add x y)
  | ESub a b => x ← iter_call_e a r; y ← iter_call_e b r; Some (Z.sub x y)
  | EMul a b => x ← iter_call_e a r; y ← iter_call_e b r; Some (Z.mul x y)
  | ESupp _ _ a => iter_call_e a r                          (* registered identity function *)
  end.

Definition py_truth (v : Z) : bool := negb (v =? 0).

Fixpoint iter_call_p (p : pred) (r : row) : option bool :=
  match p with
  | PLit b => Some b
  | PRef t => v ← r !! t; Some (py_truth v)
  | PCmp c a b => x ← iter_call_e a r; y ← iter_call_e b r; Some (cmpb c x y)
  | PNot q => b ← iter_call_p q r; Some (negb b)
  | PAnd ps =>   (* all(c(row) for c in callables): stops at the first false *)
      (fix go (ps : list pred) : option bool :=
         match ps with
         | [] => Some true
         | q :: ps' => match iter_call_p q r with
                       | Some true => go ps' | Some false => Some false | None => None end
         end) ps
  | POr ps =>    (* any(...): stops at the first true *)
      (fix go (ps : list pred) : option bool :=
         match ps with
         | [] => Some false
         | q :: ps' => match iter_call_p q r with
                       | Some true => Some true | Some false => go ps' | None => None end
         end) ps
  | PIn e (CRange a b s) => x ← iter_call_e e r; Some (in_range a b s x)
  | PIn e (CSeq items) =>
      x ← iter_call_e e r;
      xs ← (fix go (l : list expr) : option (list Z) :=
              match l with [] => Some [] | i :: l' => v ← iter_call_e i r; vs ← go l'; Some (v :: vs) end) items;
      Some (existsb (Z.eqb x) xs)
  end.
