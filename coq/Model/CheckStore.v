(* Checker for C10 histories.  The harness reports, per event, the outcome class and the set of
   materialization names that hold a payload afterwards, with the identity (event index) of each
   payload.  bit 1: differs from the model; bit 4: a payload changed or disappeared, an upstream
   was evaluated twice, or an attachment was wrongly accepted. *)
From DR Require Export Model.Store.
Local Open Scope N_scope.

Inductive oclass := CRows (l : rows) | CUnit | CRaised (e : err).
Record hist_case := HCase {
  hc_env : list (positive * rows);
  hc_events : list event;
  hc_outcomes : list oclass;
  hc_payloads : list (list (positive * nat));     (* after each event: (name, stamp of the payload) *)
  hc_upstream_evals : list (positive * nat) }.    (* per materialization: how often its upstream leaf was iterated *)

Definition oclass_eqb (a : outcome) (b : oclass) : bool :=
  match a, b with
  | OkRows l, CRows l' => rows_eqb l l'
  | OkUnit, CUnit => true
  | Raised e, CRaised e' => bool_decide (e = e')
  | _, _ => false
  end.

Fixpoint run_trace (env : lenv) (k : nat) (h : list event) (s : xstate) : list (outcome * list (positive * nat)) :=
  match h with
  | [] => []
  | ev :: h' => let '(o, s1) := do_event env k ev s in
                (o, map (fun kv => (fst kv, fst (snd kv))) (map_to_list (xs_store s1))) :: run_trace env (S k) h' s1
  end.

Definition pl_eqb (a b : list (positive * nat)) : bool :=
  bool_decide ((list_to_map a : gmap positive nat) = list_to_map b).

Fixpoint monotone (prev : list (positive * nat)) (l : list (list (positive * nat))) : bool :=
  match l with
  | [] => true
  | cur :: rest =>
      forallb (fun kv => existsb (fun kv' => Pos.eqb (fst kv) (fst kv') && Nat.eqb (snd kv) (snd kv')) cur) prev
      && monotone cur rest
  end.

(* an attachment to a materialization that held a payload before the event must have been refused (the harness reports
   the payload holders after each event; before the first one there are none) *)
Fixpoint attaches_refused (prev : list (positive * nat)) (evs : list event) (outs : list oclass)
    (pls : list (list (positive * nat))) : bool :=
  match evs, outs, pls with
  | ev :: evs', o :: outs', cur :: pls' =>
      (match ev, o with
       | EvAttach (Mat n _) _, CUnit => negb (existsb (fun kv => Pos.eqb (fst kv) n) prev)
       | EvAttach (Mat _ _) _, _ => true
       | EvAttach (Leaf _ _ _ _ _) _, CUnit | EvAttach (Un _ _) _, CUnit | EvAttach (Bin _ _ _) _, CUnit =>
           false                                  (* only marker relations accept a payload at all *)
       | _, _ => true
       end) && attaches_refused cur evs' outs' pls'
  | _, _, _ => true
  end.

Definition check_hist (c : hist_case) : N :=
  let env := mkenv (hc_env c) in
  let tr := run_trace env 0 (hc_events c) (XS ∅ []) in
  let c1 := if Nat.eqb (length tr) (length (hc_outcomes c)) && Nat.eqb (length tr) (length (hc_payloads c))
               && forallb (fun x => oclass_eqb (fst (fst x)) (snd x)) (combine tr (hc_outcomes c))
               && forallb (fun x => pl_eqb (snd (fst x)) (snd x)) (combine tr (hc_payloads c))
            then 0 else 1 in
  let c4 := if monotone [] (hc_payloads c) && forallb (fun kv => Nat.leb (snd kv) 1) (hc_upstream_evals c)
               && attaches_refused [] (hc_events c) (hc_outcomes c) (hc_payloads c) then 0 else 4 in
  c1 + c4.

(* Processor histories (several process() + execute calls over trees sharing materialization nodes across engines):
   judged without a model.  bit 4: a payload changed or disappeared, or a leaf that is reachable only through a
   materialization was read more than once over the whole history. *)
Record phist_case := PHCase {
  ph_payloads : list (list (positive * nat));     (* after each event: materialization -> stamp of its payload object *)
  ph_evals : list (positive * nat) }.             (* leaf -> number of iterations started over the history *)

Definition check_phist (c : phist_case) : N :=
  if monotone [] (ph_payloads c) && forallb (fun kv => Nat.leb (snd kv) 1) (ph_evals c) then 0 else 4.
