(* Model of Diagnostics.run: (is_doomed, number of messages). *)
From DR Require Export Model.Reach.
Local Open Scope Z_scope.

Definition slice_limit (a : Z) (b : option Z) : option Z := match b with Some e => Some (e - a) | None => None end.

Fixpoint diag_run (lmsgs : positive -> nat) (exec : option (tree -> bool)) (t : tree) : bool * nat :=
  match t with
  | Leaf n _ _ _ mx =>
      let m := lmsgs n in
      if bool_decide (mx = Some 0) then (true, Nat.max m 1)
      else match exec with
           | Some ex => if negb (ex t) then (true, Nat.max m 1) else (false, m)
           | None => (false, m)
           end
  | Mat _ t' | Xfer _ t' | SelM _ _ t' => diag_run lmsgs exec t'
  | Un o t' =>
      let '(d, m) := diag_run lmsgs exec t' in
      if d then (true, m)
      else
        let static :=
          match o with
          | Slice a b => bool_decide (slice_limit a b = Some 0)
          | Sel p => bool_decide (as_trivial p = Some false)
          | _ => false
          end in
        if static then (true, S m)
        else match exec with
             | Some ex => if negb (is_empty_invariant o) && negb (ex t) then (true, S m) else (false, m)
             | None => (false, m)
             end
  | Bin b l r =>
      let '(dl, ml) := diag_run lmsgs exec l in
      let '(dr, mr) := diag_run lmsgs exec r in
      let m := (ml + mr)%nat in
      match b with
      | Chain => (dl && dr, m)
      | Join p _ =>
          if dl || dr then (true, m)
          else if bool_decide (as_trivial p = Some false) then (true, S m)
          else match exec with
               | Some ex => if negb (ex t) then (true, S m) else (false, m)
               | None => (false, m)
               end
      end
  end.
