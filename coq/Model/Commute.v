(* Model of UnaryOperation.commute for every concrete operation type, including PartialJoin. *)
From DR Require Export Model.SqlEngine.
Local Open Scope Z_scope.

Record joinspec := JSpec { j_pred : pred; j_min : gset tag; j_max : option (gset tag) }.
Definition j_resolved (j : joinspec) : bool := bool_decide (j_max j = Some (j_min j)).

(* what a caller asks to apply: a unary operation, or a PartialJoin holding its fixed operand *)
Inductive req :=
| RUn (o : uop)
| RJoin (j : joinspec) (fixed : tree) (fixed_is_lhs : bool).

Record commutator := Comm { c_first : option req; c_second : uop; c_done : bool }.
Definition comm_fail (cur : uop) : commutator := Comm None cur false.

(* PartialJoin.columns_required *)
Definition pjoin_required (j : joinspec) (fixed : tree) : gset tag :=
  (cols_p (j_pred j) ∖ columns fixed) ∪ j_min j.

Definition req_required (r : req) : gset tag :=
  match r with RUn o => op_required o | RJoin j f _ => pjoin_required j f end.

Definition is_reordering (o : uop) : bool := match o with Sort _ => true | _ => false end.

(* commute self (Un cur target): tcols = current.target.columns *)
Definition commute (self : req) (cur : uop) (tcols : gset tag) : commutator :=
  let ccols := op_columns cur tcols in
  match self with
  | RUn (Calc t e) =>
      if negb (bool_decide (cols_e e ⊆ tcols)) then comm_fail cur
      else if bool_decide (t ∈ tcols) then comm_fail cur
      else Comm (Some self) (match cur with Proj cs => Proj (cs ∪ {[t]}) | _ => cur end) true
  | RUn Dedup =>
      if negb (bool_decide (tcols ⊆ ccols)) then comm_fail cur
      else if is_count_dependent cur then comm_fail cur
      else Comm (Some self) cur true
  | RUn (Proj cs) =>
      match cur with
      | Proj _ => Comm (Some self) Ident true
      | _ =>
          let drop := match cur with Calc t _ => negb (bool_decide (t ∈ cs)) | _ => false end in
          if drop then Comm (Some self) Ident true
          else
            let commuted := match cur with Calc t _ => cs ∖ {[t]} | _ => cs end in
            if negb (bool_decide (op_required cur ⊆ commuted))
            then Comm (Some (RUn (Proj (commuted ∪ op_required cur)))) cur false
            else Comm (Some (RUn (Proj commuted))) cur true
      end
  | RUn (Sel p) =>
      if negb (bool_decide (cols_p p ⊆ tcols)) then comm_fail cur
      else if is_count_dependent cur then comm_fail cur
      else Comm (Some self) cur true
  | RUn (Slice _ _) =>
      match cur with
      | Proj _ | Calc _ _ => Comm (Some self) cur true
      | _ => comm_fail cur
      end
  | RUn (Sort ts) =>
      if negb (bool_decide (op_required (Sort ts) ⊆ tcols)) then comm_fail cur
      else if is_order_dependent cur || is_reordering cur then comm_fail cur
      else Comm (Some self) cur true
  | RUn Ident => Comm (Some self) cur true
  | RJoin j f lhs =>
      match cur with
      | Dedup => comm_fail cur
      | Proj _ =>
          (* a column the projection hides and the fixed operand also has would collide once the join is upstream *)
          if negb (bool_decide ((tcols ∖ ccols) ∩ columns f = ∅)) then comm_fail cur
          else Comm (Some self) (Proj (ccols ∪ columns f)) true
      | _ =>
          if (match cur with Calc t _ => bool_decide (t ∈ columns f) | _ => false end) then comm_fail cur
          else if negb (bool_decide (pjoin_required j f ⊆ tcols)) then comm_fail cur
          else if is_count_dependent cur then comm_fail cur
          else Comm (Some self) cur true
      end
  end.
