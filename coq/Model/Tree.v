(* Relation trees as the Python objects carry them, static metadata, and their denotation. *)
From DR Require Export Spec.Prog Model.Ops.
Local Open Scope Z_scope.

Inductive bop :=
| Chain
| Join (p : pred) (common : gset tag).     (* resolved: min_columns = max_columns = common *)

Record selslots := Slots {
  s_sort : list (expr * bool);
  s_proj : option (gset tag);
  s_dedup : bool;
  s_slice : Z * option Z }.

Inductive tree :=
| Leaf (name : positive) (eng : engine) (cols : gset tag) (minr : Z) (maxr : option Z)
| Un (o : uop) (t : tree)
| Bin (b : bop) (l r : tree)
| Mat (name : positive) (t : tree)
| Xfer (dest : engine) (t : tree)
| SelM (sl : selslots) (skip : tree) (t : tree).

Fixpoint columns (t : tree) : gset tag :=
  match t with
  | Leaf _ _ cs _ _ => cs
  | Un o t' => op_columns o (columns t')
  | Bin Chain l _ => columns l
  | Bin (Join _ _) l r => columns l ∪ columns r
  | Mat _ t' | Xfer _ t' | SelM _ _ t' => columns t'
  end.

Fixpoint engine_of (t : tree) : engine :=
  match t with
  | Leaf _ e _ _ _ => e
  | Un _ t' | Mat _ t' | SelM _ _ t' => engine_of t'
  | Bin _ l _ => engine_of l
  | Xfer d _ => d
  end.

(* ---- row bounds (Gen supplies Slice's) ---- *)
Definition filter_min_rows (tmin : Z) : Z := 0.   (* Selection overrides applied_min_rows to 0 *)
Definition dedup_min_rows (tmin : Z) : Z := if 1 <=? tmin then 1 else 0.
Definition dedup_max_rows (cols : gset tag) (tmax : option Z) : option Z :=
  if bool_decide (cols = ∅)
  then match tmax with None => Some 1 | Some m => if 1 <=? m then Some 1 else Some 0 end
  else tmax.
Definition join_max_rows (a b : option Z) : option Z :=
  if bool_decide (a = Some 0) || bool_decide (b = Some 0) then Some 0
  else match a, b with Some x, Some y => Some (x * y) | _, _ => None end.
Definition chain_max_rows (a b : option Z) : option Z :=
  match a, b with Some x, Some y => Some (x + y) | _, _ => None end.

Fixpoint min_rows (t : tree) : Z :=
  match t with
  | Leaf _ _ _ m _ => m
  | Un o t' =>
      match o with
      | Calc _ _ | Proj _ | Sort _ | Ident => min_rows t'
      | Dedup => dedup_min_rows (min_rows t')
      | Sel _ => 0
      | Slice a b => slice_min_rows a b (min_rows t')
      end
  | Bin Chain l r => min_rows l + min_rows r
  | Bin (Join _ _) _ _ => 0
  | Mat _ t' | Xfer _ t' | SelM _ _ t' => min_rows t'
  end.

Fixpoint max_rows (t : tree) : option Z :=
  match t with
  | Leaf _ _ _ _ m => m
  | Un o t' =>
      match o with
      | Dedup => dedup_max_rows (columns t') (max_rows t')
      | Slice a b => slice_max_rows a b (max_rows t')
      | _ => max_rows t'
      end
  | Bin Chain l r => chain_max_rows (max_rows l) (max_rows r)
  | Bin (Join _ _) l r => join_max_rows (max_rows l) (max_rows r)
  | Mat _ t' | Xfer _ t' | SelM _ _ t' => max_rows t'
  end.

Definition is_join_identity (t : tree) : bool :=
  bool_decide (columns t = ∅) && bool_decide (max_rows t = Some 1) && (min_rows t =? 1).
Definition is_trivial (t : tree) : bool := is_join_identity t || bool_decide (max_rows t = Some 0).
Definition is_locked (t : tree) : bool :=
  match t with Leaf _ _ _ _ _ | Mat _ _ => true | _ => false end.

(* ---- denotation: markers are transparent; leaves are looked up in the environment ---- *)

Definition sem_bop (b : bop) (l r : rows) : rows :=
  match b with Chain => sem_chain l r | Join p c => sem_join c p l r end.

Fixpoint sem_tree (env : lenv) (t : tree) : rows :=
  match t with
  | Leaf n _ _ _ _ => env n
  | Un o t' => sem_op o (sem_tree env t')
  | Bin b l r => sem_bop b (sem_tree env l) (sem_tree env r)
  | Mat _ t' | Xfer _ t' | SelM _ _ t' => sem_tree env t'
  end.
