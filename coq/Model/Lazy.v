(* Cost model of iteration.Engine.execute and the RowIterable classes: which leaf payloads have an
   iteration started (a) while execute() runs and (b) during each full iteration of the result. *)
From DR Require Export Model.IterExec.
Local Open Scope Z_scope.

Inductive rkind := KSeq | KMap (key : list tag) | KLazy.     (* RowSequence | RowMapping | any lazy iterable *)

Record cost := Cost { c_exec : list positive; c_iter : list positive; c_kind : rkind }.

Definition kind_eqb_map (k : rkind) (key : list tag) : bool :=
  match k with KMap key' => bool_decide (key' = key) | _ => false end.

Fixpoint cost_of (leafkind : positive -> rkind) (t : tree) : cost :=
  if bool_decide (max_rows t = Some 0) then Cost [] [] KSeq
  else if is_join_identity t then Cost [] [] KSeq
  else
  match t with
  | Leaf n _ _ _ _ => Cost [] [n] (leafkind n)
  | Un o t' =>
      let c := cost_of leafkind t' in
      match o with
      | Calc _ _ | Proj _ | Sel _ | Ident => Cost (c_exec c) (c_iter c) KLazy
      | Slice _ _ =>
          match c_kind c with
          | KSeq => Cost (c_exec c) [] KSeq                 (* RowSequence.sliced: a new list, no iteration *)
          | _ => Cost (c_exec c) (c_iter c) KLazy           (* SliceRowIterable *)
          end
      | Dedup =>
          let key := key_columns (columns t) in
          if kind_eqb_map (c_kind c) key then c              (* RowMapping.to_mapping with the same key: self *)
          else Cost (c_exec c ++ c_iter c) [] (KMap key)     (* consumed once, at execute time *)
      | Sort _ => Cost (c_exec c ++ c_iter c) [] KSeq        (* list(target_rows) at execute time *)
      end
  | Bin Chain l r =>
      let a := cost_of leafkind l in let b := cost_of leafkind r in
      Cost (c_exec a ++ c_exec b) (c_iter a ++ c_iter b) KLazy
  | Bin (Join _ _) _ _ => Cost [] [] KLazy
  | Mat _ t' =>
      let c := cost_of leafkind t' in
      match c_kind c with
      | KLazy => Cost (c_exec c ++ c_iter c) [] KSeq         (* to_sequence(): consumed once *)
      | _ => c                                               (* already materialized: self *)
      end
  | Xfer _ t' | SelM _ _ t' => cost_of leafkind t'
  end.

Fixpoint leaf_occ (t : tree) : list positive :=
  match t with
  | Leaf n _ _ _ _ => [n]
  | Un _ t' | Mat _ t' | Xfer _ t' | SelM _ _ t' => leaf_occ t'
  | Bin _ l r => leaf_occ l ++ leaf_occ r
  end.

Fixpoint lazy_tree (t : tree) : bool :=
  match t with
  | Leaf _ _ _ _ _ => true
  | Un (Calc _ _ | Proj _ | Sel _ | Slice _ _) t' => lazy_tree t'
  | Bin Chain l r => lazy_tree l && lazy_tree r
  | _ => false
  end.
