(* Checker for C04 cases. bit 1: the real commute() reported something else than the model's;
   bit 4: the real report is unsound on the given target rows (or ill-formed). *)
From DR Require Export Model.CommuteSpec.
Local Open Scope N_scope.

Definition req_eqb (a b : req) : bool :=
  match a, b with
  | RUn o, RUn o' => uop_eqb o o'
  | RJoin j f l, RJoin j' f' l' =>
      pred_eqb (j_pred j) (j_pred j') && set_eqb (j_min j) (j_min j') && bool_decide (j_max j = j_max j')
      && tree_eqb f f' && Bool.eqb l l'
  | _, _ => false
  end.
Definition comm_eqb (a b : commutator) : bool :=
  match c_first a, c_first b with
  | Some x, Some y => req_eqb x y
  | None, None => true
  | _, _ => false
  end && uop_eqb (c_second a) (c_second b) && Bool.eqb (c_done a) (c_done b).

Record comm_case := CCase {
  cc_new : req;
  cc_cur : uop;
  cc_tcols : gset tag;
  cc_env : list (positive * rows);     (* rows of the fixed join operand, if any *)
  cc_rows : list rows;                 (* several target row lists *)
  cc_impl : commutator }.

Definition check_commute (c : comm_case) : N :=
  let env := mkenv (cc_env c) in
  let c1 := if comm_eqb (commute (cc_new c) (cc_cur c) (cc_tcols c)) (cc_impl c) then 0 else 1 in
  let c4 := if forallb (commutator_ok env (cc_new c) (cc_cur c) (cc_tcols c) (cc_impl c)) (cc_rows c) then 0 else 4 in
  c1 + c4.
