(* Structural predicates on reachable trees, evaluated on the trees the real library builds:
   engine consistency and node-local well-formedness (C14), SELECT-marker coherence (C17),
   preservation of locked nodes (C15). *)
From DR Require Export Model.CommuteSpec.
Local Open Scope Z_scope.

(* ---- C14 ---- *)
Fixpoint wf_reach (t : tree) : bool :=
  match t with
  | Leaf _ _ _ mn mx => (0 <=? mn) && match mx with Some m => mn <=? m | None => true end
  | Un o t' =>
      op_wfb o (columns t') && negb (uop_eqb o Ident) && op_supported (ekind_of (engine_of t')) o && wf_reach t'
  | Bin Chain l r =>
      engine_eqb (engine_of l) (engine_of r) && set_eqb (columns l) (columns r) && wf_reach l && wf_reach r
  | Bin (Join p c) l r =>
      engine_eqb (engine_of l) (engine_of r) && bool_decide (c ⊆ columns l) && bool_decide (c ⊆ columns r)
      && forallb is_key (elements c) && bool_decide (cols_p p ⊆ columns l ∪ columns r)
      && supp_p (ekind_of (engine_of l)) p && wf_reach l && wf_reach r
  | Mat _ t' => wf_reach t'
  | Xfer d t' => negb (engine_eqb d (engine_of t')) && wf_reach t'
  | SelM _ skip t' =>
      (* the engine of a marker's target is not constrained by C14: joining an SQL join-identity relation
         with an iteration-engine relation returns the latter wrapped in a (transparent) SELECT marker *)
      wf_reach t' && wf_reach skip
  end.

(* ---- C17: the chain of operation nodes between a SELECT marker and its skip target ---- *)
Definition peel (want : bool) (test : uop -> tree -> bool) (t : tree) : option tree :=
  (* if the slot is recorded: the node may be present (then it must match) or absent *)
  match t with
  | Un o t' => if want && test o t' then Some t' else Some t
  | _ => Some t
  end.

Definition coherent_select (sl : selslots) (skip tgt : tree) : bool :=
  (* walk down from the marker's target: slice, deduplication, projection, sort — each exactly
     the recorded one when present; a recorded operation that does nothing may be absent *)
  let t1 := match tgt with
            | Un (Slice a b) t' => if has_slice sl && Z.eqb a (fst (s_slice sl)) && optz_eqb b (snd (s_slice sl)) then t' else tgt
            | _ => tgt end in
  let slice_ok := negb (has_slice sl) || negb (tree_eqb t1 tgt) in
  let t2 := match t1 with Un Dedup t' => if s_dedup sl then t' else t1 | _ => t1 end in
  let dedup_ok := negb (s_dedup sl) || negb (tree_eqb t2 t1) in
  let t3 := match t2, s_proj sl with
            | Un (Proj cs) t', Some ps => if set_eqb cs ps then t' else t2
            | _, _ => t2 end in
  let proj_ok := match s_proj sl with
                 | None => true
                 | Some ps => negb (tree_eqb t3 t2) || set_eqb ps (columns t2)    (* absent only if it does nothing *)
                 end in
  let t4 := match t3 with
            | Un (Sort ts) t' => if has_sort sl && terms_eqb ts (s_sort sl) then t' else t3
            | _ => t3 end in
  let sort_ok := negb (has_sort sl) || negb (tree_eqb t4 t3) in
  slice_ok && dedup_ok && proj_ok && sort_ok && tree_eqb t4 skip.

Fixpoint coherent_all (t : tree) : bool :=
  match t with
  | Leaf _ _ _ _ _ => true
  | Un _ t' | Mat _ t' | Xfer _ t' => coherent_all t'
  | Bin _ l r => coherent_all l && coherent_all r
  | SelM sl skip tgt => coherent_select sl skip tgt && coherent_all skip
  end.

(* every SQL-engine relation produced by the factories is a SELECT marker *)
Definition conformed_root (t : tree) : bool :=
  match ekind_of (engine_of t) with KSql => is_select t | KIter => true end.

(* ---- C15: locked nodes ---- *)
Fixpoint mats (t : tree) : list (positive * tree) :=
  match t with
  | Leaf _ _ _ _ _ => []
  | Un _ t' | Xfer _ t' => mats t'
  | Bin _ l r => mats l ++ mats r
  | Mat n t' => (n, t) :: mats t'
  | SelM _ skip t' => mats t' ++ mats skip
  end.
Fixpoint leaves_of (t : tree) : list (positive * tree) :=
  match t with
  | Leaf n _ _ _ _ => [(n, t)]
  | Un _ t' | Xfer _ t' | Mat _ t' => leaves_of t'
  | Bin _ l r => leaves_of l ++ leaves_of r
  | SelM _ skip t' => leaves_of t' ++ leaves_of skip
  end.
Definition locked_preserved (input output : tree) : bool :=
  forallb (fun nm : positive * tree =>
     forallb (fun nm' : positive * tree => negb (Pos.eqb (fst nm) (fst nm')) || tree_eqb (snd nm) (snd nm'))
             (mats output ++ leaves_of output))
  (mats input ++ leaves_of input).
