(* Model of iteration.Engine.execute and the RowIterable classes (content only; cost is in Lazy.v). *)
From DR Require Export Model.Build.
Local Open Scope Z_scope.

(* RowIterable.to_mapping: a dict keyed by the key tuple — position of the first occurrence,
   value of the last one *)
Definition keyof (key : list tag) (r : row) : list Z := map (fun k => default 0 (r !! k)) key.
Fixpoint dict_insert (k : list Z) (r : row) (d : list (list Z * row)) : list (list Z * row) :=
  match d with
  | [] => [(k, r)]
  | (k', r') :: d' => if list_eqb Z.eqb k k' then (k', r) :: d' else (k', r') :: dict_insert k r d'
  end.
Definition dict_dedup (key : list tag) (l : rows) : rows :=
  map snd (fold_left (fun d r => dict_insert (keyof key r) r d) l []).

Definition key_columns (cs : gset tag) : list tag := List.filter is_key (elements cs).

(* the engine's multi-pass sort: group consecutive terms by direction, sort by the groups from
   last to first, each pass a stable sort on the group's key tuple *)
Fixpoint group_terms (ts : list (expr * bool)) : list (list (expr * bool)) :=
  match ts with
  | [] => []
  | t :: ts' =>
      match group_terms ts' with
      | (t' :: g) :: gs => if Bool.eqb (snd t) (snd t') then (t :: t' :: g) :: gs else [t] :: (t' :: g) :: gs
      | gs => [t] :: gs
      end
  end.
Definition multipass_sort (ts : list (expr * bool)) (l : rows) : rows :=
  fold_left (fun acc g => isort (leb_terms g) acc) (rev (group_terms ts)) l.

Definition exec_op (o : uop) (cols_after : gset tag) (l : rows) : rows :=
  match o with
  | Calc t e => sem_calc t e l
  | Dedup => dict_dedup (key_columns cols_after) l
  | Proj cs => sem_proj cs l
  | Sel p => sem_sel p l
  | Slice a b => sem_slice a b l
  | Sort ts => multipass_sort ts l
  | Ident => l
  end.

Fixpoint iter_exec (env : lenv) (t : tree) : result rows :=
  if bool_decide (max_rows t = Some 0) then Ok []
  else if is_join_identity t then Ok [∅]
  else
  match t with
  | Leaf n _ _ _ _ => Ok (env n)
  | Un o t' => do l <- iter_exec env t'; Ok (exec_op o (columns t) l)
  | Bin Chain l r => do a <- iter_exec env l; do b <- iter_exec env r; Ok (a ++ b)
  | Bin (Join _ _) _ _ => Err EngineError
  | Mat _ t' => iter_exec env t'
  | Xfer _ t' => match ekind_of (engine_of t') with KIter => iter_exec env t' | KSql => Err EngineError end
  | SelM _ _ t' => iter_exec env t'
  end.
