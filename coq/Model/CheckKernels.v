(* Direct correspondence for the translated Slice kernels: the real methods of Slice against the
   definitions in Gen/Slice.v (regenerated from the source, or — when the translator refuses the current
   source text — the committed reference translation, in which case THIS comparison is what ties the
   kernels to the code).  Result: 0 = agree, 1 = differ. *)
From DR Require Export Spec.Base Gen.Slice.
From Coq Require Import ZArith List Bool.
Import ListNotations.
Local Open Scope Z_scope.

Record slice_kcase := SKCase {
  sk_a : Z; sk_b : option Z; sk_c : Z; sk_d : option Z;
  sk_ctor_ok : bool;                               (* Slice(a, b) was constructed *)
  sk_then : option (Z * option Z);                 (* Slice(a, b).then(Slice(c, d)) as (start, stop); None = not applicable *)
  sk_mins : list (Z * Z);                          (* (target.min_rows, applied_min_rows) *)
  sk_maxs : list (option Z * option Z);            (* (target.max_rows, applied_max_rows) *)
  sk_begin : N;                                    (* 0 Identity, 1 keep, 2 raised *)
  sk_finish : N }.                                 (* 0 target itself, 1 default *)

Definition optz_eq (x y : option Z) : bool :=
  match x, y with Some a, Some b => Z.eqb a b | None, None => true | _, _ => false end.

Definition check_slice_kernel (c : slice_kcase) : N :=
  let a := sk_a c in let b := sk_b c in
  let ctor := match mk_slice a b with Ok _ => true | Err _ => false end in
  if negb (Bool.eqb ctor (sk_ctor_ok c)) then 1%N else
  if negb ctor then 0%N else
  let then_ok :=
    match sk_then c with
    | None => true
    | Some (s, t) => match slice_then a b (sk_c c) (sk_d c) with
                     | Ok (s', t') => Z.eqb s s' && optz_eq t t'
                     | Err _ => false
                     end
    end in
  let mins_ok := forallb (fun mr => Z.eqb (slice_min_rows a b (fst mr)) (snd mr)) (sk_mins c) in
  let maxs_ok := forallb (fun mr => optz_eq (slice_max_rows a b (fst mr)) (snd mr)) (sk_maxs c) in
  let begin_ok := match slice_begin a b, sk_begin c with
                  | BIdentity, 0%N | BKeep, 1%N | BErr _, 2%N => true
                  | _, _ => false
                  end in
  let finish_ok := match slice_finish a b, sk_finish c with
                   | FTarget, 0%N | FDefault, 1%N => true
                   | _, _ => false
                   end in
  if then_ok && mins_ok && maxs_ok && begin_ok && finish_ok then 0%N else 1%N.
