"""PyLite: a fail-closed translator from a restricted subset of Python (as it occurs in
the decision kernels of lsst.daf.relation) to Gallina.

Every unit names the exact class/method (or module-level function) it translates, the Coq
parameter list, and an *environment*: the Python names / attribute paths the body may read, each
with the Coq text it denotes and its type.  Anything outside the subset raises Refuse: the caller
then treats the proof obligations that depend on the unit as broken.

Types: Z, optZ (int | None), bool, set (frozenset of tags), tag, and unit-specific result types.
Control flow is translated by tail duplication through continuations, so "assign a variable in
both branches, use it afterwards" needs no phi nodes; `x is None` tests become `match` with the
variable narrowed to Z in the Some branch; `and` / `or` / `not` in tests become nested
conditionals (so narrowing carries through `x is not None and x < y`).
"""
from __future__ import annotations

import ast
import hashlib
import textwrap


class Refuse(Exception):
    pass


class Unit:
    def __init__(self, path, cls, method, coq_name, params, env, ret, ret_coq=None, calls=None,
                 fallthrough=None, raises=None, ret_patterns=None, case_pattern=None):
        self.path = path
        self.cls = cls            # class name or None for module-level function
        self.method = method
        self.coq_name = coq_name
        self.params = params      # [(coq_name, coq_type)]
        self.env = env            # {python path: (coq text, type)}
        self.ret = ret            # abstract return type
        self.ret_coq = ret_coq or {"Z": "Z", "optZ": "option Z", "bool": "bool", "set": "gset positive"}.get(ret, ret)
        self.calls = calls or {}  # {python callee: (coq function, [arg types], result type)}
        self.fallthrough = fallthrough  # coq text returned when control falls off the end
        self.raises = raises or {}      # {exception class: coq text}
        self.ret_patterns = ret_patterns or {}  # {ast.unparse(return value): coq text}
        self.case_pattern = case_pattern        # translate only the body of the `case` with this pattern text


def find_function(path, cls, method):
    src = open(path).read()
    tree = ast.parse(src)
    body = tree.body
    if cls is not None:
        for n in body:
            if isinstance(n, ast.ClassDef) and n.name == cls:
                body = n.body
                break
        else:
            raise Refuse(f"class {cls} not found in {path}")
    for m in body:
        if isinstance(m, ast.FunctionDef) and m.name == method:
            return m, ast.get_source_segment(src, m)
    raise Refuse(f"{cls}.{method} not found in {path}")


def _lit(n):
    return f"({n})" if n < 0 else f"{n}"


class Tr:
    def __init__(self, unit):
        self.u = unit
        self.env = dict(unit.env)

    # ---- names -------------------------------------------------------------------------
    def path(self, e):
        if isinstance(e, ast.Name):
            return e.id
        if isinstance(e, ast.Attribute):
            return self.path(e.value) + "." + e.attr
        raise Refuse(f"unsupported name expression at line {getattr(e, 'lineno', '?')}: {ast.dump(e)[:80]}")

    def lookup(self, e):
        p = self.path(e)
        if p not in self.env:
            raise Refuse(f"unknown name {p} at line {e.lineno}")
        return self.env[p]

    # ---- value expressions -----------------------------------------------------------------
    def expr(self, e):
        """-> (coq text, type)"""
        if isinstance(e, ast.Constant):
            if e.value is None:
                return "None", "optZ"
            if isinstance(e.value, bool):
                return ("true" if e.value else "false"), "bool"
            if isinstance(e.value, int):
                return _lit(e.value), "Z"
            raise Refuse(f"constant {e.value!r} at line {e.lineno}")
        if isinstance(e, (ast.Name, ast.Attribute)):
            return self.lookup(e)
        if isinstance(e, ast.UnaryOp) and isinstance(e.op, ast.USub):
            a, ta = self.expr(e.operand)
            if ta != "Z":
                raise Refuse(f"negation of {ta} at line {e.lineno}")
            return f"(- {a})", "Z"
        if isinstance(e, ast.BinOp):
            (a, ta), (b, tb) = self.expr(e.left), self.expr(e.right)
            if ta == tb == "Z" and isinstance(e.op, (ast.Add, ast.Sub, ast.Mult)):
                op = {ast.Add: "+", ast.Sub: "-", ast.Mult: "*"}[type(e.op)]
                return f"({a} {op} {b})", "Z"
            if ta == tb == "set" and isinstance(e.op, (ast.BitOr, ast.BitAnd, ast.Sub)):
                op = {ast.BitOr: "∪", ast.BitAnd: "∩", ast.Sub: "∖"}[type(e.op)]
                return f"({a} {op} {b})", "set"
            if ta == tb == "Z" and isinstance(e.op, ast.FloorDiv):
                return f"({a} / {b})", "Z"            # Python // on ints is floor division = Z.div
            if ta == tb == "S" and isinstance(e.op, (ast.Add, ast.Sub, ast.Mult)):
                op = {ast.Add: "SAdd", ast.Sub: "SSub", ast.Mult: "SMul"}[type(e.op)]
                return f"({op} {a} {b})", "S"
            if ta == tb == "Z" and isinstance(e.op, ast.Mod):
                return f"({a} mod {b})", "Z"          # Python % on ints is floor modulo = Z.modulo
            if ta == "S" and tb == "S" and isinstance(e.op, ast.Mod):
                return f"(SMod {a} {b})", "S"
            raise Refuse(f"binary operator {type(e.op).__name__} on {ta},{tb} at line {e.lineno}")
        if isinstance(e, ast.Set) and len(e.elts) == 1:
            a, ta = self.expr(e.elts[0])
            if ta != "tag":
                raise Refuse(f"set display of {ta} at line {e.lineno}")
            return f"({{[ {a} ]}} : gset positive)", "set"
        if isinstance(e, ast.Call):
            return self.call(e)
        if isinstance(e, ast.Compare) and len(e.ops) == 1 and isinstance(e.ops[0], ast.Eq):
            (a, ta), (b, tb) = self.expr(e.left), self.expr(e.comparators[0])
            if ta == "S" and tb == "S":
                return f"(SCmp CEq {a} {b})", "S"   # overloaded == of SQLAlchemy column elements
        if isinstance(e, (ast.BoolOp, ast.Compare)) or (isinstance(e, ast.UnaryOp) and isinstance(e.op, ast.Not)):
            return self.boolexpr(e), "bool"
        raise Refuse(f"unsupported expression at line {getattr(e, 'lineno', '?')}: {ast.dump(e)[:80]}")

    def call(self, e):
        if e.keywords:
            raise Refuse(f"keyword arguments in call at line {e.lineno}")
        if isinstance(e.func, ast.Name) and e.func.id in ("min", "max") and len(e.args) == 2:
            (a, ta), (b, tb) = self.expr(e.args[0]), self.expr(e.args[1])
            if ta != "Z" or tb != "Z":
                raise Refuse(f"{e.func.id} on {ta},{tb} at line {e.lineno}")
            return f"(Z.{e.func.id} {a} {b})", "Z"
        if isinstance(e.func, ast.Name) and e.func.id in ("frozenset", "set") and len(e.args) == 1:
            a, ta = self.expr(e.args[0])
            if ta != "set":
                raise Refuse(f"{e.func.id}() of {ta} at line {e.lineno}")
            return a, "set"
        if isinstance(e.func, ast.Name) and e.func.id == "frozenset" and not e.args:
            return "(∅ : gset positive)", "set"
        callee = self.path(e.func)
        if callee not in self.u.calls:
            raise Refuse(f"call to {callee} at line {e.lineno} is not whitelisted for this unit")
        fn, argtys, rty = self.u.calls[callee]
        if argtys == "varargs:S":
            if not (len(e.args) == 1 and isinstance(e.args[0], ast.Starred) and isinstance(e.args[0].value, ast.List)):
                raise Refuse(f"varargs call to {callee} at line {e.lineno} is not of the form f(*[a, b, ...])")
            items = []
            for a in e.args[0].value.elts:
                txt, ty = self.expr(a)
                if ty != "S":
                    raise Refuse(f"argument of {callee}: {ty} where S expected, line {e.lineno}")
                items.append(txt)
            return f"({fn} [{'; '.join(items)}])", rty
        if len(argtys) != len(e.args):
            raise Refuse(f"arity of {callee} at line {e.lineno}")
        args = []
        for a, want in zip(e.args, argtys):
            txt, ty = self.expr(a)
            if ty == "Z" and want == "optZ":
                txt = f"(Some {txt})"
            elif ty != want:
                raise Refuse(f"argument of {callee}: {ty} where {want} expected, line {e.lineno}")
            args.append(txt)
        return f"({fn} {' '.join(args)})".replace("( ", "("), rty

    # ---- pure boolean expressions (no narrowing) -------------------------------------------------
    def boolexpr(self, t):
        if isinstance(t, ast.BoolOp):
            parts = [self.boolexpr(v) for v in t.values]
            op = " && " if isinstance(t.op, ast.And) else " || "
            return "(" + op.join(parts) + ")"
        if isinstance(t, ast.UnaryOp) and isinstance(t.op, ast.Not):
            return f"(negb {self.boolexpr(t.operand)})"
        if isinstance(t, ast.Compare) and len(t.ops) > 1:
            # a chained comparison a < b <= c is (a < b) and (b <= c); the operands of this fragment are pure
            operands = [t.left] + list(t.comparators)
            parts = [self.boolexpr(ast.copy_location(ast.Compare(left=operands[i], ops=[t.ops[i]], comparators=[operands[i + 1]]), t))
                     for i in range(len(t.ops))]
            return "(" + " && ".join(parts) + ")"
        if isinstance(t, ast.Compare) and len(t.ops) == 1:
            op, l, r = t.ops[0], t.left, t.comparators[0]
            if isinstance(op, (ast.Is, ast.IsNot)) and isinstance(r, ast.Constant) and r.value is None:
                a, ta = self.expr(l)
                if ta != "optZ":
                    raise Refuse(f"None-test on {ta} at line {t.lineno}")
                return f"(bool_decide ({a} = None))" if isinstance(op, ast.Is) else f"(negb (bool_decide ({a} = None)))"
            (a, ta), (b, tb) = self.expr(l), self.expr(r)
            if ta == tb == "Z":
                tab = {ast.Lt: "{a} <? {b}", ast.LtE: "{a} <=? {b}", ast.Gt: "{b} <? {a}", ast.GtE: "{b} <=? {a}",
                       ast.Eq: "{a} =? {b}", ast.NotEq: "negb ({a} =? {b})"}
                if type(op) not in tab:
                    raise Refuse(f"comparison {type(op).__name__} on Z at line {t.lineno}")
                return "(" + tab[type(op)].format(a=a, b=b) + ")"
            if {ta, tb} == {"optZ", "Z"} and isinstance(op, (ast.Eq, ast.NotEq)):
                o, z = (a, b) if ta == "optZ" else (b, a)
                txt = f"(bool_decide ({o} = Some {z}))"
                return txt if isinstance(op, ast.Eq) else f"(negb {txt})"
            if ta == tb == "optZ" and isinstance(op, (ast.Eq, ast.NotEq)):
                txt = f"(bool_decide ({a} = {b}))"
                return txt if isinstance(op, ast.Eq) else f"(negb {txt})"
            if ta == tb == "set":
                tab = {ast.LtE: "bool_decide ({a} ⊆ {b})", ast.GtE: "bool_decide ({b} ⊆ {a})",
                       ast.Eq: "bool_decide ({a} = {b})", ast.NotEq: "negb (bool_decide ({a} = {b}))"}
                if type(op) not in tab:
                    raise Refuse(f"comparison {type(op).__name__} on sets at line {t.lineno}")
                return "(" + tab[type(op)].format(a=a, b=b) + ")"
            if ta == "tag" and tb == "set" and isinstance(op, (ast.In, ast.NotIn)):
                txt = f"(bool_decide ({a} ∈ {b}))"
                return txt if isinstance(op, ast.In) else f"(negb {txt})"
            if ta == tb == "bool" and isinstance(op, (ast.Is, ast.Eq)):
                return f"(Bool.eqb {a} {b})"
            raise Refuse(f"comparison {type(op).__name__} on {ta},{tb} at line {t.lineno}")
        a, ta = self.expr(t)
        if ta == "bool":
            return a
        if ta == "Z":      # truthiness of an int
            return f"(negb ({a} =? 0))"
        if ta == "set":    # truthiness of a set
            return f"(negb (bool_decide ({a} = ∅)))"
        raise Refuse(f"truthiness of {ta} at line {t.lineno}")

    # ---- conditionals with narrowing -----------------------------------------------------------
    def cond(self, t, kt, kf):
        """Translate test t; kt/kf are thunks producing the Coq text of the two continuations
        (each evaluated in the environment current at the time it is called)."""
        if isinstance(t, ast.BoolOp) and isinstance(t.op, ast.And):
            head, rest = t.values[0], t.values[1:]
            nxt = rest[0] if len(rest) == 1 else ast.BoolOp(op=ast.And(), values=rest)
            return self.cond(head, lambda: self.cond(nxt, kt, kf), kf)
        if isinstance(t, ast.BoolOp) and isinstance(t.op, ast.Or):
            head, rest = t.values[0], t.values[1:]
            nxt = rest[0] if len(rest) == 1 else ast.BoolOp(op=ast.Or(), values=rest)
            return self.cond(head, kt, lambda: self.cond(nxt, kt, kf))
        if isinstance(t, ast.UnaryOp) and isinstance(t.op, ast.Not):
            return self.cond(t.operand, kf, kt)
        if isinstance(t, ast.Compare) and len(t.ops) == 1 and isinstance(t.ops[0], (ast.Is, ast.IsNot)) \
                and isinstance(t.comparators[0], ast.Constant) and t.comparators[0].value is None:
            p = self.path(t.left)
            if p not in self.env:
                raise Refuse(f"unknown name {p} at line {t.lineno}")
            coq, ty = self.env[p]
            is_none = isinstance(t.ops[0], ast.Is)
            if ty == "Z":   # already narrowed: the test is decided
                return kf() if is_none else kt()
            if ty != "optZ":
                raise Refuse(f"None-test on {ty} at line {t.lineno}")
            v = p.replace(".", "_") + "_v"
            saved = dict(self.env)
            self.env[p] = (v, "Z")
            some_branch = (kf if is_none else kt)()
            self.env = dict(saved)
            none_branch = (kt if is_none else kf)()
            self.env = saved
            return (f"match {coq} with\n| Some {v} =>\n{textwrap.indent(some_branch, '    ')}\n"
                    f"| None =>\n{textwrap.indent(none_branch, '    ')}\nend")
        c = self.boolexpr(t)
        saved = dict(self.env)
        a = kt()
        self.env = dict(saved)
        b = kf()
        self.env = saved
        return f"if {c}\nthen\n{textwrap.indent(a, '  ')}\nelse\n{textwrap.indent(b, '  ')}"

    # ---- statements ------------------------------------------------------------------------------
    def ret(self, e):
        if ast.unparse(e) in self.u.ret_patterns:
            return self.u.ret_patterns[ast.unparse(e)]
        if self.u.ret == "bool" and not isinstance(e, ast.Constant):
            # booleans are returned through the conditional machinery so that narrowing works
            try:
                return self.cond(e, lambda: "true", lambda: "false")
            except Refuse:
                pass
        txt, ty = self.expr(e)
        if ty == self.u.ret:
            return txt
        if ty == "Z" and self.u.ret == "optZ":
            return f"Some {txt}"
        if self.u.ret.startswith("res:") and ty == self.u.ret[4:]:
            return f"Ok {txt}"
        raise Refuse(f"return type {ty} where {self.u.ret} expected (line {e.lineno})")

    def block(self, stmts, k):
        if not stmts:
            if k is None:
                if self.u.fallthrough is not None:
                    return self.u.fallthrough
                raise Refuse("control reaches the end of the function without a return")
            return k()
        s, rest = stmts[0], stmts[1:]
        if isinstance(s, ast.Expr) and isinstance(s.value, ast.Constant) and isinstance(s.value.value, str):
            return self.block(rest, k)
        if isinstance(s, ast.Pass):
            return self.block(rest, k)
        if isinstance(s, (ast.Import, ast.ImportFrom)):
            return self.block(rest, k)
        if isinstance(s, ast.Return):
            if s.value is None:
                raise Refuse(f"bare return at line {s.lineno}")
            return self.ret(s.value)
        if isinstance(s, ast.Raise):
            exc = s.exc
            name = exc.func.id if isinstance(exc, ast.Call) and isinstance(exc.func, ast.Name) else None
            if name not in self.u.raises:
                raise Refuse(f"raise of {name} at line {s.lineno} not expected in this unit")
            return self.u.raises[name]
        if isinstance(s, ast.Assign) and len(s.targets) == 1 and isinstance(s.targets[0], ast.Name):
            name = s.targets[0].id
            txt, ty = self.expr(s.value)
            saved = dict(self.env)
            self.env[name] = (name, ty)
            body = self.block(rest, k)
            self.env = saved
            return f"let {name} := {txt} in\n{body}"
        if isinstance(s, ast.AnnAssign) and isinstance(s.target, ast.Name) and s.value is not None:
            return self.block([ast.copy_location(ast.Assign(targets=[s.target], value=s.value), s)] + rest, k)
        if isinstance(s, ast.If):
            def kont():
                return self.block(rest, k)
            return self.cond(s.test, lambda: self.block(s.body, kont), lambda: self.block(s.orelse, kont))
        raise Refuse(f"unsupported statement {type(s).__name__} at line {s.lineno}")


def find_case(fn, pattern, path):
    hits = []
    for node in ast.walk(fn):
        if isinstance(node, ast.match_case) and ast.unparse(node.pattern) == pattern:
            hits.append(node)
    if len(hits) != 1:
        raise Refuse(f"expected exactly one `case {pattern}` in {fn.name} of {path}, found {len(hits)}")
    return hits[0]


def translate(u: Unit):
    """-> (coq definition text, source text of the translated function)"""
    fn, src = find_function(u.path, u.cls, u.method)
    tr = Tr(u)
    stmts = fn.body
    if u.case_pattern is not None:
        mc = find_case(fn, u.case_pattern, u.path)
        if mc.guard is not None:
            raise Refuse(f"guard on case {u.case_pattern}")
        stmts = mc.body
        src = "\n".join(ast.unparse(x) for x in stmts)
    body = tr.block(stmts, None)
    params = " ".join(f"({n} : {t})" for n, t in u.params)
    return f"Definition {u.coq_name} {params} : {u.ret_coq} :=\n{textwrap.indent(body, '  ')}.", src


def emit_file(out_path, header_imports, units, prelude="", postlude=""):
    """Translate all units; write out_path only if the text changed. Returns (digest, names)."""
    parts, srcs = [], []
    for u in units:
        if isinstance(u, str):
            parts.append(u)
            continue
        d, src = translate(u)
        parts.append(f"(* from {u.path} :: {u.cls + '.' if u.cls else ''}{u.method} *)\n{d}")
        srcs.append(src)
    digest = hashlib.sha256("\n".join(srcs).encode()).hexdigest()[:16]
    text = (f"(* GENERATED by /verif/translate from the working tree of /repo — DO NOT EDIT.\n"
            f"   source digest {digest} *)\n" + header_imports + "\n" + prelude + "\n\n" + "\n\n".join(parts) + "\n" + postlude)
    try:
        old = open(out_path).read()
    except FileNotFoundError:
        old = None
    if old != text:
        with open(out_path, "w") as f:
            f.write(text)
    return digest
