"""Static tables regenerated from the package source for C09:
  * every @dataclasses.dataclass: decorator flags, explicit __hash__, fields with compare flag and a
    classification of the declared type (Gen/Dataclasses.v);
  * every write site — object.__setattr__, attribute / subscript stores, augmented assignments and
    mutating method calls — with the provenance of the object written to (Gen/WriteSites.v).
Fail closed: anything the scan cannot classify is emitted as unknown, which the theorems reject."""
from __future__ import annotations

import ast
import hashlib
import os

MUTATORS = {"append", "extend", "update", "add", "insert", "remove", "pop", "clear", "discard", "setdefault",
            "difference_update", "intersection_update", "symmetric_difference_update", "sort", "reverse", "popitem"}
FRESH_CALLS = {"set", "list", "dict", "frozenset", "tuple", "sorted"}


def pkg_files(repo):
    root = os.path.join(repo, "python/lsst/daf/relation")
    out = []
    for d, _dirs, files in os.walk(root):
        for f in sorted(files):
            if f.endswith(".py") and f != "tests.py":
                out.append(os.path.join(d, f))
    return sorted(out)


def q(s):
    return '"' + s.replace('"', "'") + '"'


# ---- dataclasses ------------------------------------------------------------------------------------
def type_kind(ann):
    """Classify a declared field type by what hashing an instance requires of the stored value."""
    t = ast.unparse(ann) if ann is not None else "Any"
    t = t.strip("'\"")
    head = t.split("[")[0].strip()
    if head in ("tuple",):
        return "TTuple"
    if head in ("frozenset",):
        return "TFrozenset"
    if head in ("int", "str", "bool", "bytes", "float", "None", "type", "range", "Engine", "ColumnTag", "Any",
                "Predicate", "ColumnExpression", "ColumnContainer", "UnaryOperation", "BinaryOperation", "Relation",
                "Join", "Sort", "Slice", "Projection", "Deduplication", "Select") or " | None" in t and head not in ("list", "dict", "set"):
        return "TAtom"
    if head in ("Sequence", "Iterable", "Collection"):
        return "TSequence"
    if head in ("list", "dict", "set", "Set", "Mapping", "MutableMapping", "MutableSequence"):
        return "TMutable"
    if head in ("dataclasses.InitVar", "InitVar", "ClassVar"):
        return "TNotAField"
    return "TUnknown"


def scan_dataclasses(repo):
    rows, srcs = [], []
    for f in pkg_files(repo):
        src = open(f).read()
        tree = ast.parse(src)
        for node in ast.walk(tree):
            if not isinstance(node, ast.ClassDef):
                continue
            deco = None
            for d in node.decorator_list:
                txt = ast.unparse(d)
                if txt.startswith("dataclasses.dataclass"):
                    deco = d
            if deco is None:
                continue
            flags = {"frozen": False, "eq": True, "unsafe_hash": False}
            if isinstance(deco, ast.Call):
                for kw in deco.keywords:
                    if kw.arg in flags and isinstance(kw.value, ast.Constant):
                        flags[kw.arg] = bool(kw.value.value)
            explicit_hash = any(isinstance(b, ast.FunctionDef) and b.name == "__hash__" for b in node.body)
            fields = []
            for b in node.body:
                if isinstance(b, ast.AnnAssign) and isinstance(b.target, ast.Name):
                    kind = type_kind(b.annotation)
                    if kind == "TNotAField" or ast.unparse(b.annotation).startswith("ClassVar"):
                        continue
                    compare = True
                    if isinstance(b.value, ast.Call) and ast.unparse(b.value.func) == "dataclasses.field":
                        for kw in b.value.keywords:
                            if kw.arg == "compare" and isinstance(kw.value, ast.Constant):
                                compare = bool(kw.value.value)
                    fields.append((b.target.id, compare, kind))
            bases = [ast.unparse(b) for b in node.bases]
            rows.append((node.name, flags, explicit_hash, fields, bases))
            srcs.append(ast.unparse(node)[:4000])
    return rows, hashlib.sha256("\n".join(srcs).encode()).hexdigest()[:16]


def scan_sequence_sites(repo):
    """Construction sites of dataclasses with a Sequence-typed compare field: is the argument wrapped in tuple()?"""
    out = []
    for f in pkg_files(repo):
        tree = ast.parse(open(f).read())
        for node in ast.walk(tree):
            if isinstance(node, ast.Call) and isinstance(node.func, ast.Name) and node.func.id == "ColumnExpressionSequence":
                arg = node.args[0] if node.args else None
                wrapped = isinstance(arg, ast.Call) and isinstance(arg.func, ast.Name) and arg.func.id == "tuple"
                out.append(("ColumnExpressionSequence", "items", wrapped))
    return out


def emit_dataclasses(repo, out):
    rows, digest = scan_dataclasses(repo)
    sites = scan_sequence_sites(repo)
    lines = ["(* GENERATED by /verif/translate/static_scan.py from the working tree of /repo — DO NOT EDIT.",
             f"   source digest {digest} *)",
             "From DR Require Import Spec.StaticTables.", "From Coq Require Import String List.", "Import ListNotations.",
             "Open Scope string_scope.", "", "Definition dataclass_table : list dclass := ["]
    items = []
    for name, flags, eh, fields, bases in rows:
        fl = "; ".join(f"DField {q(n)} {str(c).lower()} {k}" for n, c, k in fields)
        items.append(f"  DClass {q(name)} {str(flags['frozen']).lower()} {str(flags['eq']).lower()} "
                     f"{str(flags['unsafe_hash']).lower()} {str(eh).lower()} [{fl}] [{'; '.join(q(b) for b in bases)}]")
    lines.append(";\n".join(items))
    lines.append("].")
    lines.append("")
    lines.append("Definition sequence_sites : list (string * string * bool) := ["
                 + "; ".join(f"({q(c)}, {q(fn)}, {str(w).lower()})" for c, fn, w in sites) + "].")
    text = "\n".join(lines) + "\n"
    path = os.path.join(out, "Dataclasses.v")
    if not os.path.exists(path) or open(path).read() != text:
        open(path, "w").write(text)
    return digest


# ---- write sites ----------------------------------------------------------------------------------------
class FnScan(ast.NodeVisitor):
    """Provenance of local names inside one function."""

    def __init__(self, fn, clsname):
        self.fn, self.cls = fn, clsname
        self.params = {a.arg for a in fn.args.args + fn.args.kwonlyargs}
        if fn.args.vararg:
            self.params.add(fn.args.vararg.arg)
        self.prov = {}        # name -> [(line, classification)]
        self.immutable = set()
        for node in ast.walk(fn):
            if isinstance(node, (ast.Assign, ast.AnnAssign)):
                targets = node.targets if isinstance(node, ast.Assign) else [node.target]
                val = node.value
                if isinstance(node, ast.AnnAssign) and isinstance(node.target, ast.Name):
                    head = ast.unparse(node.annotation).split("[")[0]
                    if head in ("frozenset", "tuple", "int", "str", "bool"):
                        self.immutable.add(node.target.id)
                for t in targets:
                    if isinstance(t, ast.Name) and val is not None:
                        self.prov.setdefault(t.id, []).append((node.lineno, self.classify_value(val)))
            elif isinstance(node, ast.NamedExpr) and isinstance(node.target, ast.Name):
                self.prov.setdefault(node.target.id, []).append((node.lineno, self.classify_value(node.value)))
            elif isinstance(node, ast.MatchAs) and node.name:
                self.prov.setdefault(node.name, []).append((node.lineno, "pattern"))
            elif isinstance(node, ast.match_case):
                for sub in ast.walk(node.pattern):
                    if isinstance(sub, ast.MatchClass):
                        for pat in sub.kwd_patterns + sub.patterns:
                            if isinstance(pat, ast.MatchAs) and pat.name:
                                self.prov.setdefault(pat.name, []).append((node.pattern.lineno, "pattern"))
            elif isinstance(node, (ast.For, ast.comprehension)):
                tgt = node.target
                for sub in ast.walk(tgt):
                    if isinstance(sub, ast.Name):
                        self.prov.setdefault(sub.id, []).append((getattr(node, "lineno", 0), "loopvar"))

    def classify_value(self, v):
        if isinstance(v, (ast.List, ast.Dict, ast.Set, ast.ListComp, ast.DictComp, ast.SetComp, ast.Tuple, ast.Constant)):
            return "fresh"
        if isinstance(v, ast.Call):
            f = v.func
            if isinstance(f, ast.Name) and f.id in FRESH_CALLS:
                return "fresh"
            if isinstance(f, ast.Attribute) and f.attr == "copy":
                return "copy"
            if isinstance(f, ast.Name) and f.id == "cls":
                return "fresh"
            if isinstance(f, ast.Attribute) and ast.unparse(f) in ("cls.run",):
                return "fresh"          # Diagnostics.run returns a new Diagnostics each time
            if isinstance(f, ast.Name) and f.id and f.id[0].isupper():
                return "fresh"          # constructor call
            return "call"
        if isinstance(v, ast.NamedExpr):
            return self.classify_value(v.value)
        if isinstance(v, ast.BinOp):
            return "fresh"
        if isinstance(v, ast.Name):
            if v.id in self.params:
                return "param"
            return "alias:" + v.id
        if isinstance(v, ast.Attribute):
            return "attr"
        return "unknown"

    def provenance(self, e, line=10**9):
        """'PFresh' | 'PCopy' | 'PSelfAttr attr' | 'PParam' | 'PFreshAttr' | 'PImmutable' | 'PUnknown why'
        For a name: the classification of the latest binding textually before the site."""
        if isinstance(e, ast.Name):
            if e.id in self.immutable:
                return "PImmutable"
            before = sorted([b for b in self.prov.get(e.id, []) if b[0] <= line])
            if not before:
                if e.id in self.params:
                    return "PParam"
                return 'PUnknown "unbound"'
            last = before[-1][1]
            if last == "fresh":
                return "PFresh"
            if last == "copy":
                return "PCopy"
            return 'PUnknown "' + last.replace('"', "'") + '"'
        if isinstance(e, ast.Attribute):
            base = e.value
            if isinstance(base, ast.Name) and base.id == "self":
                return f'PSelfAttr "{e.attr}"'
            inner = self.provenance(base, line)
            if inner in ("PFresh", "PCopy"):
                return "PFreshAttr"
            return 'PUnknown "attribute of ' + inner.replace('"', "'")[:30] + '"'
        return 'PUnknown "expression"'


def scan_write_sites(repo):
    sites, srcs = [], []
    for f in pkg_files(repo):
        rel = os.path.relpath(f, os.path.join(repo, "python/lsst/daf/relation"))
        src = open(f).read()
        tree = ast.parse(src)
        for cls in [n for n in ast.walk(tree) if isinstance(n, ast.ClassDef)] + [None]:
            body = cls.body if cls is not None else [n for n in tree.body if isinstance(n, ast.FunctionDef)]
            for fn in body:
                if not isinstance(fn, ast.FunctionDef):
                    continue
                sc = FnScan(fn, cls.name if cls else "")
                where = f"{rel}::{cls.name + '.' if cls else ''}{fn.name}"
                for node in ast.walk(fn):
                    if isinstance(node, ast.Call) and ast.unparse(node.func) == "object.__setattr__":
                        tgt = node.args[0]
                        attr = node.args[1].value if isinstance(node.args[1], ast.Constant) else "?"
                        who = "self" if isinstance(tgt, ast.Name) and tgt.id == "self" else "other"
                        sites.append((where, "setattr", f'PSetattr "{who}" "{attr}"'))
                    elif isinstance(node, ast.Call) and isinstance(node.func, ast.Attribute) and node.func.attr in MUTATORS:
                        sites.append((where, node.func.attr, sc.provenance(node.func.value, node.lineno)))
                    elif isinstance(node, (ast.Assign, ast.AugAssign, ast.AnnAssign)):
                        targets = node.targets if isinstance(node, ast.Assign) else [node.target]
                        for t in targets:
                            if isinstance(t, ast.Subscript):
                                sites.append((where, "setitem", sc.provenance(t.value, node.lineno)))
                            elif isinstance(t, ast.Attribute):
                                if isinstance(t.value, ast.Name) and t.value.id == "self":
                                    sites.append((where, "setattr", f'PSelfAttr "{t.attr}"'))
                                else:
                                    sites.append((where, "setattr", sc.provenance(t, node.lineno)))
                        if isinstance(node, ast.AugAssign) and isinstance(node.target, ast.Name):
                            # x -= ..., x &= ...: rebinding for immutable values, in-place for mutable ones
                            sites.append((where, "augassign", sc.provenance(node.target, node.lineno)))
                    elif isinstance(node, ast.Delete):
                        sites.append((where, "del", 'PUnknown "del"'))
                srcs.append(ast.unparse(fn))
    return sites, hashlib.sha256("\n".join(srcs).encode()).hexdigest()[:16]


def emit_write_sites(repo, out):
    sites, digest = scan_write_sites(repo)
    lines = ["(* GENERATED by /verif/translate/static_scan.py from the working tree of /repo — DO NOT EDIT.",
             f"   source digest {digest} *)",
             "From DR Require Import Spec.StaticTables.", "From Coq Require Import String List.", "Import ListNotations.",
             "Open Scope string_scope.", "", "Definition write_sites : list wsite := ["]
    lines.append(";\n".join(f"  WSite {q(w)} {q(k)} ({p})" for w, k, p in sites))
    lines.append("].")
    text = "\n".join(lines) + "\n"
    path = os.path.join(out, "WriteSites.v")
    if not os.path.exists(path) or open(path).read() != text:
        open(path, "w").write(text)
    return digest
