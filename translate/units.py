"""Translated units: which function of /repo becomes which Gallina definition."""
from __future__ import annotations

import os

from pylite import Unit, emit_file

HDR = ("From DR Require Import Spec.Base.\nFrom Coq Require Import ZArith.\nLocal Open Scope Z_scope.\n")


def gen_slice(repo, out):
    f = os.path.join(repo, "python/lsst/daf/relation/_operations/_slice.py")
    self_env = {"self.start": ("self_start", "Z"), "self.stop": ("self_stop", "optZ")}
    sp = [("self_start", "Z"), ("self_stop", "option Z")]
    units = [
        Unit(f, "Slice", "__post_init__", "slice_post_init", sp, self_env, "res_unit", "result unit",
             fallthrough="Ok tt", raises={"ValueError": "Err ValueError"}),
        "(* dataclass construction runs __post_init__ *)\n"
        "Definition mk_slice (a : Z) (b : option Z) : result (Z * option Z) :=\n"
        "  match slice_post_init a b with Ok _ => Ok (a, b) | Err e => Err e end.",
        Unit(f, "Slice", "then", "slice_then", sp + [("next_start", "Z"), ("next_stop", "option Z")],
             {**self_env, "next.start": ("next_start", "Z"), "next.stop": ("next_stop", "optZ")},
             "slice_res", "result (Z * option Z)",
             calls={"Slice": ("mk_slice", ["Z", "optZ"], "slice_res")}),
        Unit(f, "Slice", "applied_min_rows", "slice_min_rows", sp + [("target_min_rows", "Z")],
             {**self_env, "target.min_rows": ("target_min_rows", "Z")}, "Z"),
        Unit(f, "Slice", "applied_max_rows", "slice_max_rows", sp + [("target_max_rows", "option Z")],
             {**self_env, "target.max_rows": ("target_max_rows", "optZ")}, "optZ"),
        "Inductive begin_kind := BIdentity | BKeep | BErr (e : err).",
        Unit(f, "Slice", "_begin_apply", "slice_begin", sp, self_env, "begin", "begin_kind",
             ret_patterns={"(Identity(), target.engine)": "BIdentity",
                           "super()._begin_apply(target, preferred_engine)": "BKeep"}),
        "Inductive finish_kind := FTarget | FDefault.",
        Unit(f, "Slice", "_finish_apply", "slice_finish", sp, self_env, "finish", "finish_kind",
             ret_patterns={"target": "FTarget", "super()._finish_apply(target)": "FDefault"}),
    ]
    return emit_file(os.path.join(out, "Slice.v"), HDR, units)


def gen_sqlrange(repo, out):
    f = os.path.join(repo, "python/lsst/daf/relation/sql/_engine.py")
    env = {"start": ("start", "Z"), "stop_exclusive": ("stop_exclusive", "Z"), "step": ("step", "Z"),
           "sql_item": ("sql_item", "S")}
    units = [
        Unit(f, "Engine", "convert_predicate", "range_to_sql",
             [("sql_item", "sexpr"), ("start", "Z"), ("stop_exclusive", "Z"), ("step", "Z")], env, "S", "sexpr",
             case_pattern="ColumnRangeLiteral(value=range(start=start, stop=stop_exclusive, step=step))",
             calls={"self.convert_column_literal": ("SLit", ["Z"], "S"),
                    "sqlalchemy.sql.between": ("SBetween", ["S", "S", "S"], "S"),
                    "sqlalchemy.sql.and_": ("SAnd", "varargs:S", "S"),
                    "sqlalchemy.sql.or_": ("SOr", "varargs:S", "S"),
                    "sqlalchemy.sql.not_": ("SNot", ["S"], "S"),
                    "sqlalchemy.sql.literal": ("SBool", ["bool"], "S")}),
    ]
    hdr = "From DR Require Import Spec.SqlExpr.\nFrom Coq Require Import ZArith.\nLocal Open Scope Z_scope.\n"
    return emit_file(os.path.join(out, "SqlRange.v"), hdr, units)


ALL = {"Slice": gen_slice, "SqlRange": gen_sqlrange}


def generate(repo, out, only=None):
    """-> {unit: digest or 'REFUSED: reason'}"""
    from pylite import Refuse
    res = {}
    for name, fn in ALL.items():
        if only and name not in only:
            continue
        try:
            res[name] = fn(repo, out)
        except Refuse as r:
            res[name] = f"REFUSED: {r}"
            # make the generated file uncompilable so that dependents fail closed
            with open(os.path.join(out, name + ".v"), "w") as fh:
                fh.write(f"(* translator refused: {r} *)\nTranslator refused this unit.\n")
    return res


if __name__ == "__main__":
    import json
    import sys
    print(json.dumps(generate(sys.argv[1] if len(sys.argv) > 1 else "/repo", sys.argv[2] if len(sys.argv) > 2 else "/verif/coq/Gen"), indent=1))
